//go:build verif

// Package c14: correspondence + property harness for C14 (every xDS snapshot sent to a proxy is closed and
// well-formed).  Three generators:
//
//	genHelpers — the REAL dedupeDomains / mergeAllVirtualHosts / normalizeClusters / conflictsWith /
//	             toFilterChainMatch / mergeTCPFilterChains on generated inputs (model_ok = Coq model agrees);
//	genSeq     — the REAL buildSidecarOutboundListener over generated call sequences on one conflict map;
//	genPushes  — REAL full pushes (CDS+EDS+LDS+RDS generators of the fake discovery server) for sidecar, router and
//	             waypoint proxies over generated worlds, projected into the abstract snapshot whose well-formedness
//	             the Coq-evaluated checker decides; protoc-gen-validate Validate() and panics are harness violations.
package c14

import (
	"fmt"
	"net/netip"
	"sort"
	"strings"
	"testing"

	listener "github.com/envoyproxy/go-control-plane/envoy/config/listener/v3"
	route "github.com/envoyproxy/go-control-plane/envoy/config/route/v3"

	"istio.io/istio/pilot/pkg/networking/core"
	"istio.io/istio/pkg/util/sets"
	"verif/harness/vlib"
)

func TestGen(t *testing.T) {
	c := vlib.NewCollector("C14", "V.C14.Run")
	c.Rule = "helpers: random small inputs over colliding pools (non-trivial = a duplicate/conflict was present); " +
		"seq: random buildSidecarOutboundListener call sequences over 3 ports x 4 addresses x all protocols " +
		"(non-trivial = at least one key collision); push: generated worlds of ServiceEntry/VirtualService/" +
		"DestinationRule/Gateway/Sidecar/EnvoyFilter objects with overlapping hosts/ports, admission-valid and " +
		"admission-bypassing streams, x {sidecar, router, waypoint} (non-trivial = world has a collision feature)"
	r := vlib.NewRand(vlib.Seed())
	id := 0
	witnessCases(c, &id)
	genHelpers(c, &id, r.Sub())
	genSeq(c, &id, r.Sub())
	genPushes(c, &id, r.Sub())
	if err := c.Flush(); err != nil {
		t.Fatal(err)
	}
	t.Logf("C14: %d cases, %d harness violations", c.Len(), len(c.Violations))
}

// ---------------------------------------------------------------- printers

func nlist(xs []int) string { return vlib.ListOf(xs, func(x int) string { return vlib.NI(x) }) }
func slist(xs []string) string {
	return vlib.ListOf(xs, func(x string) string { return vlib.Str(x) })
}

type mchain struct {
	T    int
	ALPN []int
	SNI  []int
	CIDR [][2]uint64
}

func (m mchain) term() string {
	return vlib.App("Ch", vlib.NI(m.T), nlist(m.ALPN), nlist(m.SNI),
		vlib.ListOf(m.CIDR, func(p [2]uint64) string { return vlib.Pair(vlib.N(p[0]), vlib.N(p[1])) }))
}
func chainsTerm(cs []mchain) string {
	return vlib.ListOf(cs, func(m mchain) string { return m.term() })
}

// interning tables shared by all chain projections (stable: fixed pools first)
var transportCode = map[string]int{"": 0, "raw_buffer": 1, "tls": 2}
var alpnCode = map[string]int{}
var sniCode = map[string]int{"*": 0}

func code(tab map[string]int, s string, base int) int {
	if v, ok := tab[s]; ok {
		return v
	}
	v := len(tab) + base
	tab[s] = v
	return v
}

func parseCIDR(s string) ([2]uint64, bool) {
	if !strings.Contains(s, "/") {
		a, err := netip.ParseAddr(s)
		if err != nil || !a.Is4() {
			return [2]uint64{}, false
		}
		b := a.As4()
		return [2]uint64{uint64(b[0])<<24 | uint64(b[1])<<16 | uint64(b[2])<<8 | uint64(b[3]), 32}, true
	}
	p, err := netip.ParsePrefix(s)
	if err != nil || !p.Addr().Is4() {
		return [2]uint64{}, false
	}
	b := p.Addr().As4()
	return [2]uint64{uint64(b[0])<<24 | uint64(b[1])<<16 | uint64(b[2])<<8 | uint64(b[3]), uint64(p.Bits())}, true
}

// projChain projects a real chain into the model vocabulary; ok=false when it uses something outside it (IPv6...).
func projChain(v core.VerifC14Chain) (mchain, bool) {
	m := mchain{T: code(transportCode, v.Transport, 0)}
	for _, a := range v.ALPN {
		m.ALPN = append(m.ALPN, code(alpnCode, a, 1))
	}
	for _, s := range v.SNI {
		m.SNI = append(m.SNI, code(sniCode, s, 0))
	}
	for _, c := range v.CIDR {
		p, ok := parseCIDR(c)
		if !ok {
			return m, false
		}
		m.CIDR = append(m.CIDR, p)
	}
	return m, true
}

func projFCM(f *listener.FilterChainMatch) (string, bool) {
	if f == nil {
		return "None", true
	}
	// fields outside the model must be unset
	if f.DestinationPort != nil || len(f.SourcePrefixRanges) > 0 || len(f.SourcePorts) > 0 || f.SourceType != 0 {
		return "", false
	}
	var alpn, sni []int
	for _, a := range f.ApplicationProtocols {
		alpn = append(alpn, code(alpnCode, a, 1))
	}
	for _, s := range f.ServerNames {
		sni = append(sni, code(sniCode, s, 0))
	}
	var cidr [][2]uint64
	for _, p := range f.PrefixRanges {
		q, ok := parseCIDR(fmt.Sprintf("%s/%d", p.AddressPrefix, p.GetPrefixLen().GetValue()))
		if !ok {
			return "", false
		}
		cidr = append(cidr, q)
	}
	return "(Some " + vlib.App("FCM", vlib.NI(code(transportCode, f.TransportProtocol, 0)), nlist(alpn), nlist(sni),
		vlib.ListOf(cidr, func(p [2]uint64) string { return vlib.Pair(vlib.N(p[0]), vlib.N(p[1])) })) + ")", true
}

// ---------------------------------------------------------------- witness of C14_chain_match_distinct_refuted

// The Coq witness (wit_a, wit_b) run against the real helpers: SNI ["*", x] vs [] with the same destination.
func witnessCases(c *vlib.Collector, id *int) {
	*id++
	if !c.Wanted(*id) {
		return
	}
	a := core.VerifC14Chain{SNI: []string{"*", "w.example.com"}, CIDR: []string{"1.2.3.4"}}
	b := core.VerifC14Chain{CIDR: []string{"1.2.3.4"}}
	addConf(c, *id, a, b, []string{"conf", "conf:witness"})
	c.FindingOf[*id] = "C14-sni-wildcard-conflict-check-mismatch"
}

func addConf(c *vlib.Collector, id int, a, b core.VerifC14Chain, tags []string) {
	var conf bool
	var fa, fb *listener.FilterChainMatch
	if pan, msg := vlib.Recover(func() {
		conf = core.VerifC14ConflictsWith(a, b)
		// toFilterChainMatch sorts in place on copies; pass fresh copies
		fa = core.VerifC14ToFilterChainMatch(cloneChain(a))
		fb = core.VerifC14ToFilterChainMatch(cloneChain(b))
	}); pan {
		c.Violate(vlib.Violation{ID: id, Kind: "panic", Detail: msg, Case: []any{a, b}})
		return
	}
	ma, ok1 := projChain(a)
	mb, ok2 := projChain(b)
	ta, ok3 := projFCM(fa)
	tb, ok4 := projFCM(fb)
	if !(ok1 && ok2 && ok3 && ok4) {
		c.Tag("conf:outside-model")
		return
	}
	if conf {
		tags = append(tags, "conf:conflict")
	} else {
		tags = append(tags, "conf:free")
	}
	if ta == tb {
		tags = append(tags, "conf:same-match")
	}
	c.Add(vlib.Case{ID: id, Term: vlib.App("Conf", vlib.NI(id), ma.term(), mb.term(), vlib.B(conf), ta, tb), Tags: tags,
		Sample:  map[string]any{"kind": "conflictsWith/toFilterChainMatch", "a": a, "b": b, "conflict": conf},
		Trivial: !conf && ta != tb})
}

func cloneChain(a core.VerifC14Chain) core.VerifC14Chain {
	return core.VerifC14Chain{Transport: a.Transport, ALPN: append([]string{}, a.ALPN...), SNI: append([]string{}, a.SNI...),
		CIDR: append([]string{}, a.CIDR...)}
}

// ---------------------------------------------------------------- helper-level generators

var domPool = []string{"a.example.com", "A.example.com", "b.example.com", "a.example.com:80", "b.example.com:80", "a", "a.ns1",
	"a:80", "B.EXAMPLE.COM", "10.0.0.1", "10.0.0.1:80", "*.example.com", "c.example.com:8080", "[::1]:80", "svc.ns1.svc.cluster.local"}

func pickSome(r *vlib.Rand, pool []string, max int) []string {
	n := r.Intn(max + 1)
	out := make([]string, 0, n)
	for i := 0; i < n; i++ {
		out = append(out, vlib.Pick(r, pool))
	}
	return out
}

var sniPool = []string{"*", "a.example.com", "b.example.com", "*.example.com"}
var cidrPool = []string{"1.2.3.4", "1.2.3.4/32", "1.2.3.0/24", "1.2.3.77/24", "1.5.6.7/8", "1.2.3.4/8", "0.0.0.0", "0.0.0.0/0", "10.0.0.1", "0.0.0.0/8"}
var alpnPool = [][]string{nil, nil, {"http/1.0", "http/1.1", "h2c"}, {"h2"}, {"istio"}}
var transportPool = []string{"", "", "raw_buffer", "tls"}

func genChain(r *vlib.Rand, sniOK bool) core.VerifC14Chain {
	ch := core.VerifC14Chain{Transport: vlib.Pick(r, transportPool), ALPN: vlib.Pick(r, alpnPool)}
	switch r.Intn(4) {
	case 0:
	case 1:
		ch.SNI = []string{vlib.Pick(r, sniPool)}
	default:
		ch.SNI = pickSome(r, sniPool, 3)
	}
	if sniOK && sets.New(ch.SNI...).Contains("*") {
		ch.SNI = []string{"*"}
	}
	if r.Chance(60) {
		ch.CIDR = pickSome(r, cidrPool, 3)
	}
	return ch
}

func genHelpers(c *vlib.Collector, id *int, r *vlib.Rand) {
	// dedupeDomains over a sequence of calls sharing vhdomains / knownFQDNs
	for i, n := 0, vlib.Scale(120, 2500); i < n; i++ {
		*id++
		s := r.Sub()
		if !c.Wanted(*id) {
			continue
		}
		known := pickSome(s, domPool, 3)
		type call struct{ D, E []string }
		var calls []call
		for k, m := 0, 1+s.Intn(4); k < m; k++ {
			d := pickSome(s, domPool, 5)
			var e []string
			for _, x := range d {
				if s.Chance(30) {
					e = append(e, x)
				}
			}
			calls = append(calls, call{d, e})
		}
		vh := sets.String{}
		kn := sets.New(known...)
		var outs [][]string
		dup := false
		if pan, msg := vlib.Recover(func() {
			for _, cl := range calls {
				in := append([]string{}, cl.D...)
				out := core.VerifC14DedupeDomains(in, vh, cl.E, kn)
				if len(out) != len(cl.D) {
					dup = true
				}
				outs = append(outs, append([]string{}, out...))
			}
		}); pan {
			c.Violate(vlib.Violation{ID: *id, Kind: "panic", Detail: msg, Case: calls})
			continue
		}
		tags := []string{"dedupe"}
		if dup {
			tags = append(tags, "dedupe:removed")
		}
		c.Add(vlib.Case{ID: *id, Term: vlib.App("Dedupe", vlib.NI(*id),
			vlib.ListOf(calls, func(cl call) string { return vlib.Pair(slist(cl.D), slist(cl.E)) }), slist(known),
			vlib.ListOf(outs, slist)), Tags: tags, Sample: map[string]any{"kind": "dedupeDomains", "calls": calls, "known": known, "out": outs},
			Trivial: !dup})
	}
	// mergeAllVirtualHosts
	for i, n := 0, vlib.Scale(80, 1500); i < n; i++ {
		*id++
		s := r.Sub()
		if !c.Wanted(*id) {
			continue
		}
		ports := []int{80, 8080, 443, 9090}
		m := map[int][]*route.VirtualHost{}
		type pv struct {
			P  int
			VH [][]string
			ID []int
		}
		var in []pv
		vid := 0
		filtered := false
		for _, p := range ports {
			if !s.Chance(60) {
				continue
			}
			e := pv{P: p}
			for k, nv := 0, s.Intn(4); k < nv; k++ {
				vid++
				ds := pickSome(s, domPool, 4)
				if s.Chance(70) && len(ds) == 0 {
					ds = []string{vlib.Pick(s, domPool)}
				}
				e.VH = append(e.VH, ds)
				e.ID = append(e.ID, vid)
				m[p] = append(m[p], &route.VirtualHost{Name: fmt.Sprint(vid), Domains: append([]string{}, ds...)})
				if p != 80 {
					for _, d := range ds {
						if !strings.Contains(d, ":") {
							filtered = true
						}
					}
				}
			}
			if _, ok := m[p]; !ok {
				m[p] = nil
			}
			in = append(in, e)
		}
		var out []*route.VirtualHost
		if pan, msg := vlib.Recover(func() { out = core.VerifC14MergeAllVirtualHosts(m) }); pan {
			c.Violate(vlib.Violation{ID: *id, Kind: "panic", Detail: msg, Case: in})
			continue
		}
		inTerm := vlib.ListOf(in, func(e pv) string {
			vs := make([]string, len(e.VH))
			for k := range e.VH {
				vs[k] = vlib.Pair(vlib.NI(e.ID[k]), slist(e.VH[k]))
			}
			return vlib.Pair(vlib.NI(e.P), vlib.List(vs))
		})
		outTerm := vlib.ListOf(out, func(v *route.VirtualHost) string {
			var n int
			fmt.Sscan(v.Name, &n)
			return vlib.Pair(vlib.NI(n), slist(v.Domains))
		})
		tags := []string{"mergevh"}
		if filtered {
			tags = append(tags, "mergevh:filtered")
		}
		c.Add(vlib.Case{ID: *id, Term: vlib.App("MergeVH", vlib.NI(*id), inTerm, outTerm), Tags: tags,
			Sample: map[string]any{"kind": "mergeAllVirtualHosts", "in": in}, Trivial: !filtered})
	}
	// normalizeClusters
	for i, n := 0, vlib.Scale(80, 1500); i < n; i++ {
		*id++
		s := r.Sub()
		if !c.Wanted(*id) {
			continue
		}
		var names []string
		var codes []int
		for k, m := 0, s.Intn(9); k < m; k++ {
			v := 1 + s.Intn(5)
			names = append(names, fmt.Sprintf("outbound|80||h%d.example.com", v))
			codes = append(codes, v)
		}
		var out []string
		if pan, msg := vlib.Recover(func() { out = core.VerifC14NormalizeClusterNames(names) }); pan {
			c.Violate(vlib.Violation{ID: *id, Kind: "panic", Detail: msg, Case: names})
			continue
		}
		var oc []int
		for _, o := range out {
			var v int
			fmt.Sscanf(o, "outbound|80||h%d.example.com", &v)
			oc = append(oc, v)
		}
		tags := []string{"norm"}
		if len(out) != len(names) {
			tags = append(tags, "norm:removed")
		}
		c.Add(vlib.Case{ID: *id, Term: vlib.App("Norm", vlib.NI(*id), nlist(codes), nlist(oc)), Tags: tags,
			Sample: map[string]any{"kind": "normalizeClusters", "names": names, "out": out}, Trivial: len(out) == len(names)})
	}
	// conflictsWith / toFilterChainMatch on pairs; sni lists containing "*" together with names reproduce the
	// known finding and are tagged
	for i, n := 0, vlib.Scale(300, 6000); i < n; i++ {
		*id++
		s := r.Sub()
		if !c.Wanted(*id) {
			continue
		}
		sniOK := s.Chance(85)
		a := genChain(s, sniOK)
		b := genChain(s, sniOK)
		if s.Chance(40) { // near-duplicates: permute / re-spell b from a
			b = cloneChain(a)
			if len(b.SNI) > 1 && s.Bool() {
				b.SNI[0], b.SNI[len(b.SNI)-1] = b.SNI[len(b.SNI)-1], b.SNI[0]
			}
			if len(b.CIDR) > 0 && s.Bool() {
				b.CIDR[s.Intn(len(b.CIDR))] = vlib.Pick(s, cidrPool)
			}
			if s.Chance(20) {
				b.Transport = vlib.Pick(s, transportPool)
			}
		}
		tags := []string{"conf"}
		if !sniOK {
			tags = append(tags, "conf:sni-mixed-wildcard")
			c.FindingOf[*id] = "C14-sni-wildcard-conflict-check-mismatch"
		}
		addConf(c, *id, a, b, tags)
	}
	// mergeTCPFilterChains
	node, push, closeFn := bareNode()
	defer closeFn()
	for i, n := 0, vlib.Scale(150, 3000); i < n; i++ {
		*id++
		s := r.Sub()
		if !c.Wanted(*id) {
			continue
		}
		var cur, inc []core.VerifC14Chain
		for k, m := 0, s.Intn(4); k < m; k++ {
			cur = append(cur, genChain(s, true))
		}
		for k, m := 0, 1+s.Intn(4); k < m; k++ {
			if len(cur) > 0 && s.Chance(30) {
				inc = append(inc, cloneChain(vlib.Pick(s, cur)))
			} else {
				inc = append(inc, genChain(s, true))
			}
		}
		var out []core.VerifC14Chain
		if pan, msg := vlib.Recover(func() { out = core.VerifC14MergeTCPFilterChains(node, push, cur, inc) }); pan {
			c.Violate(vlib.Violation{ID: *id, Kind: "panic", Detail: msg, Case: []any{cur, inc}})
			continue
		}
		pc, ok1 := projChains(cur)
		pi, ok2 := projChains(inc)
		po, ok3 := projChains(out)
		if !(ok1 && ok2 && ok3) {
			c.Tag("merge:outside-model")
			continue
		}
		tags := []string{"merge"}
		dropped := len(out) != len(cur)+len(inc)
		if dropped {
			tags = append(tags, "merge:dropped")
		}
		c.Add(vlib.Case{ID: *id, Term: vlib.App("Merge", vlib.NI(*id), chainsTerm(pc), chainsTerm(pi), chainsTerm(po)), Tags: tags,
			Sample: map[string]any{"kind": "mergeTCPFilterChains", "cur": cur, "inc": inc, "out": out}, Trivial: !dropped})
	}
}

func projChains(cs []core.VerifC14Chain) ([]mchain, bool) {
	out := make([]mchain, 0, len(cs))
	for _, c := range cs {
		m, ok := projChain(c)
		if !ok {
			return nil, false
		}
		out = append(out, m)
	}
	return out, true
}

func sortedKeys[V any](m map[string]V) []string {
	ks := make([]string, 0, len(m))
	for k := range m {
		ks = append(ks, k)
	}
	sort.Strings(ks)
	return ks
}
