//go:build verif

package c14

// FEATURE TABLE world generator.  Every config feature that reaches the xDS generators is one row: a name, an
// inclusion probability and a function that adds objects to the world.  A world is a random subset of rows; all rows
// draw hosts, ports, SNI names, namespaces and object names from small shared pools so that the same host / port /
// SNI is reused across objects (biased collisions).  The chosen rows (and sub-choices) are recorded in world.features,
// which becomes the "world:*" tags of the evidence and sample["features"] of every case.

import (
	"fmt"
	"strings"

	corev3 "github.com/envoyproxy/go-control-plane/envoy/config/core/v3"

	"verif/harness/vlib"
)

type pools struct {
	hosts []string // concrete service hosts (some mixed-case, some digit-leading)
	ports []int
}

var fHosts = []string{"a.example.com", "b.example.com", "Shop.Example.com", "3scale.example.com", "tls.example.com", "c.other.org"}
var fNamespaces = []string{"ns1", "ns1", "ns2", "istio-system"}
var fLocalities = []string{"region1/zone1/subzone1", "region1/zone1/subzone2", "region1/zone2/subzone1", "region2/zone1/subzone1", "region3/zone1/subzone1"}

type feature struct {
	name string
	prob int // percent
	max  int // instances (1..max) when included
	gen  func(r *vlib.Rand, w *world, i int)
}

func (w *world) feat(f string) { w.features = append(w.features, f) }
func (w *world) hasFeature(f string) bool {
	for _, x := range w.features {
		if x == f {
			return true
		}
	}
	return false
}

func pickHost(r *vlib.Rand) string { return vlib.Pick(r, fHosts[:5]) }

// ---------------------------------------------------------------- ServiceEntry rows

type sePort struct {
	num   int
	name  string
	proto string
}

func writeSE(w *world, name, ns string, hosts []string, addrs []string, ports []sePort, res string, eps []string, extra string) {
	var b strings.Builder
	fmt.Fprintf(&b, "apiVersion: networking.istio.io/v1\nkind: ServiceEntry\nmetadata:\n  name: %s\n  namespace: %s\nspec:\n  hosts:\n", name, ns)
	for _, h := range hosts {
		fmt.Fprintf(&b, "  - \"%s\"\n", h)
	}
	if len(addrs) > 0 {
		b.WriteString("  addresses:\n")
		for _, a := range addrs {
			fmt.Fprintf(&b, "  - %s\n", a)
		}
	}
	b.WriteString("  ports:\n")
	for _, p := range ports {
		fmt.Fprintf(&b, "  - number: %d\n    name: %s\n", p.num, p.name)
		if p.proto != "" {
			fmt.Fprintf(&b, "    protocol: %s\n", p.proto)
		}
	}
	fmt.Fprintf(&b, "  resolution: %s\n", res)
	b.WriteString(extra)
	if len(eps) > 0 {
		b.WriteString("  endpoints:\n")
		for _, e := range eps {
			b.WriteString(e)
		}
	}
	w.add(b.String(), "se")
}

func fSEHTTP(r *vlib.Rand, w *world, i int) {
	h := pickHost(r)
	port := vlib.Pick(r, []int{80, 8080, 8080})
	var addrs []string
	if r.Chance(40) {
		addrs = []string{fmt.Sprintf("10.4.0.%d", 10+i)}
	}
	res := vlib.Pick(r, []string{"DNS", "STATIC", "NONE"})
	var eps []string
	if res == "STATIC" {
		eps = []string{fmt.Sprintf("  - address: 10.22.%d.1\n", i)}
	}
	writeSE(w, fmt.Sprintf("f-http%d", i), vlib.Pick(r, []string{"ns1", "ns1", "ns2"}), []string{h}, addrs,
		[]sePort{{port, "http", vlib.Pick(r, []string{"HTTP", "HTTP", "GRPC", "HTTP2"})}}, res, eps, "")
	w.feat(fmt.Sprintf("se-http:%s:%d", strings.ToLower(h), port))
}

func fSETLSVIP(r *vlib.Rand, w *world, i int) {
	h := vlib.Pick(r, []string{"tls.example.com", "tls.example.com", "a.example.com", "Shop.Example.com"})
	var addrs []string
	if r.Chance(80) {
		addrs = []string{fmt.Sprintf("10.4.1.%d", 10+i)}
		w.feat("se-tls-vip")
	}
	ports := []sePort{{443, "tls", vlib.Pick(r, []string{"TLS", "HTTPS", "TLS"})}}
	if r.Chance(30) {
		ports = append(ports, sePort{8443, "tcp", "TCP"})
	}
	writeSE(w, fmt.Sprintf("f-tls%d", i), "ns1", []string{h}, addrs, ports, vlib.Pick(r, []string{"DNS", "NONE"}), nil, "")
	w.tlsHosts = append(w.tlsHosts, h)
	w.feat("se-tls")
}

func fSEAuto(r *vlib.Rand, w *world, i int) {
	h := vlib.Pick(r, []string{"3scale.example.com", "0day.example.com", "b.example.com"})
	port := vlib.Pick(r, []int{8080, 80, 9090})
	var addrs []string
	if r.Chance(80) {
		addrs = []string{fmt.Sprintf("10.4.2.%d", 10+i)}
	}
	writeSE(w, fmt.Sprintf("f-auto%d", i), "ns1", []string{h}, addrs, []sePort{{port, fmt.Sprintf("auto-%d", port), ""}}, vlib.Pick(r, []string{"DNS", "NONE"}), nil, "")
	w.sniffed = append(w.sniffed, fmt.Sprintf("%s:%d", h, port))
	w.feat("se-auto-protocol")
}

// endpoints in 3-5 localities of unequal sizes
func fSEMultiLocality(r *vlib.Rand, w *world, i int) {
	h := vlib.Pick(r, []string{"a.example.com", "b.example.com", "loc.example.com"})
	sizes := []int{1, 9, 5, 1, 2, 3, 12}
	n := 3 + r.Intn(3)
	var eps []string
	k := 0
	for l := 0; l < n; l++ {
		sz := sizes[r.Intn(len(sizes))]
		if l == 0 {
			sz = 1 + r.Intn(2)
		}
		if l == 1 {
			sz = 6 + r.Intn(7)
		}
		for e := 0; e < sz; e++ {
			k++
			ep := fmt.Sprintf("  - address: 10.30.%d.%d\n    locality: %s\n    labels:\n      version: v%d\n", i, k, fLocalities[l], 1+e%2)
			if r.Chance(10) {
				ep += fmt.Sprintf("    weight: %d\n", vlib.Pick(r, []int{1, 3, 10}))
			}
			eps = append(eps, ep)
		}
	}
	port := vlib.Pick(r, []int{80, 8080})
	writeSE(w, fmt.Sprintf("f-loc%d", i), "ns1", []string{h}, nil, []sePort{{port, "http", "HTTP"}}, "STATIC", eps, "  location: MESH_INTERNAL\n")
	w.locHosts = append(w.locHosts, h)
	w.feat(fmt.Sprintf("se-multi-locality:%d", n))
	if i == 0 && r.Chance(50) {
		small := vlib.Pick(r, []int{1, 2, 4, 10})
		w.add(fmt.Sprintf("apiVersion: networking.istio.io/v1\nkind: DestinationRule\nmetadata:\n  name: f-locdr\n  namespace: ns1\nspec:\n  host: \"%s\"\n  trafficPolicy:\n    loadBalancer:\n      simple: ROUND_ROBIN\n"+
			"      localityLbSetting:\n        enabled: true\n        distribute:\n        - from: \"%s\"\n          to:\n            \"%s\": %d\n            \"%s\": %d\n",
			h, vlib.Pick(r, []string{"region1/zone1/*", "region1/*"}), vlib.Pick(r, []string{"region1/zone1/*", "region1/*"}), small, "region2/*", 100-small), "dr")
		w.feat(fmt.Sprintf("dr-locality-distribute:%d", small))
	}
}

func fSEWildcardNone(r *vlib.Rand, w *world, i int) {
	writeSE(w, fmt.Sprintf("f-wild%d", i), "ns1", []string{"*.example.com"}, nil,
		[]sePort{vlib.Pick(r, []sePort{{443, "tls", "TLS"}, {80, "http", "HTTP"}, {8080, "http", "HTTP"}})}, "NONE", nil, "")
	w.feat("se-wildcard-none")
}

func fSEExportTo(r *vlib.Rand, w *world, i int) {
	h := pickHost(r)
	writeSE(w, fmt.Sprintf("f-exp%d", i), "ns2", []string{h}, nil, []sePort{{vlib.Pick(r, []int{80, 443}), "p", vlib.Pick(r, []string{"HTTP", "TLS"})}}, "DNS", nil,
		"  exportTo:\n  - \""+vlib.Pick(r, []string{".", "*", "ns1"})+"\"\n")
	w.feat("se-exportTo")
}

// ---------------------------------------------------------------- VirtualService rows

func fVSTLSMesh(r *vlib.Rand, w *world, i int) {
	h := "tls.example.com"
	if len(w.tlsHosts) > 0 {
		h = vlib.Pick(r, w.tlsHosts)
	}
	ns := vlib.Pick(r, []string{"ns1", "ns1", "ns2"})
	var b strings.Builder
	fmt.Fprintf(&b, "apiVersion: networking.istio.io/v1\nkind: VirtualService\nmetadata:\n  name: f-vtls%d\n  namespace: %s\nspec:\n  hosts:\n  - \"%s\"\n", i, ns, h)
	if ns == "ns2" {
		b.WriteString("  exportTo:\n  - \"*\"\n")
	}
	fmt.Fprintf(&b, "  tls:\n  - match:\n    - sniHosts:\n      - \"%s\"\n", h)
	if r.Chance(60) {
		b.WriteString("      port: 443\n")
	}
	if r.Chance(20) {
		b.WriteString("      destinationSubnets:\n      - 10.4.1.0/24\n")
		w.feat("vs-tls-destination-subnets")
	}
	fmt.Fprintf(&b, "    route:\n    - destination:\n        host: \"%s\"\n        port:\n          number: 443\n", h)
	if r.Chance(25) {
		fmt.Fprintf(&b, "  tcp:\n  - match:\n    - port: 8443\n    route:\n    - destination:\n        host: \"%s\"\n        port:\n          number: 8443\n", h)
		w.feat("vs-tcp-mesh")
	}
	w.add(b.String(), "vs")
	w.feat("vs-tls-mesh")
}

func fVSHTTPMesh(r *vlib.Rand, w *world, i int) {
	h := pickHost(r)
	if len(w.locHosts) > 0 && r.Chance(40) {
		h = vlib.Pick(r, w.locHosts)
	}
	var b strings.Builder
	fmt.Fprintf(&b, "apiVersion: networking.istio.io/v1\nkind: VirtualService\nmetadata:\n  name: f-vhttp%d\n  namespace: %s\nspec:\n  hosts:\n  - \"%s\"\n  http:\n", i,
		vlib.Pick(r, []string{"ns1", "ns1", "istio-system"}), h)
	if r.Chance(50) {
		fmt.Fprintf(&b, "  - name: canary\n    match:\n    - uri:\n        prefix: /canary\n    route:\n    - destination:\n        host: \"%s\"\n        subset: v2\n      weight: %d\n    - destination:\n        host: \"%s\"\n        subset: v1\n      weight: %d\n",
			h, 10, h, 90)
		w.feat("vs-weighted-subsets")
	}
	fmt.Fprintf(&b, "  - name: stable\n    route:\n    - destination:\n        host: \"%s\"\n", h)
	w.add(b.String(), "vs")
	w.feat("vs-http-mesh")
}

// ---------------------------------------------------------------- DestinationRule rows

func fDR(r *vlib.Rand, w *world, i int) {
	h := pickHost(r)
	if len(w.locHosts) > 0 && r.Chance(70) {
		h = vlib.Pick(r, w.locHosts)
	}
	var b strings.Builder
	fmt.Fprintf(&b, "apiVersion: networking.istio.io/v1\nkind: DestinationRule\nmetadata:\n  name: f-dr%d\n  namespace: %s\nspec:\n  host: \"%s\"\n  trafficPolicy:\n", i,
		vlib.Pick(r, []string{"ns1", "ns1", "istio-system"}), h)
	outlier := false
	switch r.Intn(6) {
	case 0:
		b.WriteString("    loadBalancer:\n      simple: LEAST_REQUEST\n")
		w.feat("dr-lb-simple")
	case 1:
		b.WriteString("    loadBalancer:\n      consistentHash:\n        httpHeaderName: x-user\n")
		w.feat("dr-lb-consistent-hash")
	case 2, 3:
		// distribute: from matches the proxies' locality (region1/zone1/subzone1); wildcard "to" keys
		small := vlib.Pick(r, []int{1, 2, 4, 4, 10, 50})
		from := vlib.Pick(r, []string{"region1/zone1/*", "region1/*", "region1/zone1/subzone1"})
		to1 := vlib.Pick(r, []string{"region1/zone1/*", "region1/*"})
		to2 := vlib.Pick(r, []string{"region2/*", "region2/zone1/*"})
		fmt.Fprintf(&b, "    loadBalancer:\n      simple: ROUND_ROBIN\n      localityLbSetting:\n        enabled: true\n        distribute:\n        - from: \"%s\"\n          to:\n            \"%s\": %d\n            \"%s\": %d\n",
			from, to1, small, to2, 100-small)
		w.feat(fmt.Sprintf("dr-locality-distribute:%d", small))
	case 4:
		b.WriteString("    loadBalancer:\n      simple: ROUND_ROBIN\n      localityLbSetting:\n        enabled: true\n        failover:\n        - from: region1\n          to: region2\n")
		outlier = true
		w.feat("dr-locality-failover")
	default:
		b.WriteString("    loadBalancer:\n      simple: ROUND_ROBIN\n      localityLbSetting:\n        enabled: true\n        failoverPriority:\n        - \"topology.kubernetes.io/region\"\n        - \"version\"\n")
		outlier = true
		w.feat("dr-failover-priority")
	}
	if outlier || r.Chance(30) {
		b.WriteString("    outlierDetection:\n      consecutive5xxErrors: 3\n      interval: 10s\n      baseEjectionTime: 30s\n")
		w.feat("dr-outlier-detection")
	}
	if r.Chance(25) {
		fmt.Fprintf(&b, "    tls:\n      mode: %s\n", vlib.Pick(r, []string{"ISTIO_MUTUAL", "SIMPLE", "DISABLE"}))
		w.feat("dr-tls")
	}
	if r.Chance(60) {
		b.WriteString("  subsets:\n  - name: v1\n    labels:\n      version: v1\n  - name: v2\n    labels:\n      version: v2\n")
		if r.Chance(30) {
			b.WriteString("    trafficPolicy:\n      loadBalancer:\n        simple: RANDOM\n")
		}
		w.feat("dr-subsets")
	}
	w.add(b.String(), "dr")
}

// ---------------------------------------------------------------- Gateway rows (server kind x TLS mode x httpsRedirect x host case)

func fGateway(r *vlib.Rand, w *world, i int) {
	name := fmt.Sprintf("f-gw%d", i)
	var b strings.Builder
	fmt.Fprintf(&b, "apiVersion: networking.istio.io/v1\nkind: Gateway\nmetadata:\n  name: %s\n  namespace: istio-system\nspec:\n  selector:\n    istio: ingressgateway\n  servers:\n", name)
	hostSets := [][]string{{"Shop.Example.com"}, {"a.example.com"}, {"*.example.com"}, {"Shop.Example.com", "b.example.com"}, {"*"}, {"ns1/a.example.com"}, {"A.Example.com"}}
	var httpHosts []string
	for k, n := 0, 1+r.Intn(3); k < n; k++ {
		t := vlib.Pick(r, srvTemplates)
		hs := vlib.Pick(r, hostSets)
		port := vlib.Pick(r, t.ports)
		pn := fmt.Sprintf("s%d-%s", k, strings.ToLower(t.proto))
		fmt.Fprintf(&b, "  - port:\n      number: %d\n      name: %s\n      protocol: %s\n    hosts:\n", port, pn, t.proto)
		for _, h := range hs {
			fmt.Fprintf(&b, "    - \"%s\"\n", h)
			if h != strings.ToLower(h) {
				w.feat("gw-mixed-case-host")
			}
			if strings.Contains(h, "/") {
				w.feat("gw-ns-qualified-host")
			}
		}
		switch {
		case t.mode == "SIMPLE":
			fmt.Fprintf(&b, "    tls:\n      mode: SIMPLE\n      credentialName: cred%d\n", r.Intn(2))
		case t.mode != "":
			fmt.Fprintf(&b, "    tls:\n      mode: %s\n", t.mode)
		case (t.proto == "HTTP" || t.proto == "HTTP2") && r.Chance(45):
			b.WriteString("    tls:\n      httpsRedirect: true\n")
			w.feat("gw-https-redirect")
		}
		if t.proto == "HTTP" || t.proto == "HTTP2" {
			httpHosts = append(httpHosts, hs...)
		}
		w.feat("gw-server:" + t.proto + "/" + t.mode)
	}
	var redirectHost string
	if r.Chance(40) {
		// an httpsRedirect server of its own, host possibly mixed-case, with a VirtualService on the very same host
		redirectHost = vlib.Pick(r, []string{"Shop.Example.com", "A.Example.com", "a.example.com", "Shop.Example.com"})
		fmt.Fprintf(&b, "  - port:\n      number: %d\n      name: redirect\n      protocol: HTTP\n    hosts:\n    - \"%s\"\n    tls:\n      httpsRedirect: true\n",
			vlib.Pick(r, []int{80, 8080}), redirectHost)
		w.feat("gw-https-redirect")
		if redirectHost != strings.ToLower(redirectHost) {
			w.feat("gw-mixed-case-host")
		}
		httpHosts = append(httpHosts, redirectHost, redirectHost)
	}
	w.add(b.String(), "gw")
	w.gateways = append(w.gateways, "istio-system/"+name)
	// VirtualServices bound to it, reusing the servers' hosts (same spelling)
	nvs := r.Intn(3)
	if redirectHost != "" && nvs == 0 {
		nvs = 1
	}
	for v, n := 0, nvs; v < n; v++ {
		h := "a.example.com"
		if len(httpHosts) > 0 && r.Chance(75) {
			h = vlib.Pick(r, httpHosts)
		}
		if v == 0 && redirectHost != "" && r.Chance(80) {
			h = redirectHost
		}
		h = strings.TrimPrefix(h, "ns1/")
		if h == "*" || strings.HasPrefix(h, "*.") {
			h = vlib.Pick(r, []string{"a.example.com", "Shop.Example.com"})
		}
		w.add(fmt.Sprintf("apiVersion: networking.istio.io/v1\nkind: VirtualService\nmetadata:\n  name: f-gwvs%d-%d\n  namespace: %s\nspec:\n  hosts:\n  - \"%s\"\n  gateways:\n  - istio-system/%s\n"+
			"  http:\n  - name: r%d\n    match:\n    - uri:\n        prefix: /v%d\n    route:\n    - destination:\n        host: a.example.com\n        port:\n          number: 80\n",
			i, v, vlib.Pick(r, []string{"ns1", "istio-system"}), h, name, v, v), "vs")
		w.feat("vs-http-gateway")
	}
}

// ---------------------------------------------------------------- Sidecar rows

func fSidecar(r *vlib.Rand, w *world, _ int) {
	var b strings.Builder
	b.WriteString("apiVersion: networking.istio.io/v1\nkind: Sidecar\nmetadata:\n  name: default\n  namespace: ns1\nspec:\n")
	if r.Chance(35) {
		fmt.Fprintf(&b, "  ingress:\n  - port:\n      number: %d\n      protocol: HTTP\n      name: http-in\n    defaultEndpoint: 127.0.0.1:%d\n", vlib.Pick(r, []int{9080, 8080}), 18080)
		w.feat("sidecar-ingress")
	}
	b.WriteString("  egress:\n")
	if r.Chance(60) {
		p := vlib.Pick(r, []sePort{{80, "http", "HTTP"}, {8080, "tcp", "TCP"}, {443, "tls", "TLS"}, {8080, "hp", "HTTP_PROXY"}})
		fmt.Fprintf(&b, "  - port:\n      number: %d\n      protocol: %s\n      name: %s\n", p.num, p.proto, p.name)
		switch r.Intn(3) {
		case 0:
			b.WriteString("    bind: 127.0.0.1\n")
		case 1:
			b.WriteString("    captureMode: NONE\n")
			w.feat("sidecar-capture-none")
		}
		fmt.Fprintf(&b, "    hosts:\n    - \"*/%s\"\n", strings.ToLower(pickHost(r)))
		w.feat("sidecar-egress-port:" + p.proto)
	}
	b.WriteString("  - hosts:\n    - \"*/*\"\n")
	if r.Chance(20) {
		b.WriteString("  outboundTrafficPolicy:\n    mode: REGISTRY_ONLY\n")
		w.feat("sidecar-registry-only")
	}
	w.add(b.String(), "sidecar")
}

// ---------------------------------------------------------------- policy rows (presence)

func fPolicies(r *vlib.Rand, w *world, _ int) {
	if r.Chance(50) {
		w.add(fmt.Sprintf("apiVersion: security.istio.io/v1\nkind: PeerAuthentication\nmetadata:\n  name: default\n  namespace: %s\nspec:\n  mtls:\n    mode: %s\n",
			vlib.Pick(r, []string{"istio-system", "ns1"}), vlib.Pick(r, []string{"STRICT", "PERMISSIVE", "DISABLE"})), "peerauthn")
	}
	if r.Chance(40) {
		w.add("apiVersion: security.istio.io/v1\nkind: RequestAuthentication\nmetadata:\n  name: jwt\n  namespace: "+vlib.Pick(r, []string{"istio-system", "ns1"})+
			"\nspec:\n  jwtRules:\n  - issuer: issuer@example.com\n    jwks: '{ \"keys\": [ { \"kid\": \"k1\", \"alg\": \"RS256\", \"kty\": \"RSA\", \"n\": \"abc\", \"e\": \"def\" } ] }'\n", "requestauthn")
	}
	if r.Chance(50) {
		w.add(fmt.Sprintf("apiVersion: security.istio.io/v1\nkind: AuthorizationPolicy\nmetadata:\n  name: authz\n  namespace: %s\nspec:\n  action: %s\n  rules:\n  - to:\n    - operation:\n        paths: [\"/admin*\"]\n        ports: [\"%d\"]\n",
			vlib.Pick(r, []string{"istio-system", "ns1"}), vlib.Pick(r, []string{"ALLOW", "DENY"}), vlib.Pick(r, []int{80, 8080, 443})), "authz")
	}
	if r.Chance(35) {
		w.add("apiVersion: telemetry.istio.io/v1\nkind: Telemetry\nmetadata:\n  name: mesh\n  namespace: istio-system\nspec:\n  accessLogging:\n  - providers:\n    - name: envoy\n", "telemetry")
	}
	if r.Chance(25) {
		w.add("apiVersion: extensions.istio.io/v1alpha1\nkind: WasmPlugin\nmetadata:\n  name: wasm\n  namespace: istio-system\nspec:\n  url: oci://registry.example/wasm:v1\n  phase: AUTHN\n", "wasmplugin")
	}
}

// ---------------------------------------------------------------- the table

var featureTable = []feature{
	{"se-http", 80, 3, fSEHTTP},
	{"se-tls", 55, 2, fSETLSVIP},
	{"se-auto", 40, 2, fSEAuto},
	{"se-multi-locality", 55, 2, fSEMultiLocality},
	{"se-wildcard-none", 15, 1, fSEWildcardNone},
	{"se-exportTo", 20, 1, fSEExportTo},
	{"vs-tls-mesh", 50, 3, fVSTLSMesh},
	{"vs-http-mesh", 50, 2, fVSHTTPMesh},
	{"dr", 65, 3, fDR},
	{"gateway", 55, 2, fGateway},
	{"scenario-gateway", 25, 1, func(r *vlib.Rand, w *world, _ int) { genGatewayScenario(r, w) }},
	{"scenario-sniff", 25, 1, func(r *vlib.Rand, w *world, _ int) { genSniffScenario(r, w) }},
	{"scenario-envoyfilter", 25, 1, func(r *vlib.Rand, w *world, _ int) { genEnvoyFilterScenario(r, w) }},
	{"sidecar", 30, 1, fSidecar},
	{"policies", 45, 1, fPolicies},
}

func genFeatureWorld(r *vlib.Rand) *world {
	w := &world{}
	for _, f := range featureTable {
		if !r.Chance(f.prob) {
			continue
		}
		n := 1 + r.Intn(f.max)
		for i := 0; i < n; i++ {
			f.gen(r, w, i)
		}
	}
	// router Service port translation (443 -> 8443, 80 -> 8080)
	if !w.translate && r.Chance(40) {
		w.translate = true
		w.feat("gw-port-translation")
	}
	// proxy attributes
	if r.Chance(75) {
		w.locality = &corev3.Locality{Region: "region1", Zone: "zone1", SubZone: "subzone1"}
		w.feat("proxy-locality")
	}
	if r.Chance(20) {
		w.dualStack = true
		w.feat("proxy-dual-stack")
	}
	if r.Chance(25) {
		w.dnsCapture = true
		w.feat("proxy-dns-capture")
	}
	return w
}
