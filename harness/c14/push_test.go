//go:build verif

package c14

import (
	"fmt"
	"os"
	"runtime/debug"
	"sort"
	"strings"
	"sync"
	"time"

	cluster "github.com/envoyproxy/go-control-plane/envoy/config/cluster/v3"
	corev3 "github.com/envoyproxy/go-control-plane/envoy/config/core/v3"
	endpoint "github.com/envoyproxy/go-control-plane/envoy/config/endpoint/v3"
	listener "github.com/envoyproxy/go-control-plane/envoy/config/listener/v3"
	route "github.com/envoyproxy/go-control-plane/envoy/config/route/v3"
	"google.golang.org/protobuf/encoding/prototext"
	"google.golang.org/protobuf/proto"
	kubeyaml "k8s.io/apimachinery/pkg/util/yaml"

	"istio.io/istio/pilot/pkg/config/kube/crd"
	"istio.io/istio/pilot/pkg/model"
	"istio.io/istio/pilot/pkg/networking/core"
	"istio.io/istio/pilot/pkg/serviceregistry/provider"
	v3 "istio.io/istio/pilot/pkg/xds/v3"
	xdsfake "istio.io/istio/pilot/test/xds"
	"istio.io/istio/pilot/test/xdstest"
	"istio.io/istio/pkg/config"
	"istio.io/istio/pkg/config/host"
	"istio.io/istio/pkg/config/protocol"
	"istio.io/istio/pkg/config/schema/collections"
	"istio.io/istio/pkg/config/schema/resource"
	"istio.io/istio/pkg/util/sets"
	"verif/harness/vlib"
)

// ---------------------------------------------------------------- test.Failer that never touches *testing.T

type hFatal struct{ msg string }

type hFailer struct {
	mu       sync.Mutex
	cleanups []func()
}

func (f *hFailer) Fail()                             {}
func (f *hFailer) FailNow()                          { panic(hFatal{"FailNow"}) }
func (f *hFailer) Fatal(args ...any)                 { panic(hFatal{fmt.Sprint(args...)}) }
func (f *hFailer) Fatalf(format string, args ...any) { panic(hFatal{fmt.Sprintf(format, args...)}) }
func (f *hFailer) Log(args ...any)                   {}
func (f *hFailer) Logf(format string, args ...any)   {}
func (f *hFailer) Helper()                           {}
func (f *hFailer) Skip(args ...any)                  { panic(hFatal{"Skip"}) }
func (f *hFailer) TempDir() string {
	d, _ := os.MkdirTemp("", "verif-c14")
	f.Cleanup(func() { _ = os.RemoveAll(d) })
	return d
}
func (f *hFailer) Cleanup(fn func()) {
	f.mu.Lock()
	defer f.mu.Unlock()
	f.cleanups = append(f.cleanups, fn)
}
func (f *hFailer) close() {
	f.mu.Lock()
	cs := f.cleanups
	f.cleanups = nil
	f.mu.Unlock()
	for i := len(cs) - 1; i >= 0; i-- {
		func() {
			defer func() { _ = recover() }()
			cs[i]()
		}()
	}
}

func newServer(cfgs []config.Config) (s *xdsfake.FakeDiscoveryServer, closeFn func(), err error) {
	f := &hFailer{}
	pan, msg := vlib.Recover(func() { s = xdsfake.NewFakeDiscoveryServer(f, xdsfake.FakeOptions{Configs: cfgs}) })
	if pan {
		f.close()
		return nil, func() {}, fmt.Errorf("fake discovery server: %s", msg)
	}
	return s, f.close, nil
}

func bareNode() (*model.Proxy, *model.PushContext, func()) {
	s, cl, err := newServer(nil)
	if err != nil {
		panic(err)
	}
	p := s.SetupProxy(&model.Proxy{ConfigNamespace: "ns1", IPAddresses: []string{"10.10.0.1"}})
	return p, s.PushContext(), cl
}

// ---------------------------------------------------------------- buildSidecarOutboundListener sequences

var protoCode = map[string]int{"HTTP": 0, "HTTP2": 1, "GRPC": 2, "GRPC-Web": 3, "HTTP_PROXY": 4, "TCP": 5, "HTTPS": 6, "TLS": 7,
	"Mongo": 8, "Redis": 9, "MySQL": 10, "UDP": 11, "UnsupportedProtocol": 12}
var protoCtor = []string{"PHTTP", "PHTTP2", "PGRPC", "PGRPCWeb", "PHTTP_PROXY", "PTCP", "PHTTPS", "PTLS", "PMongo", "PRedis", "PMySQL",
	"PUDP", "PUnsupported"}
var seqProtos = []protocol.Instance{protocol.HTTP, protocol.HTTP, protocol.TCP, protocol.TCP, protocol.Unsupported, protocol.Unsupported,
	protocol.HTTPS, protocol.TLS, protocol.GRPC, protocol.HTTP2, protocol.Mongo, protocol.MySQL, protocol.Redis, protocol.UDP,
	protocol.HTTP_PROXY, protocol.GRPCWeb}
var seqAddrs = []string{"0.0.0.0", "0.0.0.0", "10.0.0.1", "10.0.0.2", "10.1.0.0/24", "10.1.0.77/24"}
var seqPorts = []int{80, 3306, 8080}

func genSeq(c *vlib.Collector, id *int, r *vlib.Rand) {
	node, push, closeFn := bareNode()
	defer closeFn()
	bindCode := map[string]int{}
	for i, n := 0, vlib.Scale(250, 5000); i < n; i++ {
		*id++
		s := r.Sub()
		if !c.Wanted(*id) {
			continue
		}
		var steps []core.VerifC14Step
		var desc []string
		locked := false
		for k, m := 0, 2+s.Intn(6); k < m; k++ {
			if !locked && k > 0 && s.Chance(12) {
				steps = append(steps, core.VerifC14Step{Lock: true})
				desc = append(desc, "LOCK")
				locked = true
				continue
			}
			h := fmt.Sprintf("s%d.example.com", s.Intn(4))
			addr := vlib.Pick(s, seqAddrs)
			pr := vlib.Pick(s, seqProtos)
			port := vlib.Pick(s, seqPorts)
			res := model.ClientSideLB
			if s.Chance(15) {
				res = model.Passthrough
			}
			if s.Chance(4) {
				res = model.Alias
			}
			svc := &model.Service{Hostname: host.Name(h), DefaultAddress: addr, Resolution: res,
				Ports:      model.PortList{{Name: "p", Port: port, Protocol: pr}},
				Attributes: model.ServiceAttributes{Namespace: "ns1", Name: h, ServiceRegistry: provider.External}}
			steps = append(steps, core.VerifC14Step{Service: svc, Port: svc.Ports[0]})
			desc = append(desc, fmt.Sprintf("%s %s:%d/%s res=%v", h, addr, port, pr, res))
		}
		var final []core.VerifC14Entry
		var solo [][]core.VerifC14Entry
		if pan, msg := vlib.Recover(func() { final, solo = core.VerifC14OutboundSeq(node, push, steps) }); pan {
			c.Violate(vlib.Violation{ID: *id, Kind: "panic", Detail: msg, Case: desc})
			continue
		}
		ok := true
		keyTerm := func(bind string, port int) string {
			return vlib.Pair(vlib.NI(code(bindCode, bind, 1)), vlib.NI(port))
		}
		var stepTerms []string
		seen := map[string]bool{}
		collision := false
		for k, st := range steps {
			if st.Lock {
				stepTerms = append(stepTerms, "SLock")
				continue
			}
			pp := protoCtor[protoCode[string(st.Port.Protocol)]]
			if len(solo[k]) == 0 {
				stepTerms = append(stepTerms, vlib.App("SCall", pp, "None"))
				continue
			}
			e := solo[k][0]
			chs, okc := projChains(e.Chains)
			pc, okp := protoCode[e.Protocol]
			if !okc || !okp || len(solo[k]) != 1 {
				ok = false
				break
			}
			kk := fmt.Sprintf("%s_%d", e.Bind, e.Port)
			if seen[kk] {
				collision = true
			}
			seen[kk] = true
			stepTerms = append(stepTerms, vlib.App("SCall", pp, "(Some "+vlib.Pair(vlib.Pair(keyTerm(e.Bind, e.Port), protoCtor[pc]), chainsTerm(chs))+")"))
		}
		sort.Slice(final, func(a, b int) bool {
			if final[a].Bind != final[b].Bind {
				return final[a].Bind < final[b].Bind
			}
			return final[a].Port < final[b].Port
		})
		var obs []string
		names := sets.New[string]()
		for _, e := range final {
			chs, okc := projChains(e.Chains)
			pc, okp := protoCode[e.Protocol]
			if !okc || !okp {
				ok = false
				break
			}
			if names.InsertContains(e.Name) {
				c.Violate(vlib.Violation{ID: *id, Kind: "oracle", Detail: "duplicate outbound listener name " + e.Name, Case: desc})
			}
			obs = append(obs, vlib.Pair(keyTerm(e.Bind, e.Port), vlib.Pair(vlib.Pair(vlib.B(e.Locked), vlib.NI(pc)), chainsTerm(chs))))
		}
		if !ok {
			c.Tag("seq:outside-model")
			continue
		}
		tags := []string{"seq"}
		if collision {
			tags = append(tags, "seq:key-collision")
		}
		if locked {
			tags = append(tags, "seq:lock")
		}
		c.Add(vlib.Case{ID: *id, Term: vlib.App("Seq", vlib.NI(*id), vlib.List(stepTerms), vlib.List(obs)), Tags: tags,
			Sample: map[string]any{"kind": "buildSidecarOutboundListener sequence", "steps": desc, "final": final}, Trivial: !collision})
		c.Hyp("solo chains conflict-free (step_ok, evaluated in Coq as part of prop_ok)", 1)
	}
}

// ---------------------------------------------------------------- worlds

var hostPool = []string{"a.example.com", "b.example.com", "*.example.com", "c.other.org", "A.example.com", "svc.ns1.svc.cluster.local", "*"}

type portSpec struct {
	Num   int
	Name  string
	Proto string
}

var portPool = []portSpec{{80, "http", "HTTP"}, {80, "tcp", "TCP"}, {443, "https", "HTTPS"}, {443, "tls", "TLS"}, {8080, "http-alt", "HTTP"},
	{8080, "grpc", "GRPC"}, {8080, "tcp-alt", "TCP"}, {3306, "mysql", "MySQL"}, {3306, "tcp-db", "TCP"}, {9090, "auto", ""},
	{80, "auto80", ""}, {27017, "mongo", "Mongo"}, {8080, "h2", "HTTP2"}}

type world struct {
	yamls      []string
	features   []string
	translate  bool     // the router's Service maps 443 -> 8443 and 80 -> 8080
	sniffed    []string // "host:port" route names of auto-protocol services
	tlsHosts   []string // hosts of TLS/HTTPS-port services (reused by tls VirtualServices)
	locHosts   []string // hosts of multi-locality services (reused by DestinationRules)
	gateways   []string
	locality   *corev3.Locality // proxy locality
	dualStack  bool
	dnsCapture bool
	bypass     []string // objects the admission validator rejects (with reason)
}

func (w *world) add(y string, feats ...string) {
	w.yamls = append(w.yamls, y)
	w.features = append(w.features, feats...)
}

func ind(n int, s string) string { return strings.Repeat(" ", n) + s }

func genServiceEntry(r *vlib.Rand, w *world, i int, bypass bool) {
	ns := vlib.Pick(r, []string{"ns1", "ns1", "ns2"})
	var b strings.Builder
	fmt.Fprintf(&b, "apiVersion: networking.istio.io/v1\nkind: ServiceEntry\nmetadata:\n  name: se%d\n  namespace: %s\nspec:\n  hosts:\n", i, ns)
	nh := 1 + r.Intn(2)
	wild := false
	for k := 0; k < nh; k++ {
		h := vlib.Pick(r, hostPool[:6])
		if strings.HasPrefix(h, "*") {
			wild = true
		}
		fmt.Fprintf(&b, "  - \"%s\"\n", h)
	}
	res := vlib.Pick(r, []string{"STATIC", "DNS", "NONE", "STATIC"})
	if wild && !bypass {
		res = "NONE"
	}
	if res != "DNS" && r.Chance(50) {
		b.WriteString("  addresses:\n")
		fmt.Fprintf(&b, "  - %s\n", vlib.Pick(r, []string{"10.0.0.1", "10.0.0.2", "10.1.0.0/24", "10.1.0.0/16"}))
	}
	b.WriteString("  ports:\n")
	np := 1 + r.Intn(3)
	used := map[int]bool{}
	usedN := map[string]bool{}
	var ports []portSpec
	for k := 0; k < np; k++ {
		p := vlib.Pick(r, portPool)
		if !bypass && nh > 1 && !(strings.HasPrefix(p.Proto, "HTTP") || p.Proto == "TLS" || p.Proto == "GRPC") {
			continue // admission: several hosts need HTTP/TLS ports
		}
		if !bypass && (used[p.Num] || usedN[p.Name]) {
			continue
		}
		if bypass && used[p.Num] {
			w.features = append(w.features, "se-duplicate-port")
		}
		used[p.Num], usedN[p.Name] = true, true
		ports = append(ports, p)
		fmt.Fprintf(&b, "  - number: %d\n    name: %s\n", p.Num, p.Name)
		if p.Proto != "" {
			fmt.Fprintf(&b, "    protocol: %s\n", p.Proto)
		}
	}
	fmt.Fprintf(&b, "  resolution: %s\n", res)
	if r.Chance(50) {
		b.WriteString("  location: MESH_INTERNAL\n")
	}
	if res == "STATIC" || (res == "DNS" && r.Chance(50)) {
		if !(res == "STATIC" && r.Chance(15)) { // sometimes no endpoints at all
			b.WriteString("  endpoints:\n")
			for k, ne := 0, 1+r.Intn(2); k < ne; k++ {
				if res == "STATIC" {
					fmt.Fprintf(&b, "  - address: 10.20.%d.%d\n", i, k+1)
				} else {
					fmt.Fprintf(&b, "  - address: ep%d.backend.example\n", k)
				}
				fmt.Fprintf(&b, "    labels:\n      version: v%d\n", 1+r.Intn(2))
				if r.Chance(30) {
					fmt.Fprintf(&b, "    weight: %d\n", vlib.Pick(r, []int{1, 5, 100, 4294967295}))
					w.features = append(w.features, "endpoint-weight")
				}
			}
		}
	}
	w.add(b.String(), "se")
}

func genDestinationRule(r *vlib.Rand, w *world, i int, bypass bool) {
	var b strings.Builder
	fmt.Fprintf(&b, "apiVersion: networking.istio.io/v1\nkind: DestinationRule\nmetadata:\n  name: dr%d\n  namespace: %s\nspec:\n  host: \"%s\"\n",
		i, vlib.Pick(r, []string{"ns1", "ns1", "ns2", "istio-system"}), vlib.Pick(r, hostPool[:6]))
	if r.Chance(40) {
		b.WriteString("  trafficPolicy:\n    loadBalancer:\n      simple: ROUND_ROBIN\n")
	}
	b.WriteString("  subsets:\n")
	names := []string{"v1", "v2", "v3"}
	if bypass && r.Chance(50) {
		names = []string{"v1", "v1", "v2"}
		w.features = append(w.features, "dr-duplicate-subset")
	}
	for _, n := range names[:1+r.Intn(3)] {
		fmt.Fprintf(&b, "  - name: %s\n    labels:\n      version: %s\n", n, n)
	}
	w.add(b.String(), "dr")
}

func genVirtualService(r *vlib.Rand, w *world, i int, bypass bool, gateways []string) {
	var b strings.Builder
	fmt.Fprintf(&b, "apiVersion: networking.istio.io/v1\nkind: VirtualService\nmetadata:\n  name: vs%d\n  namespace: %s\nspec:\n", i,
		vlib.Pick(r, []string{"ns1", "ns1", "ns2", "istio-system"}))
	if bypass && r.Chance(25) {
		b.WriteString("  hosts: []\n")
		w.features = append(w.features, "vs-empty-hosts")
	} else {
		b.WriteString("  hosts:\n")
		if bypass {
			for k, n := 0, 1+r.Intn(2); k < n; k++ {
				fmt.Fprintf(&b, "  - \"%s\"\n", vlib.Pick(r, hostPool))
			}
		} else {
			fmt.Fprintf(&b, "  - \"%s\"\n", vlib.Pick(r, hostPool[:6]))
		}
	}
	if len(gateways) > 0 && r.Chance(60) {
		b.WriteString("  gateways:\n")
		fmt.Fprintf(&b, "  - %s\n", vlib.Pick(r, gateways))
		if r.Chance(40) {
			b.WriteString("  - mesh\n")
		}
	}
	dest := func(indent int) {
		h := vlib.Pick(r, hostPool[:4])
		if h[0] == '*' {
			h = "a.example.com"
		}
		if bypass && r.Chance(30) {
			h = "unknown.nowhere.example"
			w.features = append(w.features, "vs-unknown-destination")
		}
		fmt.Fprintf(&b, "%sdestination:\n%s  host: %s\n", ind(indent, "- "), ind(indent, "  "), h)
		if r.Chance(40) {
			fmt.Fprintf(&b, "%s  subset: %s\n", ind(indent, "  "), vlib.Pick(r, []string{"v1", "v2", "nosuch"}))
		}
		if r.Chance(50) {
			fmt.Fprintf(&b, "%s  port:\n%s    number: %d\n", ind(indent, "  "), ind(indent, "  "), vlib.Pick(r, []int{80, 8080, 443}))
		}
	}
	kind := r.Intn(10)
	switch {
	case kind < 6:
		b.WriteString("  http:\n")
		for k, n := 0, 1+r.Intn(2); k < n; k++ {
			if r.Chance(50) {
				fmt.Fprintf(&b, "  - match:\n    - uri:\n        prefix: /p%d\n    route:\n", k)
			} else {
				b.WriteString("  - route:\n")
			}
			nd := 1 + r.Intn(2)
			for d := 0; d < nd; d++ {
				dest(4)
				if nd > 1 {
					wt := 50
					if bypass && r.Chance(40) {
						wt = vlib.Pick(r, []int{0, -5, 2000000000})
						w.features = append(w.features, "vs-odd-weight")
					}
					fmt.Fprintf(&b, "      weight: %d\n", wt)
				}
			}
		}
	case kind < 8:
		b.WriteString("  tls:\n  - match:\n    - sniHosts:\n")
		for k, n := 0, 1+r.Intn(2); k < n; k++ {
			h := vlib.Pick(r, hostPool[:3])
			if bypass && r.Chance(30) {
				h = "*"
				w.features = append(w.features, "vs-sni-star")
			}
			fmt.Fprintf(&b, "      - \"%s\"\n", h)
		}
		if r.Chance(50) {
			b.WriteString("      port: 443\n")
		}
		b.WriteString("    route:\n")
		dest(4)
	default:
		b.WriteString("  tcp:\n  - route:\n")
		dest(4)
	}
	w.add(b.String(), "vs")
}

func genGateway(r *vlib.Rand, w *world, i int, bypass bool) string {
	var b strings.Builder
	name := fmt.Sprintf("gw%d", i)
	fmt.Fprintf(&b, "apiVersion: networking.istio.io/v1\nkind: Gateway\nmetadata:\n  name: %s\n  namespace: istio-system\nspec:\n  selector:\n    istio: ingressgateway\n  servers:\n", name)
	usedNames := map[string]bool{}
	for k, n := 0, 1+r.Intn(3); k < n; k++ {
		pr := vlib.Pick(r, []string{"HTTP", "HTTP", "HTTPS", "TLS", "TCP", "GRPC", "HTTP2"})
		num := vlib.Pick(r, []int{80, 443, 8080, 8080})
		if bypass && r.Chance(20) {
			num = 0
			w.features = append(w.features, "gw-port-0")
		}
		pn := fmt.Sprintf("%s-%d", strings.ToLower(pr), num)
		if usedNames[pn] && !bypass {
			continue
		}
		if usedNames[pn] {
			w.features = append(w.features, "gw-duplicate-server")
		}
		usedNames[pn] = true
		fmt.Fprintf(&b, "  - port:\n      number: %d\n      name: %s\n      protocol: %s\n    hosts:\n", num, pn, pr)
		for hN, m := 0, 1+r.Intn(2); hN < m; hN++ {
			fmt.Fprintf(&b, "    - \"%s\"\n", vlib.Pick(r, []string{"a.example.com", "*.example.com", "*", "ns1/b.example.com", "b.example.com", "A.example.com"}))
		}
		switch pr {
		case "HTTPS":
			if r.Chance(70) {
				fmt.Fprintf(&b, "    tls:\n      mode: SIMPLE\n      credentialName: cred%d\n", r.Intn(2))
			} else {
				b.WriteString("    tls:\n      mode: PASSTHROUGH\n")
			}
		case "TLS":
			fmt.Fprintf(&b, "    tls:\n      mode: %s\n", vlib.Pick(r, []string{"PASSTHROUGH", "PASSTHROUGH", "AUTO_PASSTHROUGH"}))
		case "HTTP":
			if r.Chance(15) {
				b.WriteString("    tls:\n      httpsRedirect: true\n")
			}
		}
	}
	w.add(b.String(), "gw")
	return "istio-system/" + name
}

func genSidecar(r *vlib.Rand, w *world) {
	var b strings.Builder
	b.WriteString("apiVersion: networking.istio.io/v1\nkind: Sidecar\nmetadata:\n  name: default\n  namespace: ns1\nspec:\n  egress:\n")
	if r.Chance(60) {
		p := vlib.Pick(r, []portSpec{{80, "http", "HTTP"}, {8080, "tcp", "TCP"}, {3306, "tcp-db", "TCP"}, {8080, "hp", "HTTP_PROXY"}})
		fmt.Fprintf(&b, "  - port:\n      number: %d\n      protocol: %s\n      name: %s\n", p.Num, p.Proto, p.Name)
		if r.Chance(30) {
			b.WriteString("    bind: 127.0.0.1\n")
		}
		fmt.Fprintf(&b, "    hosts:\n    - \"*/%s\"\n", vlib.Pick(r, hostPool[:4]))
	}
	b.WriteString("  - hosts:\n    - \"*/*\"\n")
	w.add(b.String(), "sidecar")
}

func genEnvoyFilter(r *vlib.Rand, w *world, i int) {
	var b strings.Builder
	fmt.Fprintf(&b, "apiVersion: networking.istio.io/v1alpha3\nkind: EnvoyFilter\nmetadata:\n  name: ef%d\n  namespace: %s\nspec:\n  configPatches:\n", i,
		vlib.Pick(r, []string{"istio-system", "ns1"}))
	switch r.Intn(3) {
	case 0:
		b.WriteString("  - applyTo: CLUSTER\n    patch:\n      operation: MERGE\n      value:\n        connect_timeout: 3s\n")
	case 1:
		b.WriteString("  - applyTo: CLUSTER\n    patch:\n      operation: ADD\n      value:\n        name: extra-cluster\n        connect_timeout: 1s\n        type: STATIC\n")
	default:
		b.WriteString("  - applyTo: VIRTUAL_HOST\n    match:\n      context: SIDECAR_OUTBOUND\n    patch:\n      operation: ADD\n      value:\n        name: extra-vhost\n        domains:\n        - extra.only.example\n")
	}
	w.add(b.String(), "ef")
}

func genWorld(r *vlib.Rand, bypass bool) *world {
	w := &world{}
	for i, n := 0, 2+r.Intn(4); i < n; i++ {
		genServiceEntry(r, w, i, bypass && r.Chance(50))
	}
	var gws []string
	for i, n := 0, r.Intn(3); i < n; i++ {
		gws = append(gws, genGateway(r, w, i, bypass && r.Chance(50)))
	}
	for i, n := 0, r.Intn(3); i < n; i++ {
		genDestinationRule(r, w, i, bypass && r.Chance(50))
	}
	for i, n := 0, r.Intn(4); i < n; i++ {
		genVirtualService(r, w, i, bypass && r.Chance(60), gws)
	}
	if r.Chance(30) {
		genSidecar(r, w)
	}
	if r.Chance(30) {
		genEnvoyFilter(r, w, 0)
	}
	return w
}

// parseNoValidate is crd.ParseInputs without the ValidateConfig step (one object).
func parseNoValidate(y string) (config.Config, error) {
	obj := crd.IstioKind{}
	if err := kubeyaml.NewYAMLOrJSONDecoder(strings.NewReader(y), 512*1024).Decode(&obj); err != nil {
		return config.Config{}, err
	}
	gvk := obj.GroupVersionKind()
	sch, ok := collections.Pilot.FindByGroupVersionAliasesKind(resource.FromKubernetesGVK(&gvk))
	if !ok {
		return config.Config{}, fmt.Errorf("unknown kind %v", gvk)
	}
	cfg, err := crd.ConvertObject(sch, &obj, "")
	if err != nil {
		return config.Config{}, err
	}
	return *cfg, nil
}

// parse without admission validation; classify each object with the real validator
func (w *world) configs() ([]config.Config, error) {
	var out []config.Config
	base := time.Date(2024, 1, 1, 0, 0, 0, 0, time.UTC)
	for i, y := range w.yamls {
		c, err := parseNoValidate(y)
		if err != nil {
			return nil, fmt.Errorf("parse: %v\n%s", err, y)
		}
		c.CreationTimestamp = base.Add(time.Duration(i) * time.Second)
		if sch, ok := collections.Pilot.FindByGroupVersionKind(c.GroupVersionKind); ok {
			if _, err := sch.ValidateConfig(c); err != nil {
				msg := err.Error()
				if len(msg) > 160 {
					msg = msg[:160]
				}
				w.bypass = append(w.bypass, fmt.Sprintf("%s/%s: %s", c.GroupVersionKind.Kind, c.Name, msg))
			}
		}
		out = append(out, c)
	}
	return out, nil
}

// ---------------------------------------------------------------- full pushes

type interner struct{ m map[string]int }

func (t *interner) id(s string) int {
	if v, ok := t.m[s]; ok {
		return v
	}
	v := len(t.m) + 1
	t.m[s] = v
	return v
}

func generate(s *xdsfake.FakeDiscoveryServer, p *model.Proxy, typeURL string, names []string) (model.Resources, error) {
	g := s.Discovery.Generators[string(p.Type)+"/"+typeURL]
	if g == nil {
		g = s.Discovery.Generators[typeURL]
	}
	if g == nil {
		return nil, fmt.Errorf("no generator for %s", typeURL)
	}
	req := &model.PushRequest{Forced: true, Push: s.PushContext(), Start: time.Now(), Reason: model.NewReasonStats(model.ProxyRequest)}
	res, _, err := g.Generate(p, &model.WatchedResource{TypeUrl: typeURL, ResourceNames: sets.New(names...)}, req)
	return res, err
}

type validator interface{ Validate() error }

func genPushes(c *vlib.Collector, id *int, r *vlib.Rand) {
	nWorlds := vlib.Scale(48, 900)
	for wi := 0; wi < nWorlds; wi++ {
		s := r.Sub()
		baseID := *id
		*id += 9 // 3 proxies x (push, rds request, eds request)
		want := false
		for k := 1; k <= 9; k++ {
			want = want || c.Wanted(baseID+k)
		}
		if !want {
			continue
		}
		var w *world
		if wi%6 == 4 {
			w = genWorld(s, true) // admission-bypassing stream
		} else {
			w = genFeatureWorld(s)
		}
		cfgs, err := w.configs()
		if err != nil {
			c.Violate(vlib.Violation{ID: baseID + 1, Kind: "harness", Detail: err.Error()})
			continue
		}
		srv, closeFn, err := newServer(cfgs)
		if err != nil {
			c.Violate(vlib.Violation{ID: baseID + 1, Kind: "panic", Detail: err.Error(), Case: w.yamls})
			closeFn()
			continue
		}
		proxies := []*model.Proxy{
			{Type: model.SidecarProxy, ConfigNamespace: "ns1", IPAddresses: []string{"10.10.0.1"}, ID: "app.ns1",
				Labels: map[string]string{"app": "app"}, Metadata: &model.NodeMetadata{Namespace: "ns1", Labels: map[string]string{"app": "app"}}},
			{Type: model.Router, ConfigNamespace: "istio-system", IPAddresses: []string{"10.10.0.2"}, ID: "gw.istio-system",
				Labels:   map[string]string{"istio": "ingressgateway"},
				Metadata: &model.NodeMetadata{Namespace: "istio-system", Labels: map[string]string{"istio": "ingressgateway"}}},
			{Type: model.Waypoint, ConfigNamespace: "ns1", IPAddresses: []string{"10.10.0.3"}, ID: "waypoint.ns1",
				Labels:   map[string]string{"gateway.istio.io/managed": "istio.io-mesh-controller"},
				Metadata: &model.NodeMetadata{Namespace: "ns1", Labels: map[string]string{"gateway.istio.io/managed": "istio.io-mesh-controller"}}},
		}
		for _, p := range proxies {
			p.Locality = w.locality
			if p.Locality == nil {
				p.Locality = &corev3.Locality{} // a connected proxy never has a nil locality (ads.go setTopologyLabels)
			}
			if w.dualStack {
				p.IPAddresses = append(p.IPAddresses, "fd00::"+p.IPAddresses[0][len(p.IPAddresses[0])-1:])
			}
			if w.dnsCapture {
				p.Metadata.DNSCapture = true
			}
		}
		for pi, p := range proxies {
			pid := baseID + 1 + 3*pi
			onePush(c, pid, srv, p, w)
		}
		closeFn()
	}
}

// chainKey is what Envoy requires to be unique among the filter chains of one listener: the filter_chain_match,
// or — when the listener selects chains with a filter_chain_matcher (waypoint main_internal) — the chain name.
func chainKey(l *listener.Listener, fc *listener.FilterChain) string {
	if l.FilterChainMatcher != nil {
		return "name:" + fc.Name
	}
	return dumpFCM(fc.FilterChainMatch)
}

func dumpFCM(m *listener.FilterChainMatch) string {
	if m == nil {
		return "<nil>"
	}
	b, _ := prototext.MarshalOptions{Multiline: false}.Marshal(m)
	// prototext output is deliberately unstable in whitespace; normalise
	return strings.Join(strings.Fields(string(b)), " ")
}

func onePush(c *vlib.Collector, pid int, srv *xdsfake.FakeDiscoveryServer, p0 *model.Proxy, w *world) {
	ptype := string(p0.Type)
	sample := map[string]any{"kind": "full push", "proxy": ptype, "objects": w.yamls, "rejected_by_admission": w.bypass,
		"features": sets.SortedList(sets.New(w.features...))}
	violate := func(kind, detail string) {
		c.Violate(vlib.Violation{ID: pid, Kind: kind, Detail: detail, Case: sample})
	}
	var clusters []*cluster.Cluster
	var clas []*endpoint.ClusterLoadAssignment
	var listeners []*listener.Listener
	var routes []*route.RouteConfiguration
	var edsReq, rdsReq, edsAns, rdsAns []string
	var p *model.Proxy
	unmarshal := func(res model.Resources, mk func() proto.Message) []proto.Message {
		out := make([]proto.Message, 0, len(res))
		for _, r := range res {
			m := mk()
			if err := r.GetResource().UnmarshalTo(m); err != nil {
				violate("unmarshal", fmt.Sprintf("%s: %v", r.Name, err))
				continue
			}
			out = append(out, m)
		}
		return out
	}
	pan, msg := recoverStack(func() {
		p = srv.SetupProxy(p0)
		if w.translate && p.Type == model.Router {
			p.ServiceTargets = routerServiceTargets()
			p.SetGatewaysForProxy(srv.PushContext())
		}
		res, err := generate(srv, p, v3.ClusterType, nil)
		if err != nil {
			violate("error", "CDS: "+err.Error())
		}
		for _, m := range unmarshal(res, func() proto.Message { return &cluster.Cluster{} }) {
			clusters = append(clusters, m.(*cluster.Cluster))
		}
		for _, cl := range clusters {
			if cl.GetType() == cluster.Cluster_EDS {
				n := cl.GetEdsClusterConfig().GetServiceName()
				if n == "" {
					n = cl.Name
				}
				edsReq = append(edsReq, n)
			}
		}
		edsReq = append(edsReq, "outbound|9999||unknown.nowhere.example", "not-a-cluster-name", "outbound|80|nosuch|a.example.com")
		edsReq = sets.SortedList(sets.New(edsReq...))
		res, err = generate(srv, p, v3.EndpointType, edsReq)
		if err != nil {
			violate("error", "EDS: "+err.Error())
		}
		for _, r := range res {
			edsAns = append(edsAns, r.Name)
		}
		for _, m := range unmarshal(res, func() proto.Message { return &endpoint.ClusterLoadAssignment{} }) {
			clas = append(clas, m.(*endpoint.ClusterLoadAssignment))
		}
		res, err = generate(srv, p, v3.ListenerType, nil)
		if err != nil {
			violate("error", "LDS: "+err.Error())
		}
		for _, m := range unmarshal(res, func() proto.Message { return &listener.Listener{} }) {
			listeners = append(listeners, m.(*listener.Listener))
		}
		rdsReq = append(rdsReq, xdstest.ExtractRoutesFromListeners(listeners)...)
		rdsReq = append(rdsReq, w.sniffed...)
		rdsReq = append(rdsReq, "9999", "unknown.nowhere.example:80", "no-such-route", "http.9999")
		rdsReq = sets.SortedList(sets.New(rdsReq...))
		res, err = generate(srv, p, v3.RouteType, rdsReq)
		if err != nil {
			violate("error", "RDS: "+err.Error())
		}
		for _, r := range res {
			rdsAns = append(rdsAns, r.Name)
		}
		for _, m := range unmarshal(res, func() proto.Message { return &route.RouteConfiguration{} }) {
			routes = append(routes, m.(*route.RouteConfiguration))
		}
	})
	if pan {
		if strings.Contains(msg, "index out of range") && strings.Contains(msg, "loadbalancer/loadbalancer.go") &&
			strings.Contains(msg, "cluster_traffic_policy.go") && sets.New(w.features...).Contains("dr-failover-priority") {
			// DNS cluster whose endpoints span several localities + failoverPriority (known finding)
			c.FindingOf[pid] = "C14-dns-cluster-failover-priority-panic"
		}
		violate("panic", msg)
		return
	}
	// protoc-gen-validate on every resource
	check := func(kind, name string, m validator) {
		if pan, msg := vlib.Recover(func() {
			if err := m.Validate(); err != nil {
				violate("validate", fmt.Sprintf("%s %s: %v", kind, name, err))
			}
		}); pan {
			violate("panic", "Validate "+kind+" "+name+": "+msg)
		}
	}
	for _, x := range clusters {
		check("cluster", x.Name, x)
	}
	for _, x := range clas {
		check("cla", x.ClusterName, x)
	}
	for _, x := range listeners {
		check("listener", x.Name, x)
	}
	for _, x := range routes {
		check("route", x.Name, x)
	}

	// projection
	names := &interner{m: map[string]int{}}
	doms := &interner{m: map[string]int{}}
	fcms := &interner{m: map[string]int{}}
	var weights []string
	wt := func(v, lo, hi uint64) { weights = append(weights, vlib.App("W", vlib.N(v), vlib.N(lo), vlib.N(hi))) }
	const maxU32 = 4294967295

	var lsT []string
	for _, l := range listeners {
		var ch []int
		for _, fc := range l.FilterChains {
			ch = append(ch, fcms.id(chainKey(l, fc)))
		}
		var rds []int
		for _, n := range xdstest.ExtractRoutesFromListeners([]*listener.Listener{l}) {
			rds = append(rds, names.id("r:"+n))
		}
		lsT = append(lsT, vlib.App("LS", vlib.NI(names.id("l:"+l.Name)), nlist(ch), nlist(rds)))
	}
	var clT []string
	for _, cl := range clusters {
		eds := "None"
		if cl.GetType() == cluster.Cluster_EDS {
			n := cl.GetEdsClusterConfig().GetServiceName()
			if n == "" {
				n = cl.Name
			}
			eds = "(Some " + vlib.NI(names.id("e:"+n)) + ")"
		}
		clT = append(clT, vlib.App("CL", vlib.NI(names.id("c:"+cl.Name)), eds))
	}
	var rcT []string
	for _, rc := range routes {
		var vhs []string
		for _, vh := range rc.VirtualHosts {
			var ds []int
			for _, d := range vh.Domains {
				ds = append(ds, doms.id(strings.ToLower(d)))
			}
			vhs = append(vhs, vlib.Pair(vlib.NI(doms.id("vhost-name:"+vh.Name)), nlist(ds)))
			for _, rt := range vh.Routes {
				if wc := rt.GetRoute().GetWeightedClusters(); wc != nil {
					var tot uint64
					for _, cw := range wc.Clusters {
						tot += uint64(cw.GetWeight().GetValue())
					}
					wt(tot, 1, maxU32) // Envoy: sum of weights must be > 0 and fit uint32
				}
			}
		}
		rcT = append(rcT, vlib.App("RC", vlib.NI(names.id("r:"+rc.Name)), vlib.List(vhs)))
	}
	var epT []int
	for _, n := range edsAns {
		epT = append(epT, names.id("e:"+n))
	}
	for _, cla := range clas {
		for _, le := range cla.Endpoints {
			var sum uint64
			for _, e := range le.LbEndpoints {
				v := uint64(1)
				if e.LoadBalancingWeight != nil {
					v = uint64(e.LoadBalancingWeight.Value)
					wt(v, 1, maxU32)
				}
				sum += v
			}
			if len(le.LbEndpoints) > 0 {
				wt(sum, 1, maxU32) // Envoy rejects a locality whose endpoint weights overflow uint32
			}
			if le.LoadBalancingWeight != nil {
				wt(uint64(le.LoadBalancingWeight.Value), 1, maxU32)
			}
		}
	}
	ids := func(pref string, xs []string) []int {
		out := make([]int, 0, len(xs))
		for _, x := range xs {
			out = append(out, names.id(pref+x))
		}
		return out
	}
	snap := vlib.App("Snap", vlib.List(lsT), vlib.List(clT), vlib.List(rcT), nlist(epT), nlist(ids("r:", rdsReq)), nlist(ids("e:", edsReq)), vlib.List(weights))
	feats := sets.SortedList(sets.New(w.features...))
	tags := []string{"push", "push:" + ptype}
	if len(w.bypass) > 0 {
		tags = append(tags, "push:admission-bypass")
	} else {
		tags = append(tags, "push:admission-valid")
	}
	for _, f := range feats {
		tags = append(tags, "world:"+f)
	}
	// human-readable diagnosis (NOT the oracle: prop_ok = the Coq checker on the term above)
	var diag []string
	dupOf := func(what string, xs []string) {
		seen := sets.New[string]()
		for _, x := range xs {
			if seen.InsertContains(x) {
				diag = append(diag, what+": "+x)
			}
		}
	}
	var lnames, cnames, rnames []string
	for _, l := range listeners {
		lnames = append(lnames, l.Name)
		firstKind := map[string]string{}
		for _, fc := range l.FilterChains {
			k := chainKey(l, fc)
			kind := "plain"
			if fc.TransportSocket != nil {
				kind = "tls-terminating"
			}
			if prev, dup := firstKind[k]; dup {
				ks := []string{prev, kind}
				sort.Strings(ks)
				diag = append(diag, "duplicate-filter-chain-match in listener "+l.Name+" ["+strings.Join(ks, "+")+"]: "+k)
			} else {
				firstKind[k] = kind
			}
		}
		for _, n := range xdstest.ExtractRoutesFromListeners([]*listener.Listener{l}) {
			if !sets.New(rdsAns...).Contains(n) {
				diag = append(diag, "rds-reference-unanswered: "+n)
			}
		}
	}
	for _, cl := range clusters {
		cnames = append(cnames, cl.Name)
	}
	for _, rc := range routes {
		rnames = append(rnames, rc.Name)
		var ds, vn []string
		for _, vh := range rc.VirtualHosts {
			vn = append(vn, vh.Name)
			for _, d := range vh.Domains {
				ds = append(ds, strings.ToLower(d))
			}
		}
		dupOf("duplicate-domain in route "+rc.Name, ds)
		dupOf("duplicate-vhost-name in route "+rc.Name, vn)
	}
	dupOf("duplicate-listener-name", lnames)
	dupOf("duplicate-cluster-name", cnames)
	dupOf("duplicate-route-name", rnames)
	dupOf("duplicate-endpoint-name", edsAns)
	for _, n := range rdsReq {
		if !sets.New(rdsAns...).Contains(n) {
			diag = append(diag, "rds-request-unanswered: "+n)
		}
	}
	for _, n := range edsReq {
		if !sets.New(edsAns...).Contains(n) {
			diag = append(diag, "eds-request-unanswered: "+n)
		}
	}
	for _, wts := range weights {
		var v, lo, hi uint64
		fmt.Sscanf(wts, "(W %d%%N %d%%N %d%%N)", &v, &lo, &hi)
		if v < lo || v > hi {
			diag = append(diag, fmt.Sprintf("weight-out-of-range: %d not in [%d,%d]", v, lo, hi))
		}
	}
	sample["diagnosis"] = diag
	if fid := findingFor(diag, w); fid != "" {
		c.FindingOf[pid] = fid
	}
	for _, d := range diag {
		tags = append(tags, "diag:"+strings.SplitN(d, ":", 2)[0][:strings.IndexAny(d+" ", " :")])
	}
	sample["counts"] = map[string]int{"clusters": len(clusters), "listeners": len(listeners), "routes": len(routes), "endpoints": len(clas)}
	sample["names"] = sortedKeys(names.m)
	sample["filter_chain_matches"] = sortedKeys(fcms.m)
	sample["domains"] = sortedKeys(doms.m)
	if c.Wanted(pid) {
		c.Add(vlib.Case{ID: pid, Term: vlib.App("Push", vlib.NI(pid), snap), Tags: tags, Sample: sample, Trivial: len(listeners)+len(clusters) < 4})
	}
	req := func(id int, what string, rq, ans []string, pref string) {
		if !c.Wanted(id) {
			return
		}
		c.Add(vlib.Case{ID: id, Term: vlib.App("Req", vlib.NI(id), nlist(ids(pref, rq)), nlist(ids(pref, ans))),
			Tags:   []string{"req", "req:" + what + ":" + ptype},
			Sample: map[string]any{"kind": what + " request incl. unknown names", "proxy": ptype, "requested": rq, "answered": ans, "objects": w.yamls}})
	}
	req(pid+1, "rds", rdsReq, rdsAns, "r:")
	req(pid+2, "eds", edsReq, edsAns, "e:")
}

// findingFor maps a failing push to a known finding only if EVERY diagnosed defect is explained by a known
// finding that applies to this world; anything else stays an unexplained violation.
func findingFor(diag []string, w *world) string {
	if len(diag) == 0 {
		return ""
	}
	feats := sets.New(w.features...)
	dupInput := feats.Contains("se-duplicate-port") || feats.Contains("dr-duplicate-subset")
	fid := ""
	for _, d := range diag {
		switch {
		case strings.HasPrefix(d, "weight-out-of-range: ") && feats.Contains("vs-odd-weight"):
			// admission-bypassing VirtualService weights (0, negative, huge): total 0 or wrapped above uint32
			if fid == "" {
				fid = "C14-unvalidated-route-weights"
			}
		case overflowsU32(d) && feats.Contains("endpoint-weight"):
			// a locality's endpoint weights (one of them 4294967295) sum above uint32
			if fid == "" {
				fid = "C14-endpoint-weight-sum-overflow"
			}
		case !dupInput && strings.HasPrefix(d, "duplicate-filter-chain-match in listener 0.0.0.0_") && strings.Contains(d, " [plain+plain]: server_names:\"outbound_.") &&
			feats.Contains("gw-server:TLS/AUTO_PASSTHROUGH"):
			// two AUTO_PASSTHROUGH servers on one port whose hosts overlap (e.g. "*" and "b.example.com")
			if fid == "" || fid == "C14-endpoint-weight-sum-overflow" {
				fid = "C14-autopassthrough-overlapping-server-hosts"
			}
		case strings.HasPrefix(d, "duplicate-filter-chain-match in listener 0.0.0.0_") && strings.Contains(d, " [tls-terminating+tls-terminating]: server_names:") &&
			(feats.Contains("gw-mixed-case-host") || feats.Contains("gw-ns-qualified-host")):
			// terminating servers whose hosts differ only in case or in a namespace prefix
			if fid == "" || fid == "C14-endpoint-weight-sum-overflow" {
				fid = "C14-gateway-tls-host-spelling-variants-collide"
			}
		case strings.HasPrefix(d, "duplicate-filter-chain-match in listener 0.0.0.0_") && strings.Contains(d, " [plain+tls-terminating]: server_names:") && feats.Contains("gw"):
			// an HTTPS (terminating) server and a passthrough TLS route claim the same SNI on one listener
			if fid == "" || fid == "C14-endpoint-weight-sum-overflow" {
				fid = "C14-gateway-https-vs-passthrough-sni-collision"
			}
		case strings.HasPrefix(d, "duplicate-filter-chain-match in listener 0.0.0.0_") && strings.HasSuffix(d, ": <nil>") && feats.Contains("gw"):
			if fid == "" || fid == "C14-endpoint-weight-sum-overflow" {
				fid = "C14-gateway-shared-port-duplicate-empty-match"
			}
		case dupInput && (strings.HasPrefix(d, "duplicate-cluster-name: outbound|") ||
			(strings.HasPrefix(d, "duplicate-filter-chain-match in listener 0.0.0.0_") && strings.Contains(d, "outbound_."))):
			fid = "C14-duplicate-port-or-subset-duplicate-resources"
		default:
			return ""
		}
	}
	return fid
}

func overflowsU32(d string) bool {
	var v uint64
	if _, err := fmt.Sscanf(d, "weight-out-of-range: %d not in", &v); err != nil {
		return false
	}
	return v > 4294967295
}

// recoverStack is vlib.Recover plus the innermost istio frames of the panic (for the violation detail).
func recoverStack(f func()) (panicked bool, msg string) {
	defer func() {
		if r := recover(); r != nil {
			panicked = true
			var fr []string
			for _, l := range strings.Split(string(debug.Stack()), "\n") {
				if strings.Contains(l, "istio.io/istio") && strings.Contains(l, ".go:") && !strings.Contains(l, "vlib") {
					fr = append(fr, strings.TrimSpace(l))
				}
				if len(fr) >= 6 {
					break
				}
			}
			msg = fmt.Sprint(r) + " @ " + strings.Join(fr, " <- ")
		}
	}()
	f()
	return
}
