//go:build verif

package c20

// Parser from iptables-restore text (as emitted by builder.BuildV4Restore/BuildV6Restore) to the
// model's rule AST, and the Gallina printers of the AST.

import (
	"fmt"
	"math/big"
	"net/netip"
	"strconv"
	"strings"

	"verif/harness/vlib"
)

type cidr struct {
	Base *big.Int
	HB   int // host bits
}

type mtch struct {
	K   string // constructor
	Neg bool
	N   uint64
	L   []uint64
	C   cidr
	P   string // proto
}

type rule struct {
	Table, Chain string
	Pos          int // 0 = append
	M            []mtch
	T            string // Gallina term of the target
	TText        string // target in iptables syntax (normalised)
	Text         string
}

var chainNames = map[string]bool{"PREROUTING": true, "OUTPUT": true, "ISTIO_OUTPUT": true, "ISTIO_OUTPUT_DNS": true,
	"ISTIO_INBOUND": true, "ISTIO_DIVERT": true, "ISTIO_TPROXY": true, "ISTIO_REDIRECT": true, "ISTIO_IN_REDIRECT": true, "ISTIO_DROP": true}

var otherChains = map[string]int{"INPUT": 1, "FORWARD": 2, "POSTROUTING": 3}

func chainTerm(s string) string {
	if chainNames[s] {
		return s
	}
	if n, ok := otherChains[s]; ok {
		return fmt.Sprintf("(COther %d%%N)", n)
	}
	return fmt.Sprintf("(COther %d%%N)", 100+len(s))
}

var tableTerm = map[string]string{"nat": "Tnat", "mangle": "Tmangle", "raw": "Traw", "filter": "Tfilter"}

// interning of interface and group names (deterministic, fixed pools)
var ifaceID = map[string]uint64{"lo": 0, "eth0": 1, "eth1": 2, "cni0": 3, "not-istio-nic": 4, "docker0": 5, "veth7": 6}
var ifaceName = []string{"lo", "eth0", "eth1", "cni0", "not-istio-nic", "docker0", "veth7"}
var ownerID = map[string]uint64{"java": 900001, "istio-proxy": 900002, "nobody": 900003}

func ownerStr(id uint64) string {
	for k, v := range ownerID {
		if v == id {
			return k
		}
	}
	return strconv.FormatUint(id, 10)
}

func parseOwner(s string) (uint64, error) {
	if v, ok := ownerID[s]; ok {
		return v, nil
	}
	return strconv.ParseUint(s, 10, 64)
}

func addrBig(a netip.Addr) *big.Int {
	b := a.AsSlice()
	return new(big.Int).SetBytes(b)
}

func parseCIDR(s string, six bool) (cidr, error) {
	p, err := netip.ParsePrefix(s)
	if err != nil {
		return cidr{}, err
	}
	if p.Addr().Is4() == six {
		return cidr{}, fmt.Errorf("address family of %q does not fit the %v restore input", s, map[bool]string{false: "IPv4", true: "IPv6"}[six])
	}
	w := 32
	if six {
		w = 128
	}
	return cidr{Base: addrBig(p.Addr()), HB: w - p.Bits()}, nil
}

func parsePorts(s string) ([]uint64, error) {
	var out []uint64
	for _, f := range strings.Split(s, ",") {
		v, err := strconv.ParseUint(f, 10, 32)
		if err != nil {
			return nil, err
		}
		out = append(out, v)
	}
	return out, nil
}

// parseRule parses one "-A ..." / "-I ..." line of table tbl.
func parseRule(tbl, line string, six bool) (rule, error) {
	tk := strings.Fields(line)
	r := rule{Table: tbl, Text: line}
	i := 0
	next := func() (string, error) {
		if i >= len(tk) {
			return "", fmt.Errorf("unexpected end of rule %q", line)
		}
		s := tk[i]
		i++
		return s, nil
	}
	op, err := next()
	if err != nil {
		return r, err
	}
	ch, err := next()
	if err != nil {
		return r, err
	}
	r.Chain = ch
	switch op {
	case "-A":
	case "-I":
		ps, err := next()
		if err != nil {
			return r, err
		}
		p, err := strconv.Atoi(ps)
		if err != nil || p < 1 {
			return r, fmt.Errorf("bad insert position in %q", line)
		}
		r.Pos = p
	default:
		return r, fmt.Errorf("unknown command %q in %q", op, line)
	}
	neg := false
	for i < len(tk) {
		t, _ := next()
		takeNeg := func() bool { n := neg; neg = false; return n }
		arg := func() (string, error) { return next() }
		switch t {
		case "!":
			if neg {
				return r, fmt.Errorf("double negation in %q", line)
			}
			neg = true
			continue
		case "-m":
			if neg {
				return r, fmt.Errorf("negated -m in %q", line)
			}
			if _, err := arg(); err != nil {
				return r, err
			}
		case "-p":
			a, err := arg()
			if err != nil {
				return r, err
			}
			if takeNeg() {
				return r, fmt.Errorf("negated -p unsupported in %q", line)
			}
			switch a {
			case "tcp":
				r.M = append(r.M, mtch{K: "MProto", P: "TCP"})
			case "udp":
				r.M = append(r.M, mtch{K: "MProto", P: "UDP"})
			default:
				return r, fmt.Errorf("unknown protocol %q in %q", a, line)
			}
		case "--dport", "--sport":
			a, err := arg()
			if err != nil {
				return r, err
			}
			v, err := strconv.ParseUint(a, 10, 32)
			if err != nil {
				return r, fmt.Errorf("bad port in %q", line)
			}
			n := takeNeg()
			if t == "--dport" {
				r.M = append(r.M, mtch{K: "MDport", Neg: n, N: v})
			} else {
				if n {
					return r, fmt.Errorf("negated --sport unsupported in %q", line)
				}
				r.M = append(r.M, mtch{K: "MSport", N: v})
			}
		case "--dports":
			a, err := arg()
			if err != nil {
				return r, err
			}
			l, err := parsePorts(a)
			if err != nil {
				return r, fmt.Errorf("bad ports in %q", line)
			}
			r.M = append(r.M, mtch{K: "MDports", Neg: takeNeg(), L: l})
		case "-s", "-d":
			a, err := arg()
			if err != nil {
				return r, err
			}
			c, err := parseCIDR(a, six)
			if err != nil {
				return r, fmt.Errorf("bad address in %q: %v", line, err)
			}
			n := takeNeg()
			if t == "-d" {
				r.M = append(r.M, mtch{K: "MDst", Neg: n, C: c})
			} else {
				if n {
					return r, fmt.Errorf("negated -s unsupported in %q", line)
				}
				r.M = append(r.M, mtch{K: "MSrc", C: c})
			}
		case "-i", "-o":
			a, err := arg()
			if err != nil {
				return r, err
			}
			if takeNeg() {
				return r, fmt.Errorf("negated interface unsupported in %q", line)
			}
			id, ok := ifaceID[a]
			if !ok {
				return r, fmt.Errorf("unknown interface %q in %q", a, line)
			}
			if t == "-i" {
				r.M = append(r.M, mtch{K: "MIn", N: id})
			} else {
				r.M = append(r.M, mtch{K: "MOut", N: id})
			}
		case "--uid-owner", "--gid-owner":
			a, err := arg()
			if err != nil {
				return r, err
			}
			v, err := parseOwner(a)
			if err != nil {
				return r, fmt.Errorf("bad owner in %q", line)
			}
			k := "MUid"
			if t == "--gid-owner" {
				k = "MGid"
			}
			r.M = append(r.M, mtch{K: k, Neg: takeNeg(), N: v})
		case "--mark":
			a, err := arg()
			if err != nil {
				return r, err
			}
			v, err := strconv.ParseUint(a, 10, 32)
			if err != nil {
				return r, fmt.Errorf("bad mark in %q", line)
			}
			// "-m mark [!] --mark" vs "-m connmark --mark": decided by the preceding -m module
			mod := lastModule(tk[:i-2])
			if mod == "connmark" {
				if takeNeg() {
					return r, fmt.Errorf("negated connmark unsupported in %q", line)
				}
				r.M = append(r.M, mtch{K: "MConnmark", N: v})
			} else if mod == "mark" {
				r.M = append(r.M, mtch{K: "MMark", Neg: takeNeg(), N: v})
			} else {
				return r, fmt.Errorf("--mark without module in %q", line)
			}
		case "--ctstate":
			a, err := arg()
			if err != nil {
				return r, err
			}
			if takeNeg() {
				return r, fmt.Errorf("negated ctstate unsupported in %q", line)
			}
			switch a {
			case "RELATED,ESTABLISHED":
				r.M = append(r.M, mtch{K: "MCtEst"})
			case "INVALID":
				r.M = append(r.M, mtch{K: "MCtInvalid"})
			default:
				return r, fmt.Errorf("unknown ctstate %q", a)
			}
		case "-j":
			if neg {
				return r, fmt.Errorf("negated -j in %q", line)
			}
			tg, err := arg()
			if err != nil {
				return r, err
			}
			rest := tk[i:]
			i = len(tk)
			r.TText = stripModules(strings.Join(append([]string{tg}, rest...), " "))
			num := func(flagNames ...string) (uint64, error) {
				if len(rest) != 2 {
					return 0, fmt.Errorf("bad target arguments in %q", line)
				}
				ok := false
				for _, f := range flagNames {
					ok = ok || rest[0] == f
				}
				if !ok {
					return 0, fmt.Errorf("bad target option %q in %q", rest[0], line)
				}
				return strconv.ParseUint(rest[1], 10, 32)
			}
			switch tg {
			case "RETURN", "ACCEPT", "DROP":
				if len(rest) != 0 {
					return r, fmt.Errorf("trailing tokens in %q", line)
				}
				r.T = map[string]string{"RETURN": "TReturn", "ACCEPT": "TAccept", "DROP": "TDrop"}[tg]
			case "REDIRECT":
				v, err := num("--to-ports", "--to-port")
				if err != nil {
					return r, err
				}
				r.T = fmt.Sprintf("(TRedirect %d%%N)", v)
			case "MARK":
				v, err := num("--set-mark")
				if err != nil {
					return r, err
				}
				r.T = fmt.Sprintf("(TSetMark %d%%N)", v)
			case "CT":
				v, err := num("--zone")
				if err != nil {
					return r, err
				}
				r.T = fmt.Sprintf("(TCtZone %d%%N)", v)
			case "CONNMARK":
				if len(rest) == 1 && rest[0] == "--save-mark" {
					r.T = "TConnSave"
				} else if len(rest) == 1 && rest[0] == "--restore-mark" {
					r.T = "TConnRestore"
				} else {
					return r, fmt.Errorf("bad CONNMARK in %q", line)
				}
			case "TPROXY":
				if len(rest) != 4 || rest[0] != "--tproxy-mark" || rest[2] != "--on-port" {
					return r, fmt.Errorf("bad TPROXY in %q", line)
				}
				ms := strings.TrimSuffix(rest[1], "/0xffffffff")
				if ms == rest[1] {
					return r, fmt.Errorf("TPROXY mark without full mask in %q", line)
				}
				m, err1 := strconv.ParseUint(ms, 10, 32)
				p, err2 := strconv.ParseUint(rest[3], 10, 32)
				if err1 != nil || err2 != nil {
					return r, fmt.Errorf("bad TPROXY numbers in %q", line)
				}
				r.T = fmt.Sprintf("(TTproxy %d%%N %d%%N)", m, p)
			default:
				if len(rest) != 0 {
					return r, fmt.Errorf("trailing tokens after jump in %q", line)
				}
				r.T = "(TJump " + chainTerm(tg) + ")"
			}
		default:
			return r, fmt.Errorf("unknown token %q in %q", t, line)
		}
		if neg {
			return r, fmt.Errorf("dangling negation in %q", line)
		}
	}
	if r.T == "" {
		return r, fmt.Errorf("rule without target: %q", line)
	}
	return r, nil
}

func lastModule(tk []string) string {
	for j := len(tk) - 2; j >= 0; j-- {
		if tk[j] == "-m" {
			return tk[j+1]
		}
	}
	return ""
}

// parseRestore parses one iptables-restore input.  Checks the framing ("* table" ... "COMMIT"),
// that every user chain used by a rule or a jump is declared with -N in its table.
func parseRestore(lines []string, six bool) ([]rule, error) {
	var out []rule
	tbl := ""
	declared := map[string]bool{}
	builtin := map[string]bool{"PREROUTING": true, "OUTPUT": true, "INPUT": true, "FORWARD": true, "POSTROUTING": true}
	for _, ln := range lines {
		ln = strings.TrimSpace(ln)
		if ln == "" {
			continue
		}
		switch {
		case strings.HasPrefix(ln, "*"):
			if tbl != "" {
				return nil, fmt.Errorf("table %q not committed", tbl)
			}
			tbl = strings.TrimSpace(ln[1:])
			if _, ok := tableTerm[tbl]; !ok {
				return nil, fmt.Errorf("unknown table %q", tbl)
			}
		case ln == "COMMIT":
			if tbl == "" {
				return nil, fmt.Errorf("COMMIT outside a table")
			}
			tbl = ""
		case strings.HasPrefix(ln, "-N "):
			if tbl == "" {
				return nil, fmt.Errorf("-N outside a table")
			}
			declared[tbl+":"+strings.TrimSpace(ln[3:])] = true
		default:
			if tbl == "" {
				return nil, fmt.Errorf("rule outside a table: %q", ln)
			}
			r, err := parseRule(tbl, ln, six)
			if err != nil {
				return nil, err
			}
			if !builtin[r.Chain] && !declared[tbl+":"+r.Chain] {
				return nil, fmt.Errorf("chain %s used before -N in table %s", r.Chain, tbl)
			}
			if strings.HasPrefix(r.T, "(TJump ") {
				tg := strings.TrimSuffix(strings.TrimPrefix(r.T, "(TJump "), ")")
				if chainNames[tg] && !builtin[tg] && !declared[tbl+":"+tg] {
					return nil, fmt.Errorf("jump to undeclared chain %s in table %s", tg, tbl)
				}
			}
			out = append(out, r)
		}
	}
	if tbl != "" {
		return nil, fmt.Errorf("table %q not committed", tbl)
	}
	return out, nil
}

// ---------------------------------------------------------------- Gallina printers

func bigN(b *big.Int) string { return b.String() + "%N" }

func cidrTerm(c cidr) string { return fmt.Sprintf("(C %s %d%%N)", bigN(c.Base), c.HB) }

func mtchTerm(m mtch) string {
	switch m.K {
	case "MProto":
		return "(MProto " + m.P + ")"
	case "MDport", "MUid", "MGid", "MMark":
		return fmt.Sprintf("(%s %s %d%%N)", m.K, vlib.B(m.Neg), m.N)
	case "MSport", "MIn", "MOut", "MConnmark":
		return fmt.Sprintf("(%s %d%%N)", m.K, m.N)
	case "MDports":
		return fmt.Sprintf("(MDports %s %s)", vlib.B(m.Neg), vlib.ListOf(m.L, vlib.N))
	case "MSrc":
		return "(MSrc " + cidrTerm(m.C) + ")"
	case "MDst":
		return fmt.Sprintf("(MDst %s %s)", vlib.B(m.Neg), cidrTerm(m.C))
	}
	return m.K
}

func ruleTerm(r rule) string {
	pos := "None"
	if r.Pos > 0 {
		pos = fmt.Sprintf("(Some %d%%N)", r.Pos)
	}
	return fmt.Sprintf("(R %s %s %s %s %s)", tableTerm[r.Table], chainTerm(r.Chain), pos, vlib.ListOf(r.M, mtchTerm), r.T)
}

// ruleText prints a parsed rule back in iptables syntax (round-trip self test of the glue:
// text -> AST -> text must reproduce the input up to "-m <module>" tokens and --to-port/--to-ports).
func ruleText(r rule, six bool) string {
	var b []string
	if r.Pos > 0 {
		b = append(b, "-I", r.Chain, strconv.Itoa(r.Pos))
	} else {
		b = append(b, "-A", r.Chain)
	}
	ng := func(n bool) {
		if n {
			b = append(b, "!")
		}
	}
	ct := func(c cidr) string {
		w := 4
		bits := 32
		if six {
			w, bits = 16, 128
		}
		buf := make([]byte, w)
		c.Base.FillBytes(buf)
		a, _ := netip.AddrFromSlice(buf)
		return fmt.Sprintf("%s/%d", a, bits-c.HB)
	}
	for _, m := range r.M {
		switch m.K {
		case "MProto":
			b = append(b, "-p", strings.ToLower(m.P))
		case "MDport":
			ng(m.Neg)
			b = append(b, "--dport", strconv.FormatUint(m.N, 10))
		case "MSport":
			b = append(b, "--sport", strconv.FormatUint(m.N, 10))
		case "MDports":
			ng(m.Neg)
			var ps []string
			for _, x := range m.L {
				ps = append(ps, strconv.FormatUint(x, 10))
			}
			b = append(b, "--dports", strings.Join(ps, ","))
		case "MSrc":
			b = append(b, "-s", ct(m.C))
		case "MDst":
			ng(m.Neg)
			b = append(b, "-d", ct(m.C))
		case "MIn":
			b = append(b, "-i", ifaceName[m.N])
		case "MOut":
			b = append(b, "-o", ifaceName[m.N])
		case "MUid":
			ng(m.Neg)
			b = append(b, "--uid-owner", ownerStr(m.N))
		case "MGid":
			ng(m.Neg)
			b = append(b, "--gid-owner", ownerStr(m.N))
		case "MMark":
			ng(m.Neg)
			b = append(b, "--mark", strconv.FormatUint(m.N, 10))
		case "MConnmark":
			b = append(b, "--mark", strconv.FormatUint(m.N, 10))
		case "MCtEst":
			b = append(b, "--ctstate", "RELATED,ESTABLISHED")
		case "MCtInvalid":
			b = append(b, "--ctstate", "INVALID")
		}
	}
	b = append(b, "-j", r.TText)
	return strings.Join(b, " ")
}

// stripModules removes "-m <module>" pairs and normalises --to-port.
func stripModules(line string) string {
	tk := strings.Fields(line)
	var out []string
	for i := 0; i < len(tk); i++ {
		if tk[i] == "-m" {
			i++
			continue
		}
		if tk[i] == "--to-port" {
			out = append(out, "--to-ports")
			continue
		}
		out = append(out, tk[i])
	}
	return strings.Join(out, " ")
}
