//go:build verif

// Package c20: correspondence + semantic oracle harness for property C20 (traffic-capture rules).
// Drives the real capture.IptablesConfigurator.Run through the package's DependenciesStub (wrapped
// only to keep the iptables-restore and ip6tables-restore inputs apart), parses the captured
// restore text into the model's rule AST and emits
//   Corr : config + parsed rules          (model_ok: equal to V.C20.Model.rules config)
//   Sem  : config + parsed nat rules + boundary packets (prop_ok: Coq evaluator on the REAL rules
//          agrees with the specification on every packet).
package c20

import (
	"bytes"
	"fmt"
	"io"
	"math/big"
	"net/netip"
	"sort"
	"strconv"
	"strings"
	"testing"

	"istio.io/istio/pkg/log"
	"istio.io/istio/tools/common/config"
	"istio.io/istio/tools/istio-iptables/pkg/capture"
	"istio.io/istio/tools/istio-iptables/pkg/constants"
	dep "istio.io/istio/tools/istio-iptables/pkg/dependencies"
	"verif/harness/vlib"
)

// ---------------------------------------------------------------- recording dependencies

type recDeps struct {
	stub   dep.DependenciesStub
	v4, v6 []string
	n4, n6 int
}

func (r *recDeps) Run(logger *log.Scope, quiet bool, cmd constants.IptablesCmd, iptVer *dep.IptablesVersion,
	stdin io.ReadSeeker, args ...string,
) (*bytes.Buffer, error) {
	if stdin != nil {
		b, _ := io.ReadAll(stdin)
		_, _ = stdin.Seek(0, io.SeekStart)
		lines := strings.Split(string(b), "\n")
		if iptVer != nil && iptVer.DetectedRestoreBinary == "ip6tables-restore" {
			r.v6 = append(r.v6, lines...)
			r.n6++
		} else {
			r.v4 = append(r.v4, lines...)
			r.n4++
		}
	}
	return r.stub.Run(logger, quiet, cmd, iptVer, stdin, args...)
}

func (r *recDeps) DetectIptablesVersion(ipV6 bool) (dep.IptablesVersion, error) {
	return r.stub.DetectIptablesVersion(ipV6)
}

// ---------------------------------------------------------------- model-level configuration

type pfx struct {
	V6   bool
	Addr *big.Int
	Len  int
}

type mcfg struct {
	ProxyPort, InPort, TunnelPort uint64
	UIDs, GIDs                    []uint64
	TProxy                        bool
	TMark                         uint64
	InInc                         int // 0 none, 1 star, 2 list
	InIncL, InExc                 []uint64
	OgStar                        bool
	OgInc, OgExc                  []uint64
	OutPInc, OutPExc              []uint64
	IncStar                       bool
	Inc                           []pfx
	ExcStar                       bool
	Exc                           []pfx
	Virt, Excl                    []uint64
	DNS, DNSAll                   bool
	DNS4, DNS6                    []*big.Int
	DropInvalid, V6               bool
	Loop4                         pfx
	Variant                       int // concretisation variant (separators, mode strings)
}

func u32(a, b, c, d int) *big.Int { return big.NewInt(int64(a)<<24 | int64(b)<<16 | int64(c)<<8 | int64(d)) }

func v6big(s string) *big.Int { return addrBig(netip.MustParseAddr(s)) }

func addrOf(b *big.Int, six bool) netip.Addr {
	w := 4
	if six {
		w = 16
	}
	buf := make([]byte, w)
	b.FillBytes(buf)
	a, _ := netip.AddrFromSlice(buf)
	return a
}

func (p pfx) String() string { return fmt.Sprintf("%s/%d", addrOf(p.Addr, p.V6), p.Len) }
func (p pfx) cidr() cidr {
	w := 32
	if p.V6 {
		w = 128
	}
	return cidr{Base: p.Addr, HB: w - p.Len}
}

func joinN(xs []uint64, variant int) string {
	var s []string
	for _, x := range xs {
		s = append(s, ownerStr(x))
	}
	return joinS(s, variant)
}

// joinS joins with "," and, depending on the variant, sprinkles empty elements that
// config.Split must drop.
func joinS(s []string, variant int) string {
	if len(s) == 0 {
		return ""
	}
	switch variant % 4 {
	case 1:
		return strings.Join(s, ",") + ","
	case 2:
		return "," + strings.Join(s, ",,")
	}
	return strings.Join(s, ",")
}

func ifNames(ids []uint64) []string {
	var s []string
	for _, i := range ids {
		s = append(s, ifaceName[i])
	}
	return s
}

func (m *mcfg) concrete() *config.Config {
	c := &config.Config{
		ProxyPort:               strconv.FormatUint(m.ProxyPort, 10),
		InboundCapturePort:      strconv.FormatUint(m.InPort, 10),
		InboundTunnelPort:       strconv.FormatUint(m.TunnelPort, 10),
		ProxyUID:                joinN(m.UIDs, m.Variant),
		ProxyGID:                joinN(m.GIDs, m.Variant+1),
		InboundTProxyMark:       strconv.FormatUint(m.TMark, 10),
		InboundTProxyRouteTable: "133",
		InboundPortsExclude:     joinN(m.InExc, m.Variant),
		OutboundPortsInclude:    joinN(m.OutPInc, m.Variant+2),
		OutboundPortsExclude:    joinN(m.OutPExc, m.Variant+1),
		RerouteVirtualInterfaces: joinS(ifNames(m.Virt), m.Variant),
		ExcludeInterfaces:       joinS(ifNames(m.Excl), m.Variant+1),
		RedirectDNS:             m.DNS,
		CaptureAllDNS:           m.DNSAll,
		DropInvalid:             m.DropInvalid,
		EnableIPv6:              m.V6,
		DualStack:               m.V6 && m.Variant%2 == 0,
		HostIPv4LoopbackCidr:    m.Loop4.String(),
	}
	if m.TProxy {
		c.InboundInterceptionMode = "TPROXY"
	} else {
		c.InboundInterceptionMode = []string{"REDIRECT", "", "tproxy", "NONE"}[m.Variant%4]
	}
	switch m.InInc {
	case 1:
		c.InboundPortsInclude = "*"
	case 2:
		c.InboundPortsInclude = joinN(m.InIncL, m.Variant)
		if len(m.InIncL) == 0 {
			c.InboundPortsInclude = ","
		}
	}
	if m.OgStar {
		c.OwnerGroupsInclude = "*"
		c.OwnerGroupsExclude = joinN(m.OgExc, m.Variant)
	} else {
		c.OwnerGroupsInclude = joinN(m.OgInc, m.Variant)
		c.OwnerGroupsExclude = joinN(m.OgExc, m.Variant) // ignored by the code unless include is "*"
	}
	ps := func(l []pfx) string {
		var s []string
		for _, p := range l {
			s = append(s, p.String())
		}
		return joinS(s, m.Variant+3)
	}
	if m.IncStar {
		c.OutboundIPRangesInclude = "*"
	} else {
		c.OutboundIPRangesInclude = ps(m.Inc)
	}
	if m.ExcStar {
		c.OutboundIPRangesExclude = "*"
	} else {
		c.OutboundIPRangesExclude = ps(m.Exc)
	}
	for _, a := range m.DNS4 {
		c.DNSServersV4 = append(c.DNSServersV4, addrOf(a, false).String())
	}
	for _, a := range m.DNS6 {
		c.DNSServersV6 = append(c.DNSServersV6, addrOf(a, true).String())
	}
	return c
}

// ---------------------------------------------------------------- Gallina printers of the config

func pfxTerm(p pfx) string { return fmt.Sprintf("(P %s %s %d%%N)", vlib.B(p.V6), bigN(p.Addr), p.Len) }
func nl(xs []uint64) string { return vlib.ListOf(xs, vlib.N) }
func bl(xs []*big.Int) string { return vlib.ListOf(xs, bigN) }

func (m *mcfg) term() string {
	sel := "PNone"
	switch m.InInc {
	case 1:
		sel = "PStar"
	case 2:
		sel = "(PList " + nl(m.InIncL) + ")"
	}
	ogInc := m.OgInc
	if m.OgStar {
		ogInc = nil
	}
	// positional constructor (field order of Record config in Model.v); much faster to elaborate
	// than record syntax
	return vlib.App("Build_config",
		vlib.N(m.ProxyPort), vlib.N(m.InPort), vlib.N(m.TunnelPort),
		nl(m.UIDs), nl(m.GIDs), vlib.B(m.TProxy), vlib.N(m.TMark),
		sel, nl(m.InExc),
		vlib.B(m.OgStar), nl(ogInc), nl(m.OgExc),
		nl(m.OutPInc), nl(m.OutPExc),
		vlib.B(m.IncStar), vlib.ListOf(m.Inc, pfxTerm),
		vlib.B(m.ExcStar), vlib.ListOf(m.Exc, pfxTerm),
		nl(m.Virt), nl(m.Excl),
		vlib.B(m.DNS), vlib.B(m.DNSAll), bl(m.DNS4), bl(m.DNS6),
		vlib.B(m.DropInvalid), vlib.B(m.V6),
		cidrTerm(m.Loop4.cidr()))
}

// ---------------------------------------------------------------- packets

type pkt struct {
	Proto        string
	Src, Dst     *big.Int
	Sport, Dport uint64
	In, Out      uint64
	UID, GID     uint64
	Mark, CMark  uint64
	Est, Inv     bool
}

func (p pkt) term() string {
	return vlib.App("Build_pkt", p.Proto, bigN(p.Src), bigN(p.Dst),
		vlib.N(p.Sport), vlib.N(p.Dport), vlib.N(p.In), vlib.N(p.Out),
		vlib.N(p.UID), vlib.N(p.GID), vlib.N(p.Mark), vlib.N(p.CMark),
		vlib.B(p.Est), vlib.B(p.Inv))
}

func (p pkt) json(six bool) map[string]any {
	return map[string]any{"proto": p.Proto, "src": addrOf(p.Src, six).String(), "dst": addrOf(p.Dst, six).String(),
		"sport": p.Sport, "dport": p.Dport, "in": ifName(p.In), "out": ifName(p.Out), "uid": ownerStr(p.UID), "gid": ownerStr(p.GID),
		"mark": p.Mark, "ct_established": p.Est, "ct_invalid": p.Inv}
}

func ifName(i uint64) string {
	if int(i) < len(ifaceName) {
		return ifaceName[i]
	}
	return "none"
}

const noIface = 99

// boundary values derived from the configuration for one family
type bounds struct {
	addrs  []*big.Int
	srcs   []*big.Int
	ports  []uint64
	uids   []uint64
	gids   []uint64
	outIfs []uint64
	inIfs  []uint64
}

func addU(xs []uint64, v ...uint64) []uint64 {
	for _, x := range v {
		dup := false
		for _, y := range xs {
			dup = dup || x == y
		}
		if !dup {
			xs = append(xs, x)
		}
	}
	return xs
}

func (m *mcfg) bounds(six bool, r *vlib.Rand) bounds {
	w := uint(32)
	if six {
		w = 128
	}
	max := new(big.Int).Sub(new(big.Int).Lsh(big.NewInt(1), w), big.NewInt(1))
	var b bounds
	seen := map[string]bool{}
	add := func(x *big.Int) {
		if x.Sign() < 0 || x.Cmp(max) > 0 || seen[x.String()] {
			return
		}
		seen[x.String()] = true
		b.addrs = append(b.addrs, x)
	}
	edge := func(c cidr) {
		sz := new(big.Int).Lsh(big.NewInt(1), uint(c.HB))
		lo := new(big.Int).Div(c.Base, sz)
		lo.Mul(lo, sz)
		hi := new(big.Int).Add(lo, sz)
		hi.Sub(hi, big.NewInt(1))
		add(lo)
		add(hi)
		add(new(big.Int).Sub(lo, big.NewInt(1)))
		add(new(big.Int).Add(hi, big.NewInt(1)))
		add(new(big.Int).Set(c.Base))
	}
	var pass cidr
	if six {
		edge(cidr{big.NewInt(1), 0})
		pass = cidr{big.NewInt(6), 0}
	} else {
		edge(m.Loop4.cidr())
		edge(cidr{u32(127, 0, 0, 1), 0})
		pass = cidr{u32(127, 0, 0, 6), 0}
	}
	edge(pass)
	for _, l := range [][]pfx{m.Inc, m.Exc} {
		for _, p := range l {
			if p.V6 == six {
				edge(p.cidr())
			}
		}
	}
	dnsl := m.DNS4
	if six {
		dnsl = m.DNS6
	}
	for _, a := range dnsl {
		edge(cidr{a, 0})
	}
	if six {
		add(v6big("2001:db8::77"))
		add(v6big("fd00::1234"))
	} else {
		add(u32(8, 8, 8, 8))
		add(u32(10, 1, 2, 3))
	}
	b.srcs = []*big.Int{pass.Base, new(big.Int).Add(pass.Base, big.NewInt(1)), b.addrs[len(b.addrs)-1]}
	for _, p := range append(append(append(append([]uint64{m.ProxyPort, m.InPort, m.TunnelPort, 53, 15053, 80}, m.OutPInc...), m.OutPExc...), m.InIncL...), m.InExc...) {
		b.ports = addU(b.ports, p)
		if r.Chance(50) {
			b.ports = addU(b.ports, p+1)
		}
		if r.Chance(50) && p > 1 {
			b.ports = addU(b.ports, p-1)
		}
	}
	b.uids = addU(append([]uint64{}, m.UIDs...), 1000, 0)
	b.gids = addU(append(append(append([]uint64{}, m.GIDs...), m.OgInc...), m.OgExc...), 1000, 2000)
	b.outIfs = addU(append([]uint64{0, 1}, m.Excl...), m.Virt...)
	b.inIfs = addU(append(append([]uint64{1, 0}, m.Virt...), m.Excl...), 6)
	return b
}

func (m *mcfg) genPackets(six bool, hook string, n int, r *vlib.Rand) []pkt {
	b := m.bounds(six, r)
	var out []pkt
	pick := func(xs []uint64) uint64 { return xs[r.Intn(len(xs))] }
	if hook == "PREROUTING" { // every named inbound port once as plain inbound TCP on eth0
		for _, d := range addU(append([]uint64{}, m.InIncL...), m.InExc...) {
			if len(out) < n/2 {
				out = append(out, pkt{Proto: "TCP", Src: b.srcs[len(b.srcs)-1], Dst: b.addrs[len(b.addrs)-1], Sport: 40000, Dport: d, In: 1, Out: noIface})
			}
		}
	}
	if hook == "OUTPUT" {
		// targeted: application TCP on eth0 for (address inside each excluded / included / loopback range)
		// x (each port-include, port-exclude port and 80); proxy-owned traffic to the same places on eth0 and lo
		var ins []*big.Int
		for _, l := range [][]pfx{m.Exc, m.Inc} {
			for _, q := range l {
				if q.V6 == six && len(ins) < 4 {
					ins = append(ins, q.cidr().Base)
				}
			}
		}
		ins = append(ins, b.addrs[0], b.addrs[len(b.addrs)-1])
		ports := addU(append(append([]uint64{}, m.OutPInc...), m.OutPExc...), 80)
		var tg []pkt
		for _, a := range ins {
			for _, d := range ports {
				tg = append(tg, pkt{Proto: "TCP", Src: b.srcs[len(b.srcs)-1], Dst: a, Sport: 40000, Dport: d, In: noIface, Out: 1, UID: 1000, GID: 1000})
			}
		}
		for _, a := range ins {
			if len(m.UIDs) > 0 {
				u := m.UIDs[r.Intn(len(m.UIDs))]
				tg = append(tg, pkt{Proto: "TCP", Src: b.srcs[len(b.srcs)-1], Dst: a, Sport: 40000, Dport: 80, In: noIface, Out: uint64(r.Intn(2)), UID: u, GID: 1000})
			}
			if len(m.GIDs) > 0 {
				g := m.GIDs[r.Intn(len(m.GIDs))]
				tg = append(tg, pkt{Proto: "TCP", Src: b.srcs[len(b.srcs)-1], Dst: a, Sport: 40000, Dport: 80, In: noIface, Out: uint64(r.Intn(2)), UID: 1000, GID: g})
			}
		}
		for len(tg) > n/2 { // keep a random half-budget subset
			k := r.Intn(len(tg))
			tg = append(tg[:k], tg[k+1:]...)
		}
		out = append(out, tg...)
	}
	for i := len(out); i < n; i++ {
		p := pkt{Proto: "TCP", Src: b.srcs[len(b.srcs)-1], Sport: 40000 + uint64(r.Intn(1000)), In: noIface, Out: noIface}
		switch x := r.Intn(10); {
		case x == 0:
			p.Proto = "POther"
		case x <= 2:
			p.Proto = "UDP"
		}
		p.Dst = b.addrs[r.Intn(len(b.addrs))]
		p.Dport = pick(b.ports)
		if hook == "OUTPUT" {
			p.Out = pick(b.outIfs)
			if r.Chance(45) {
				p.Out = 0
			}
			p.UID = pick(b.uids)
			p.GID = pick(b.gids)
			if r.Chance(45) { // an application packet: neither proxy uid nor proxy gid
				p.UID = 1000
				if r.Chance(70) {
					p.GID = 1000
				}
			}
			if r.Chance(25) {
				p.Src = b.srcs[r.Intn(len(b.srcs))]
			}
			if r.Chance(15) {
				p.Sport = 15053
			}
		} else {
			p.In = pick(b.inIfs)
			if r.Chance(40) {
				p.In = 1
			}
			p.UID, p.GID = 0, 0
			if r.Chance(30) {
				p.Src = b.srcs[r.Intn(len(b.srcs))]
			}
			if r.Chance(10) {
				p.Sport = 53
			}
		}
		out = append(out, p)
	}
	return out
}

// ---------------------------------------------------------------- configuration generator

func sample(r *vlib.Rand, pool []uint64, max int) []uint64 {
	n := r.Intn(max + 1)
	var out []uint64
	for i := 0; i < n; i++ {
		out = addU(out, pool[r.Intn(len(pool))])
	}
	return out
}

var v4pool = []pfx{
	{false, u32(10, 0, 0, 0), 8}, {false, u32(10, 0, 0, 5), 8}, {false, u32(10, 96, 0, 0), 12}, {false, u32(172, 16, 0, 0), 16},
	{false, u32(192, 168, 1, 0), 24}, {false, u32(192, 168, 1, 128), 25}, {false, u32(9, 9, 9, 9), 32}, {false, u32(1, 1, 0, 0), 16},
	{false, u32(0, 0, 0, 0), 0}, {false, u32(127, 1, 2, 3), 32}, {false, u32(127, 0, 0, 0), 8}, {false, u32(126, 0, 0, 0), 7},
	{false, u32(127, 0, 0, 1), 32}, {false, u32(128, 0, 0, 0), 1}, {false, u32(255, 255, 255, 255), 32}, {false, u32(100, 64, 0, 0), 10},
}

var v6pool = []pfx{
	{true, v6big("fd00::"), 8}, {true, v6big("fd00:10:96::"), 48}, {true, v6big("2001:db8::"), 32}, {true, v6big("2001:db8::5"), 64},
	{true, v6big("::1"), 128}, {true, v6big("::"), 0}, {true, v6big("2001:db8:1::1"), 128}, {true, v6big("fe80::"), 10},
	{true, v6big("::6"), 128}, {true, v6big("8000::"), 1}, {true, v6big("ffff:ffff:ffff:ffff:ffff:ffff:ffff:ffff"), 128},
}

func samplePfx(r *vlib.Rand, max int, v6 bool) []pfx {
	n := r.Intn(max + 1)
	var out []pfx
	for i := 0; i < n; i++ {
		var p pfx
		if v6 && r.Chance(45) {
			p = v6pool[r.Intn(len(v6pool))]
		} else {
			p = v4pool[r.Intn(len(v4pool))]
		}
		if r.Chance(15) && !p.V6 { // random v4 prefix
			l := r.Intn(33)
			p = pfx{false, new(big.Int).SetUint64(r.U64() & 0xffffffff), l}
		}
		out = append(out, p)
	}
	return out
}

var portPool = []uint64{22, 53, 80, 443, 3306, 8080, 8081, 9090, 15001, 15006, 15008, 15020, 15053, 15090, 31000, 32000, 65535, 1}
var uidPool = []uint64{1337, 0, 3, 4, 1338, 65534}
var gidPool = []uint64{1337, 1, 2, 0, 1338, 900002}
var groupPool = []uint64{900001, 202, 1000, 2000, 1337, 7}
var ifPool = []uint64{1, 2, 3, 4, 5, 0}
var loopPool = []pfx{{false, u32(127, 0, 0, 1), 32}, {false, u32(127, 0, 0, 1), 32}, {false, u32(127, 0, 0, 1), 8}, {false, u32(127, 0, 0, 0), 8}, {false, u32(127, 0, 0, 0), 16}, {false, u32(127, 0, 0, 1), 24}}

func genConfig(r *vlib.Rand) *mcfg {
	m := &mcfg{ProxyPort: 15001, InPort: 15006, TunnelPort: 15008, TMark: 1337, OgStar: true, Variant: r.Intn(12)}
	if r.Chance(25) {
		m.ProxyPort = vlib.Pick(r, []uint64{15001, 15002, 10001, 15006})
		m.InPort = vlib.Pick(r, []uint64{15006, 15007, 15001})
		m.TunnelPort = vlib.Pick(r, []uint64{15008, 15009, 53})
		m.TMark = vlib.Pick(r, []uint64{1337, 1338, 7})
	}
	switch r.Intn(6) {
	case 0:
		m.UIDs, m.GIDs = nil, nil
	case 1, 2:
		m.UIDs, m.GIDs = []uint64{1337}, []uint64{1337}
	default:
		m.UIDs, m.GIDs = sample(r, uidPool, 3), sample(r, gidPool, 3)
	}
	m.TProxy = r.Chance(25)
	m.InInc = r.Intn(3)
	if r.Chance(30) {
		m.InInc = 1
	}
	if m.InInc == 2 {
		m.InIncL = sample(r, portPool, 4)
	}
	m.InExc = sample(r, portPool, 3)
	if m.InInc == 2 { // the dedicated overlap stream covers include ∩ exclude ≠ ∅ (known finding)
		var ex []uint64
		for _, p := range m.InExc {
			hit := false
			for _, q := range m.InIncL {
				hit = hit || p == q
			}
			if !hit {
				ex = append(ex, p)
			}
		}
		m.InExc = ex
	}
	switch r.Intn(5) {
	case 0:
		m.OgStar, m.OgExc = true, sample(r, groupPool, 3)
	case 1:
		m.OgStar, m.OgInc = false, sample(r, groupPool, 3)
		if r.Chance(30) {
			m.OgExc = sample(r, groupPool, 2)
		}
	}
	if r.Chance(40) {
		m.OutPInc = sample(r, portPool, 3)
	}
	if r.Chance(40) {
		m.OutPExc = sample(r, portPool, 3)
	}
	m.V6 = r.Chance(50)
	switch r.Intn(4) {
	case 0:
		m.IncStar = true
	case 1:
	default:
		m.Inc = samplePfx(r, 4, m.V6 || r.Chance(20))
	}
	if r.Chance(50) {
		m.Exc = samplePfx(r, 3, m.V6 || r.Chance(20))
	}
	if r.Chance(25) {
		m.Virt = sample(r, ifPool[:5], 2)
	}
	if r.Chance(30) {
		m.Excl = sample(r, ifPool, 2)
	}
	if r.Chance(45) {
		m.DNS = true
		m.DNSAll = r.Chance(35)
		if r.Chance(75) {
			m.DNS4 = []*big.Int{vlib.Pick(r, []*big.Int{u32(127, 0, 0, 53), u32(10, 96, 0, 10), u32(8, 8, 8, 8)})}
			if r.Chance(30) {
				m.DNS4 = append(m.DNS4, u32(1, 1, 1, 1))
			}
		}
		if r.Chance(40) {
			m.DNS6 = []*big.Int{vlib.Pick(r, []*big.Int{v6big("fd00::10"), v6big("2001:db8::53"), v6big("::1")})}
		}
	} else if r.Chance(20) { // servers known but DNS capture off
		m.DNS4 = []*big.Int{u32(10, 96, 0, 10)}
		m.DNSAll = r.Chance(30)
	}
	m.DropInvalid = r.Chance(20)
	m.Loop4 = loopPool[r.Intn(len(loopPool))]
	return m
}

// ---------------------------------------------------------------- running the real code

type runResult struct {
	err    error
	v4, v6 []rule
	perr   error
	n4, n6 int
	raw4   []string
	raw6   []string
}

func runReal(c *config.Config) runResult {
	ext := &recDeps{}
	var res runResult
	ipt, err := capture.NewIptablesConfigurator(c, ext)
	if err != nil {
		res.err = err
		return res
	}
	res.err = ipt.Run()
	res.n4, res.n6 = ext.n4, ext.n6
	res.raw4, res.raw6 = ext.v4, ext.v6
	if res.v4, res.perr = parseRestore(ext.v4, false); res.perr != nil {
		return res
	}
	res.v6, res.perr = parseRestore(ext.v6, true)
	return res
}

func natOnly(rs []rule) []rule { return tableOnly(rs, "nat") }

func tableOnly(rs []rule, tbl string) []rule {
	var out []rule
	for _, r := range rs {
		if r.Table == tbl {
			out = append(out, r)
		}
	}
	return out
}

func texts(rs []rule) []string {
	var s []string
	for _, r := range rs {
		s = append(s, r.Table+": "+r.Text)
	}
	return s
}

func roundTrip(rs []rule, six bool) error {
	for _, r := range rs {
		want := stripModules(r.Text)
		got := ruleText(r, six)
		if got != want {
			return fmt.Errorf("glue round trip: %q printed back as %q", want, got)
		}
		r2, err := parseRule(r.Table, got+"", six)
		// module-less text is not parseable for --mark (needs its module), skip those
		if err == nil && ruleTerm(r2) != ruleTerm(r) {
			return fmt.Errorf("glue round trip: %q re-parses differently", got)
		}
	}
	return nil
}

func TestGen(t *testing.T) {
	for _, s := range log.Scopes() {
		s.SetOutputLevel(log.NoneLevel)
	}
	c := vlib.NewCollector("C20", "V.C20.Run")
	c.Rule = "configs: structured random capture configurations (ports, uid/gid lists, owner-group filters, CIDR lists from a pool with " +
		"unmasked/loopback/zero-length/host prefixes, interfaces, DNS flags+servers, REDIRECT/TPROXY, IPv6 on/off, loopback CIDR) concretised into " +
		"config.Config strings with separator variants; each is run through the real IptablesConfigurator.Run; Corr = parsed restore text vs model rules; " +
		"Sem = Coq evaluator on the REAL nat rules vs the specification on boundary packets (owners in/out of the proxy lists, every mentioned interface, " +
		"first/last/just-outside address of every mentioned CIDR, every named port and neighbours). non-trivial = config differs from the defaults in at least " +
		"one list or flag (always true for generated configs; the default config is the single trivial case)."
	rnd := vlib.NewRand(vlib.Seed() ^ 0xC20)
	id := 0
	nCfg := vlib.Scale(48, 700)
	nOut := vlib.Scale(36, 108)
	nPre := vlib.Scale(18, 54)
	chunk := 18

	emit := func(m *mcfg, kind string, finding string) {
		base := id
		id += 40 // fixed id budget per configuration keeps ids stable under replay filters
		sub := rnd.Sub()
		want := false
		for k := base + 1; k <= base+40; k++ {
			want = want || c.Wanted(k)
		}
		if !want {
			return
		}
		cc := m.concrete()
		var res runResult
		if pan, msg := vlib.Recover(func() { res = runReal(cc) }); pan {
			c.Violate(vlib.Violation{ID: base + 1, Kind: "panic", Detail: msg, Case: cc})
			return
		}
		tags := []string{"kind=" + kind, fmt.Sprintf("tproxy=%v", m.TProxy), fmt.Sprintf("v6=%v", m.V6), fmt.Sprintf("in_inc=%d", m.InInc),
			fmt.Sprintf("inc_star=%v", m.IncStar), fmt.Sprintf("dns=%v/all=%v", m.DNS, m.DNSAll), fmt.Sprintf("og_star=%v", m.OgStar)}
		if len(m.Virt) > 0 {
			tags = append(tags, "virt_ifs")
		}
		if len(m.Excl) > 0 {
			tags = append(tags, "excl_ifs")
		}
		if len(m.UIDs) > 1 || len(m.GIDs) > 1 {
			tags = append(tags, "multi_owner")
		}
		if len(m.UIDs)+len(m.GIDs) == 0 {
			tags = append(tags, "no_owner")
		}
		sampleCfg := map[string]any{"kind": kind, "config": cc}
		if res.perr != nil {
			c.Violate(vlib.Violation{ID: base + 1, Kind: "unparseable-rules", Detail: res.perr.Error(), Case: sampleCfg})
			return
		}
		if res.err != nil {
			if len(res.v4)+len(res.v6) > 0 {
				c.Violate(vlib.Violation{ID: base + 1, Kind: "rules-applied-despite-error", Detail: res.err.Error(), Case: sampleCfg})
				return
			}
			c.Add(vlib.Case{ID: base + 1, Term: vlib.App("Corr", vlib.NI(base+1), m.term(), "None"), Tags: append(tags, "run-error"),
				Sample: map[string]any{"kind": kind, "config": cc, "error": res.err.Error()}})
			return
		}
		if res.n4 != 1 || (m.V6 && res.n6 != 1) || (!m.V6 && res.n6 != 0) {
			c.Violate(vlib.Violation{ID: base + 1, Kind: "restore-calls", Detail: fmt.Sprintf("iptables-restore called %d times, ip6tables-restore %d times (EnableIPv6=%v)", res.n4, res.n6, m.V6), Case: sampleCfg})
			return
		}
		if err := roundTrip(res.v4, false); err != nil {
			c.Violate(vlib.Violation{ID: base + 1, Kind: "glue", Detail: err.Error(), Case: sampleCfg})
			return
		}
		if err := roundTrip(res.v6, true); err != nil {
			c.Violate(vlib.Violation{ID: base + 1, Kind: "glue", Detail: err.Error(), Case: sampleCfg})
			return
		}
		obs := "(Some " + vlib.Pair(vlib.ListOf(res.v4, ruleTerm), vlib.ListOf(res.v6, ruleTerm)) + ")"
		c.Add(vlib.Case{ID: base + 1, Term: vlib.App("Corr", vlib.NI(base+1), m.term(), obs), Tags: append(tags, "corr"),
			Sample: map[string]any{"kind": kind, "config": cc, "v4": res.raw4, "v6": res.raw6}, Trivial: kind == "default"})
		k := base + 1
		for _, six := range []bool{false, true} {
			if six && !m.V6 {
				continue
			}
			rs := natOnly(res.v4)
			if six {
				rs = natOnly(res.v6)
			}
			for _, hook := range []string{"OUTPUT", "PREROUTING", "mangle:PREROUTING"} {
				n := nOut
				if hook == "PREROUTING" {
					n = nPre
				}
				tbl := "Tnat"
				if hook == "mangle:PREROUTING" {
					if !m.TProxy && !m.DropInvalid {
						continue
					}
					hook, tbl, n = "PREROUTING", "Tmangle", nPre
					rs = tableOnly(res.v4, "mangle")
					if six {
						rs = tableOnly(res.v6, "mangle")
					}
				}
				pk := m.genPackets(six, hook, n, sub)
				if tbl == "Tmangle" {
					for i := range pk {
						pk[i].Mark = vlib.Pick(sub, []uint64{0, 0, m.TMark, 1338, 5})
						pk[i].Est = sub.Chance(35)
						pk[i].Inv = sub.Chance(20)
						if sub.Chance(35) {
							pk[i].In = 0
						}
						if sub.Chance(30) {
							if six {
								pk[i].Src = big.NewInt(6)
							} else {
								pk[i].Src = u32(127, 0, 0, 6)
							}
						}
					}
				}
				for i := 0; i < len(pk); i += chunk {
					j := i + chunk
					if j > len(pk) {
						j = len(pk)
					}
					k++
					if k > base+40 {
						break
					}
					var pj []any
					for _, p := range pk[i:j] {
						pj = append(pj, p.json(six))
					}
					if finding != "" && hook == "PREROUTING" && tbl == "Tnat" {
						c.FindingOf[k] = finding
					}
					c.Add(vlib.Case{ID: k, Term: vlib.App("Sem", vlib.NI(k), m.term(), tbl, vlib.B(six), hook, vlib.ListOf(rs, ruleTerm),
						vlib.ListOf(pk[i:j], func(p pkt) string { return p.term() })),
						Tags:   append(tags, "sem", "hook="+tbl+":"+hook, fmt.Sprintf("six=%v", six)),
						Sample: map[string]any{"kind": kind, "config": cc, "ipv6": six, "table": tbl, "hook": hook, "rules": texts(rs), "packets": pj},
						Trivial: kind == "default"})
				}
			}
		}
	}

	// 1. the default configuration and the package's own golden-test configurations' shapes
	def := &mcfg{ProxyPort: 15001, InPort: 15006, TunnelPort: 15008, TMark: 1337, OgStar: true, UIDs: []uint64{1337}, GIDs: []uint64{1337},
		Loop4: loopPool[0]}
	emit(def, "default", "")
	// 2. known finding: an explicit inbound include list makes the code ignore the exclude list
	for _, six := range []bool{false, true} {
		m := *def
		m.InInc, m.InIncL, m.InExc, m.V6 = 2, []uint64{80, 8080}, []uint64{8080}, six
		emit(&m, "inbound-include-exclude-overlap", "C20-inbound-exclude-ignored-with-explicit-include")
	}
	// 3. error stream: exclude "*" (Run must fail and apply nothing)
	{
		m := *def
		m.ExcStar = true
		emit(&m, "exclude-wildcard", "")
	}
	// 4. generated configurations
	for i := 0; i < nCfg; i++ {
		emit(genConfig(rnd.Sub()), "generated", "")
	}
	// 5. malformed stream: unparsable CIDR lists must make Run fail without applying anything
	bad := []string{"10.0.0.0/33", "foo", "1.2.3.4", "10.0.0.0/8,bar/8", "fd00::/129", "10.0.0.0/8;11.0.0.0/8", "*,10.0.0.0/8"}
	for i, s := range bad {
		id++
		if !c.Wanted(id) {
			continue
		}
		cc := def.concrete()
		if i%2 == 0 {
			cc.OutboundIPRangesInclude = s
		} else {
			cc.OutboundIPRangesExclude = s
		}
		var res runResult
		if pan, msg := vlib.Recover(func() { res = runReal(cc) }); pan {
			c.Violate(vlib.Violation{ID: id, Kind: "panic", Detail: msg, Case: cc})
			continue
		}
		c.Tag("malformed-cidr")
		if res.err == nil || len(res.raw4)+len(res.raw6) > 0 {
			c.Violate(vlib.Violation{ID: id, Kind: "malformed-accepted", Detail: fmt.Sprintf("Run accepted malformed CIDR list %q (err=%v, %d restore lines)", s, res.err, len(res.raw4)+len(res.raw6)), Case: cc})
		}
		c.Hyp("malformed CIDR list rejected before any rule is applied", 1)
	}
	_ = sort.Strings
	if err := c.Flush(); err != nil {
		t.Fatal(err)
	}
	t.Logf("C20: %d cases", c.Len())
}
