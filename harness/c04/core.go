//go:build verif

// Package c04: correspondence harness for property C04 (xDS request/ACK/NACK handling).
// Drives the real xds.ShouldRespond (Watcher = *model.Proxy), xds.Send, shouldRespondDelta,
// sendDelta and deltaWatchedResources (through /repo/pilot/pkg/xds/verif_export_c04.go) and prints
// what it observed as Gallina terms for coq/C04/Run.v.
package c04

import (
	"context"
	"errors"
	"fmt"
	"io"
	"sort"
	"strconv"
	"strings"

	discovery "github.com/envoyproxy/go-control-plane/envoy/service/discovery/v3"
	rpcstatus "google.golang.org/genproto/googleapis/rpc/status"
	"google.golang.org/grpc"
	grpccodes "google.golang.org/grpc/codes"
	grpcstatus "google.golang.org/grpc/status"

	"istio.io/istio/pilot/pkg/model"
	pxds "istio.io/istio/pilot/pkg/xds"
	v3 "istio.io/istio/pilot/pkg/xds/v3"
	"istio.io/istio/pkg/util/sets"
	"istio.io/istio/pkg/xds"
	"verif/harness/vlib"
)

// ---------------------------------------------------------------- universe

type xtype struct {
	URL  string
	Term string // Gallina term of Session.xds_type
	Tag  string
}

var types = []xtype{
	{v3.ClusterType, "CDS", "CDS"},
	{v3.EndpointType, "EDS", "EDS"},
	{v3.ListenerType, "LDS", "LDS"},
	{v3.RouteType, "RDS", "RDS"},
	{v3.SecretType, "SDS", "SDS"},
	{v3.ExtensionConfigurationType, "ECDS", "ECDS"},
	{v3.AddressType, "ADDR", "ADDR"},
	{v3.WorkloadType, "WORKLOAD", "WORKLOAD"},
	{v3.NameTableType, "(OTHER 1%N)", "NDS"},
	{"type.googleapis.com/verif.Unknown", "(OTHER 2%N)", "UNKNOWN"},
	{"", "(OTHER 3%N)", "EMPTYURL"},
	{v3.DebugType + "/syncz", "(DEBUG 1%N)", "DEBUG"},
}

const (
	tCDS = iota
	tEDS
	tLDS
	tRDS
	tSDS
	tECDS
	tADDR
	tWORKLOAD
	tNDS
	tUNKNOWN
	tEMPTY
	tDEBUG
)

func typeIndex(url string) int {
	for i, t := range types {
		if t.URL == url {
			return i
		}
	}
	return -1
}

// names: id 0 is "*"; 5 is the empty string (malformed stream only)
var nameStr = []string{"*", "a", "b", "c", "d", ""}

func nameID(s string) int {
	for i, n := range nameStr {
		if n == s {
			return i
		}
	}
	return -1
}

var errStr = []string{"", "e1", "e2"}

func errID(s string) int {
	for i, n := range errStr {
		if n == s {
			return i
		}
	}
	return -1
}

func nonceStr(n int) string {
	if n == 0 {
		return ""
	}
	return "n" + strconv.Itoa(n)
}

func nonceID(s string) int {
	if s == "" {
		return 0
	}
	if strings.HasPrefix(s, "n") {
		if v, err := strconv.Atoi(s[1:]); err == nil {
			return v
		}
	}
	return -1
}

func names(ids []int) []string {
	out := make([]string, len(ids))
	for i, n := range ids {
		out[i] = nameStr[n]
	}
	return out
}

// ---------------------------------------------------------------- ops

const (
	kReq = iota
	kDReq
	kSend
	kSendDelta
)

type Op struct {
	Kind   int   `json:"kind"` // kReq, kDReq, kSend, kSendDelta
	T      int   `json:"type"`
	Names  []int `json:"names,omitempty"`  // SotW resource_names
	Sub    []int `json:"sub,omitempty"`    // delta subscribe
	Unsub  []int `json:"unsub,omitempty"`  // delta unsubscribe
	Init   []int `json:"init,omitempty"`   // delta initial_resource_versions keys
	Nonce  int   `json:"nonce"`            // response_nonce of a request / nonce of a response
	Err    int   `json:"err"`              // -1 = no error_detail, else message id
	OK     bool  `json:"ok"`               // stream.Send succeeded
	HasNew bool  `json:"hasNew,omitempty"` // sendDelta newResourceNames != nil
	New    []int `json:"new,omitempty"`
}

type WR struct {
	Names     []int `json:"names"`
	Wildcard  bool  `json:"wildcard"`
	Sent      int   `json:"sent"`
	Acked     int   `json:"acked"`
	Always    bool  `json:"always"`
	LastError int   `json:"lastError"`
}

type Touched struct {
	T  int `json:"type"`
	WR *WR `json:"wr"`
}

type Step struct {
	Op      Op        `json:"op"`
	Crash   bool      `json:"crash,omitempty"`
	Panic   string    `json:"panic,omitempty"`
	Respond bool      `json:"respond"`
	Subs    []int     `json:"subscribed,omitempty"`
	Touched []Touched `json:"touched"`
}

// ---------------------------------------------------------------- fake streams

type sentMsg struct {
	URL   string
	Nonce string
	Names []string
}

type fakeStream struct {
	grpc.ServerStream
	fail bool
	sent int
	log  []sentMsg
	in   chan *discovery.DiscoveryRequest
	ctx  context.Context
}

func (f *fakeStream) Send(r *discovery.DiscoveryResponse) error {
	if f.fail {
		return errors.New("send failed")
	}
	f.sent++
	f.log = append(f.log, sentMsg{URL: r.TypeUrl, Nonce: r.Nonce})
	return nil
}
// Recv: without an input channel the stream has nothing to read; with one (stream family) it hands
// out the queued client messages, then io.EOF once the client closed, or Canceled when the context ends.
func (f *fakeStream) Recv() (*discovery.DiscoveryRequest, error) {
	if f.in == nil {
		return nil, errors.New("no recv")
	}
	select {
	case r, ok := <-f.in:
		if !ok {
			return nil, io.EOF
		}
		return r, nil
	case <-f.ctx.Done():
		return nil, grpcstatus.Error(grpccodes.Canceled, "context canceled")
	}
}

func (f *fakeStream) Context() context.Context {
	if f.ctx == nil {
		return context.Background()
	}
	return f.ctx
}

type fakeDeltaStream struct {
	grpc.ServerStream
	fail bool
	sent int
	log  []sentMsg
}

func (f *fakeDeltaStream) Send(r *discovery.DeltaDiscoveryResponse) error {
	if f.fail {
		return errors.New("send failed")
	}
	f.sent++
	m := sentMsg{URL: r.TypeUrl, Nonce: r.Nonce}
	for _, x := range r.Resources {
		m.Names = append(m.Names, x.Name)
	}
	f.log = append(f.log, m)
	return nil
}
func (f *fakeDeltaStream) Recv() (*discovery.DeltaDiscoveryRequest, error) {
	return nil, errors.New("no recv")
}

// ---------------------------------------------------------------- one connection of the real code

type env struct {
	proxy *model.Proxy
	con   *pxds.Connection
	st    *fakeStream
	dst   *fakeDeltaStream
	bad   []string // projection problems (strings the harness did not put there)
	// server-generated nonces (end-to-end runs) are interned here; ids continue after the harness's own
	ntab map[string]int
	nrev map[int]string
}

func (e *env) nid(s string) int {
	if id, ok := e.ntab[s]; ok {
		return id
	}
	return nonceID(s)
}

func (e *env) nstr(id int) string {
	if s, ok := e.nrev[id]; ok {
		return s
	}
	return nonceStr(id)
}

// intern gives a server-generated nonce the id 5000+k
func (e *env) intern(s string) int {
	if s == "" {
		return 0
	}
	if id, ok := e.ntab[s]; ok {
		return id
	}
	if e.ntab == nil {
		e.ntab, e.nrev = map[string]int{}, map[int]string{}
	}
	id := 5000 + len(e.ntab)
	e.ntab[s], e.nrev[id] = id, s
	return id
}

func newEnv() *env {
	e := &env{st: &fakeStream{}, dst: &fakeDeltaStream{}}
	e.proxy = &model.Proxy{ID: "p", WatchedResources: map[string]*model.WatchedResource{}}
	e.con = pxds.VerifC04NewConnection("con-1", e.proxy, e.st, e.dst)
	return e
}

func (e *env) idsOf(s sets.String) []int {
	out := []int{}
	for n := range s {
		id := nameID(n)
		if id < 0 {
			e.bad = append(e.bad, "unknown name "+strconv.Quote(n))
			continue
		}
		out = append(out, id)
	}
	sort.Ints(out)
	return out
}

func (e *env) wrOf(t int) *WR {
	w := e.proxy.WatchedResources[types[t].URL]
	if w == nil {
		return nil
	}
	r := &WR{Names: e.idsOf(w.ResourceNames), Wildcard: w.Wildcard, Sent: e.nid(w.NonceSent), Acked: e.nid(w.NonceAcked),
		Always: w.AlwaysRespond, LastError: errID(w.LastError)}
	if r.Sent < 0 || r.Acked < 0 || r.LastError < 0 {
		e.bad = append(e.bad, fmt.Sprintf("unknown nonce/error in %+v", *w))
	}
	return r
}

func errDetail(id int) *rpcstatus.Status {
	if id < 0 {
		return nil
	}
	return &rpcstatus.Status{Code: 13, Message: errStr[id]}
}

// exec runs one op against the real code.
func (e *env) exec(o Op) Step {
	s := Step{Op: o}
	url := types[o.T].URL
	panicked, msg := vlib.Recover(func() {
		switch o.Kind {
		case kReq:
			req := &discovery.DiscoveryRequest{TypeUrl: url, ResourceNames: names(o.Names), ResponseNonce: e.nstr(o.Nonce),
				ErrorDetail: errDetail(o.Err), VersionInfo: "v"}
			r, d := xds.ShouldRespond(e.proxy, e.con.ID(), req)
			s.Respond = r
			s.Subs = e.idsOf(d.Subscribed)
			if len(d.Unsubscribed) > 0 {
				e.bad = append(e.bad, "SotW ResourceDelta.Unsubscribed set")
			}
		case kDReq:
			req := &discovery.DeltaDiscoveryRequest{TypeUrl: url, ResourceNamesSubscribe: names(o.Sub),
				ResourceNamesUnsubscribe: names(o.Unsub), ResponseNonce: e.nstr(o.Nonce), ErrorDetail: errDetail(o.Err)}
			if len(o.Init) > 0 {
				req.InitialResourceVersions = map[string]string{}
				for _, n := range o.Init {
					req.InitialResourceVersions[nameStr[n]] = "v1"
				}
			}
			s.Respond = pxds.VerifC04ShouldRespondDelta(e.con, req)
		case kSend:
			e.st.fail = !o.OK
			err := xds.Send(e.con, &discovery.DiscoveryResponse{TypeUrl: url, Nonce: nonceStr(o.Nonce), VersionInfo: "v"})
			if (err == nil) != o.OK {
				e.bad = append(e.bad, "Send error does not follow the stream")
			}
		case kSendDelta:
			e.dst.fail = !o.OK
			var nn sets.String
			if o.HasNew {
				nn = sets.New(names(o.New)...)
			}
			err := pxds.VerifC04SendDelta(e.con, &discovery.DeltaDiscoveryResponse{TypeUrl: url, Nonce: nonceStr(o.Nonce)}, nn)
			if (err == nil) != o.OK {
				e.bad = append(e.bad, "sendDelta error does not follow the stream")
			}
		}
	})
	if panicked {
		s.Crash, s.Panic = true, msg
	}
	s.Touched = append(s.Touched, Touched{o.T, e.wrOf(o.T)})
	if o.T == tCDS {
		s.Touched = append(s.Touched, Touched{tEDS, e.wrOf(tEDS)})
	}
	return s
}

func (e *env) final() []Touched {
	var out []Touched
	for i := range types {
		if w := e.wrOf(i); w != nil {
			out = append(out, Touched{i, w})
		}
	}
	for url := range e.proxy.WatchedResources {
		if typeIndex(url) < 0 {
			e.bad = append(e.bad, "watch for unknown url "+url)
		}
	}
	return out
}

func (e *env) watch(t int) *model.WatchedResource { return e.proxy.WatchedResources[types[t].URL] }

// ---------------------------------------------------------------- Gallina printers

func nlist(ids []int) string { return vlib.ListOf(ids, vlib.NI) }

func optN(id int) string { return vlib.Opt(id >= 0, vlib.NI(id)) }

func opTerm(o Op) string {
	t := types[o.T].Term
	switch o.Kind {
	case kReq:
		return vlib.App("OReq", vlib.App("mkReq", t, nlist(o.Names), vlib.NI(o.Nonce), optN(o.Err)))
	case kDReq:
		return vlib.App("ODReq", vlib.App("mkDReq", t, nlist(o.Sub), nlist(o.Unsub), nlist(o.Init), vlib.NI(o.Nonce), optN(o.Err)))
	case kSend:
		return vlib.App("OSend", t, vlib.NI(o.Nonce), vlib.B(o.OK))
	default:
		return vlib.App("OSendDelta", t, vlib.NI(o.Nonce), vlib.B(o.OK), vlib.Opt(o.HasNew, nlist(o.New)))
	}
}

func wrTerm(w *WR) string {
	if w == nil {
		return "None"
	}
	return "(Some " + vlib.App("mkWr", nlist(w.Names), vlib.B(w.Wildcard), vlib.NI(w.Sent), vlib.NI(w.Acked), vlib.B(w.Always),
		vlib.NI(w.LastError)) + ")"
}

func touchedTerm(ts []Touched) string {
	return vlib.ListOf(ts, func(t Touched) string { return vlib.Pair(types[t.T].Term, wrTerm(t.WR)) })
}

func stepTerm(s Step) string {
	var out string
	switch {
	case s.Crash:
		out = "Crash"
	case s.Op.Kind == kSend || s.Op.Kind == kSendDelta:
		out = "Done"
	default:
		out = vlib.App("Resp", vlib.B(s.Respond), nlist(s.Subs))
	}
	return "(" + opTerm(s.Op) + ", " + out + ", " + touchedTerm(s.Touched) + ")"
}

type Expect struct {
	T int   `json:"type"`
	S []int `json:"S"`
}

func universeTerm() string {
	return vlib.ListOf(types, func(t xtype) string { return t.Term })
}

func seqTerm(id int, steps []Step, final []Touched, expect []Expect) string {
	return vlib.App("Seq", vlib.NI(id), vlib.ListOf(steps, stepTerm), universeTerm(), touchedTerm(final),
		vlib.ListOf(expect, func(x Expect) string { return vlib.Pair(types[x.T].Term, nlist(x.S)) }))
}
