//go:build verif

package c04

import (
	"context"
	"fmt"
	"time"

	core "github.com/envoyproxy/go-control-plane/envoy/config/core/v3"
	discovery "github.com/envoyproxy/go-control-plane/envoy/service/discovery/v3"

	pxds "istio.io/istio/pilot/pkg/xds"
	v3 "istio.io/istio/pilot/pkg/xds/v3"
	"istio.io/istio/pkg/xds"
	"verif/harness/vlib"
)

// Stream family: the REAL xds.Stream / xds.Receive loop (pkg/xds/server.go) over an in-memory stream.
// The ConnectionContext is a thin wrapper: Initialize marks the connection initialized (what
// initConnection does last), Process hands the request to the real processRequest of the bare server
// (stub generators), Push/Close only count.  A client message sequence starts with 0..2 istio-agent
// health probes (HealthInformation type URL), then the first ordinary request (with or without node
// information, known or unknown type URL), more requests, and ends with the client closing the stream.

type streamCtx struct {
	e           *e2eEnv
	initCalls   int
	initialized bool
	closed      int
	procs       []string // type tag of every processed request, in order
	procEarly   bool     // Process was called on a connection that was never initialized
}

func (c *streamCtx) XdsConnection() *xds.Connection { return c.e.con.XdsConnection() }
func (c *streamCtx) Watcher() xds.Watcher           { return c.e.proxy }
func (c *streamCtx) Initialize(node *core.Node) error {
	c.initCalls++
	c.initialized = true
	c.e.con.XdsConnection().MarkInitialized()
	return nil
}
func (c *streamCtx) Close() { c.closed++ }
func (c *streamCtx) Process(req *discovery.DiscoveryRequest) error {
	if !c.initialized {
		// in istiod con.proxy is still nil here: nil dereference in ShouldRespond, process down
		c.procEarly = true
	}
	if req.TypeUrl == v3.HealthInfoType {
		c.procs = append(c.procs, "HEALTH")
		return nil // handleWorkloadHealthcheck is outside C04
	}
	c.procs = append(c.procs, fmt.Sprintf("%s", types[typeIndexOr(req.TypeUrl)].Tag))
	return pxds.VerifC05ProcessRequest(c.e.srv, c.e.con, req)
}
func (c *streamCtx) Push(ev any) error { return nil }

func typeIndexOr(url string) int {
	if i := typeIndex(url); i >= 0 {
		return i
	}
	return tUNKNOWN
}

type SMsg struct {
	Kind  string `json:"kind"` // "health" | "req"
	T     int    `json:"type"`
	Names []int  `json:"names,omitempty"`
	Node  bool   `json:"node"` // carries node information
}

// streamStuck counts runs in which the loop under test had to be waited out; after two of them the
// family stops (every such run costs seconds, and two failing sequences are enough to report)
var streamStuck int

func (g *gen) streamRun(rnd *vlib.Rand, id int) {
	if streamStuck >= 2 {
		return
	}
	e := newE2E(false)
	ctx, cancel := context.WithCancel(context.Background())
	defer cancel()
	e.st.in = make(chan *discovery.DiscoveryRequest)
	e.st.ctx = ctx
	sc := &streamCtx{e: e}

	// ---- the client's messages
	var msgs []SMsg
	probes := rnd.Intn(3)
	if rnd.Chance(35) {
		probes = 0
	}
	for i := 0; i < probes; i++ {
		msgs = append(msgs, SMsg{Kind: "health", T: -1, Node: rnd.Bool()})
	}
	nodeOK := !rnd.Chance(12)
	firstT := vlib.Pick(rnd, []int{tCDS, tCDS, tEDS, tLDS, tRDS, tSDS, tUNKNOWN})
	first := SMsg{Kind: "req", T: firstT, Names: subset(rnd, 2), Node: nodeOK}
	if !xds.IsWildcardTypeURL(types[firstT].URL) && len(first.Names) == 0 {
		first.Names = []int{1}
	}
	msgs = append(msgs, first)
	for i, n := 0, rnd.Intn(4); i < n; i++ {
		if rnd.Chance(20) {
			msgs = append(msgs, SMsg{Kind: "health", T: -1})
			continue
		}
		t := vlib.Pick(rnd, []int{tCDS, tEDS, tLDS, tRDS, tUNKNOWN})
		m := SMsg{Kind: "req", T: t, Names: subset(rnd, 2)}
		if !xds.IsWildcardTypeURL(types[t].URL) && len(m.Names) == 0 {
			m.Names = []int{2}
		}
		msgs = append(msgs, m)
	}

	// ---- run the real loop; a panic is recorded, never allowed to kill the harness
	type result struct {
		err      error
		panicked bool
		msg      string
	}
	done := make(chan result, 1)
	go func() {
		var r result
		r.panicked, r.msg = vlib.Recover(func() { r.err = xds.Stream(sc) })
		done <- r
	}()
	stalled := false
	const patience = 2 * time.Second // only ever waited out when the loop under test is stuck
	for _, m := range msgs {
		req := &discovery.DiscoveryRequest{VersionInfo: "v"}
		if m.Kind == "health" {
			req.TypeUrl = v3.HealthInfoType
		} else {
			req.TypeUrl = types[m.T].URL
			req.ResourceNames = names(m.Names)
		}
		if m.Node {
			req.Node = &core.Node{Id: "sidecar~10.0.0.1~p.ns~ns.svc.cluster.local"}
		}
		select {
		case e.st.in <- req:
		case r := <-done:
			done <- r // the stream ended early (e.g. missing node information): stop feeding
			goto closed
		case <-time.After(patience):
			stalled = true
			streamStuck++
			goto closed
		}
	}
closed:
	close(e.st.in) // the client closes the stream
	var res result
	ended := true
	select {
	case res = <-done:
	case <-time.After(patience):
		streamStuck++
		// Receive is blocked handing a request to a loop that never started: end the RPC context,
		// which is what gRPC does when the client goes away
		cancel()
		select {
		case res = <-done:
		case <-time.After(patience):
			ended = false
		}
	}

	// ---- observations
	firstAnswered := false
	for _, m := range e.st.log {
		if m.URL == types[firstT].URL {
			firstAnswered = true
		}
	}
	hasGen := false
	for _, t := range e2eTypes {
		if t == firstT {
			hasGen = true
		}
	}
	tags := []string{"kind-stream", fmt.Sprintf("probes-%d", probes), "first-" + types[firstT].Tag}
	if !nodeOK {
		tags = append(tags, "missing-node")
	}
	if res.err != nil {
		tags = append(tags, "stream-error")
	}
	term := vlib.App("Strm", vlib.NI(id), vlib.NI(probes), vlib.B(nodeOK), vlib.B(hasGen), vlib.NI(len(msgs)),
		vlib.NI(sc.initCalls), vlib.NI(len(sc.procs)), vlib.B(firstAnswered), vlib.B(sc.procEarly), vlib.B(res.panicked),
		vlib.B(ended && !stalled), vlib.B(res.err != nil), vlib.NI(sc.closed))
	errS := ""
	if res.err != nil {
		errS = res.err.Error()
	}
	g.c.Add(vlib.Case{ID: id, Term: term, Tags: tags, Trivial: probes == 0 && nodeOK,
		Sample: map[string]any{"kind": "stream", "messages": msgs, "initCalls": sc.initCalls, "processed": sc.procs,
			"firstAnswered": firstAnswered, "processedBeforeInitialize": sc.procEarly, "panic": res.msg, "stalled": stalled,
			"ended": ended, "error": errS, "closeCalls": sc.closed}})
}
