//go:build verif

package c04

import (
	"sort"

	discovery "github.com/envoyproxy/go-control-plane/envoy/service/discovery/v3"
	"google.golang.org/protobuf/types/known/anypb"

	"istio.io/istio/pilot/pkg/model"
	pxds "istio.io/istio/pilot/pkg/xds"
	"istio.io/istio/pkg/xds"
	"verif/harness/vlib"
)

// End-to-end family: the real processRequest / processDeltaRequest on a bare connection of a bare
// DiscoveryServer (C05 shims) whose generator table holds stub generators.  This ties the glue around
// ShouldRespond: pushXds / pushDeltaXds (filtering by Delta.Subscribed, "nothing sent when the generator
// returns nil", nonce bookkeeping by Send / sendDelta, newResourceNames, forceEDSPush).

type genCall struct {
	t    int
	subs []int // req.Delta.Subscribed
}

type e2eEnv struct {
	*env
	srv   *pxds.DiscoveryServer
	genOK map[int]bool // per type: the stub returns resources (true) or nil (false)
	calls []genCall
	delta bool
}

type stubGen struct {
	e *e2eEnv
	t int
}

func (g *stubGen) Generate(proxy *model.Proxy, w *model.WatchedResource, req *model.PushRequest) (model.Resources, model.XdsLogDetails, error) {
	g.e.calls = append(g.e.calls, genCall{t: g.t, subs: g.e.idsOf(req.Delta.Subscribed)})
	if !g.e.genOK[g.t] {
		return nil, model.DefaultXdsLogDetails, nil
	}
	ns := make([]string, 0, len(w.ResourceNames))
	for n := range w.ResourceNames {
		ns = append(ns, n)
	}
	sort.Strings(ns)
	if len(ns) == 0 && xds.IsWildcardTypeURL(types[g.t].URL) {
		ns = []string{"c", "d"} // a wildcard subscription gets "everything"
	}
	res := make(model.Resources, 0, len(ns))
	for _, n := range ns {
		res = append(res, &discovery.Resource{Name: n, Resource: &anypb.Any{TypeUrl: types[g.t].URL}})
	}
	return res, model.DefaultXdsLogDetails, nil
}

var e2eTypes = []int{tCDS, tEDS, tLDS, tRDS, tSDS, tECDS, tNDS}

func newE2E(delta bool) *e2eEnv {
	e := &e2eEnv{genOK: map[int]bool{}, delta: delta}
	e.env = &env{st: &fakeStream{}, dst: &fakeDeltaStream{}}
	gens := map[string]model.XdsResourceGenerator{}
	for _, t := range e2eTypes {
		gens[types[t].URL] = &stubGen{e: e, t: t}
		e.genOK[t] = true
	}
	e.srv = pxds.VerifC05BareServer(&model.Environment{}, gens)
	pc := model.NewPushContext()
	pc.PushVersion = "pv1/"
	e.proxy = &model.Proxy{ID: "p", Type: model.SidecarProxy, Metadata: &model.NodeMetadata{},
		WatchedResources: map[string]*model.WatchedResource{}, LastPushContext: pc}
	if delta {
		e.con = pxds.VerifC05NewConnection(e.srv, "con-e2e", e.proxy, nil, e.dst)
	} else {
		e.con = pxds.VerifC05NewConnection(e.srv, "con-e2e", e.proxy, e.st, nil)
	}
	return e
}

type EStep struct {
	Kind    string    `json:"kind"` // "op", "proc", "dproc"
	Op      Op        `json:"op"`
	GenOK   bool      `json:"genOK"`
	N       int       `json:"n"`
	Gen     []int     `json:"gen,omitempty"`
	EdsOK   bool      `json:"edsOK"`
	NE      int       `json:"ne"`
	Crash   bool      `json:"crash,omitempty"`
	Panic   string    `json:"panic,omitempty"`
	Respond bool      `json:"respond"`
	Subs    []int     `json:"subscribed,omitempty"`
	Sent    bool      `json:"sent"`
	SentEDS bool      `json:"sentEDS"`
	Touched []Touched `json:"touched"`
}

// proc runs one client request through the real processRequest / processDeltaRequest.
func (e *e2eEnv) proc(o Op) EStep {
	s := EStep{Op: o, GenOK: e.genOK[o.T], EdsOK: e.genOK[tEDS]}
	url := types[o.T].URL
	e.calls = nil
	before := len(e.st.log) + len(e.dst.log)
	panicked, msg := vlib.Recover(func() {
		if e.delta {
			s.Kind = "dproc"
			req := &discovery.DeltaDiscoveryRequest{TypeUrl: url, ResourceNamesSubscribe: names(o.Sub),
				ResourceNamesUnsubscribe: names(o.Unsub), ResponseNonce: e.nstr(o.Nonce), ErrorDetail: errDetail(o.Err)}
			if len(o.Init) > 0 {
				req.InitialResourceVersions = map[string]string{}
				for _, n := range o.Init {
					req.InitialResourceVersions[nameStr[n]] = "v1"
				}
			}
			if err := pxds.VerifC05ProcessDeltaRequest(e.srv, e.con, req); err != nil {
				e.bad = append(e.bad, "processDeltaRequest: "+err.Error())
			}
		} else {
			s.Kind = "proc"
			req := &discovery.DiscoveryRequest{TypeUrl: url, ResourceNames: names(o.Names), ResponseNonce: e.nstr(o.Nonce),
				ErrorDetail: errDetail(o.Err), VersionInfo: "v"}
			if err := pxds.VerifC05ProcessRequest(e.srv, e.con, req); err != nil {
				e.bad = append(e.bad, "processRequest: "+err.Error())
			}
		}
	})
	if panicked {
		s.Crash, s.Panic = true, msg
	}
	for i, c := range e.calls {
		if i == 0 && c.t == o.T {
			s.Respond = true
			if !e.delta {
				s.Subs = c.subs
			}
		} else if !(e.delta && o.T == tCDS && c.t == tEDS) {
			e.bad = append(e.bad, "unexpected generator call for "+types[c.t].Tag)
		}
	}
	var sent []sentMsg
	if e.delta {
		sent = e.dst.log[len(e.dst.log)-(len(e.st.log)+len(e.dst.log)-before):]
	} else {
		sent = e.st.log[len(e.st.log)-(len(e.st.log)+len(e.dst.log)-before):]
	}
	for i, m := range sent {
		switch {
		case i == 0 && m.URL == url && !s.Sent && !(e.delta && o.T == tCDS && len(sent) == 1 && !e.genOK[tCDS]):
			s.Sent, s.N = true, e.intern(m.Nonce)
			for _, n := range m.Names {
				s.Gen = append(s.Gen, nameID(n))
			}
			sort.Ints(s.Gen)
		case e.delta && o.T == tCDS && m.URL == types[tEDS].URL && !s.SentEDS:
			s.SentEDS, s.NE = true, e.intern(m.Nonce)
		default:
			e.bad = append(e.bad, "unexpected response for "+m.URL)
		}
	}
	s.Touched = append(s.Touched, Touched{o.T, e.wrOf(o.T)})
	if o.T == tCDS {
		s.Touched = append(s.Touched, Touched{tEDS, e.wrOf(tEDS)})
	}
	return s
}

func estepTerm(s EStep) string {
	var eop, out string
	switch s.Kind {
	case "op":
		return "(" + vlib.App("EOp", opTerm(s.Op)) + ", " + func() string {
			if s.Crash {
				return "Crash"
			}
			return "Done"
		}() + ", false, false, " + touchedTerm(s.Touched) + ")"
	case "proc":
		o := s.Op
		eop = vlib.App("EProc", vlib.App("mkReq", types[o.T].Term, nlist(o.Names), vlib.NI(o.Nonce), optN(o.Err)), vlib.B(s.GenOK), vlib.NI(s.N))
	default:
		o := s.Op
		eop = vlib.App("EDProc", vlib.App("mkDReq", types[o.T].Term, nlist(o.Sub), nlist(o.Unsub), nlist(o.Init), vlib.NI(o.Nonce), optN(o.Err)),
			vlib.B(s.GenOK), vlib.NI(s.N), nlist(s.Gen), vlib.B(s.EdsOK), vlib.NI(s.NE))
	}
	if s.Crash {
		out = "Crash"
	} else {
		out = vlib.App("Resp", vlib.B(s.Respond), nlist(s.Subs))
	}
	return "(" + eop + ", " + out + ", " + vlib.B(s.Sent) + ", " + vlib.B(s.SentEDS) + ", " + touchedTerm(s.Touched) + ")"
}

// loopE2E replays the closed-loop schedule (reference client, FIFO channels, pushes) with every client
// request going through processRequest / processDeltaRequest; server pushes are xds.Send / sendDelta.
func (g *gen) loopE2E(rnd *vlib.Rand, id int, delta bool) {
	e := newE2E(delta)
	pools := [][]int{{tCDS, tEDS}, {tEDS}, {tRDS}, {tCDS, tEDS, tRDS}, {tLDS, tRDS}, {tSDS}, {tECDS, tCDS}, {tNDS}}
	pool := vlib.Pick(rnd, pools)
	S := map[int][]int{}
	cn := map[int]int{}
	started := map[int]bool{}
	lastNack := map[int]bool{}
	processed := map[int]bool{}
	noSend := map[int]bool{} // an answered request of this type was not followed by a response
	dropCh := false
	tags := map[string]bool{}
	var steps []EStep
	var c2s []Op
	var s2c []msg
	dead := false
	fresh := 0
	push := func(t int) {
		fresh++
		o := Op{Kind: kSend, T: t, Nonce: fresh, OK: true, Err: -1}
		if delta {
			o.Kind = kSendDelta
			if pxds.VerifC04ShouldSetWatchedResources(types[t].URL) {
				o.HasNew, o.New = true, subset(rnd, 3)
			}
		}
		tags["push"] = true
		st := e.exec(o)
		steps = append(steps, EStep{Kind: "op", Op: o, Crash: st.Crash, Panic: st.Panic, Touched: st.Touched})
		dead = dead || st.Crash
		s2c = append(s2c, msg{t: t, nonce: fresh})
	}
	process := func() {
		o := c2s[0]
		c2s = c2s[1:]
		e.genOK[o.T] = !rnd.Chance(8)
		e.genOK[tEDS] = e.genOK[tEDS] || o.T != tEDS
		tag := classify(e.env, o)
		tags[tag] = true
		tags["type-"+types[o.T].Tag] = true
		if tag == "dstale-with-changes" {
			dropCh = true
		}
		st := e.proc(o)
		steps = append(steps, st)
		dead = dead || st.Crash
		processed[o.T] = true
		lastNack[o.T] = o.Err >= 0
		if st.Respond {
			tags["respond"] = true
			if !st.Sent {
				noSend[o.T] = true
				tags["answered-nothing-sent"] = true
			}
		}
		if st.Sent {
			s2c = append(s2c, msg{t: o.T, nonce: st.N})
		}
		if st.SentEDS {
			tags["forced-eds-push"] = true
			s2c = append(s2c, msg{t: tEDS, nonce: st.NE})
		}
	}
	recv := func(nackPct int) {
		m := s2c[0]
		s2c = s2c[1:]
		cn[m.t] = m.nonce
		o := Op{Kind: kReq, T: m.t, Nonce: m.nonce, Err: -1}
		if delta {
			o.Kind = kDReq
		} else {
			o.Names = append([]int{}, S[m.t]...)
		}
		if rnd.Chance(nackPct) {
			o.Err = 1 + rnd.Intn(2)
		}
		c2s = append(c2s, o)
	}
	n := 6 + rnd.Intn(14)
	for i := 0; i < n && !dead; i++ {
		x := rnd.Intn(100)
		switch {
		case x < 30 || i == 0:
			t := vlib.Pick(rnd, pool)
			if delta {
				o := Op{Kind: kDReq, T: t, Err: -1}
				if !started[t] {
					o.Sub = shuffle(rnd, subset(rnd, 3))
					if rnd.Chance(25) {
						o.Init = subset(rnd, 2)
					}
					S[t] = applyClient(applyClient(nil, o.Init, nil), o.Sub, nil)
				} else {
					o.Sub = shuffle(rnd, subset(rnd, 2))
					o.Unsub = shuffle(rnd, subset(rnd, 2))
					S[t] = applyClient(S[t], o.Sub, o.Unsub)
				}
				c2s = append(c2s, o)
			} else {
				S[t] = shuffle(rnd, subset(rnd, 3))
				c2s = append(c2s, Op{Kind: kReq, T: t, Names: append([]int{}, S[t]...), Nonce: cn[t], Err: -1})
			}
			started[t] = true
		case x < 55:
			if len(s2c) > 0 {
				recv(15)
			}
		case x < 85:
			if len(c2s) > 0 {
				process()
			}
		default:
			t := vlib.Pick(rnd, pool)
			if e.watch(t) != nil {
				push(t)
			}
		}
	}
	rounds := 0
	for (len(c2s) > 0 || len(s2c) > 0) && !dead {
		rounds++
		if rounds > 200 {
			g.c.Violate(vlib.Violation{ID: id, Kind: "loop", Detail: "end-to-end closed loop did not quiesce without external causes", Case: steps})
			break
		}
		if len(c2s) > 0 {
			process()
		} else {
			recv(6)
		}
	}
	var expect []Expect
	if !dead && len(c2s) == 0 && len(s2c) == 0 {
		for _, t := range pool {
			if !started[t] || !processed[t] || lastNack[t] {
				continue
			}
			if delta && pxds.VerifC04ShouldSetWatchedResources(types[t].URL) {
				continue // the record is the generated names there
			}
			if !delta && noSend[t] {
				continue // outside the hypothesis of C04_record_matches_client_sotw_partial (K15)
			}
			s := applyClient(S[t], nil, nil)
			if delta {
				s = applyClient(S[t], nil, []int{0})
			}
			expect = append(expect, Expect{t, s})
			tags["record-checked"] = true
		}
	}
	_ = dropCh
	kind := "e2e-sotw-loop"
	if delta {
		kind = "e2e-delta-loop"
	}
	final := e.final()
	tl := []string{"kind-" + kind}
	for t := range tags {
		tl = append(tl, t)
	}
	sort.Strings(tl)
	if len(e.bad) > 0 {
		g.c.Violate(vlib.Violation{ID: id, Kind: "projection", Detail: vlib.List(e.bad), Case: steps})
	}
	term := vlib.App("E2E", vlib.NI(id), vlib.ListOf(steps, estepTerm), universeTerm(), touchedTerm(final),
		vlib.ListOf(expect, func(x Expect) string { return vlib.Pair(types[x.T].Term, nlist(x.S)) }))
	g.c.Add(vlib.Case{ID: id, Term: term, Tags: tl, Trivial: len(steps) < 3,
		Sample: map[string]any{"kind": kind, "steps": steps, "final": final, "expect": expect}})
}
