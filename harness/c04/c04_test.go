//go:build verif

package c04

import (
	"fmt"
	"sort"
	"strings"
	"testing"

	discovery "github.com/envoyproxy/go-control-plane/envoy/service/discovery/v3"

	"istio.io/istio/pilot/pkg/model"
	pxds "istio.io/istio/pilot/pkg/xds"
	istiolog "istio.io/istio/pkg/log"
	"istio.io/istio/pkg/util/sets"
	"istio.io/istio/pkg/xds"
	"verif/harness/vlib"
)

const (
	// shouldRespondDelta drops resource_names_subscribe/unsubscribe piggybacked on an ACK whose
	// nonce a server push made stale
	findK13 = "K13-delta-stale-ack-drops-piggybacked-subscription"
	// a request answered by ShouldRespond for which nothing is sent (generator returned nil) leaves
	// NonceSent empty; the next request, carrying the nonce the client still holds, is classified stale
	findK15 = "K15-answered-without-send-then-stale"
)

type gen struct {
	c    *vlib.Collector
	next int
}

func (g *gen) id() int { g.next++; return g.next - 1 }

// classify names the branch a request meets, judged on the real watch before the call
func classify(e *env, o Op) string {
	w := e.watch(o.T)
	switch o.Kind {
	case kSend:
		if !o.OK {
			return "send-fail"
		}
		return "send"
	case kSendDelta:
		if !o.OK {
			return "dsend-fail"
		}
		if o.HasNew {
			return "dsend-setnames"
		}
		return "dsend"
	case kReq:
		switch {
		case o.Err >= 0 && w == nil:
			return "nack-unwatched"
		case o.Err >= 0:
			return "nack"
		case len(o.Names) == 0 && !xds.IsWildcardTypeURL(types[o.T].URL):
			return "unsubscribe"
		case w == nil && o.Nonce != 0:
			return "reconnect"
		case o.Nonce == 0:
			return "first"
		case e.nstr(o.Nonce) != w.NonceSent:
			return "stale"
		case w.AlwaysRespond:
			return "forced"
		}
		cur := sets.New(names(o.Names)...)
		switch {
		case cur.Equals(w.ResourceNames):
			return "ack"
		case len(cur.Difference(w.ResourceNames)) > 0:
			return "sub-add"
		}
		return "sub-remove"
	default:
		switch {
		case o.Err >= 0 && w == nil:
			return "dnack-unwatched"
		case o.Err >= 0:
			return "dnack"
		case w == nil && len(o.Init) > 0:
			return "dreconnect"
		case w == nil:
			return "dfirst"
		case o.Nonce != 0 && e.nstr(o.Nonce) != w.NonceSent && len(o.Sub)+len(o.Unsub) > 0:
			return "dstale-with-changes"
		case o.Nonce != 0 && e.nstr(o.Nonce) != w.NonceSent:
			return "dstale"
		case o.Nonce == 0 && len(o.Sub)+len(o.Unsub)+len(o.Init) > 0:
			return "dspontaneous-change"
		case o.Nonce == 0:
			return "dspontaneous-empty"
		case len(o.Sub)+len(o.Unsub) > 0:
			return "dack-with-changes"
		case w.AlwaysRespond:
			return "dforced"
		}
		return "dack"
	}
}

var trivialTags = map[string]bool{"first": true, "send": true, "dfirst": true, "dsend": true}

type runner struct {
	e      *env
	steps  []Step
	tags   map[string]bool
	dead   bool
	dropCh bool // a delta request carrying changes met the stale branch
}

func newRunner() *runner { return &runner{e: newEnv(), tags: map[string]bool{}} }

func (r *runner) do(o Op) Step {
	tag := classify(r.e, o)
	r.tags[tag] = true
	r.tags["type-"+types[o.T].Tag] = true
	if tag == "dstale-with-changes" {
		r.dropCh = true
	}
	s := r.e.exec(o)
	if s.Crash {
		r.dead = true
	}
	if s.Respond {
		r.tags["respond"] = true
	}
	r.steps = append(r.steps, s)
	return s
}

func (g *gen) emit(id int, kind string, r *runner, expect []Expect, extraFinding string) {
	final := r.e.final()
	tags := []string{"kind-" + kind}
	trivial := true
	for t := range r.tags {
		tags = append(tags, t)
		if !trivialTags[t] && !strings.HasPrefix(t, "type-") && t != "respond" {
			trivial = false
		}
	}
	sort.Strings(tags)
	if r.dead {
		tags = append(tags, "crashed")
	}
	if extraFinding != "" {
		g.c.FindingOf[id] = extraFinding
	}
	if len(r.e.bad) > 0 {
		g.c.Violate(vlib.Violation{ID: id, Kind: "projection", Detail: fmt.Sprint(r.e.bad), Case: r.steps})
	}
	g.c.Add(vlib.Case{ID: id, Term: seqTerm(id, r.steps, final, expect), Tags: tags, Trivial: trivial,
		Sample: map[string]any{"kind": kind, "steps": r.steps, "final": final, "expect": expect}})
}

// ---------------------------------------------------------------- generators

func subset(rnd *vlib.Rand, max int) []int {
	out := []int{}
	for n := 1; n <= 4; n++ {
		if len(out) < max && rnd.Chance(40) {
			out = append(out, n)
		}
	}
	return out
}

func shuffle(rnd *vlib.Rand, xs []int) []int {
	for i := len(xs) - 1; i > 0; i-- {
		j := rnd.Intn(i + 1)
		xs[i], xs[j] = xs[j], xs[i]
	}
	return xs
}

var sotwPools = [][]int{{tCDS, tEDS}, {tCDS, tEDS, tRDS}, {tLDS, tRDS}, {tEDS}, {tRDS, tSDS}, {tCDS}, {tECDS, tLDS},
	{tNDS, tEDS}, {tUNKNOWN, tCDS, tEDS}, {tSDS}}

type nonceBook struct {
	fresh int
	sent  map[int][]int // per type, every nonce handed to a send
}

func (b *nonceBook) next() int { b.fresh++; return b.fresh }

// pickNonce: the response_nonce of a generated request: empty / current / stale / never sent
func (b *nonceBook) pickNonce(rnd *vlib.Rand, e *env, t int) int {
	w := e.watch(t)
	cur := 0
	if w != nil {
		cur = nonceID(w.NonceSent)
	}
	switch x := rnd.Intn(100); {
	case x < 15:
		return 0
	case x < 72:
		return cur
	case x < 92:
		if l := b.sent[t]; len(l) > 0 {
			return l[rnd.Intn(len(l))]
		}
		return 900 + rnd.Intn(3)
	default:
		return 900 + rnd.Intn(3)
	}
}

// randomSotw: mostly-valid SotW traffic on one connection
func (g *gen) randomSotw(rnd *vlib.Rand, id int, malformed bool) {
	r := newRunner()
	pool := vlib.Pick(rnd, sotwPools)
	if malformed {
		pool = []int{tCDS, tEDS, tRDS, tADDR, tEMPTY, tDEBUG, tUNKNOWN}
	}
	book := &nonceBook{sent: map[int][]int{}}
	last := map[int][]int{}
	n := 3 + rnd.Intn(10)
	for i := 0; i < n && !r.dead; i++ {
		t := vlib.Pick(rnd, pool)
		if rnd.Chance(28) {
			o := Op{Kind: kSend, T: t, Nonce: book.next(), OK: !rnd.Chance(12), Err: -1}
			if rnd.Chance(4) {
				o.Nonce = 0
			}
			if malformed && rnd.Chance(30) {
				o = Op{Kind: kSendDelta, T: t, Nonce: o.Nonce, OK: o.OK, Err: -1, HasNew: rnd.Bool(), New: subset(rnd, 2)}
			}
			if o.OK {
				book.sent[t] = append(book.sent[t], o.Nonce)
			}
			r.do(o)
			continue
		}
		o := Op{Kind: kReq, T: t, Err: -1, Nonce: book.pickNonce(rnd, r.e, t)}
		if prev, ok := last[t]; ok && rnd.Chance(45) {
			o.Names = append([]int{}, prev...)
		} else {
			o.Names = shuffle(rnd, subset(rnd, 3))
		}
		if rnd.Chance(4) && len(o.Names) > 0 {
			o.Names = append(o.Names, o.Names[0]) // duplicate
		}
		if malformed {
			if rnd.Chance(20) {
				o.Names = append(o.Names, 0) // "*" among names
			}
			if rnd.Chance(10) {
				o.Names = append(o.Names, 5) // empty name
			}
			if rnd.Chance(25) {
				o.Err = rnd.Intn(3)
			}
			if rnd.Chance(25) {
				o = Op{Kind: kDReq, T: t, Err: o.Err, Nonce: o.Nonce, Sub: o.Names, Unsub: subset(rnd, 2)}
			}
		} else if r.e.watch(t) != nil && rnd.Chance(12) {
			o.Err = 1 + rnd.Intn(2)
		}
		last[t] = o.Names
		r.do(o)
	}
	kind := "sotw-random"
	if malformed {
		kind = "malformed"
	}
	g.emit(id, kind, r, nil, "")
}

var deltaPools = [][]int{{tCDS, tEDS}, {tEDS, tRDS}, {tADDR}, {tADDR, tCDS}, {tWORKLOAD, tEDS}, {tLDS, tRDS, tECDS}, {tSDS},
	{tNDS, tEDS}, {tUNKNOWN, tEDS}, {tEDS}}

func (g *gen) randomDelta(rnd *vlib.Rand, id int, malformed bool) {
	r := newRunner()
	pool := vlib.Pick(rnd, deltaPools)
	if malformed {
		pool = []int{tCDS, tEDS, tADDR, tWORKLOAD, tEMPTY, tDEBUG}
	}
	book := &nonceBook{sent: map[int][]int{}}
	if malformed && rnd.Chance(40) {
		// an EDS watch armed by a SotW CDS initialisation on the same connection
		r.do(Op{Kind: kDReq, T: tEDS, Sub: shuffle(rnd, subset(rnd, 2)), Err: -1})
		n1 := book.next()
		r.do(Op{Kind: kSendDelta, T: tEDS, Nonce: n1, OK: true, Err: -1})
		book.sent[tEDS] = append(book.sent[tEDS], n1)
		r.do(Op{Kind: kReq, T: tCDS, Err: -1})
		pool = []int{tEDS, tEDS, tCDS}
	}
	n := 3 + rnd.Intn(10)
	for i := 0; i < n && !r.dead; i++ {
		t := vlib.Pick(rnd, pool)
		if rnd.Chance(28) {
			o := Op{Kind: kSendDelta, T: t, Nonce: book.next(), OK: !rnd.Chance(12), Err: -1}
			if pxds.VerifC04ShouldSetWatchedResources(types[t].URL) || (malformed && rnd.Chance(30)) {
				o.HasNew, o.New = true, subset(rnd, 3)
			}
			if rnd.Chance(3) {
				o.Nonce = 0
			}
			if o.OK {
				book.sent[t] = append(book.sent[t], o.Nonce)
			}
			r.do(o)
			continue
		}
		o := Op{Kind: kDReq, T: t, Err: -1, Nonce: book.pickNonce(rnd, r.e, t)}
		w := r.e.watch(t)
		ack := w != nil && o.Nonce != 0 && rnd.Chance(55)
		if !ack {
			o.Sub = shuffle(rnd, subset(rnd, 2))
			if rnd.Chance(50) {
				o.Unsub = shuffle(rnd, subset(rnd, 2))
			}
			if rnd.Chance(10) {
				o.Sub = append(o.Sub, 0)
			}
			if rnd.Chance(5) {
				o.Unsub = append(o.Unsub, 0)
			}
			if (w == nil && rnd.Chance(35)) || rnd.Chance(3) {
				o.Init = subset(rnd, 3)
			}
			if rnd.Chance(4) && len(o.Sub) > 0 {
				o.Sub = append(o.Sub, o.Sub[0])
			}
		}
		if malformed {
			if rnd.Chance(25) {
				o.Err = rnd.Intn(3)
			}
			if rnd.Chance(10) {
				o.Sub = append(o.Sub, 5)
			}
		} else if w != nil && o.Nonce != 0 && rnd.Chance(12) {
			o.Err = 1 + rnd.Intn(2)
		}
		r.do(o)
	}
	kind := "delta-random"
	if malformed {
		kind = "malformed"
	}
	g.emit(id, kind, r, nil, "")
}

// ---------------------------------------------------------------- closed loops

type msg struct {
	t     int
	nonce int
	op    Op
}

// loopSotw: reference SotW client (subscription S per type, last taken nonce per type), one FIFO
// per direction shared by all types (ADS), random schedule of client changes, client receives
// (ACK / NACK), server request processing and server pushes; then drained to quiescence.
func (g *gen) loopSotw(rnd *vlib.Rand, id int) {
	r := newRunner()
	pool := vlib.Pick(rnd, [][]int{{tCDS, tEDS}, {tEDS}, {tRDS}, {tCDS, tEDS, tRDS}, {tLDS, tRDS}, {tSDS}, {tECDS, tCDS}, {tNDS}})
	S := map[int][]int{}
	cn := map[int]int{}
	started := map[int]bool{}
	lastNack := map[int]bool{}
	processed := map[int]bool{}
	if rnd.Chance(25) { // reconnect: the client still holds nonces of an earlier stream
		for _, t := range pool {
			cn[t] = 800 + rnd.Intn(5)
		}
	}
	var c2s []Op
	var s2c []msg
	fresh := 0
	process := func() {
		o := c2s[0]
		c2s = c2s[1:]
		s := r.do(o)
		processed[o.T] = true
		lastNack[o.T] = o.Err >= 0
		if s.Respond && !r.dead {
			fresh++
			r.do(Op{Kind: kSend, T: o.T, Nonce: fresh, OK: true, Err: -1})
			s2c = append(s2c, msg{t: o.T, nonce: fresh})
		}
	}
	recv := func(nackPct int) {
		m := s2c[0]
		s2c = s2c[1:]
		cn[m.t] = m.nonce
		o := Op{Kind: kReq, T: m.t, Names: append([]int{}, S[m.t]...), Nonce: m.nonce, Err: -1}
		// the client may reject any response, also one for a type it has meanwhile unsubscribed from
		// (the NACK then meets no watch: the K14 path, repaired)
		if rnd.Chance(nackPct) {
			o.Err = 1 + rnd.Intn(2)
		}
		c2s = append(c2s, o)
	}
	n := 6 + rnd.Intn(14)
	for i := 0; i < n && !r.dead; i++ {
		x := rnd.Intn(100)
		switch {
		case x < 30 || i == 0:
			t := vlib.Pick(rnd, pool)
			S[t] = shuffle(rnd, subset(rnd, 3))
			started[t] = true
			c2s = append(c2s, Op{Kind: kReq, T: t, Names: append([]int{}, S[t]...), Nonce: cn[t], Err: -1})
		case x < 55:
			if len(s2c) > 0 {
				recv(18)
			}
		case x < 85:
			if len(c2s) > 0 {
				process()
			}
		default:
			t := vlib.Pick(rnd, pool)
			if r.e.watch(t) != nil {
				fresh++
				r.do(Op{Kind: kSend, T: t, Nonce: fresh, OK: true, Err: -1})
				s2c = append(s2c, msg{t: t, nonce: fresh})
			}
		}
	}
	// drain: no more external causes; the exchange must die out (no request/response loop)
	rounds := 0
	for (len(c2s) > 0 || len(s2c) > 0) && !r.dead {
		rounds++
		if rounds > 200 {
			g.c.Violate(vlib.Violation{ID: id, Kind: "loop", Detail: "closed loop did not quiesce without external causes", Case: r.steps})
			break
		}
		if len(c2s) > 0 {
			process()
		} else {
			recv(8)
		}
	}
	var expect []Expect
	if !r.dead && len(c2s) == 0 && len(s2c) == 0 {
		for _, t := range pool {
			if started[t] && processed[t] && !lastNack[t] {
				s := append([]int{}, S[t]...)
				sort.Ints(s)
				expect = append(expect, Expect{t, s})
				r.tags["record-checked"] = true
			}
		}
	}
	g.emit(id, "sotw-loop", r, expect, "")
}

func applyClient(S []int, sub, unsub []int) []int {
	m := map[int]bool{}
	for _, x := range S {
		m[x] = true
	}
	for _, x := range sub {
		m[x] = true
	}
	for _, x := range unsub {
		delete(m, x)
	}
	out := []int{}
	for x := range m {
		out = append(out, x)
	}
	sort.Ints(out)
	return out
}

// loopDelta: reference delta client.  piggyback=false: subscription changes only in spontaneous
// requests; piggyback=true: a change may ride on an ACK (as Envoy does).
func (g *gen) loopDelta(rnd *vlib.Rand, id int, piggyback bool) {
	r := newRunner()
	pool := vlib.Pick(rnd, [][]int{{tEDS}, {tRDS}, {tCDS, tEDS}, {tEDS, tRDS}, {tSDS}, {tECDS, tLDS}, {tEDS, tRDS, tCDS}})
	S := map[int][]int{}
	cn := map[int]int{}
	started := map[int]bool{}
	lastNack := map[int]bool{}
	processed := map[int]bool{}
	var c2s []Op
	var s2c []msg
	fresh := 0
	sendResp := func(t int) {
		fresh++
		o := Op{Kind: kSendDelta, T: t, Nonce: fresh, OK: true, Err: -1}
		if pxds.VerifC04ShouldSetWatchedResources(types[t].URL) {
			o.HasNew, o.New = true, subset(rnd, 3)
		}
		r.do(o)
		s2c = append(s2c, msg{t: t, nonce: fresh})
	}
	process := func() {
		o := c2s[0]
		c2s = c2s[1:]
		s := r.do(o)
		processed[o.T] = true
		lastNack[o.T] = o.Err >= 0
		if s.Respond && !r.dead {
			sendResp(o.T)
		}
	}
	recv := func(nackPct, changePct int) {
		m := s2c[0]
		s2c = s2c[1:]
		cn[m.t] = m.nonce
		o := Op{Kind: kDReq, T: m.t, Nonce: m.nonce, Err: -1}
		if rnd.Chance(nackPct) {
			o.Err = 1 + rnd.Intn(2)
		} else if piggyback && rnd.Chance(changePct) {
			o.Sub = shuffle(rnd, subset(rnd, 2))
			o.Unsub = shuffle(rnd, subset(rnd, 1))
			S[m.t] = applyClient(S[m.t], o.Sub, o.Unsub)
		}
		c2s = append(c2s, o)
	}
	n := 6 + rnd.Intn(14)
	for i := 0; i < n && !r.dead; i++ {
		x := rnd.Intn(100)
		switch {
		case x < 28 || i == 0:
			t := vlib.Pick(rnd, pool)
			o := Op{Kind: kDReq, T: t, Err: -1}
			if !started[t] {
				o.Sub = shuffle(rnd, subset(rnd, 3))
				if rnd.Chance(25) {
					o.Init = subset(rnd, 2)
				}
				if rnd.Chance(10) {
					o.Sub = append(o.Sub, 0)
				}
				o.Nonce = 0
				S[t] = applyClient(applyClient(nil, o.Init, nil), o.Sub, nil)
			} else {
				o.Sub = shuffle(rnd, subset(rnd, 2))
				o.Unsub = shuffle(rnd, subset(rnd, 2))
				S[t] = applyClient(S[t], o.Sub, o.Unsub)
			}
			started[t] = true
			c2s = append(c2s, o)
		case x < 55:
			if len(s2c) > 0 {
				recv(15, 45)
			}
		case x < 82:
			if len(c2s) > 0 {
				process()
			}
		default:
			t := vlib.Pick(rnd, pool)
			if r.e.watch(t) != nil {
				sendResp(t)
			}
		}
	}
	rounds := 0
	for (len(c2s) > 0 || len(s2c) > 0) && !r.dead {
		rounds++
		if rounds > 200 {
			g.c.Violate(vlib.Violation{ID: id, Kind: "loop", Detail: "delta closed loop did not quiesce without external causes", Case: r.steps})
			break
		}
		if len(c2s) > 0 {
			process()
		} else {
			recv(5, 0)
		}
	}
	var expect []Expect
	if !r.dead && len(c2s) == 0 && len(s2c) == 0 {
		for _, t := range pool {
			// for wildcard types sendDelta replaces the record by the generated names: no claim
			if started[t] && processed[t] && !lastNack[t] && !pxds.VerifC04ShouldSetWatchedResources(types[t].URL) {
				expect = append(expect, Expect{t, applyClient(S[t], nil, []int{0})})
				r.tags["record-checked"] = true
			}
		}
	}
	kind, finding := "delta-loop-spontaneous", ""
	if piggyback {
		kind = "delta-loop-piggyback"
		if r.dropCh {
			finding = findK13
		}
	}
	g.emit(id, kind, r, expect, finding)
}

// ---------------------------------------------------------------- fixed witnesses

func (g *gen) witness(id int, kind string, ops []Op, expect []Expect, finding string) {
	if !g.c.Wanted(id) {
		return
	}
	r := newRunner()
	for _, o := range ops {
		if r.dead {
			break
		}
		r.do(o)
	}
	g.emit(id, kind, r, expect, finding)
}

func (g *gen) witnesses() {
	no := -1
	// K14 (repaired in /repo a0e93fb), SotW: the very first message for a type is a NACK
	g.witness(g.id(), "witness-k14-sotw", []Op{{Kind: kReq, T: tCDS, Names: nil, Nonce: 1, Err: 1}}, nil, "")
	// K14, SotW: NACK after an unsubscribe deleted the watch
	g.witness(g.id(), "witness-k14-sotw-unsub", []Op{
		{Kind: kReq, T: tRDS, Names: []int{1}, Nonce: 0, Err: no},
		{Kind: kSend, T: tRDS, Nonce: 1, OK: true, Err: no},
		{Kind: kReq, T: tRDS, Names: nil, Nonce: 1, Err: no},
		{Kind: kReq, T: tRDS, Names: nil, Nonce: 1, Err: 2},
	}, nil, "")
	// K14, delta
	g.witness(g.id(), "witness-k14-delta", []Op{{Kind: kDReq, T: tEDS, Sub: []int{1}, Nonce: 3, Err: 0}}, nil, "")
	// K13 (the witness of C04_record_matches_client_delta_piggyback_refuted): subscribe {a}; answer n1;
	// push n2 overtakes the ACK of n1 that also subscribes b; ACK n2.  Client wants {a,b}.
	g.witness(g.id(), "witness-k13", []Op{
		{Kind: kDReq, T: tEDS, Sub: []int{1}, Nonce: 0, Err: no},
		{Kind: kSendDelta, T: tEDS, Nonce: 1, OK: true, Err: no},
		{Kind: kSendDelta, T: tEDS, Nonce: 2, OK: true, Err: no},
		{Kind: kDReq, T: tEDS, Sub: []int{2}, Nonce: 1, Err: no},
		{Kind: kDReq, T: tEDS, Nonce: 2, Err: no},
	}, []Expect{{tEDS, []int{1, 2}}}, findK13)
	// same exchange without the overtaking push: the piggybacked change is applied
	g.witness(g.id(), "witness-k13-norace", []Op{
		{Kind: kDReq, T: tEDS, Sub: []int{1}, Nonce: 0, Err: no},
		{Kind: kSendDelta, T: tEDS, Nonce: 1, OK: true, Err: no},
		{Kind: kDReq, T: tEDS, Sub: []int{2}, Nonce: 1, Err: no},
		{Kind: kSendDelta, T: tEDS, Nonce: 2, OK: true, Err: no},
		{Kind: kDReq, T: tEDS, Nonce: 2, Err: no},
	}, []Expect{{tEDS, []int{1, 2}}}, "")
	// warming: EDS watched and acked, CDS (re)initialised, the identical EDS request is answered once
	g.witness(g.id(), "witness-warming", []Op{
		{Kind: kReq, T: tEDS, Names: []int{1, 2}, Nonce: 0, Err: no},
		{Kind: kSend, T: tEDS, Nonce: 1, OK: true, Err: no},
		{Kind: kReq, T: tEDS, Names: []int{1, 2}, Nonce: 1, Err: no},
		{Kind: kReq, T: tCDS, Names: nil, Nonce: 0, Err: no},
		{Kind: kSend, T: tCDS, Nonce: 2, OK: true, Err: no},
		{Kind: kReq, T: tEDS, Names: []int{2, 1}, Nonce: 1, Err: no},
		{Kind: kReq, T: tEDS, Names: []int{1, 2}, Nonce: 1, Err: no},
	}, nil, "")
	// the warming flag on a connection that also speaks delta for EDS (non-conformant mix): the
	// forced answer of shouldRespondDelta is one-shot too
	g.witness(g.id(), "witness-delta-forced", []Op{
		{Kind: kDReq, T: tEDS, Sub: []int{1}, Nonce: 0, Err: no},
		{Kind: kSendDelta, T: tEDS, Nonce: 1, OK: true, Err: no},
		{Kind: kReq, T: tCDS, Names: nil, Nonce: 0, Err: no},
		{Kind: kDReq, T: tEDS, Nonce: 1, Err: no},
		{Kind: kDReq, T: tEDS, Nonce: 1, Err: no},
		{Kind: kReq, T: tCDS, Names: nil, Nonce: 0, Err: no},
		{Kind: kDReq, T: tEDS, Nonce: 0, Err: no},
		{Kind: kDReq, T: tEDS, Nonce: 0, Err: no},
	}, nil, "")
	// K15 (the witness of C04_record_matches_client_sotw_refuted), one stream, conformant client:
	// subscribe {a}, ACK, unsubscribe, re-subscribe {a} - answered but nothing sent (generator returned
	// nil) - then {a,b} with the nonce the client still holds: classified stale, never applied
	g.witness(g.id(), "witness-k15-respond-without-send", []Op{
		{Kind: kReq, T: tSDS, Names: []int{1}, Nonce: 0, Err: no},
		{Kind: kSend, T: tSDS, Nonce: 1, OK: true, Err: no},
		{Kind: kReq, T: tSDS, Names: []int{1}, Nonce: 1, Err: no},
		{Kind: kReq, T: tSDS, Names: nil, Nonce: 1, Err: no},
		{Kind: kReq, T: tSDS, Names: []int{1}, Nonce: 1, Err: no},
		{Kind: kReq, T: tSDS, Names: []int{1, 2}, Nonce: 1, Err: no},
	}, []Expect{{tSDS, []int{1, 2}}}, findK15)
	// same exchange, but the re-subscription is answered with a response: everything is applied
	g.witness(g.id(), "witness-k15-with-send", []Op{
		{Kind: kReq, T: tSDS, Names: []int{1}, Nonce: 0, Err: no},
		{Kind: kSend, T: tSDS, Nonce: 1, OK: true, Err: no},
		{Kind: kReq, T: tSDS, Names: []int{1}, Nonce: 1, Err: no},
		{Kind: kReq, T: tSDS, Names: nil, Nonce: 1, Err: no},
		{Kind: kReq, T: tSDS, Names: []int{1}, Nonce: 1, Err: no},
		{Kind: kSend, T: tSDS, Nonce: 2, OK: true, Err: no},
		{Kind: kReq, T: tSDS, Names: []int{1, 2}, Nonce: 2, Err: no},
	}, []Expect{{tSDS, []int{1, 2}}}, "")
}

// ---------------------------------------------------------------- tables and deltaWatchedResources

func (g *gen) tables() {
	for i, t := range types {
		id := g.id()
		if !g.c.Wanted(id) {
			continue
		}
		deps := model.WarmingDependencies(t.URL)
		depsEDS := len(deps) == 1 && deps[0] == types[tEDS].URL
		if len(deps) > 0 && !depsEDS {
			g.c.Violate(vlib.Violation{ID: id, Kind: "table", Detail: fmt.Sprintf("WarmingDependencies(%s) = %v is outside the model", t.URL, deps)})
		}
		debug := strings.HasPrefix(t.URL, "istio.io/debug")
		term := vlib.App("Table", vlib.NI(id), t.Term, vlib.B(xds.IsWildcardTypeURL(t.URL)), vlib.B(depsEDS),
			vlib.B(pxds.VerifC04RequiresResourceNamesModification(t.URL)), vlib.B(debug),
			vlib.B(pxds.VerifC04ShouldSetWatchedResources(t.URL)))
		g.c.Add(vlib.Case{ID: id, Term: term, Tags: []string{"kind-table", "type-" + t.Tag}, Trivial: i > 7,
			Sample: map[string]any{"kind": "table", "url": t.URL}})
	}
}

func (g *gen) dwr(rnd *vlib.Rand, id int) {
	ex := subset(rnd, 4)
	o := Op{Kind: kDReq, T: tEDS, Sub: shuffle(rnd, subset(rnd, 3)), Unsub: shuffle(rnd, subset(rnd, 2)), Err: -1}
	if rnd.Chance(30) {
		o.Init = subset(rnd, 3)
	}
	if rnd.Chance(25) {
		o.Sub = append(o.Sub, 0)
	}
	if rnd.Chance(15) {
		o.Unsub = append(o.Unsub, 0)
	}
	if rnd.Chance(10) && len(o.Sub) > 0 {
		o.Sub = append(o.Sub, o.Sub[0])
	}
	req := &discovery.DeltaDiscoveryRequest{ResourceNamesSubscribe: names(o.Sub), ResourceNamesUnsubscribe: names(o.Unsub)}
	if len(o.Init) > 0 {
		req.InitialResourceVersions = map[string]string{}
		for _, n := range o.Init {
			req.InitialResourceVersions[nameStr[n]] = "v"
		}
	}
	var existing sets.String
	if len(ex) > 0 || rnd.Bool() {
		existing = sets.New(names(ex)...)
	}
	e := newEnv()
	res, wc, ch := pxds.VerifC04DeltaWatchedResources(existing, req)
	term := vlib.App("Dwr", vlib.NI(id), nlist(ex),
		vlib.App("mkDReq", "EDS", nlist(o.Sub), nlist(o.Unsub), nlist(o.Init), "0%N", "None"),
		nlist(e.idsOf(res)), vlib.B(wc), vlib.B(ch))
	tags := []string{"kind-dwr"}
	if ch {
		tags = append(tags, "dwr-changed")
	}
	if wc {
		tags = append(tags, "dwr-wildcard")
	}
	g.c.Add(vlib.Case{ID: id, Term: term, Tags: tags, Trivial: !ch,
		Sample: map[string]any{"kind": "dwr", "existing": ex, "req": o, "res": e.idsOf(res), "wildcard": wc, "changed": ch}})
}

// ---------------------------------------------------------------- entry point

func TestGen(t *testing.T) {
	for _, s := range istiolog.Scopes() {
		s.SetOutputLevel(istiolog.NoneLevel)
	}
	c := vlib.NewCollector("C04", "V.C04.Run")
	c.Rule = "one case = one op sequence (3..30 ops) run on a fresh connection against the real ShouldRespond/Send/" +
		"shouldRespondDelta/sendDelta, every step recording (answer, Subscribed, resulting WatchedResource); streams: " +
		"sotw-random / delta-random (nonce in {empty,current,stale,never-sent}, names over {a,b,c,d}, error_detail, send " +
		"success/failure), sotw-loop / delta-loop-* (reference client + FIFO channels + pushes, random schedule, drained to " +
		"quiescence, client subscription compared with the server record), malformed (NACK anywhere, '*' and empty names, " +
		"duplicates, unknown/empty/debug type URLs, SotW and delta mixed), e2e-*-loop (the same closed loops through the real " +
		"processRequest/processDeltaRequest with stub generators that sometimes return nil), fixed witnesses, per-type tables, " +
		"deltaWatchedResources directly. A case is non-trivial when some step meets a branch other than first-request/send."
	g := &gen{c: c}
	root := vlib.NewRand(vlib.Seed() ^ 0xc04)

	g.witnesses()
	g.tables()

	run := func(n int, f func(rnd *vlib.Rand, id int)) {
		for i := 0; i < n; i++ {
			id := g.id()
			rnd := root.Sub()
			if !c.Wanted(id) {
				continue
			}
			f(rnd, id)
		}
	}
	run(vlib.Scale(600, 12000), func(rnd *vlib.Rand, id int) { g.randomSotw(rnd, id, false) })
	run(vlib.Scale(600, 12000), func(rnd *vlib.Rand, id int) { g.randomDelta(rnd, id, false) })
	run(vlib.Scale(150, 3000), func(rnd *vlib.Rand, id int) { g.randomSotw(rnd, id, true) })
	run(vlib.Scale(150, 3000), func(rnd *vlib.Rand, id int) { g.randomDelta(rnd, id, true) })
	run(vlib.Scale(450, 8000), func(rnd *vlib.Rand, id int) { g.loopSotw(rnd, id) })
	run(vlib.Scale(300, 5000), func(rnd *vlib.Rand, id int) { g.loopDelta(rnd, id, false) })
	run(vlib.Scale(300, 5000), func(rnd *vlib.Rand, id int) { g.loopDelta(rnd, id, true) })
	run(vlib.Scale(250, 4000), func(rnd *vlib.Rand, id int) { g.dwr(rnd, id) })
	run(vlib.Scale(180, 4000), func(rnd *vlib.Rand, id int) { g.loopE2E(rnd, id, false) })
	run(vlib.Scale(180, 4000), func(rnd *vlib.Rand, id int) { g.loopE2E(rnd, id, true) })
	run(vlib.Scale(120, 2000), func(rnd *vlib.Rand, id int) { g.streamRun(rnd, id) })

	if err := c.Flush(); err != nil {
		t.Fatal(err)
	}
	t.Logf("C04: %d cases", c.Len())
}
