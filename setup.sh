#!/bin/bash
# Offline setup: full Coq build (all theorems), harness go.mod, warm the Go build cache.
set -u
cd /verif
export GOFLAGS=-mod=mod GOPROXY=off GOSUMDB=off GOTOOLCHAIN=local
mkdir -p work evidence replays
./lib/gomod.sh
GO=go1.26.8; command -v $GO >/dev/null || GO=go
# tables first (if the translator exists)
if [ -f tools/tabgen/main.go ]; then
  (cd tools/tabgen && $GO run . -repo /repo -out /verif/coq/gen/Tables.v) || echo "tabgen failed (checks will report it)"
fi
python3 - <<'PY'
import sys; sys.path.insert(0,'/verif/lib')
import driver
driver.coq_project()
PY
(cd coq && timeout 3000 make -j16) || echo "coq build failed (checks will report it)"
# compile every harness package (no tests run) so that quick checks start warm
(cd harness && timeout 3000 $GO test -tags verif -trimpath -count=1 -run '^$' ./... 2>&1 | tail -30) || true
exit 0
