#!/usr/bin/env python3
"""Regenerate the machine-generated tables of DESIGN.md (between <!-- BEGIN x --> / <!-- END x --> markers)."""
import json, re, glob, os
V = os.path.dirname(os.path.dirname(os.path.abspath(__file__)))

def built():
    out = ['| id | property theorems (of which `_refuted` / `_partial`) | Coq lines | harness lines (Go) | cases in the last run (non-trivial) | what is NOT proved / only sampled (conf/Cxx.json "partial") |',
           '|---|---|---|---|---|---|']
    tot = [0, 0, 0]
    for i in range(1, 21):
        p = 'C%02d' % i
        src = open(f'{V}/coq/{p}/Props.v').read()
        thms = re.findall(r'^\s*(?:Theorem|Corollary)\s+(\w+)', src, re.M)
        ev = json.load(open(f'{V}/evidence/{p}.json'))
        conf = json.load(open(f'{V}/conf/{p}.json'))
        loc = sum(len(open(f).read().split('\n')) for f in glob.glob(f'{V}/coq/{p}/*.v'))
        hl = sum(len(open(f).read().split('\n')) for f in glob.glob(f'{V}/harness/{p.lower()}/*.go'))
        ref = [t for t in thms if t.endswith('_refuted')]
        par = [t for t in thms if '_partial' in t]
        part = (conf.get('partial') or '').replace('|', '/').replace('\n', ' ')
        if len(part) > 600:
            part = part[:600] + ' …'
        out.append(f"| {p} | {len(thms)} ({len(ref)} / {len(par)}) | {loc} | {hl} | {ev['coverage'].get('evaluations')} ({ev['coverage'].get('distinct_nontrivial')}, tier {ev['tier']}) | {part} |")
        tot[0] += len(thms); tot[1] += loc; tot[2] += hl
    out.append(f'| total | {tot[0]} | {tot[1]} | {tot[2]} | | |')
    return '\n'.join(out)

def seeds():
    r = json.load(open(f'{V}/seeded/results.json'))
    out = ['| seed | what the change is (from its meta.json) | first run of the checks | final | how it is caught / what was strengthened |', '|---|---|---|---|---|']
    def key(k):
        parts = k.split('-'); return (int(parts[0][1:]), 2 if 'r2' in parts else 1, int(parts[-1]))
    n = dict(caught=0, missed_then_caught=0, other=0)
    for k in sorted(r, key=key):
        v = r[k]
        meta = {}
        mp = f'{V}/seeded/{k}/meta.json'
        if os.path.exists(mp):
            try:
                meta = json.load(open(mp))
            except Exception:
                meta = {}
        summ = (meta.get('summary') or '').replace('|', '/').replace('\n', ' ')
        if len(summ) > 260:
            summ = summ[:260] + ' …'
        final = v.get('final', v['first'])
        by = v.get('by', '')
        out.append(f"| {k} | {summ} | {v['first']} | {final} (by {by}) | {v.get('how','')} |")
        if v['first'] == 'caught':
            n['caught'] += 1
        elif final == 'caught':
            n['missed_then_caught'] += 1
        else:
            n['other'] += 1
    out.append('')
    out.append(f"Totals: {len(r)} seeded changes; {n['caught']} caught by the checks as they were when the seed arrived; {n['missed_then_caught']} missed at first and caught after strengthening (generator, oracle or a new case family — never by loosening); {n['other']} still open.")
    return '\n'.join(out)

p = f'{V}/DESIGN.md'
s = open(p).read()
def findings():
    import re as _re
    rows_f, rows_k = [], []
    for line in open(f'{V}/known_findings.txt'):
        line = line.strip()
        m = _re.match(r'fixed:\s+property=(\w+)\s+(\w+)\s+(.*)', line)
        if m:
            d = m.group(3).replace('|', '/')
            rows_f.append(f"| {m.group(1)} | `fix:` {m.group(2)} | {d[:420]}{' …' if len(d) > 420 else ''} |")
            continue
        m = _re.match(r'finding:\s+property=(\w+)\s+id=(\S+)\s+(.*)', line)
        if m:
            d = m.group(3).replace('|', '/')
            rows_k.append(f"| {m.group(1)} | {m.group(2)} | {d[:420]}{' …' if len(d) > 420 else ''} |")
    out = [f'**Repaired in /repo ({len(rows_f)} `fixed:` entries; each is one minimal unguarded commit, the touched packages\' tests pass, and the model follows the repaired code — a recurrence is reported as a VIOLATION):**', '',
           '| property | commit | what failed |', '|---|---|---|'] + sorted(rows_f)
    out += ['', f'**Recorded as known findings ({len(rows_k)} entries; the check prints KNOWN-FINDING for exactly these and exits 0; anything else is a VIOLATION):**', '',
            '| property | finding id | what fails (minimal input) |', '|---|---|---|'] + sorted(rows_k)
    return '\n'.join(out)

for name, fn in (('BUILT', built), ('SEEDS', seeds), ('FINDINGS', findings)):
    b, e = f'<!-- BEGIN {name} -->', f'<!-- END {name} -->'
    if b in s:
        s = s[:s.index(b) + len(b)] + '\n' + fn() + '\n' + s[s.index(e):]
open(p, 'w').write(s)
print('ok')
