#!/bin/bash
# Derive <harness>/go.mod from <repo>/go.mod (same requires/replaces + replace istio => <repo>).
set -e
R=${1:-/repo}
H=${2:-/verif/harness}
tmp=$(mktemp)
sed -e 's#^module .*#module verif/harness#' $R/go.mod > $tmp
cat >> $tmp <<EOM

require istio.io/istio v0.0.0
replace istio.io/istio => $R
EOM
if ! cmp -s $tmp $H/go.mod 2>/dev/null; then cp $tmp $H/go.mod; fi
rm -f $tmp
if ! cmp -s $R/go.sum $H/go.sum 2>/dev/null; then cp $R/go.sum $H/go.sum; fi
