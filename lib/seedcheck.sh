#!/bin/bash
# seedcheck.sh <prop> <seed-dir> [pkgdir-for-demo] : confirm a seeded breaking change and run our check on it.
#  1. scratch worktree of /repo HEAD  2. demo passes without patch  3. apply patch; build; demo fails
#  4. existing tests of touched packages pass (without the demo)  5. VERIF_REPO=<wt> ./check <prop>
# Writes <seed-dir>/verify.log and prints a one-line summary.
set -u
P=$1; S=$(readlink -f $2)
export GOFLAGS=-mod=mod GOPROXY=off GOSUMDB=off GOTOOLCHAIN=local
GO=go1.26.8
WT=/tmp/wt-seedcheck-$P-$$
LOG=$S/verify.log
: > $LOG
git -C /repo worktree add -q $WT HEAD >>$LOG 2>&1 || { echo "worktree failed"; exit 2; }
H=$(python3 -c "import hashlib,sys;print(hashlib.sha256(sys.argv[1].encode()).hexdigest()[:8])" $WT)
trap 'git -C /repo worktree remove --force $WT >/dev/null 2>&1; rm -rf /verif/work/*-alt-$H /verif/work/harness-$H /verif/work/coq-$H 2>/dev/null' EXIT
# demo placement: header comment of demo_test.go names the package dir; allow override
PKG=${3:-$(grep -m1 -oE '(pilot|pkg|security|tools|cni|istioctl|operator)/[A-Za-z0-9_./-]+' $S/demo_test.go | head -1)}
PKG=${PKG%/}
[ -f "$WT/$PKG" ] && PKG=$(dirname $PKG)
DEMO=$WT/$PKG/zz_seed_demo_test.go
TESTRE=$(grep -oE 'func (Test[A-Za-z0-9_]+)' $S/demo_test.go | awk '{print $2}' | paste -sd'|')
echo "pkg=$PKG tests=$TESTRE" >>$LOG
cp $S/demo_test.go $DEMO
(cd $WT && $GO test -vet=off -count=1 -run "^($TESTRE)\$" ./$PKG/ ) >>$LOG 2>&1; R_CLEAN=$?
(cd $WT && git apply $S/patch.diff) >>$LOG 2>&1 || { echo "$P $(basename $S): patch does not apply"; exit 2; }
FILES=$(cd $WT && git diff --name-only | xargs -n1 dirname | sort -u)
(cd $WT && $GO test -vet=off -count=1 -run "^($TESTRE)\$" ./$PKG/ ) >>$LOG 2>&1; R_PATCHED=$?
rm -f $DEMO
R_EXIST=0
if [ -z "${SEEDCHECK_SKIP_EXISTING:-}" ]; then
for d in $FILES; do
  (cd $WT && timeout 2400 $GO test -vet=off -count=1 ./$d/ ) >>$LOG 2>&1 || R_EXIST=1
done
else R_EXIST=skipped; fi
(cd /verif && VERIF_REPO=$WT ./check $P) > $S/check.out 2>&1; R_CHECK=$?
cat $S/check.out >>$LOG
echo "$P $(basename $S): demo_clean_rc=$R_CLEAN demo_patched_rc=$R_PATCHED existing_tests_rc=$R_EXIST check_rc=$R_CHECK $(grep -c VIOLATION $S/check.out) violation-lines"
find ~/.cache/go-build -type f -mmin +240 -not -name trim.txt -not -name README -delete 2>/dev/null
