#!/usr/bin/env python3
import json, sys
pid, n = sys.argv[1], sys.argv[2]
wt = "/tmp/seedwt-%s" % pid
for l in open('/verif/properties.jsonl'):
    p = json.loads(l)
    if p['id'] == pid:
        s = open('/verif/lib/seed_prompt.txt').read()
        s = (s.replace('{WT}', wt).replace('{OUT}', '/tmp/seed-%s' % pid).replace('{ID}', pid).replace('{N}', n)
             .replace('{TITLE}', p['title']).replace('{STATEMENT}', p['statement'])
             .replace('{QUANT}', p['quantifier']['text']).replace('{FILES}', ', '.join(p['anchors']['files'])))
        print(s)
