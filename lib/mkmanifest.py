#!/usr/bin/env python3
"""Regenerate MANIFEST.json from conf.json (claimed properties) and properties.jsonl."""
import json, os, subprocess
V = os.path.dirname(os.path.dirname(os.path.abspath(__file__)))
import glob
conf = {os.path.basename(p)[:-5]: json.load(open(p)) for p in sorted(glob.glob(os.path.join(V, "conf", "C*.json")))}
props = [json.loads(l) for l in open(os.path.join(V, "properties.jsonl"))]
hooks = subprocess.run(["git", "-C", "/repo", "log", "--format=%h %s", "--grep=^verif hook"], capture_output=True, text=True).stdout.strip().split("\n")
checks, na = [], []
for p in props:
    i = p["id"]
    if i in conf and conf[i].get("ready") and not conf[i].get("unclaimed"):
        c = conf[i]
        checks.append(dict(
            property_id=i,
            quick_cmd="./check %s --tier quick" % i,
            thorough_cmd="./check %s --tier thorough" % i,
            evidence_file="/verif/evidence/%s.json" % i,
            replay_cmd_template="./check %s --replay {path}" % i,
            engine="coq-model+go-correspondence",
            level_claimed=dict(category="proof",
                               text=c.get("level_text", "Coq theorems over an executable model of the anchored code, for all inputs/histories the property quantifies over; the model is tied to /repo on every run by a differential correspondence check against the real functions and the property oracle is evaluated on the observed behaviour."),
                               design_ref="DESIGN.md section 6, " + i),
            level_note=c.get("level_note", "Trusted: Coq kernel + vm_compute, Go harness/generators/projections, verif export shims. " + (c.get("partial") or "")),
            technique=c.get("technique", "machine-checked proof in Coq (Rocq) of the model + differential correspondence check against the Go implementation"),
        ))
    else:
        na.append(dict(property_id=i, reason=(conf.get(i, {}).get("unclaimed") or "not claimed yet: model/theorems/correspondence for this property are still under construction in this development (no technique switch)")))
m = dict(
    version=1,
    setup_cmd="./setup.sh",
    hooks=dict(guard="verif", enable="go test -tags verif (files //go:build verif; harness module /verif/harness with replace istio.io/istio => /repo)",
               baseline_off_cmd="cd /repo && if command -v go1.26.8 >/dev/null; then GOTOOLCHAIN=local go1.26.8 test -mod=mod -vet=off -count=1 -timeout 25m ./...; else go test -mod=mod -vet=off -count=1 -timeout 25m ./...; fi",
               source_commits=[h for h in hooks if h], add_only=True),
    engines=[dict(name="coq-model+go-correspondence", path="/verif/check",
                  serves_properties=[c["property_id"] for c in checks],
                  kind_free_text="Coq 8.16 theorems (coq/Cxx/Props.v) over executable Gallina models; Go harness runs the real code, cases evaluated in Coq by vm_compute; tools/tabgen regenerates code tables into Coq each run")],
    checks=checks,
    notes="See DESIGN.md. Exit 0 held / 1 violation / 2 framework failure. known_findings.txt lists genuine defects recorded or fixed.",
    not_applicable=na,
)
json.dump(m, open(os.path.join(V, "MANIFEST.json"), "w"), indent=1)
print("claimed", len(checks), "unclaimed", len(na))
