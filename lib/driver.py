import argparse, fcntl, glob, hashlib, json, os, re, shutil, subprocess, sys, time
from concurrent.futures import ThreadPoolExecutor

V = os.path.dirname(os.path.dirname(os.path.abspath(__file__)))
COQ = os.path.join(V, "coq")
HARNESS = os.path.join(V, "harness")
REPO = os.environ.get("VERIF_REPO", "/repo")   # VERIF_REPO: run against a scratch worktree (seeded-change experiments only)
ALT = REPO != "/repo"
if ALT:
    _h = hashlib.sha256(REPO.encode()).hexdigest()[:8]
    HARNESS = os.path.join(V, "work", "harness-" + _h)
    COQ = os.path.join(V, "work", "coq-" + _h)   # private copy: regenerated tables differ per tree

GOENV = dict(GOFLAGS="-mod=mod", GOPROXY="off", GOSUMDB="off", GOTOOLCHAIN="local")

ALLOWED_AXIOMS = {
    # stdlib axioms that may legitimately appear (none is currently used; see DESIGN.md section 8)
    "functional_extensionality_dep", "FunctionalExtensionality.functional_extensionality_dep",
    "Eqdep.Eq_rect_eq.eq_rect_eq", "eq_rect_eq", "JMeq_eq", "proof_irrelevance", "classic",
}
BASE_TRUSTED = [
    "Coq 8.16.1 kernel incl. vm_compute (no native_compute); full .vo build via coq_makefile",
    "axioms: none (every theorem in Props.v prints 'Closed under the global context'; audited each run)",
    "Go harness under /verif/harness (generators, projections, Gallina printers) and verif-tagged export shims in /repo",
    "lib/driver.py (this driver) and tools/tabgen (Go-AST translator) where tables are used",
]


def log(*a):
    print(*a, flush=True)


def sh(cmd, cwd=None, env=None, timeout=None, capture=True):
    e = dict(os.environ)
    if env:
        e.update(env)
    try:
        p = subprocess.run(cmd, cwd=cwd, env=e, timeout=timeout, shell=isinstance(cmd, str),
                           stdout=subprocess.PIPE if capture else None,
                           stderr=subprocess.STDOUT if capture else None, text=True)
        return p.returncode, p.stdout or ""
    except subprocess.TimeoutExpired as ex:
        out = ex.stdout or ""
        if isinstance(out, bytes):
            out = out.decode(errors="replace")
        return 124, out + "\n[timeout]"


def load_conf():
    out = {}
    for p in sorted(glob.glob(os.path.join(V, "conf", "C*.json"))):
        with open(p) as f:
            out[os.path.basename(p)[:-5]] = json.load(f)
    return out


def go_bin():
    for g in ("go1.26.8", "go"):
        if shutil.which(g):
            return g
    return "go"


# ------------------------------------------------------------------ Coq build

class Lock:
    def __init__(self, name):
        self.path = os.path.join(V, "work", name)
        os.makedirs(os.path.dirname(self.path), exist_ok=True)

    def __enter__(self):
        self.f = open(self.path, "w")
        fcntl.flock(self.f, fcntl.LOCK_EX)

    def __exit__(self, *a):
        fcntl.flock(self.f, fcntl.LOCK_UN)
        self.f.close()


def coq_files():
    fs = []
    for d in sorted(os.listdir(COQ)):
        p = os.path.join(COQ, d)
        if os.path.isdir(p):
            for root, _, names in os.walk(p):
                for n in sorted(names):
                    if n.endswith(".v"):
                        fs.append(os.path.relpath(os.path.join(root, n), COQ))
    return sorted(fs)


def coq_project():
    """(Re)generate _CoqProject and Makefile when the file list changed."""
    content = "-Q . V\n" + "\n".join(coq_files()) + "\n"
    cp = os.path.join(COQ, "_CoqProject")
    old = open(cp).read() if os.path.exists(cp) else None
    if old != content or not os.path.exists(os.path.join(COQ, "Makefile")):
        with open(cp, "w") as f:
            f.write(content)
        rc, out = sh(["coq_makefile", "-f", "_CoqProject", "-o", "Makefile"], cwd=COQ, timeout=120)
        if rc != 0:
            raise RuntimeError("coq_makefile failed: " + out)


def run_tabgen():
    """Regenerate coq/gen/Tables.v from /repo's current source.  Returns (ok, message)."""
    tg = os.path.join(V, "tools", "tabgen")
    if not os.path.exists(os.path.join(tg, "main.go")):
        return True, "no tabgen"
    out_v = os.path.join(COQ, "gen", "Tables.v")
    tmp = out_v + ".new"
    rc, out = sh([go_bin(), "run", ".", "-repo", REPO, "-out", tmp], cwd=tg,
                 env=dict(GOENV, GOFLAGS="-mod=mod"), timeout=300)
    if rc != 0:
        return False, out[-3000:]
    old = open(out_v).read() if os.path.exists(out_v) else None
    new = open(tmp).read()
    if old != new:
        os.replace(tmp, out_v)
    else:
        os.remove(tmp)
    return True, ""


def coq_build(prop, targets):
    with Lock("coq.lock"):
        coq_project()
        tg = [t for t in targets if os.path.exists(os.path.join(COQ, t[:-1]))]  # .vo -> .v exists
        rc, out = sh(["make", "-j16"] + tg, cwd=COQ, timeout=1500)
        return rc, out


def audit_props(prop):
    """Recompile Cxx/Props.v and parse Print Assumptions output. Returns dict."""
    pv = os.path.join(COQ, prop, "Props.v")
    src = open(pv).read()
    theorems = re.findall(r"^\s*(?:Theorem|Corollary)\s+(\w+)", src, re.M)
    prints = re.findall(r"^\s*Print Assumptions\s+(\w+)\s*\.", src, re.M)
    with Lock("coq.lock"):
        rc, out = sh(["coqc", "-Q", ".", "V", os.path.join(prop, "Props.v")], cwd=COQ, timeout=900)
    res = dict(theorems=theorems, printed=prints, rc=rc, out=out, axioms={}, problems=[])
    if rc != 0:
        res["problems"].append("Props.v does not compile")
        return res
    # split output into assumption blocks
    blocks = re.split(r"(?=Closed under the global context|Axioms:)", out)
    blocks = [b for b in blocks if b.startswith("Closed under") or b.startswith("Axioms:")]
    if len(blocks) != len(prints):
        res["problems"].append("Print Assumptions blocks %d != prints %d" % (len(blocks), len(prints)))
    for name, b in zip(prints, blocks):
        if b.startswith("Closed under"):
            res["axioms"][name] = []
        else:
            ax = re.findall(r"^(\S+)\s*:", b[len("Axioms:"):], re.M)
            res["axioms"][name] = ax
            bad = [a for a in ax if a not in ALLOWED_AXIOMS and a.split(".")[-1] not in ALLOWED_AXIOMS]
            if bad:
                res["problems"].append("theorem %s depends on non-allowed axioms %s" % (name, bad))
    missing = [t for t in theorems if t not in prints]
    if missing:
        res["problems"].append("theorems without Print Assumptions: %s" % missing)
    return res


FORBIDDEN = re.compile(r"\b(Admitted|admit|Axiom|Axioms|Parameter|Parameters|Conjecture|Hypothesis|Variable|"
                       r"Unset Guard Checking|Unset Positivity Checking|Unset Universe Checking|bypass_check|"
                       r"Admit Obligations|native_compute)\b")


def strip_comments(s):
    out, depth, i = [], 0, 0
    while i < len(s):
        if s.startswith("(*", i):
            depth += 1; i += 2
        elif s.startswith("*)", i) and depth > 0:
            depth -= 1; i += 2
        else:
            if depth == 0:
                out.append(s[i])
            i += 1
    return "".join(out)


def grep_audit():
    """No Admitted/Axiom/... anywhere in coq/ (Variable/Hypothesis allowed only inside a Section)."""
    problems = []
    for f in coq_files():
        s = strip_comments(open(os.path.join(COQ, f)).read())
        # strings may contain words; remove string literals
        s2 = re.sub(r'"[^"]*"', '""', s)
        depth = 0
        for line in s2.split("\n"):
            if re.match(r"\s*Section\s+\w+", line):
                depth += 1
            elif re.match(r"\s*End\s+\w+", line) and depth > 0:
                depth -= 1
            for m in FORBIDDEN.finditer(line):
                w = m.group(1)
                if w in ("Hypothesis", "Variable") and depth > 0:
                    continue
                problems.append("%s: forbidden '%s'" % (f, w))
    return problems


def run_coqchk(prop):
    """Thorough tier: independent re-check of the compiled closure of Cxx/Props.vo; cached by .vo hash."""
    vos = sorted(glob.glob(os.path.join(COQ, prop, "*.vo")) + glob.glob(os.path.join(COQ, "lib", "*.vo")) +
                 glob.glob(os.path.join(COQ, "gen", "*.vo")))
    h = hashlib.sha256()
    for v in vos:
        h.update(open(v, "rb").read())
    cache = os.path.join(V, "work", "coqchk-%s-%s.txt" % (prop, h.hexdigest()[:16]))
    if os.path.exists(cache):
        return open(cache).read()
    with Lock("coq.lock"):
        rc, out = sh(["coqchk", "-silent", "-o", "-Q", ".", "V", "V.%s.Props" % prop], cwd=COQ, timeout=3000)
    res = ("rc=%d\n" % rc) + out[-4000:]
    if rc == 0:
        with open(cache, "w") as f:
            f.write(res)
    return res


# ------------------------------------------------------------------ harness + evaluation

def run_harness(prop, conf, tier, seed, outdir, replay_ids=None):
    if ALT:
        sh(["rsync", "-a", "--delete", "--exclude", "go.mod", "--exclude", "go.sum", os.path.join(V, "harness") + "/", HARNESS + "/"])
    sh([os.path.join(V, "lib", "gomod.sh"), REPO, HARNESS])
    env = dict(GOENV, VERIF_SEED=str(seed), VERIF_TIER=tier, VERIF_OUT=outdir, VERIF_REPO=REPO)
    if replay_ids:
        env["VERIF_REPLAY_IDS"] = ",".join(str(i) for i in replay_ids)
    pkg = conf.get("go_pkg", "./" + prop.lower())
    cmd = [go_bin(), "test", "-trimpath", "-tags", "verif", "-count=1", "-timeout", conf.get("go_timeout", "30m")]
    if tier == "thorough" and conf.get("race"):
        cmd.append("-race")
        env["CGO_ENABLED"] = "1"
    cmd += [pkg, "-run", conf.get("go_run", "TestGen")]
    t0 = time.time()
    rc, out = sh(cmd, cwd=HARNESS, env=env, timeout=conf.get("go_timeout_s", 2400))
    return rc, out, time.time() - t0


MM = re.compile(r"\(\s*(\d+)(?:%N)?\s*,\s*(ModelDiffers|PropertyFails)\s*\)")


EVAL_COQ = None   # Coq tree used to evaluate cases (defaults to COQ; a fallback copy when obligations broke)


def eval_shard(path):
    rc, out = sh(["coqc", "-Q", EVAL_COQ or COQ, "V", path], cwd=os.path.dirname(path), timeout=1200)
    if rc != 0:
        return path, None, out[-2000:]
    m = re.search(r"M\s*=\s*(.*?)\n\s*:\s*list", out, re.S)
    if not m:
        return path, None, "cannot parse coqc output: " + out[-500:]
    body = m.group(1)
    return path, [(int(a), b) for a, b in MM.findall(body)], ""


def eval_cases(outdir):
    shards = sorted(glob.glob(os.path.join(outdir, "cases_*.v")))
    results, errors = [], []
    with ThreadPoolExecutor(max_workers=8) as ex:
        for path, mm, err in ex.map(eval_shard, shards):
            if mm is None:
                errors.append((path, err))
            else:
                results.extend(mm)
    for f in glob.glob(os.path.join(outdir, "cases_*.vo")) + glob.glob(os.path.join(outdir, "cases_*.glob")) + \
            glob.glob(os.path.join(outdir, ".cases_*.aux")) + glob.glob(os.path.join(outdir, "cases_*.vok")) + \
            glob.glob(os.path.join(outdir, "cases_*.vos")):
        try:
            os.remove(f)
        except OSError:
            pass
    return results, errors, len(shards)


def fallback_coq(prop, targets):
    """A regenerated obligation no longer compiles.  To still search for a concrete failing input, build a private
    copy of the Coq tree with the last committed gen/Tables.v and evaluate the harness cases (property oracle) there."""
    fb = os.path.join(V, "work", "coq-fallback-" + prop + ("-" + _h if ALT else ""))
    sh(["rsync", "-a", "--delete", os.path.join(V, "coq") + "/", fb + "/"])
    rc, out = sh(["git", "-C", V, "show", "HEAD:coq/gen/Tables.v"])
    if rc != 0:
        return None
    with open(os.path.join(fb, "gen", "Tables.v"), "w") as f:
        f.write(out)
    rc, out = sh(["coq_makefile", "-f", "_CoqProject", "-o", "Makefile"], cwd=fb, timeout=120)
    tg = [t for t in targets if os.path.exists(os.path.join(fb, t[:-1]))]
    rc, out = sh(["make", "-j16"] + tg, cwd=fb, timeout=1500)
    return fb if rc == 0 else None


# ------------------------------------------------------------------ known findings

def known_findings(prop):
    out = {}
    p = os.path.join(V, "known_findings.txt")
    if not os.path.exists(p):
        return out
    for line in open(p):
        line = line.strip()
        m = re.match(r"finding:\s+property=(\w+)\s+id=(\S+)\s+(.*)", line)
        if m and m.group(1) == prop:
            out[m.group(2)] = m.group(3)
    return out


# ------------------------------------------------------------------ main

def write_replay(prop, payload):
    os.makedirs(os.path.join(V, "replays"), exist_ok=True)
    h = hashlib.sha256(json.dumps(payload, sort_keys=True, default=str).encode()).hexdigest()[:12]
    path = os.path.join(V, "replays", "%s-%s.json" % (prop, h))
    with open(path, "w") as f:
        json.dump(payload, f, indent=1, default=str)
    return path


def main(argv):
    ap = argparse.ArgumentParser()
    ap.add_argument("prop")
    ap.add_argument("--tier", default=os.environ.get("VERIF_TIER", "quick"))
    ap.add_argument("--replay")
    ap.add_argument("--keep", action="store_true")
    a = ap.parse_args(argv)
    prop = a.prop.upper()
    tier = a.tier if a.tier in ("quick", "thorough") else "quick"
    try:
        seed = int(os.environ.get("VERIF_SEED", "1"))
    except ValueError:
        seed = 1
    confs = load_conf()
    if prop not in confs:
        log("unknown property", prop)
        return 2
    conf = confs[prop]
    t0 = time.time()
    outdir = os.path.join(V, "work", prop + ("-alt-" + hashlib.sha256(REPO.encode()).hexdigest()[:8] if ALT else ""))
    shutil.rmtree(outdir, ignore_errors=True)
    os.makedirs(outdir, exist_ok=True)
    replay_ids = None
    if a.replay:
        rp = json.load(open(a.replay))
        seed = rp.get("seed", seed)
        tier = rp.get("tier", tier)
        replay_ids = rp.get("case_ids") or None
        log("replaying", a.replay, "seed", seed, "tier", tier, "ids", replay_ids)

    if ALT:
        with Lock("coq.lock"):
            sh(["rsync", "-a", "--delete", os.path.join(V, "coq") + "/", COQ + "/"])
    violations = []   # dicts: kind, detail, case_ids, failing(bool)
    framework_errors = []

    # 1. tables + theorems
    if conf.get("tables"):
        ok, msg = run_tabgen()
        if not ok:
            violations.append(dict(kind="translator", what="tools/tabgen could not translate the current source",
                                   detail=msg, failing=False))
    targets = ["lib/Verdict.vo", "%s/Props.vo" % prop, "%s/Run.vo" % prop]
    rc, out = coq_build(prop, targets)
    obligations = 0
    discharged = 0
    audit = None
    coqchk_summary = ""
    if rc != 0:
        gen_related = "gen/" in out or "Tables" in out or prop + "/Oblig" in out
        m = re.search(r'File "([^"]+)", line (\d+)', out)
        where = m.group(0) if m else ""
        if conf.get("tables") and gen_related:
            violations.append(dict(kind="obligation", what="regenerated proof obligation no longer checks: " + where,
                                   detail=out[-3000:], failing=False))
            global EVAL_COQ
            EVAL_COQ = fallback_coq(prop, targets)
        else:
            framework_errors.append("Coq build failed: " + out[-3000:])
    else:
        audit = audit_props(prop)
        obligations = len(audit["theorems"])
        gp = grep_audit()
        if audit["problems"] or gp:
            framework_errors.append("assumption audit: %s %s" % (audit["problems"], gp))
        else:
            discharged = obligations
        if tier == "thorough" and not ALT and not a.replay:
            chk = run_coqchk(prop)
            coqchk_summary = chk
            if not chk.startswith("rc=0"):
                framework_errors.append("coqchk failed: " + chk[-1500:])

    # 2. harness
    meta = {}
    mism = []
    shards = 0
    hrc, hout, hwall = run_harness(prop, conf, tier, seed, outdir, replay_ids)
    if hrc != 0:
        tail = hout[-4000:]
        if "[build failed]" in hout or "cannot find" in hout or "undefined:" in hout:
            violations.append(dict(kind="correspondence", what="harness no longer builds against /repo (the tie to the code is broken)",
                                   detail=tail, failing=False))
        elif os.path.exists(os.path.join(outdir, "meta.json")):
            framework_errors.append("harness failed after writing cases: " + tail)
        else:
            # the implementation crashed the harness process (fatal error / os.Exit / timeout)
            violations.append(dict(kind="crash", what="harness run against the implementation aborted", detail=tail, failing=False))
    if os.path.exists(os.path.join(outdir, "meta.json")):
        meta = json.load(open(os.path.join(outdir, "meta.json")))
        if rc == 0 or EVAL_COQ:
            mism, errs, shards = eval_cases(outdir)
            for p, e in errs:
                framework_errors.append("case evaluation failed for %s: %s" % (p, e))

    # 3. classify
    kf = known_findings(prop)
    finding_of = meta.get("finding_of", {}) or {}
    cases_json = {}
    cj = os.path.join(outdir, "cases.json")
    if os.path.exists(cj):
        cases_json = json.load(open(cj))
    known_hit = {}
    by_case = {}
    for cid, verdict in mism:
        by_case.setdefault(cid, set()).add(verdict)
    for v in meta.get("violations") or []:
        by_case.setdefault(v["id"], set()).add("Harness:" + v.get("kind", "oracle"))
        if v.get("finding"):
            finding_of[str(v["id"])] = v["finding"]
    hv = {v["id"]: v for v in (meta.get("violations") or [])}
    unknown = {}
    for cid, vs in sorted(by_case.items()):
        fid = finding_of.get(str(cid))
        if fid and fid in kf:
            known_hit.setdefault(fid, []).append(cid)
        else:
            unknown[cid] = vs
    if unknown:
        failing = {c: vs for c, vs in unknown.items() if any(x == "PropertyFails" or x.startswith("Harness:") for x in vs)}
        pick = failing or unknown
        ids = sorted(pick)[:5]
        violations.append(dict(
            kind="correspondence" if not failing else "property",
            what=("property oracle fails on the implementation's observed behaviour" if failing else
                  "model no longer predicts the implementation (%s correspondence)" % prop),
            case_ids=ids,
            verdicts={str(c): sorted(pick[c]) for c in ids},
            cases={str(c): cases_json.get(str(c)) or (hv.get(c) or {}).get("case") for c in ids},
            harness_detail={str(c): hv[c].get("detail") for c in ids if c in hv},
            total_disagreeing=len(unknown), failing=bool(failing)))

    for fid, ids in sorted(known_hit.items()):
        log("KNOWN-FINDING: property=%s %s %s (cases %s)" % (prop, fid, kf[fid], ids[:3]))

    wall = time.time() - t0
    # 4. evidence
    dist = meta.get("distribution", {})
    thm_list = (audit or {}).get("theorems", [])
    ev = dict(
        property_id=prop, tier=tier, seed=seed, level="proof",
        coverage=dict(
            obligations=max(obligations, 1), discharged=discharged if discharged else 0,
            checker_cmd="make -C coq %s/Props.vo (coqc 8.16.1, full .vo) + coqc %s/Props.v Print Assumptions audit + coqc work/%s/cases_*.v (vm_compute of Run.mismatches on harness-observed cases)" % (prop, prop, prop),
            trusted_base=BASE_TRUSTED + conf.get("trusted_base", []),
            theorems=thm_list,
            axioms={k: v for k, v in ((audit or {}).get("axioms") or {}).items() if v},
            evaluations=meta.get("evaluations", 0),
            distinct_nontrivial=meta.get("distinct_nontrivial", 0),
            rule=meta.get("rule", ""),
            samples=(meta.get("samples") or [])[:4] or ["(no cases)"],
            distribution=dist,
            traces_validated_against_impl=meta.get("evaluations", 0),
            hypotheses_validated=meta.get("hypotheses_validated", {}),
            case_shards=shards,
            model_vs_impl_disagreements=len(mism),
            known_findings_seen=sorted(known_hit),
            harness_wall_s=round(hwall, 1),
            extra=meta.get("extra", {}),
            partial=conf.get("partial", ""),
            coqchk=(coqchk_summary[-1500:] if coqchk_summary else "not run in this tier"),
        ),
        assumptions=conf.get("assumptions", []),
        wall_s=round(wall, 1),
        violations=len(violations),
    )
    if discharged == 0:
        ev["coverage"]["discharged"] = 0
    os.makedirs(outdir, exist_ok=True)
    if ALT:
        with open(os.path.join(outdir, "evidence.json"), "w") as f:
            json.dump(ev, f, indent=1, default=str)
    elif not a.replay:
        os.makedirs(os.path.join(V, "evidence"), exist_ok=True)
        with open(os.path.join(V, "evidence", prop + ".json"), "w") as f:
            json.dump(ev, f, indent=1, default=str)

    if framework_errors and not violations:
        for e in framework_errors:
            log("FRAMEWORK-ERROR:", e)
        return 2
    for e in framework_errors:
        log("FRAMEWORK-ERROR:", e)
    if violations:
        withinput = [v for v in violations if v.get("failing")]
        if withinput:
            # a concrete failing input was found: report that, and name the broken obligations/correspondences inside it
            broken = [dict(kind=v["kind"], what=v["what"], detail=(v.get("detail") or "")[-1500:]) for v in violations if not v.get("failing")]
            for v in withinput:
                v["also_broken"] = broken
            violations = withinput
        for v in violations:
            payload = dict(property=prop, seed=seed, tier=tier, case_ids=v.get("case_ids"),
                           broken=v["what"], kind=v["kind"], verdicts=v.get("verdicts"), cases=v.get("cases"),
                           harness_detail=v.get("harness_detail"), detail=v.get("detail"),
                           total_disagreeing=v.get("total_disagreeing"), also_broken=v.get("also_broken"),
                           replay_cmd="./check %s --replay <this file>" % prop)
            path = write_replay(prop, payload)
            suffix = "" if v.get("failing") else " no-failing-input-found"
            log("VIOLATION property=%s replay=%s%s" % (prop, path, suffix))
        return 1
    log("OK property=%s tier=%s theorems=%d cases=%d nontrivial=%d wall=%.0fs" % (
        prop, tier, discharged, meta.get("evaluations", 0), meta.get("distinct_nontrivial", 0), wall))
    return 0
