// tabgen: Go-AST translator from the hand-maintained tables and switch statements the
// properties hinge on (in the istio tree given by -repo) to Coq definitions (coq/gen/Tables.v).
// It uses go/parser only (no type checking); anything it cannot recognise is a hard error, which
// the driver reports as "the tie between model and code is gone".
package main

import (
	"bytes"
	"flag"
	"fmt"
	"go/ast"
	"go/parser"
	"go/printer"
	"go/token"
	"os"
	"path/filepath"
	"sort"
	"strings"
)

var fset = token.NewFileSet()
var repo string

func die(format string, a ...any) {
	fmt.Fprintf(os.Stderr, "tabgen: "+format+"\n", a...)
	os.Exit(1)
}

func parse(rel string) *ast.File {
	f, err := parser.ParseFile(fset, filepath.Join(repo, rel), nil, parser.ParseComments)
	if err != nil {
		die("parse %s: %v", rel, err)
	}
	return f
}

func src(n ast.Node) string {
	var b bytes.Buffer
	_ = printer.Fprint(&b, fset, n)
	return b.String()
}

// ---- lookups

func findVar(f *ast.File, name string) ast.Expr {
	for _, d := range f.Decls {
		gd, ok := d.(*ast.GenDecl)
		if !ok || gd.Tok != token.VAR {
			continue
		}
		for _, s := range gd.Specs {
			vs := s.(*ast.ValueSpec)
			for i, n := range vs.Names {
				if n.Name == name && i < len(vs.Values) {
					return vs.Values[i]
				}
			}
		}
	}
	return nil
}

func findFunc(f *ast.File, name string) *ast.FuncDecl {
	for _, d := range f.Decls {
		if fd, ok := d.(*ast.FuncDecl); ok && fd.Name.Name == name {
			return fd
		}
	}
	return nil
}

// selector "pkg.Name" -> Name when pkg matches
func sel(e ast.Expr, pkg string) (string, bool) {
	s, ok := e.(*ast.SelectorExpr)
	if !ok {
		return "", false
	}
	x, ok := s.X.(*ast.Ident)
	if !ok || x.Name != pkg {
		return "", false
	}
	return s.Sel.Name, true
}

type entry struct {
	Kind string
	Cond string // "" = unconditional, else Go source of the guarding condition
}

var conds = map[string]bool{}

func isSetsNew(e ast.Expr) (*ast.CallExpr, bool) {
	c, ok := e.(*ast.CallExpr)
	if !ok {
		return nil, false
	}
	fun := c.Fun
	if ix, ok := fun.(*ast.IndexExpr); ok {
		fun = ix.X
	}
	if n, ok := sel(fun, "sets"); ok && n == "New" {
		return c, true
	}
	return nil, false
}

func kindArgs(c *ast.CallExpr, cond string, what string) []entry {
	var out []entry
	for _, a := range c.Args {
		k, ok := sel(a, "kind")
		if !ok {
			die("%s: unexpected element %s", what, src(a))
		}
		out = append(out, entry{k, cond})
	}
	return out
}

// kindSet recognises sets.New(kind.A, ...) and func() sets.Set[kind.Kind] { s := sets.New(...); if C { s.Insert(kind.X) }; return s }()
func kindSet(e ast.Expr, what string) []entry {
	if c, ok := isSetsNew(e); ok {
		return kindArgs(c, "", what)
	}
	call, ok := e.(*ast.CallExpr)
	if !ok {
		die("%s: unrecognised set expression %s", what, src(e))
	}
	fl, ok := call.Fun.(*ast.FuncLit)
	if !ok || len(call.Args) != 0 {
		die("%s: unrecognised set expression %s", what, src(e))
	}
	var out []entry
	setVar := ""
	for _, st := range fl.Body.List {
		switch s := st.(type) {
		case *ast.AssignStmt:
			if len(s.Lhs) != 1 || len(s.Rhs) != 1 {
				die("%s: unrecognised statement %s", what, src(s))
			}
			c, ok := isSetsNew(s.Rhs[0])
			if !ok {
				die("%s: unrecognised statement %s", what, src(s))
			}
			setVar = s.Lhs[0].(*ast.Ident).Name
			out = append(out, kindArgs(c, "", what)...)
		case *ast.IfStmt:
			if s.Else != nil || s.Init != nil {
				die("%s: unrecognised if %s", what, src(s))
			}
			cond := src(s.Cond)
			for _, bs := range s.Body.List {
				es, ok := bs.(*ast.ExprStmt)
				if !ok {
					die("%s: unrecognised conditional statement %s", what, src(bs))
				}
				c, ok := es.X.(*ast.CallExpr)
				if !ok {
					die("%s: unrecognised conditional statement %s", what, src(bs))
				}
				se, ok := c.Fun.(*ast.SelectorExpr)
				if !ok || se.Sel.Name != "Insert" || src(se.X) != setVar {
					die("%s: unrecognised conditional statement %s", what, src(bs))
				}
				conds[cond] = true
				out = append(out, kindArgs(c, cond, what)...)
			}
		case *ast.ReturnStmt:
			if len(s.Results) != 1 || src(s.Results[0]) != setVar {
				die("%s: unrecognised return %s", what, src(s))
			}
		default:
			die("%s: unrecognised statement %s", what, src(st))
		}
	}
	return out
}

// map[model.NodeType]sets.Set[kind.Kind]{ model.Router: <set>, ... }
func kindSetByNode(e ast.Expr, what string) map[string][]entry {
	cl, ok := e.(*ast.CompositeLit)
	if !ok {
		die("%s: not a composite literal", what)
	}
	out := map[string][]entry{}
	for _, el := range cl.Elts {
		kv := el.(*ast.KeyValueExpr)
		nt, ok := sel(kv.Key, "model")
		if !ok {
			die("%s: unexpected key %s", what, src(kv.Key))
		}
		out[nt] = kindSet(kv.Value, what+"["+nt+"]")
	}
	return out
}

// ---- Coq printing

func condName(c string) string {
	r := strings.NewReplacer(".", "_", " ", "", "!=", "_ne_", "==", "_eq_", "!", "not_", "(", "", ")", "")
	return "F_" + r.Replace(c)
}

func coqEntries(es []entry) string {
	var un []string
	var parts []string
	for _, e := range es {
		if e.Cond == "" {
			un = append(un, "K_"+e.Kind)
		}
	}
	parts = append(parts, "["+strings.Join(un, "; ")+"]")
	for _, e := range es {
		if e.Cond != "" {
			parts = append(parts, fmt.Sprintf("(if fl %s then [K_%s] else [])", condName(e.Cond), e.Kind))
		}
	}
	return strings.Join(parts, " ++ ")
}

func constBlock(f *ast.File, typ string) []string {
	var out []string
	for _, d := range f.Decls {
		gd, ok := d.(*ast.GenDecl)
		if !ok || gd.Tok != token.CONST {
			continue
		}
		matched := false
		var names []string
		for _, s := range gd.Specs {
			vs := s.(*ast.ValueSpec)
			if vs.Type != nil {
				matched = src(vs.Type) == typ
			}
			if matched {
				for _, n := range vs.Names {
					names = append(names, n.Name)
				}
			}
		}
		if len(names) > 0 {
			out = append(out, names...)
		}
	}
	return out
}

func main() {
	out := flag.String("out", "", "output Tables.v")
	flag.StringVar(&repo, "repo", "/repo", "istio tree")
	flag.Parse()
	var b strings.Builder
	w := func(format string, a ...any) { fmt.Fprintf(&b, format, a...) }

	w("(* GENERATED by /verif/tools/tabgen from the istio tree's current source — do not edit. *)\n")
	w("From Coq Require Import List String Bool NArith.\nImport ListNotations.\nOpen Scope string_scope.\n\n")

	// kinds
	kinds := constBlock(parse("pkg/config/schema/kind/resources.gen.go"), "Kind")
	if len(kinds) < 20 {
		die("kind constants not found")
	}
	w("Inductive kind :=\n")
	for _, k := range kinds {
		w("| K_%s\n", k)
	}
	w(".\n\nDefinition all_kinds : list kind := [%s].\n\n", strings.Join(prefixAll("K_", kinds), "; "))
	w("Definition kind_idx (k : kind) : N :=\n  match k with\n")
	for i, k := range kinds {
		w("  | K_%s => %d\n", k, i)
	}
	w("  end%%N.\nDefinition kind_eqb (a b : kind) : bool := N.eqb (kind_idx a) (kind_idx b).\n")
	w("Definition kind_name (k : kind) : string :=\n  match k with\n")
	for _, k := range kinds {
		w("  | K_%s => \"%s\"\n", k, k)
	}
	w("  end.\n\n")

	// node types
	nts := constBlock(parse("pkg/model/proxy.go"), "NodeType")
	if len(nts) < 3 {
		die("NodeType constants not found")
	}
	w("Inductive node_type :=\n")
	for _, n := range nts {
		w("| NT_%s\n", n)
	}
	w(".\nDefinition all_node_types : list node_type := [%s].\n\n", strings.Join(prefixAll("NT_", nts), "; "))

	// kind sets
	type tbl struct{ file, name string }
	flat := []tbl{
		{"pilot/pkg/xds/cds.go", "skippedCdsConfigs"}, {"pilot/pkg/xds/cds.go", "pushCdsGatewayConfig"},
		{"pilot/pkg/xds/rds.go", "skippedRdsConfigs"}, {"pilot/pkg/xds/eds.go", "skippedEdsConfigs"},
		{"pilot/pkg/xds/eds.go", "deltaAwareEdsConfigs"}, {"pilot/pkg/xds/nds.go", "skippedNdsConfigs"},
		{"pilot/pkg/model/sidecar.go", "sidecarScopedKnownConfigTypes"}, {"pilot/pkg/model/sidecar.go", "clusterScopedKnownConfigTypes"},
	}
	byNode := []tbl{{"pilot/pkg/xds/lds.go", "skippedLdsConfigs"}, {"pilot/pkg/xds/proxy_dependencies.go", "UnAffectedConfigKinds"}}
	flatSets := map[string][]entry{}
	for _, t := range flat {
		e := findVar(parse(t.file), t.name)
		if e == nil {
			die("%s: variable %s not found", t.file, t.name)
		}
		flatSets[t.name] = kindSet(e, t.name)
	}
	nodeSets := map[string]map[string][]entry{}
	for _, t := range byNode {
		e := findVar(parse(t.file), t.name)
		if e == nil {
			die("%s: variable %s not found", t.file, t.name)
		}
		nodeSets[t.name] = kindSetByNode(e, t.name)
	}
	var cs []string
	for c := range conds {
		cs = append(cs, c)
	}
	sort.Strings(cs)
	w("(* feature conditions guarding table entries; their run-time values are supplied by the harness *)\nInductive flag :=\n")
	if len(cs) == 0 {
		w("| F_none\n")
	}
	for _, c := range cs {
		w("| %s (* %s *)\n", condName(c), c)
	}
	w(".\nDefinition all_flags : list flag := [%s].\n", strings.Join(mapAll(cs, condName), "; "))
	w("Definition flag_name (f : flag) : string :=\n  match f with\n")
	for _, c := range cs {
		w("  | %s => \"%s\"\n", condName(c), strings.ReplaceAll(c, "\"", "'"))
	}
	w("  end.\n\n")
	for _, t := range flat {
		w("Definition %s (fl : flag -> bool) : list kind :=\n  %s.\n", t.name, coqEntries(flatSets[t.name]))
	}
	for _, t := range byNode {
		w("Definition %s (fl : flag -> bool) (t : node_type) : list kind :=\n  match t with\n", t.name)
		var ks []string
		for k := range nodeSets[t.name] {
			ks = append(ks, k)
		}
		sort.Strings(ks)
		for _, k := range ks {
			w("  | NT_%s => %s\n", k, coqEntries(nodeSets[t.name][k]))
		}
		if len(ks) < len(nts) {
			w("  | _ => []\n")
		}
		w("  end.\n")
	}
	w("\n")

	// PushOrder
	po := findVar(parse("pilot/pkg/xds/ads.go"), "PushOrder")
	if po == nil {
		die("PushOrder not found")
	}
	var order []string
	for _, el := range po.(*ast.CompositeLit).Elts {
		n, ok := sel(el, "v3")
		if !ok {
			die("PushOrder: unexpected %s", src(el))
		}
		order = append(order, n)
	}
	w("Definition push_order : list string := [%s].\n\n", strings.Join(quoteAll(order), "; "))

	// IsWildcardTypeURL: switch with return true/false
	emitBoolSwitch(w, parse("pkg/xds/server.go"), "IsWildcardTypeURL", "is_wildcard", "model")
	// WarmingDependencies
	emitWarming(w, parse("pilot/pkg/model/context.go"))
	// updateContext
	emitUpdateContext(w, parse("pilot/pkg/model/push_context.go"))
	// computeProxyState
	emitComputeProxyState(w, parse("pilot/pkg/xds/ads.go"))

	if *out == "" {
		fmt.Print(b.String())
		return
	}
	if err := os.WriteFile(*out, []byte(b.String()), 0o644); err != nil {
		die("%v", err)
	}
}

func prefixAll(p string, xs []string) []string {
	out := make([]string, len(xs))
	for i, x := range xs {
		out[i] = p + x
	}
	return out
}
func mapAll(xs []string, f func(string) string) []string {
	out := make([]string, len(xs))
	for i, x := range xs {
		out[i] = f(x)
	}
	return out
}
func quoteAll(xs []string) []string {
	return mapAll(xs, func(s string) string { return "\"" + s + "\"" })
}

func emitBoolSwitch(w func(string, ...any), f *ast.File, fn, coqName, pkg string) {
	fd := findFunc(f, fn)
	if fd == nil {
		die("%s not found", fn)
	}
	var sw *ast.SwitchStmt
	for _, st := range fd.Body.List {
		if s, ok := st.(*ast.SwitchStmt); ok {
			sw = s
		}
	}
	if sw == nil || len(fd.Body.List) != 1 {
		die("%s: expected a single switch statement", fn)
	}
	var tr, fa []string
	dflt := ""
	for _, cc := range sw.Body.List {
		c := cc.(*ast.CaseClause)
		var ret string
		for _, st := range c.Body {
			if r, ok := st.(*ast.ReturnStmt); ok && len(r.Results) == 1 {
				ret = src(r.Results[0])
			} else {
				die("%s: unexpected statement in case: %s", fn, src(st))
			}
		}
		if ret != "true" && ret != "false" {
			die("%s: case does not return a boolean literal", fn)
		}
		if c.List == nil {
			dflt = ret
			continue
		}
		for _, e := range c.List {
			n, ok := sel(e, pkg)
			if !ok {
				die("%s: unexpected case label %s", fn, src(e))
			}
			if ret == "true" {
				tr = append(tr, n)
			} else {
				fa = append(fa, n)
			}
		}
	}
	if dflt == "" {
		die("%s: no default", fn)
	}
	w("(* %s: type-URL constant names mapped to true / false, and the default *)\n", fn)
	w("Definition %s_true : list string := [%s].\n", coqName, strings.Join(quoteAll(tr), "; "))
	w("Definition %s_false : list string := [%s].\n", coqName, strings.Join(quoteAll(fa), "; "))
	w("Definition %s_default : bool := %s.\n\n", coqName, dflt)
}

func emitWarming(w func(string, ...any), f *ast.File) {
	fd := findFunc(f, "WarmingDependencies")
	if fd == nil {
		die("WarmingDependencies not found")
	}
	sw, ok := fd.Body.List[0].(*ast.SwitchStmt)
	if !ok {
		die("WarmingDependencies: expected switch")
	}
	var rows []string
	for _, cc := range sw.Body.List {
		c := cc.(*ast.CaseClause)
		r, ok := c.Body[0].(*ast.ReturnStmt)
		if !ok {
			die("WarmingDependencies: unexpected body")
		}
		var deps []string
		if cl, ok := r.Results[0].(*ast.CompositeLit); ok {
			for _, e := range cl.Elts {
				n, ok := sel(e, "v3")
				if !ok {
					die("WarmingDependencies: unexpected element %s", src(e))
				}
				deps = append(deps, n)
			}
		} else if src(r.Results[0]) != "nil" {
			die("WarmingDependencies: unexpected return %s", src(r.Results[0]))
		}
		if c.List == nil {
			if len(deps) != 0 {
				die("WarmingDependencies: non-empty default")
			}
			continue
		}
		for _, e := range c.List {
			n, ok := sel(e, "v3")
			if !ok {
				die("WarmingDependencies: unexpected label %s", src(e))
			}
			rows = append(rows, fmt.Sprintf("(\"%s\", [%s])", n, strings.Join(quoteAll(deps), "; ")))
		}
	}
	w("Definition warming_deps : list (string * list string) := [%s].\n\n", strings.Join(rows, "; "))
}

// identifiers occurring in a boolean || expression
func orIdents(e ast.Expr, what string) []string {
	switch x := e.(type) {
	case *ast.Ident:
		return []string{x.Name}
	case *ast.BinaryExpr:
		if x.Op != token.LOR {
			die("%s: unexpected operator in %s", what, src(e))
		}
		return append(orIdents(x.X, what), orIdents(x.Y, what)...)
	case *ast.ParenExpr:
		return orIdents(x.X, what)
	}
	die("%s: unexpected condition %s", what, src(e))
	return nil
}

func emitUpdateContext(w func(string, ...any), f *ast.File) {
	fd := findFunc(f, "updateContext")
	if fd == nil {
		die("updateContext not found")
	}
	kindFlags := map[string][]string{} // kind -> flag vars set
	type rung struct {
		init  string
		flags []string
	}
	var ladder []rung
	var always []string
	for _, st := range fd.Body.List {
		switch s := st.(type) {
		case *ast.RangeStmt:
			for _, bs := range s.Body.List {
				sw, ok := bs.(*ast.SwitchStmt)
				if !ok {
					die("updateContext: unexpected statement in range: %s", src(bs))
				}
				for _, cc := range sw.Body.List {
					c := cc.(*ast.CaseClause)
					var flags []string
					for _, cs := range c.Body {
						as, ok := cs.(*ast.AssignStmt)
						if ok && len(as.Rhs) == 1 && src(as.Rhs[0]) == "true" {
							flags = append(flags, src(as.Lhs[0]))
						}
					}
					for _, e := range c.List {
						k, ok := sel(e, "kind")
						if !ok {
							die("updateContext: unexpected case %s", src(e))
						}
						kindFlags[k] = append(kindFlags[k], flags...)
					}
				}
			}
		case *ast.IfStmt:
			fl := orIdents(s.Cond, "updateContext")
			for _, bs := range s.Body.List {
				if es, ok := bs.(*ast.ExprStmt); ok {
					if c, ok := es.X.(*ast.CallExpr); ok {
						if se, ok := c.Fun.(*ast.SelectorExpr); ok && strings.HasPrefix(se.Sel.Name, "init") {
							ladder = append(ladder, rung{se.Sel.Name, fl})
						}
					}
				}
			}
			if s.Else == nil {
				die("updateContext: if without else (a field would be left empty): %s", src(s.Cond))
			}
		case *ast.ExprStmt:
			if c, ok := s.X.(*ast.CallExpr); ok {
				if se, ok := c.Fun.(*ast.SelectorExpr); ok && strings.HasPrefix(se.Sel.Name, "init") {
					always = append(always, se.Sel.Name)
				}
			}
		}
	}
	if len(ladder) < 8 {
		die("updateContext: ladder not recognised")
	}
	var ks []string
	for k := range kindFlags {
		ks = append(ks, k)
	}
	sort.Strings(ks)
	w("(* PushContext.updateContext: which change flags a kind raises, and which flags rebuild which init function *)\n")
	w("Definition ctx_flags_of_kind (k : kind) : list string :=\n  match k with\n")
	for _, k := range ks {
		w("  | K_%s => [%s]\n", k, strings.Join(quoteAll(kindFlags[k]), "; "))
	}
	w("  | _ => []\n  end.\n")
	var rows []string
	for _, r := range ladder {
		rows = append(rows, fmt.Sprintf("(\"%s\", [%s])", r.init, strings.Join(quoteAll(r.flags), "; ")))
	}
	w("Definition ctx_ladder : list (string * list string) :=\n  [%s].\n", strings.Join(rows, ";\n   "))
	w("Definition ctx_always : list string := [%s].\n\n", strings.Join(quoteAll(always), "; "))
}

func emitComputeProxyState(w func(string, ...any), f *ast.File) {
	fd := findFunc(f, "computeProxyState")
	if fd == nil {
		die("computeProxyState not found")
	}
	scope := map[string]bool{}
	gw := map[string]bool{}
	found := false
	ast.Inspect(fd.Body, func(n ast.Node) bool {
		sw, ok := n.(*ast.SwitchStmt)
		if !ok || src(sw.Tag) != "conf.Kind" {
			return true
		}
		found = true
		for _, cc := range sw.Body.List {
			c := cc.(*ast.CaseClause)
			for _, e := range c.List {
				k, ok := sel(e, "kind")
				if !ok {
					die("computeProxyState: unexpected case %s", src(e))
				}
				for _, cs := range c.Body {
					if as, ok := cs.(*ast.AssignStmt); ok && src(as.Rhs[0]) == "true" {
						switch src(as.Lhs[0]) {
						case "shouldResetSidecarScope":
							scope[k] = true
						case "shouldResetGateway":
							gw[k] = true
						}
					}
				}
			}
		}
		return false
	})
	if !found {
		die("computeProxyState: kind switch not found")
	}
	keys := func(m map[string]bool) []string {
		var o []string
		for k := range m {
			o = append(o, "K_"+k)
		}
		sort.Strings(o)
		return o
	}
	w("(* computeProxyState: kinds that reset the proxy's SidecarScope / merged gateways *)\n")
	w("Definition resets_scope_kinds : list kind := [%s].\n", strings.Join(keys(scope), "; "))
	w("Definition resets_gateway_kinds : list kind := [%s].\n", strings.Join(keys(gw), "; "))
}
