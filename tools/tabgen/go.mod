module verif/tabgen

go 1.23
