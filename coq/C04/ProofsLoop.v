(* C04 proofs, part 4: no request/response loop in the SotW closed loop.
   Potential = (armed AlwaysRespond flag of t) + (pending changes: the number of places along
   record -> requests in flight -> client's subscription where the asked-for set changes, a
   nonce-less request counting as a change).  Every answer pays one unit; only a client
   (re)subscription or an arming step of another type adds one. *)
From V Require Import C04.Model C04.Proofs C04.ProofsSotw.
From Coq Require Import List NArith Bool Lia PeanoNat ZifyBool ZifyNat ZifyN.
Import ListNotations.
Open Scope N_scope.

Definition value := option (list N).

Definition value_eq_dec (a b : value) : {a = b} + {a <> b}.
Proof. repeat decide equality. Defined.

Definition change (a b : value) : nat := if value_eq_dec a b then 0%nat else 1%nat.

Lemma change_refl a : change a a = 0%nat.
Proof. unfold change. destruct (value_eq_dec a a); [reflexivity|contradiction]. Qed.

Lemma change_le_1 a b : (change a b <= 1)%nat.
Proof. unfold change. destruct (value_eq_dec a b); lia. Qed.

Lemma change_triangle a b c : (change a c <= change a b + change b c)%nat.
Proof.
  unfold change. destruct (value_eq_dec a c), (value_eq_dec a b), (value_eq_dec b c); try lia.
  subst. contradiction.
Qed.

Lemma change_neq a b : a <> b -> change a b = 1%nat.
Proof. intros H. unfold change. destruct (value_eq_dec a b); [contradiction|reflexivity]. Qed.

(* what a request asks the record to become: no watch (unsubscribe) or the named set *)
Definition target (t : xds_type) (ns : list N) : value :=
  if is_nil ns && negb (is_wildcard t) then None else Some (norm ns).

Definition recv (st : watched) (t : xds_type) : value :=
  match st t with Some w => Some (names w) | None => None end.

Definition cost (t : xds_type) (prev : value) (r : req) : nat :=
  if (r_nonce r =? 0) && negb (is_some (r_err r)) then 1%nat
  else change prev (target t (r_names r)).

Fixpoint chain (t : xds_type) (prev : value) (l : list req) (tl : value) : nat :=
  match l with
  | [] => change prev tl
  | r :: l' => (cost t prev r + chain t (target t (r_names r)) l' tl)%nat
  end.

Lemma cost_le_1 t p r : (cost t p r <= 1)%nat.
Proof. unfold cost. destruct (_ && _); [lia|apply change_le_1]. Qed.

Lemma cost_triangle t a b r : (cost t a r <= change a b + cost t b r)%nat.
Proof. unfold cost. destruct (_ && _); [lia|apply change_triangle]. Qed.

Lemma chain_triangle t l : forall a b tl, (chain t a l tl <= change a b + chain t b l tl)%nat.
Proof.
  destruct l as [|r l]; intros a b tl; cbn.
  - apply change_triangle.
  - pose proof (cost_triangle t a b r). lia.
Qed.

(* a new request that asks for tl', appended: at most one more change *)
Lemma chain_append_sub t r tl tl' l : forall a,
  target t (r_names r) = tl' ->
  (chain t a (l ++ [r]) tl' <= chain t a l tl + 1)%nat.
Proof.
  induction l as [|x l IH]; intros a Ht; cbn.
  - rewrite Ht, change_refl. pose proof (cost_le_1 t a r). lia.
  - specialize (IH (target t (r_names x)) Ht). lia.
Qed.

(* an ACK/NACK carrying the current subscription, appended: nothing changes *)
Lemma chain_append_ack t r tl l : forall a,
  target t (r_names r) = tl -> r_nonce r <> 0 ->
  chain t a (l ++ [r]) tl = chain t a l tl.
Proof.
  induction l as [|x l IH]; intros a Ht Hn; cbn.
  - unfold cost. apply N.eqb_neq in Hn. rewrite Hn. cbn. rewrite Ht, change_refl. lia.
  - rewrite (IH _ Ht Hn). reflexivity.
Qed.

Lemma armed_le_1 st t : (armed_t st t <= 1)%nat.
Proof. unfold armed_t. destruct (st t) as [w|]; [destruct (always_respond w)|]; lia. Qed.

(* processing one request: either it is dropped (record, flag untouched, silent) or applied
   (record becomes what it asks for; an answer is paid by the request's cost or by the flag) *)
Lemma sr_potential st r out st' :
  should_respond st r = (out, st') ->
  let t := r_ty r in
  (recv st' t = recv st t /\ armed_t st' t = armed_t st t /\ responded out = 0%nat /\
   cost t (recv st t) r = change (recv st t) (target t (r_names r)))
  \/
  (recv st' t = target t (r_names r) /\
   (responded out + armed_t st' t <= cost t (recv st t) r + armed_t st t)%nat).
Proof.
  unfold should_respond, nack. intros E. cbn zeta.
  destruct (r_err r) as [m|] eqn:He.
  - left. unfold cost, recv, armed_t. rewrite He. cbn. rewrite andb_false_r.
    destruct (st (r_ty r)) as [w|] eqn:Es; injection E as <- <-.
    + rewrite upd_same. cbn. auto.
    + rewrite Es. auto.
  - destruct (should_unsubscribe r) eqn:Hu.
    + right. injection E as <- <-. unfold recv, armed_t, target. rewrite upd_same.
      unfold should_unsubscribe in Hu. rewrite Hu. split; [reflexivity|cbn; lia].
    + assert (Ht : target (r_ty r) (r_names r) = Some (norm (r_names r))).
      { unfold target. unfold should_unsubscribe in Hu. rewrite Hu. reflexivity. }
      assert (Hnew : forall (Hc : cost (r_ty r) (recv st (r_ty r)) r = 1%nat),
                (Resp true [], new_watched_resource st (r_ty r) (r_names r)) = (out, st') ->
                recv st' (r_ty r) = target (r_ty r) (r_names r) /\
                (responded out + armed_t st' (r_ty r) <= cost (r_ty r) (recv st (r_ty r)) r + armed_t st (r_ty r))%nat).
      { intros Hc [= <- <-].
        destruct (new_watched_has_names st (r_ty r) (r_names r)) as [w' [E1 [E2 [_ E4]]]].
        split.
        - unfold recv. rewrite E1, E2, Ht. reflexivity.
        - rewrite Hc. unfold armed_t at 1. rewrite E1, E4. cbn. lia. }
      destruct (st (r_ty r)) as [w|] eqn:Es.
      * destruct (r_nonce r =? 0) eqn:Hz.
        -- right. apply Hnew; [|exact E]. unfold cost. rewrite Hz, He. reflexivity.
        -- destruct (negb (r_nonce r =? nonce_sent w)) eqn:Hst.
           ++ left. injection E as <- <-. unfold cost. rewrite Hz. cbn. auto.
           ++ right. cbn zeta in E.
              assert (Hc : cost (r_ty r) (recv st (r_ty r)) r = change (Some (names w)) (Some (norm (r_names r)))).
              { unfold cost, recv. rewrite Hz, Es, Ht. reflexivity. }
              assert (Hupd : forall o, (o, upd st (r_ty r) (Some (mkWr (norm (r_names r)) (wildcard w) (nonce_sent w) (r_nonce r) false 0))) = (out, st') ->
                       recv st' (r_ty r) = target (r_ty r) (r_names r) /\ armed_t st' (r_ty r) = 0%nat /\ out = o).
              { intros o [= <- <-]. unfold recv, armed_t. rewrite upd_same, Ht. cbn. auto. }
              unfold armed_t at 2. rewrite Es.
              destruct (always_respond w).
              ** destruct (Hupd _ E) as [H1 [H2 H3]]. subst out. split; [exact H1|]. rewrite H2. cbn. lia.
              ** destruct (is_nil (diff (names w) (norm (r_names r))) && is_nil (diff (norm (r_names r)) (names w))) eqn:Hd.
                 { destruct (Hupd _ E) as [H1 [H2 H3]]. subst out. split; [exact H1|]. rewrite H2. cbn. lia. }
                 destruct (negb (is_wildcard (r_ty r)) && is_nil (diff (norm (r_names r)) (names w))).
                 { destruct (Hupd _ E) as [H1 [H2 H3]]. subst out. split; [exact H1|]. rewrite H2. cbn. lia. }
                 destruct (Hupd _ E) as [H1 [H2 H3]]. subst out. split; [exact H1|]. rewrite H2, Hc.
                 rewrite change_neq; [cbn; lia|].
                 intros [= Heq]. rewrite Heq, diff_self in Hd. cbn in Hd. discriminate.
      * right. apply Hnew; [|exact E]. unfold cost, recv. rewrite Es, Ht.
        destruct (_ && _); [reflexivity|]. apply change_neq. discriminate.
Qed.

Lemma send_keeps st t n w0 :
  st t = Some w0 -> recv (send st t n true) t = recv st t /\ armed_t (send st t n true) t = armed_t st t.
Proof.
  intros H. unfold send, recv, armed_t.
  destruct (true && negb (n =? 0) && negb (is_debug t)); [|auto]. rewrite upd_same, H. cbn. auto.
Qed.


(* lia after hiding the model terms (zify otherwise looks inside them) *)
Ltac hide_terms :=
  repeat match goal with
  | |- context [chain ?a ?b ?c ?d] => let x := fresh "ch" in set (x := chain a b c d) in *; clearbody x
  | H : context [chain ?a ?b ?c ?d] |- _ => let x := fresh "ch" in set (x := chain a b c d) in *; clearbody x
  | |- context [cost ?a ?b ?c] => let x := fresh "co" in set (x := cost a b c) in *; clearbody x
  | H : context [cost ?a ?b ?c] |- _ => let x := fresh "co" in set (x := cost a b c) in *; clearbody x
  | |- context [change ?a ?b] => let x := fresh "cg" in set (x := change a b) in *; clearbody x
  | H : context [change ?a ?b] |- _ => let x := fresh "cg" in set (x := change a b) in *; clearbody x
  | |- context [armed_t ?a ?b] => let x := fresh "ar" in set (x := armed_t a b) in *; clearbody x
  | H : context [armed_t ?a ?b] |- _ => let x := fresh "ar" in set (x := armed_t a b) in *; clearbody x
  | |- context [responded ?a] => let x := fresh "re" in set (x := responded a) in *; clearbody x
  | H : context [responded ?a] |- _ => let x := fresh "re" in set (x := responded a) in *; clearbody x
  | |- context [@length ?A ?a] => let x := fresh "le" in set (x := @length A a) in *; clearbody x
  | H : context [@length ?A ?a] |- _ => let x := fresh "le" in set (x := @length A a) in *; clearbody x
  end.
Ltac hlia := hide_terms; lia.

Section SotwNoLoop.
Variable t : xds_type.

Definition phi (s : sstate) (c : lcount) : nat :=
  match l_csub c with
  | O => 0%nat
  | _ => chain t (recv (s_srv s) t) (s_c2s s) (target t (s_S s))
  end.

Definition linv (s : sstate) (c : lcount) : Prop :=
  Forall (fun m => r_ty m = t) (s_c2s s) /\
  Forall (fun n => n <> 0) (s_s2c s) /\
  (l_csub c = 0%nat -> s_c2s s = [] /\ s_s2c s = [] /\ s_srv s t = None) /\
  (l_ans c + phi s c + armed_t (s_srv s) t <= l_csub c + l_forc c)%nat.

Lemma recv_same_sub st st' : same_sub (st' t) (st t) -> recv st' t = recv st t.
Proof. unfold recv. destruct (st' t), (st t); cbn; try tauto. intros [-> _]. reflexivity. Qed.

Lemma lstep_inv s c l : linv s c -> linv (sstep t s l) (lcount_step t s l c).
Proof.
  intros Hinv. pose proof Hinv as [HF [HN [H0 HP]]].
  destruct l as [S'|e|n sends|n|o]; unfold lcount_step, sstep.
  - (* CSub *) unfold linv, phi in *. cbn. repeat split.
    + apply Forall_app. split; [exact HF|constructor; [reflexivity|constructor]].
    + exact HN.
    + discriminate.
    + discriminate.
    + discriminate.
    + destruct (l_csub c) as [|k] eqn:Ek.
      * destruct (H0 eq_refl) as [Hc [_ _]]. rewrite Hc. cbn. rewrite change_refl.
        pose proof (cost_le_1 t (recv (s_srv s) t) (mkReq t S' (s_cn s) None)). hlia.
      * pose proof (chain_append_sub t (mkReq t S' (s_cn s) None) (target t (s_S s)) (target t S') (s_c2s s)
                      (recv (s_srv s) t) eq_refl). hlia.
  - (* CRecv *) destruct (s_s2c s) as [|n rest] eqn:Es; [exact Hinv|].
    assert (Hn : n <> 0) by (inversion HN; assumption).
    assert (HNr : Forall (fun n => n <> 0) rest) by (inversion HN; assumption).
    unfold linv, phi in *. cbn. destruct (l_csub c) as [|k] eqn:Ek.
    { destruct (H0 eq_refl) as [_ [Hs _]]. discriminate. }
    repeat split.
    + apply Forall_app. split; [exact HF|constructor; [reflexivity|constructor]].
    + exact HNr.
    + discriminate.
    + discriminate.
    + discriminate.
    + rewrite (chain_append_ack t (mkReq t (s_S s) n e) (target t (s_S s)) (s_c2s s) _ eq_refl Hn). exact HP.
  - (* SProc *) destruct (s_c2s s) as [|r rest] eqn:Ec; [exact Hinv|].
    destruct (n =? 0) eqn:Hn; [exact Hinv|]. apply N.eqb_neq in Hn.
    assert (Hrt : r_ty r = t) by (inversion HF; assumption).
    assert (HFr : Forall (fun m => r_ty m = t) rest) by (inversion HF; assumption).
    destruct (l_csub c) as [|k] eqn:Ek.
    { destruct (H0 eq_refl) as [Hc _]. discriminate. }
    destruct (should_respond (s_srv s) r) as [out st'] eqn:Esr.
    pose proof (sr_potential _ _ _ _ Esr) as Hpot. cbn zeta in Hpot. rewrite Hrt in Hpot.
    unfold phi in HP. rewrite Ek, Ec in HP. cbn [chain] in HP. cbn [fst].
    assert (Hfin : forall srv'' s2c'' ln',
              recv srv'' t = recv st' t -> armed_t srv'' t = armed_t st' t ->
              Forall (fun n => n <> 0) s2c'' ->
              linv (mkS srv'' rest s2c'' (s_S s) (s_cn s) ln' true)
                   (mkL (l_ans c + responded out) (S k) (l_push c) (l_forc c))).
    { intros srv'' s2c'' ln' Hr Ha HN'. unfold linv, phi. cbn. repeat split; auto; try discriminate.
      rewrite Hr, Ha. destruct Hpot as [[H1 [H2 [H3 H4]]]|[H1 H2]].
      - rewrite H1, H2, H3.
        pose proof (chain_triangle t rest (recv (s_srv s) t) (target t (r_names r)) (target t (s_S s))). hlia.
      - rewrite H1. hlia. }
    assert (HNn : Forall (fun n => n <> 0) (s_s2c s ++ [n])).
    { apply Forall_app. split; [exact HN|constructor; [exact Hn|constructor]]. }
    destruct out as [|b subs|]; try (apply Hfin; auto).
    destruct b; [|apply Hfin; auto].
    destruct sends; [|apply Hfin; auto].
    assert (Hex : exists w0, st' t = Some w0).
    { destruct Hpot as [[_ [_ [H3 _]]]|[H1 _]]; [cbn in H3; discriminate|].
      unfold recv in H1. destruct (st' t) as [w0|]; [eauto|].
      unfold target in H1. unfold should_respond in Esr.
      (* answered => not an unsubscribe *)
      destruct (r_err r); [unfold nack in Esr; destruct (s_srv s (r_ty r)); discriminate|].
      unfold should_unsubscribe in Esr. rewrite Hrt in Esr.
      destruct (is_nil (r_names r) && negb (is_wildcard t)); [discriminate|discriminate]. }
    destruct Hex as [w0 Hw0]. destruct (send_keeps st' t n w0 Hw0) as [Hr Ha].
    apply Hfin; auto.
  - (* SPush *) destruct (n =? 0) eqn:Hn; [exact Hinv|]. apply N.eqb_neq in Hn.
    destruct (s_srv s t) as [w0|] eqn:Ew; [|exact Hinv].
    destruct (send_keeps (s_srv s) t n w0 Ew) as [Hr Ha].
    unfold linv, phi in *. cbn. rewrite Hr, Ha. repeat split; auto.
    + apply Forall_app. split; [exact HN|constructor; [exact Hn|constructor]].
    + apply H0; assumption.
    + destruct (l_csub c) eqn:Ek; [|discriminate]. destruct (H0 eq_refl) as [_ [_ Hs]]. rewrite Hs in Ew. discriminate.
    + destruct (l_csub c) eqn:Ek; [|discriminate]. destruct (H0 eq_refl) as [_ [_ Hs]]. rewrite Hs in Ew. discriminate.
  - (* SOther *) destruct (ty_eqb (op_ty o) t) eqn:Et.
    + cbn -[Nat.sub armed_t]. rewrite Nat.sub_diag, Nat.add_0_r. destruct c; exact Hinv.
    + assert (Hne : op_ty o <> t) by (intros E; apply ty_eqb_eq in E; rewrite E in Et; discriminate).
      pose proof (step_other (s_srv s) o t Hne) as Hss.
      pose proof (recv_same_sub _ _ Hss) as Hr.
      unfold linv, phi in *. cbn. rewrite Hr. repeat split; auto.
      * apply H0; assumption.
      * apply H0; assumption.
      * destruct (H0 H) as [_ [_ Hs]]. rewrite Hs in Hss. destruct (snd (step (s_srv s) o) t); [contradiction|reflexivity].
      * hlia.
Qed.

Lemma lrun_inv ls : forall s c, linv s c -> linv (fst (lrun t s ls c)) (snd (lrun t s ls c)).
Proof.
  induction ls as [|l ls IH]; intros s c H; cbn; [exact H|]. apply IH. apply lstep_inv. exact H.
Qed.

Lemma linit_inv st0 cn0 : st0 t = None -> linv (sinit st0 cn0) lzero.
Proof.
  intros H0. unfold linv, phi, sinit, lzero, armed_t. cbn. rewrite H0. repeat split; auto; constructor.
Qed.

(* the closed-loop no-loop theorem *)
Theorem no_loop_sotw st0 cn0 ls :
  st0 t = None ->
  let c := snd (lrun t (sinit st0 cn0) ls lzero) in
  (l_ans c <= l_csub c + l_forc c)%nat.
Proof.
  intros H0 c. destruct (lrun_inv ls _ _ (linit_inv st0 cn0 H0)) as [_ [_ [_ HP]]]. fold c in HP. hlia.
Qed.

(* with no external cause the exchange dies out: from any state satisfying the invariant, an
   internal schedule (request processing and client receives only) fires at most
   2*|s2c| + |c2s| + 2*(pending changes + armed flag) labels *)
Definition measure (s : sstate) (c : lcount) : nat :=
  (2 * length (s_s2c s) + length (s_c2s s) + 2 * (phi s c + armed_t (s_srv s) t))%nat.

Lemma internal_step_measure s c l :
  linv s c -> internal_label l = true ->
  ((if s_enabled s l then 1 else 0) + measure (sstep t s l) (lcount_step t s l c) <= measure s c)%nat /\
  l_csub (lcount_step t s l c) = l_csub c.
Proof.
  intros Hinv Hl. pose proof Hinv as [HF [HN [H0 HP]]].
  destruct l as [S'|e|n sends|n|o]; try discriminate; unfold lcount_step, sstep, s_enabled, measure.
  - (* CRecv *) destruct (s_s2c s) as [|n rest] eqn:Es; [cbn; rewrite ?Es; cbn; split; [hlia|reflexivity]|].
    assert (Hn : n <> 0) by (inversion HN; assumption).
    unfold phi. cbn. destruct (l_csub c) as [|k] eqn:Ek.
    { destruct (H0 eq_refl) as [_ [Hs _]]. discriminate. }
    rewrite (chain_append_ack t (mkReq t (s_S s) n e) (target t (s_S s)) (s_c2s s) _ eq_refl Hn).
    rewrite app_length. cbn. split; [hlia|reflexivity].
  - (* SProc *) destruct (s_c2s s) as [|r rest] eqn:Ec; [cbn; rewrite ?Ec; cbn; split; [hlia|reflexivity]|].
    destruct (n =? 0) eqn:Hn; [cbn; rewrite ?Ec; cbn; split; [hlia|reflexivity]|]. apply N.eqb_neq in Hn.
    assert (Hrt : r_ty r = t) by (inversion HF; assumption).
    destruct (l_csub c) as [|k] eqn:Ek.
    { destruct (H0 eq_refl) as [Hc _]. discriminate. }
    destruct (should_respond (s_srv s) r) as [out st'] eqn:Esr.
    pose proof (sr_potential _ _ _ _ Esr) as Hpot. cbn zeta in Hpot. rewrite Hrt in Hpot.
    unfold phi. rewrite ?Ek, ?Ec. cbn [chain is_nil negb andb length].
    assert (Hans : forall subs, out = Resp true subs -> exists w0, st' t = Some w0).
    { intros subs ->. destruct Hpot as [[_ [_ [H3 _]]]|[H1 _]]; [cbn in H3; discriminate|].
      unfold recv in H1. destruct (st' t) as [w0|]; [eauto|].
      unfold target in H1. unfold should_respond in Esr.
      destruct (r_err r); [unfold nack in Esr; destruct (s_srv s (r_ty r)); discriminate|].
      unfold should_unsubscribe in Esr. rewrite Hrt in Esr.
      destruct (is_nil (r_names r) && negb (is_wildcard t)); discriminate. }
    cbn [fst].
    pose proof (chain_triangle t rest (recv (s_srv s) t) (target t (r_names r)) (target t (s_S s))) as Htri.
    destruct out as [|b subs|]; [|destruct b; [destruct sends|]|];
      try (destruct (Hans subs eq_refl) as [w0 Hw0]; destruct (send_keeps st' t n w0 Hw0) as [Hr Ha]);
      (split; [|reflexivity]); cbn [s_s2c s_c2s s_srv s_S l_csub]; rewrite ?app_length; cbn [length];
      rewrite ?Hr, ?Ha;
      (destruct Hpot as [[P1 [P2 [P3 P4]]]|[P1 P2]]; [rewrite ?P1, ?P2|rewrite ?P1]);
      cbn [responded] in *; hlia.
Qed.

Lemma fired_bound ls : forall s c,
  linv s c -> forallb internal_label ls = true -> (fired t s ls <= measure s c)%nat.
Proof.
  induction ls as [|l ls IH]; intros s c Hinv Hl; cbn [fired]; [apply Nat.le_0_l|].
  cbn in Hl. apply andb_true_iff in Hl. destruct Hl as [Hl1 Hl2].
  destruct (internal_step_measure s c l Hinv Hl1) as [Hm _].
  specialize (IH _ _ (lstep_inv s c l Hinv) Hl2).
  set (e := if s_enabled s l then 1%nat else 0%nat) in *. clearbody e.
  set (m1 := measure (sstep t s l) (lcount_step t s l c)) in *. clearbody m1.
  set (f := fired t (sstep t s l) ls) in *. clearbody f. set (m0 := measure s c) in *. clearbody m0. lia.
Qed.

Theorem exchange_terminates_sotw st0 cn0 ls ls' :
  st0 t = None -> forallb internal_label ls' = true ->
  let sc := lrun t (sinit st0 cn0) ls lzero in
  (fired t (fst sc) ls' <= measure (fst sc) (snd sc))%nat.
Proof.
  intros H0 Hl sc. apply fired_bound; [|exact Hl]. apply lrun_inv. apply linit_inv. exact H0.
Qed.

End SotwNoLoop.
