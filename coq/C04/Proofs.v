(* C04 proofs, part 1: basic facts, the protocol rows, totality, the no-loop count. *)
From V Require Import C04.Model.
From Coq Require Import List NArith Bool Lia ZifyBool ZifyNat ZifyN.
Import ListNotations.
Open Scope N_scope.

(* ------------------------------------------------------------------ basics *)

Lemma ty_eqb_eq a b : ty_eqb a b = true <-> a = b.
Proof.
  destruct a, b; cbn; split; intros H; try reflexivity; try discriminate;
    try (apply N.eqb_eq in H; subst; reflexivity);
    try (injection H as ->; apply N.eqb_refl).
Qed.

Lemma ty_eqb_refl a : ty_eqb a a = true.
Proof. apply ty_eqb_eq. reflexivity. Qed.

Lemma ty_eqb_neq a b : a <> b -> ty_eqb a b = false.
Proof. intros H. destruct (ty_eqb a b) eqn:E; [apply ty_eqb_eq in E; contradiction|reflexivity]. Qed.

Lemma upd_same st t v : upd st t v t = v.
Proof. unfold upd. rewrite ty_eqb_refl. reflexivity. Qed.

Lemma upd_other st t v t' : t <> t' -> upd st t v t' = st t'.
Proof. intros H. unfold upd. rewrite (ty_eqb_neq _ _ H). reflexivity. Qed.

Lemma mem_In x l : mem x l = true <-> In x l.
Proof.
  unfold mem. rewrite existsb_exists. split.
  - intros [y [Hy E]]. apply N.eqb_eq in E. subst. exact Hy.
  - intros H. exists x. split; [exact H|apply N.eqb_refl].
Qed.

Lemma mem_false x l : mem x l = false <-> ~ In x l.
Proof. rewrite <- mem_In. destruct (mem x l); split; intros; try discriminate; try reflexivity; exfalso; auto. Qed.

Lemma In_ins z x l : In z (ins x l) <-> z = x \/ In z l.
Proof.
  induction l as [|y l IH]; cbn.
  - split; [intros [H|[]]; auto|intros [H|[]]; auto].
  - destruct (x <? y) eqn:E1.
    + cbn. split; [intros [H|H]; auto|intros [H|H]; auto].
    + destruct (x =? y) eqn:E2.
      * apply N.eqb_eq in E2. subst. cbn. split; [auto|intros [H|H]; auto].
      * cbn. rewrite IH. split; [intros [H|[H|H]]; auto|intros [H|[H|H]]; auto].
Qed.

Lemma In_del z x l : In z (del x l) <-> In z l /\ z <> x.
Proof.
  unfold del. rewrite filter_In. split.
  - intros [H1 H2]. split; [exact H1|]. intros ->. rewrite N.eqb_refl in H2. discriminate.
  - intros [H1 H2]. split; [exact H1|]. destruct (x =? z) eqn:E; [apply N.eqb_eq in E; subst; contradiction|reflexivity].
Qed.

Lemma In_norm z l : In z (norm l) <-> In z l.
Proof.
  induction l as [|y l IH]; cbn; [tauto|]. rewrite In_ins, IH. split; [intros [H|H]; auto|intros [H|H]; auto].
Qed.

Lemma In_diff z a b : In z (diff a b) <-> In z a /\ ~ In z b.
Proof.
  unfold diff. rewrite filter_In. rewrite negb_true_iff, mem_false. tauto.
Qed.

Lemma subset_spec a b : subset a b = true <-> (forall x, In x a -> In x b).
Proof.
  unfold subset. rewrite forallb_forall. split; intros H x Hx; [apply mem_In|apply mem_In]; auto.
Qed.

Lemma diff_nil_subset a b : subset a b = true -> diff a b = [].
Proof.
  intros H. rewrite subset_spec in H. unfold diff.
  induction a as [|x a IH]; cbn; [reflexivity|].
  assert (Hx : mem x b = true) by (apply mem_In, H; left; reflexivity).
  rewrite Hx. cbn. apply IH. intros y Hy. apply H. right. exact Hy.
Qed.

Lemma diff_self l : diff l l = [].
Proof. apply diff_nil_subset. apply subset_spec. auto. Qed.

Lemma is_nil_true {A} (l : list A) : is_nil l = true <-> l = [].
Proof. destruct l; cbn; split; intros; try reflexivity; discriminate. Qed.

(* ------------------------------------------------------------------ rows: SotW *)

Definition answer (x : outcome * watched) : outcome := fst x.

Lemma first_request_responds st r :
  r_err r = None -> should_unsubscribe r = false -> r_nonce r = 0 ->
  should_respond st r = (Resp true [], new_watched_resource st (r_ty r) (r_names r)).
Proof.
  intros He Hu Hn. unfold should_respond. rewrite He, Hu, Hn. cbn. destruct (st (r_ty r)); reflexivity.
Qed.

Lemma reconnect_responds st r :
  r_err r = None -> should_unsubscribe r = false -> st (r_ty r) = None ->
  should_respond st r = (Resp true [], new_watched_resource st (r_ty r) (r_names r)).
Proof. intros He Hu Hs. unfold should_respond. rewrite He, Hu, Hs. reflexivity. Qed.

Lemma new_watched_has_names st t ns :
  exists w, new_watched_resource st t ns t = Some w /\ names w = norm ns /\ nonce_sent w = 0 /\
            always_respond w = false.
Proof.
  unfold new_watched_resource.
  destruct (warming_deps t) as [|d l] eqn:Ed.
  - cbn. rewrite upd_same. eexists. repeat split; reflexivity.
  - destruct t; try discriminate. injection Ed as <- <-. cbn [fold_left].
    unfold mark_always. rewrite upd_other by discriminate.
    destruct (st EDS); [rewrite upd_other by discriminate|]; rewrite upd_same; eexists; repeat split; reflexivity.
Qed.

Lemma stale_nonce_silent st r w :
  r_err r = None -> should_unsubscribe r = false -> st (r_ty r) = Some w ->
  r_nonce r <> 0 -> r_nonce r <> nonce_sent w ->
  should_respond st r = (Resp false [], st).
Proof.
  intros He Hu Hs Hn Hm. unfold should_respond. rewrite He, Hu, Hs.
  apply N.eqb_neq in Hn. apply N.eqb_neq in Hm. rewrite Hn, Hm. reflexivity.
Qed.

Lemma nack_silent st r m :
  r_err r = Some m -> answer (should_respond st r) = Resp false [] /\
  record (snd (should_respond st r)) (r_ty r) = record st (r_ty r).
Proof.
  intros He. unfold should_respond, nack, answer, record. rewrite He.
  destruct (st (r_ty r)) eqn:E; cbn; [rewrite upd_same|rewrite E]; auto.
Qed.

Lemma nack_silent_watched st r m w :
  r_err r = Some m -> st (r_ty r) = Some w ->
  should_respond st r = (Resp false [], upd st (r_ty r) (Some (set_err w m))).
Proof. intros He Hs. unfold should_respond, nack. rewrite He, Hs. reflexivity. Qed.

Lemma unsubscribe_deletes_watch st r :
  r_err r = None -> should_unsubscribe r = true ->
  answer (should_respond st r) = Resp false [] /\ snd (should_respond st r) (r_ty r) = None.
Proof.
  intros He Hu. unfold should_respond, answer. rewrite He, Hu. cbn. rewrite upd_same. auto.
Qed.

Lemma ack_silent st r w :
  r_err r = None -> should_unsubscribe r = false -> st (r_ty r) = Some w ->
  r_nonce r <> 0 -> r_nonce r = nonce_sent w -> always_respond w = false ->
  norm (r_names r) = names w ->
  answer (should_respond st r) = Resp false [] /\
  record (snd (should_respond st r)) (r_ty r) = names w.
Proof.
  intros He Hu Hs Hn Hm Ha Hnm. unfold should_respond, answer, record. rewrite He, Hu, Hs.
  apply N.eqb_neq in Hn. rewrite Hn. rewrite Hm, N.eqb_refl. cbn [negb].
  rewrite Ha, Hnm, diff_self. cbn. rewrite upd_same. auto.
Qed.

(* the state after an ACK is again one in which the same ACK is silent: the exchange is over *)
Lemma ack_silent_stable st r w :
  r_err r = None -> should_unsubscribe r = false -> st (r_ty r) = Some w ->
  r_nonce r <> 0 -> r_nonce r = nonce_sent w -> always_respond w = false ->
  norm (r_names r) = names w ->
  answer (should_respond (snd (should_respond st r)) r) = Resp false [].
Proof.
  intros He Hu Hs Hn Hm Ha Hnm.
  assert (E : snd (should_respond st r) (r_ty r) =
              Some (mkWr (names w) (wildcard w) (nonce_sent w) (r_nonce r) false 0)).
  { unfold should_respond. rewrite He, Hu, Hs. apply N.eqb_neq in Hn. rewrite Hn, Hm, N.eqb_refl. cbn [negb].
    rewrite Ha, Hnm, diff_self. cbn. rewrite upd_same. reflexivity. }
  eapply (ack_silent _ r) in E; auto. destruct E as [E _]. exact E.
Qed.

Lemma added_names_respond st r w :
  r_err r = None -> should_unsubscribe r = false -> st (r_ty r) = Some w ->
  r_nonce r <> 0 -> r_nonce r = nonce_sent w -> diff (norm (r_names r)) (names w) <> [] ->
  (exists s, answer (should_respond st r) = Resp true s) /\
  record (snd (should_respond st r)) (r_ty r) = norm (r_names r).
Proof.
  intros He Hu Hs Hn Hm Hd. unfold should_respond, answer, record. rewrite He, Hu, Hs.
  apply N.eqb_neq in Hn. rewrite Hn, Hm, N.eqb_refl. cbn [negb].
  assert (Hnil : is_nil (diff (norm (r_names r)) (names w)) = false).
  { destruct (diff (norm (r_names r)) (names w)); [contradiction|reflexivity]. }
  rewrite Hnil. rewrite !andb_false_r.
  destruct (always_respond w); cbn; rewrite ?upd_same; split; eauto.
Qed.

(* ------------------------------------------------------------------ rows: delta *)

Lemma delta_first_responds st r :
  d_err r = None -> st (d_ty r) = None ->
  answer (should_respond_delta st r) = Resp true [].
Proof.
  intros He Hs. unfold should_respond_delta, answer. rewrite He, Hs.
  destruct (delta_watched_resources [] r) as [[res wc] ch]. reflexivity.
Qed.

Lemma delta_stale_silent st r w :
  d_err r = None -> st (d_ty r) = Some w -> d_nonce r <> 0 -> d_nonce r <> nonce_sent w ->
  should_respond_delta st r = (Resp false [], st).
Proof.
  intros He Hs Hn Hm. unfold should_respond_delta. rewrite He, Hs.
  apply N.eqb_neq in Hn. apply N.eqb_neq in Hm. rewrite Hn, Hm. reflexivity.
Qed.

Lemma delta_nack_silent st r m :
  d_err r = Some m -> answer (should_respond_delta st r) = Resp false [] /\
  record (snd (should_respond_delta st r)) (d_ty r) = record st (d_ty r).
Proof.
  intros He. unfold should_respond_delta, nack, answer, record. rewrite He.
  destruct (st (d_ty r)) eqn:E; cbn; [rewrite upd_same|rewrite E]; auto.
Qed.

Lemma dwr_ins_nil acc : fold_left dwr_ins [] acc = acc.
Proof. reflexivity. Qed.

(* a pure ACK (no names) leaves the subscription alone and is silent *)
Lemma delta_ack_silent st r w :
  d_err r = None -> st (d_ty r) = Some w -> d_nonce r = nonce_sent w ->
  d_sub r = [] -> d_unsub r = [] -> d_init r = [] -> always_respond w = false ->
  answer (should_respond_delta st r) = Resp false [].
Proof.
  intros He Hs Hm H1 H2 H3 Ha. unfold should_respond_delta, answer. rewrite He, Hs, Hm, N.eqb_refl.
  rewrite andb_false_r. unfold delta_watched_resources. rewrite H1, H2, H3. cbn.
  destruct (requires_names_mod (d_ty r) && wildcard w); cbn; rewrite Ha; reflexivity.
Qed.

(* ------------------------------------------------------------------ totality / crash freedom *)

Lemma step_no_crash st o : fst (step st o) <> Crash.
Proof.
  destruct o as [r|r|t n ok|t n ok nn]; cbn; try discriminate.
  - unfold should_respond, nack. destruct (r_err r).
    + destruct (st (r_ty r)); discriminate.
    + destruct (should_unsubscribe r); [discriminate|].
      destruct (st (r_ty r)); [|discriminate].
      destruct (r_nonce r =? 0); [discriminate|].
      destruct (negb (r_nonce r =? nonce_sent w)); [discriminate|]. cbn.
      destruct (always_respond w); [discriminate|].
      destruct (is_nil _ && is_nil _); [discriminate|].
      destruct (negb _ && is_nil _); discriminate.
  - unfold should_respond_delta, nack. destruct (d_err r).
    + destruct (st (d_ty r)); discriminate.
    + destruct (st (d_ty r)).
      * destruct (negb _ && negb _); [discriminate|].
        destruct (requires_names_mod (d_ty r) && wildcard w).
        -- destruct (negb _); [|discriminate]. destruct (always_respond w); discriminate.
        -- destruct (delta_watched_resources (names w) r) as [[res wc] ch].
           destruct (negb ch); [|discriminate]. destruct (always_respond w); discriminate.
      * destruct (delta_watched_resources [] r) as [[res wc] ch]. discriminate.
Qed.

Lemma run_no_crash ops : forall st, crashed (fst (run st ops)) = false.
Proof.
  induction ops as [|o ops IH]; intros st; cbn; [reflexivity|].
  pose proof (step_no_crash st o) as Hc.
  destruct (step st o) as [out st'] eqn:E. cbn in Hc.
  destruct out; try contradiction.
  - specialize (IH st'). destruct (run st' ops) as [outs st'']. cbn in *. exact IH.
  - specialize (IH st'). destruct (run st' ops) as [outs st'']. cbn in *. exact IH.
Qed.

(* the run executes every op: as many outcomes as ops *)
Lemma run_length ops : forall st, length (fst (run st ops)) = length ops.
Proof.
  induction ops as [|o ops IH]; intros st; cbn; [reflexivity|].
  pose proof (step_no_crash st o) as Hc.
  destruct (step st o) as [out st'] eqn:E. cbn in Hc.
  destruct out; try contradiction;
    specialize (IH st'); destruct (run st' ops) as [outs st'']; cbn in *; f_equal; exact IH.
Qed.

(* ------------------------------------------------------------------ no loop: every answer has a cause *)

Lemma seteq_diff_nil a b : seteq a b = true -> diff a b = [] /\ diff b a = [].
Proof.
  unfold seteq. intros H. apply andb_true_iff in H. destruct H as [H1 H2].
  split; apply diff_nil_subset; assumption.
Qed.

Lemma sotw_answer_has_cause st r :
  responded (fst (should_respond st r)) = 1%nat -> req_cause st r <> None.
Proof.
  unfold should_respond, req_cause, nack. destruct (r_err r).
  - destruct (st (r_ty r)); cbn; discriminate.
  - destruct (should_unsubscribe r); [cbn; discriminate|].
    destruct (st (r_ty r)) as [w|]; [|destruct (r_nonce r =? 0); discriminate].
    destruct (r_nonce r =? 0); [discriminate|].
    destruct (negb (r_nonce r =? nonce_sent w)); [cbn; discriminate|]. cbn zeta.
    destruct (always_respond w); [discriminate|].
    destruct (seteq (norm (r_names r)) (names w)) eqn:E; [|discriminate].
    apply seteq_diff_nil in E. destruct E as [E1 E2]. rewrite E1, E2. cbn. discriminate.
Qed.

Lemma delta_answer_has_cause st r :
  responded (fst (should_respond_delta st r)) = 1%nat -> dreq_cause st r <> None.
Proof.
  unfold should_respond_delta, dreq_cause, nack. destruct (d_err r).
  - destruct (st (d_ty r)); cbn; discriminate.
  - destruct (st (d_ty r)) as [w|]; [|destruct (d_nonce r =? 0); discriminate].
    destruct (negb (d_nonce r =? 0) && negb (d_nonce r =? nonce_sent w)); [cbn; discriminate|].
    destruct (d_sub r) eqn:E1; [|discriminate].
    destruct (d_init r) eqn:E3; [|discriminate].
    destruct (d_unsub r) eqn:E2; [|discriminate]. cbn [is_nil negb orb].
    destruct (always_respond w) eqn:Ea; [discriminate|].
    destruct (requires_names_mod (d_ty r) && wildcard w).
    + cbn. discriminate.
    + unfold delta_watched_resources. rewrite E1, E2, E3. cbn. discriminate.
Qed.

Lemma answer_has_cause st o :
  responded (fst (step st o)) = 1%nat -> op_cause st o <> None.
Proof.
  destruct o; cbn [step op_cause]; [apply sotw_answer_has_cause|apply delta_answer_has_cause| |]; cbn; discriminate.
Qed.

Lemma responded_le_1 o : (responded o <= 1)%nat.
Proof. destruct o as [|[] ?|]; cbn; lia. Qed.

Definition causes_total (c : counts) : nat :=
  (n_first c + n_reconnect c + n_subchange c + n_forced c)%nat.

Lemma count_step_bound st o c :
  (n_resp c <= causes_total c)%nat ->
  (n_resp (count_step st o (fst (step st o)) c)
   <= causes_total (count_step st o (fst (step st o)) c))%nat.
Proof.
  intros H. unfold count_step, causes_total in *. cbn.
  pose proof (answer_has_cause st o) as Hc. pose proof (responded_le_1 (fst (step st o))) as Hle.
  destruct (responded (fst (step st o))) as [|[|n]] eqn:E; [lia| |lia].
  specialize (Hc eq_refl). destruct (op_cause st o) as [[]|]; [cbn; lia..|contradiction].
Qed.

Lemma count_run_bound ops : forall st c,
  (n_resp c <= causes_total c)%nat ->
  (n_resp (fst (count_run st ops c)) <= causes_total (fst (count_run st ops c)))%nat.
Proof.
  induction ops as [|o ops IH]; intros st c H; cbn; [exact H|].
  pose proof (count_step_bound st o c H) as Hs.
  destruct (step st o) as [out st'] eqn:E. cbn in Hs. apply IH. exact Hs.
Qed.

(* a forced (warming) answer consumes the flag: it is one-shot *)
Lemma forced_consumes_flag st r :
  req_cause st r = Some CForced ->
  exists w', snd (should_respond st r) (r_ty r) = Some w' /\ always_respond w' = false.
Proof.
  unfold req_cause, should_respond. destruct (r_err r); [discriminate|].
  destruct (should_unsubscribe r); [discriminate|].
  destruct (st (r_ty r)) as [w|]; [|destruct (r_nonce r =? 0); discriminate].
  destruct (r_nonce r =? 0); [discriminate|].
  destruct (negb (r_nonce r =? nonce_sent w)); [discriminate|].
  destruct (always_respond w); [|destruct (negb (seteq _ _)); discriminate].
  intros _. cbn. rewrite upd_same. eexists. split; reflexivity.
Qed.

Lemma delta_forced_consumes_flag st r :
  dreq_cause st r = Some CForced ->
  exists w', snd (should_respond_delta st r) (d_ty r) = Some w' /\ always_respond w' = false.
Proof.
  unfold dreq_cause, should_respond_delta. destruct (d_err r); [discriminate|].
  destruct (st (d_ty r)) as [w|]; [|destruct (d_nonce r =? 0); discriminate].
  destruct (negb (d_nonce r =? 0) && negb (d_nonce r =? nonce_sent w)); [discriminate|].
  destruct (negb (is_nil (d_sub r)) || negb (is_nil (d_init r)) || negb (is_nil (d_unsub r))); [discriminate|].
  destruct (always_respond w); [|discriminate]. intros _.
  destruct (requires_names_mod (d_ty r) && wildcard w).
  - destruct (negb _ || negb _); cbn; rewrite upd_same; eexists; split; reflexivity.
  - destruct (delta_watched_resources (names w) r) as [[res wc] ch].
    destruct (negb ch); cbn; rewrite upd_same; eexists; split; reflexivity.
Qed.
