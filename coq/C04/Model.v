(* C04 model: the step functions live in Session.v (shared XdsSession development).  This file
   adds what is specific to C04 (definitions only):
   1. the protocol rows as an executable oracle over OBSERVED (pre-state, request, answer, post-state)
      - written from the property text, not from the control flow of the code;
   2. the cause classification and the counters of the no-loop theorem;
   3. the closed-loop systems (conformant SotW client, delta client with / without changes
      piggybacked on ACKs, FIFO channels both ways, server pushes) of the record theorems. *)
From V Require Export C04.Session.
From Coq Require Import List NArith Bool.
Import ListNotations.
Open Scope N_scope.

Fixpoint nlist_eqb (a b : list N) : bool :=
  match a, b with
  | [], [] => true
  | x :: a', y :: b' => (x =? y) && nlist_eqb a' b'
  | _, _ => false
  end.

Definition wr_eqb (a b : wr) : bool :=
  nlist_eqb (names a) (names b) && Bool.eqb (wildcard a) (wildcard b) &&
  (nonce_sent a =? nonce_sent b) && (nonce_acked a =? nonce_acked b) &&
  Bool.eqb (always_respond a) (always_respond b) && (last_error a =? last_error b).

Definition owr_eqb (a b : option wr) : bool :=
  match a, b with
  | None, None => true
  | Some x, Some y => wr_eqb x y
  | _, _ => false
  end.

Definition is_some {A} (o : option A) : bool := match o with Some _ => true | None => false end.

(* ------------------------------------------------------------------ 1. protocol rows *)

Definition onames (o : option wr) : list N := match o with Some w => names w | None => [] end.
Definition osent (o : option wr) : N := match o with Some w => nonce_sent w | None => 0 end.

(* names, last sent nonce and existence of the record are untouched *)
Definition sub_unchanged (pre post : option wr) : bool :=
  Bool.eqb (is_some pre) (is_some post) && nlist_eqb (onames pre) (onames post) &&
  (osent pre =? osent post).

Definition has_names (post : option wr) (ns : list N) : bool :=
  match post with Some w => nlist_eqb (names w) ns | None => false end.

(* the warming flag is consumed by every request that is processed on the current nonce:
   a forced answer cannot repeat by itself (no request/response loop) *)
Definition flag_cleared (post : option wr) : bool :=
  match post with Some w => negb (always_respond w) | None => true end.

(* SotW rows.  pre/post = the server's record for the request's type before/after. *)
Definition row_sotw (pre : option wr) (r : req) (o : outcome) (post : option wr) : bool :=
  match o with
  | Resp b subs =>
    match r_err r with
    | Some _ => negb b && sub_unchanged pre post                       (* NACK: silent *)
    | None =>
      if is_nil (r_names r) && negb (is_wildcard (r_ty r))
      then negb b && negb (is_some post)                               (* unsubscribe: silent, forgotten *)
      else
        let cur := norm (r_names r) in
        match pre with
        | None => b && is_nil subs && has_names post cur               (* reconnect: answered in full *)
        | Some w =>
          if r_nonce r =? 0 then b && is_nil subs && has_names post cur  (* first request *)
          else if negb (r_nonce r =? nonce_sent w)
          then negb b && sub_unchanged pre post                        (* stale nonce: silent *)
          else
            has_names post cur && (osent post =? nonce_sent w) && flag_cleared post &&
            let added := diff cur (names w) in
            if always_respond w then b                                 (* warming: must be answered *)
            else if negb (is_nil added) then b && nlist_eqb subs added (* added names: answered, only those *)
            else if seteq cur (names w) then negb b                    (* ACK: silent *)
            else true                                                  (* removal only: unconstrained *)
        end
    end
  | _ => false                                                         (* a crash is never acceptable *)
  end.

(* what a delta request asks the subscription to become: (prev + sub + initial) - unsub, "*" is
   not a name *)
Definition spec_delta_names (prev : list N) (r : dreq) : list N :=
  del star (diff (norm (d_sub r ++ d_init r ++ prev)) (d_unsub r)).
Definition spec_delta_wildcard (r : dreq) : bool :=
  (mem star (d_sub r ++ d_init r) && negb (mem star (d_unsub r))) || is_nil (d_sub r).
Definition delta_adds (prev : list N) (r : dreq) : bool :=
  existsb (fun x => negb (mem x prev)) (d_sub r ++ d_init r).
Definition delta_removes (prev : list N) (r : dreq) : bool :=
  existsb (fun x => mem x (d_sub r ++ d_init r ++ prev)) (d_unsub r).

Definition row_delta (pre : option wr) (r : dreq) (o : outcome) (post : option wr) : bool :=
  match o with
  | Resp b _ =>
    match d_err r with
    | Some _ => negb b && sub_unchanged pre post
    | None =>
      match pre with
      | None =>
        let wc := spec_delta_wildcard r in
        b && has_names post (if requires_names_mod (d_ty r) && wc then [] else spec_delta_names [] r) &&
        match post with Some w => Bool.eqb (wildcard w) wc | None => false end
      | Some w =>
        if negb (d_nonce r =? 0) && negb (d_nonce r =? nonce_sent w)
        then negb b && sub_unchanged pre post                          (* stale *)
        else
          (osent post =? nonce_sent w) && flag_cleared post &&
          if requires_names_mod (d_ty r) && wildcard w
          then has_names post [] &&
               (if negb (is_nil (d_sub r)) then b
                else if always_respond w then b
                else if is_nil (d_unsub r) then negb b else true)
          else
            has_names post (spec_delta_names (names w) r) &&
            (if delta_adds (names w) r then b                          (* new names: answered *)
             else if always_respond w then b
             else if negb (delta_removes (names w) r) then negb b      (* ACK / no-op: silent *)
             else true)
      end
    end
  | _ => false
  end.

(* the nonce is recorded only after a successful send, and a send never changes the names
   unless sendDelta is handed the new set *)
Definition row_send (t : xds_type) (n : N) (ok : bool) (pre post : option wr) : bool :=
  if ok && negb (n =? 0) && negb (is_debug t)
  then is_some post && (osent post =? n) && nlist_eqb (onames post) (onames pre)
  else owr_eqb pre post.
Definition row_send_delta (t : xds_type) (n : N) (ok : bool) (nn : option (list N))
  (pre post : option wr) : bool :=
  if ok && negb (is_debug t)
  then is_some post && (osent post =? n) &&
       nlist_eqb (onames post) (match nn with Some ns => norm ns | None => onames pre end)
  else owr_eqb pre post.

Definition row_ok (pre : option wr) (o : op) (out : outcome) (post : option wr) : bool :=
  match o with
  | OReq r => row_sotw pre r out post
  | ODReq r => row_delta pre r out post
  | OSend t n ok => match out with Done => row_send t n ok pre post | _ => false end
  | OSendDelta t n ok nn => match out with Done => row_send_delta t n ok nn pre post | _ => false end
  end.

(* ------------------------------------------------------------------ 2. causes (no-loop) *)

(* why the protocol lets a request be answered, judged on the state the request meets *)
Inductive cause := CFirst | CReconnect | CSubChange | CForced.

Definition req_cause (st : watched) (r : req) : option cause :=
  match r_err r with
  | Some _ => None
  | None =>
    if should_unsubscribe r then None else
    match st (r_ty r) with
    | None => Some (if r_nonce r =? 0 then CFirst else CReconnect)
    | Some w =>
      if r_nonce r =? 0 then Some CFirst
      else if negb (r_nonce r =? nonce_sent w) then None
      else if always_respond w then Some CForced
      else if negb (seteq (norm (r_names r)) (names w)) then Some CSubChange
      else None
    end
  end.

Definition dreq_cause (st : watched) (r : dreq) : option cause :=
  match d_err r with
  | Some _ => None
  | None =>
    match st (d_ty r) with
    | None => Some (if d_nonce r =? 0 then CFirst else CReconnect)
    | Some w =>
      if negb (d_nonce r =? 0) && negb (d_nonce r =? nonce_sent w) then None
      else if negb (is_nil (d_sub r)) || negb (is_nil (d_init r)) || negb (is_nil (d_unsub r))
      then Some CSubChange
      else if always_respond w then Some CForced
      else None
    end
  end.

Definition op_cause (st : watched) (o : op) : option cause :=
  match o with
  | OReq r => req_cause st r
  | ODReq r => dreq_cause st r
  | _ => None
  end.

(* a SotW (re)initialisation of a type others warm on: the only thing that arms AlwaysRespond *)
Definition arms (st : watched) (o : op) : nat :=
  match o with
  | OReq r =>
    match req_cause st r with
    | Some CFirst | Some CReconnect => length (warming_deps (r_ty r))
    | _ => 0%nat
    end
  | _ => 0%nat
  end.

Definition is_cause (c : cause) (o : option cause) : nat :=
  match c, o with
  | CFirst, Some CFirst | CReconnect, Some CReconnect
  | CSubChange, Some CSubChange | CForced, Some CForced => 1%nat
  | _, _ => 0%nat
  end.

Definition responded (o : outcome) : nat := match o with Resp true _ => 1%nat | _ => 0%nat end.

(* counters along a run *)
Record counts := mkCounts {
  n_resp : nat; n_first : nat; n_reconnect : nat; n_subchange : nat; n_forced : nat; n_arm : nat }.
Definition zero_counts := mkCounts 0 0 0 0 0 0.

Definition count_step (st : watched) (o : op) (out : outcome) (c : counts) : counts :=
  let k := op_cause st o in
  mkCounts (n_resp c + responded out) (n_first c + is_cause CFirst k)
           (n_reconnect c + is_cause CReconnect k) (n_subchange c + is_cause CSubChange k)
           (n_forced c + is_cause CForced k) (n_arm c + arms st o).

Fixpoint count_run (st : watched) (ops : list op) (c : counts) : counts * watched :=
  match ops with
  | [] => (c, st)
  | o :: ops' =>
    let '(out, st') := step st o in
    count_run st' ops' (count_step st o out c)
  end.

(* ------------------------------------------------------------------ 3a. SotW closed loop *)

(* One type t.  The client keeps its subscription S and the nonce of the last response it took;
   every subscription change and every response produce exactly one request carrying the
   CURRENT S and that nonce.  Channels are FIFO lists.  When ShouldRespond says "answer", the
   environment decides whether the generator produced a response (sends; pushXds returns without
   sending when res == nil) and picks the non-empty nonce; pushes are spontaneous.  SOther = any step of another type on the same connection. *)
Record sstate := mkS {
  s_srv : watched; s_c2s : list req; s_s2c : list N;
  s_S : list N; s_cn : N;
  s_ln : bool;   (* the last processed client message was a NACK *)
  s_np : bool    (* some client message has been processed *)
}.

Inductive slabel :=
| CSub (S' : list N)
| CRecv (nack : option N)
| SProc (n : N) (sends : bool)   (* sends = the generator produced a response for an answered request *)
| SPush (n : N)
| SOther (o : op).

Definition sstep (t : xds_type) (s : sstate) (l : slabel) : sstate :=
  match l with
  | CSub S' =>
    mkS (s_srv s) (s_c2s s ++ [mkReq t S' (s_cn s) None]) (s_s2c s) S' (s_cn s) (s_ln s) (s_np s)
  | CRecv e =>
    match s_s2c s with
    | [] => s
    | n :: rest =>
      mkS (s_srv s) (s_c2s s ++ [mkReq t (s_S s) n e]) rest (s_S s) n (s_ln s) (s_np s)
    end
  | SProc n sends =>
    match s_c2s s with
    | [] => s
    | r :: rest =>
      if n =? 0 then s else
      match should_respond (s_srv s) r with
      | (Resp true _, st') =>
        if sends
        then mkS (send st' t n true) rest (s_s2c s ++ [n]) (s_S s) (s_cn s) (is_some (r_err r)) true
        else mkS st' rest (s_s2c s) (s_S s) (s_cn s) (is_some (r_err r)) true   (* pushXds: res == nil, nothing sent *)
      | (_, st') =>
        mkS st' rest (s_s2c s) (s_S s) (s_cn s) (is_some (r_err r)) true
      end
    end
  | SPush n =>
    if n =? 0 then s else
    match s_srv s t with
    | None => s
    | Some _ =>
      mkS (send (s_srv s) t n true) (s_c2s s) (s_s2c s ++ [n]) (s_S s) (s_cn s) (s_ln s) (s_np s)
    end
  | SOther o =>
    if ty_eqb (op_ty o) t then s
    else mkS (snd (step (s_srv s) o)) (s_c2s s) (s_s2c s) (s_S s) (s_cn s) (s_ln s) (s_np s)
  end.

(* hypothesis of the record theorem: every answered request is followed by a sent response *)
Definition sends_ok (l : slabel) : bool :=
  match l with SProc _ sends => sends | _ => true end.

Definition srun (t : xds_type) (s : sstate) (ls : list slabel) : sstate :=
  fold_left (sstep t) ls s.

(* start of a stream: the server knows nothing of type t; the client may hold any nonce from an
   earlier stream (reconnect) *)
Definition sinit (st0 : watched) (cn0 : N) : sstate := mkS st0 [] [] [] cn0 false false.

(* counters of the closed-loop no-loop theorem: answers to requests vs external causes *)
Definition armed_t (st : watched) (t : xds_type) : nat :=
  match st t with Some w => if always_respond w then 1%nat else 0%nat | None => 0%nat end.

Record lcount := mkL {
  l_ans : nat;    (* requests ShouldRespond decided to answer *)
  l_csub : nat;   (* client (re)subscriptions: first requests, reconnects, subscription changes *)
  l_push : nat;   (* server pushes of type t *)
  l_forc : nat    (* steps of other types that armed AlwaysRespond on t (CDS (re)initialisation for EDS) *)
}.
Definition lzero : lcount := mkL 0 0 0 0.

Definition lcount_step (t : xds_type) (s : sstate) (l : slabel) (c : lcount) : lcount :=
  match l with
  | CSub _ => mkL (l_ans c) (1 + l_csub c) (l_push c) (l_forc c)
  | CRecv _ => c
  | SProc n _ =>
    match s_c2s s with
    | [] => c
    | r :: _ =>
      if n =? 0 then c
      else mkL (l_ans c + responded (fst (should_respond (s_srv s) r))) (l_csub c) (l_push c) (l_forc c)
    end
  | SPush n =>
    if n =? 0 then c else
    match s_srv s t with
    | None => c
    | Some _ => mkL (l_ans c) (l_csub c) (1 + l_push c) (l_forc c)
    end
  | SOther _ =>
    mkL (l_ans c) (l_csub c) (l_push c)
        (l_forc c + (armed_t (s_srv (sstep t s l)) t - armed_t (s_srv s) t))
  end.

Fixpoint lrun (t : xds_type) (s : sstate) (ls : list slabel) (c : lcount) : sstate * lcount :=
  match ls with
  | [] => (s, c)
  | l :: ls' => lrun t (sstep t s l) ls' (lcount_step t s l c)
  end.

(* a label that does something in state s *)
Definition s_enabled (s : sstate) (l : slabel) : bool :=
  match l with
  | CRecv _ => negb (is_nil (s_s2c s))
  | SProc n _ => negb (is_nil (s_c2s s)) && negb (n =? 0)
  | _ => true
  end.

(* no external cause: only request processing and client receives *)
Definition internal_label (l : slabel) : bool :=
  match l with CRecv _ | SProc _ _ => true | _ => false end.

(* number of labels of an internal schedule that actually fire *)
Fixpoint fired (t : xds_type) (s : sstate) (ls : list slabel) : nat :=
  match ls with
  | [] => 0%nat
  | l :: ls' => ((if s_enabled s l then 1 else 0) + fired t (sstep t s l) ls')%nat
  end.

(* ------------------------------------------------------------------ 3b. delta closed loop *)

(* The client's subscription is a plain list used as a set.  DChange = spontaneous request
   (empty nonce) carrying subscribe / unsubscribe / initial_resource_versions names;
   DRecv = ACK or NACK of the next response, possibly with changes piggybacked (Envoy does that);
   a client of the first class only ever uses DRecv e [] []. *)
Record dstate := mkD {
  x_srv : watched; x_c2s : list dreq; x_s2c : list N;
  x_S : list N; x_cn : N;
  x_ln : bool;
  x_ok : bool    (* no request that carried changes has been dropped as stale / NACK *)
}.

Inductive dlabel :=
| DChange (subs unsubs inits : list N)
| DRecv (nack : option N) (subs unsubs : list N)
| DProc (n : N) (gen : list N) (sends : bool)
| DPush (n : N) (gen : list N)
| DOther (o : op).

Definition client_apply (S subs inits unsubs : list N) : list N :=
  filter (fun x => negb (mem x unsubs)) (subs ++ inits ++ S).

Definition carries_changes (r : dreq) : bool :=
  negb (is_nil (d_sub r)) || negb (is_nil (d_init r)) || negb (is_nil (d_unsub r)).

(* the request is dropped before its names are applied *)
Definition dropped (st : watched) (r : dreq) : bool :=
  match d_err r with
  | Some _ => true
  | None =>
    match st (d_ty r) with
    | None => false
    | Some w => negb (d_nonce r =? 0) && negb (d_nonce r =? nonce_sent w)
    end
  end.

Definition newnames_for (t : xds_type) (gen : list N) : option (list N) :=
  if should_set_watched t then Some gen else None.

Definition dstep (t : xds_type) (s : dstate) (l : dlabel) : dstate :=
  match l with
  | DChange subs unsubs inits =>
    mkD (x_srv s) (x_c2s s ++ [mkDReq t subs unsubs inits 0 None]) (x_s2c s)
        (client_apply (x_S s) subs inits unsubs) (x_cn s) (x_ln s) (x_ok s)
  | DRecv e subs unsubs =>
    match x_s2c s with
    | [] => s
    | n :: rest =>
      mkD (x_srv s) (x_c2s s ++ [mkDReq t subs unsubs [] n e]) rest
          (client_apply (x_S s) subs [] unsubs) n (x_ln s) (x_ok s)
    end
  | DProc n gen sends =>
    match x_c2s s with
    | [] => s
    | r :: rest =>
      let ok' := x_ok s && negb (dropped (x_srv s) r && carries_changes r) in
      match should_respond_delta (x_srv s) r with
      | (Resp true _, st') =>
        if sends
        then mkD (send_delta st' t n true (newnames_for t gen)) rest (x_s2c s ++ [n]) (x_S s) (x_cn s)
                 (is_some (d_err r)) ok'
        else mkD st' rest (x_s2c s) (x_S s) (x_cn s) (is_some (d_err r)) ok'
      | (_, st') => mkD st' rest (x_s2c s) (x_S s) (x_cn s) (is_some (d_err r)) ok'
      end
    end
  | DPush n gen =>
    match x_srv s t with
    | None => s
    | Some _ =>
      mkD (send_delta (x_srv s) t n true (newnames_for t gen)) (x_c2s s) (x_s2c s ++ [n])
          (x_S s) (x_cn s) (x_ln s) (x_ok s)
    end
  | DOther o =>
    if ty_eqb (op_ty o) t then s
    else mkD (snd (step (x_srv s) o)) (x_c2s s) (x_s2c s) (x_S s) (x_cn s) (x_ln s) (x_ok s)
  end.

Definition drun (t : xds_type) (s : dstate) (ls : list dlabel) : dstate :=
  fold_left (dstep t) ls s.

Definition dinit (st0 : watched) (cn0 : N) : dstate := mkD st0 [] [] [] cn0 false true.

(* counters of the delta closed-loop no-loop theorem.  A client request counts as an external cause
   when it is spontaneous (empty nonce: first request, reconnect, subscription change) or carries
   changes piggybacked on an ACK; plain ACKs/NACKs do not count. *)
Definition d_counted (r : dreq) : nat :=
  if (d_nonce r =? 0) || carries_changes r then 1%nat else 0%nat.

Record dcount := mkDC { dc_ans : nat; dc_req : nat; dc_push : nat; dc_forc : nat }.
Definition dczero : dcount := mkDC 0 0 0 0.

Definition dcount_step (t : xds_type) (s : dstate) (l : dlabel) (c : dcount) : dcount :=
  match l with
  | DChange _ _ _ => mkDC (dc_ans c) (1 + dc_req c) (dc_push c) (dc_forc c)
  | DRecv e subs unsubs =>
    match x_s2c s with
    | [] => c
    | n :: _ => mkDC (dc_ans c) (dc_req c + d_counted (mkDReq t subs unsubs [] n e)) (dc_push c) (dc_forc c)
    end
  | DProc _ _ _ =>
    match x_c2s s with
    | [] => c
    | r :: _ =>
      mkDC (dc_ans c + responded (fst (should_respond_delta (x_srv s) r))) (dc_req c) (dc_push c) (dc_forc c)
    end
  | DPush _ _ =>
    match x_srv s t with
    | None => c
    | Some _ => mkDC (dc_ans c) (dc_req c) (1 + dc_push c) (dc_forc c)
    end
  | DOther _ =>
    mkDC (dc_ans c) (dc_req c) (dc_push c)
         (dc_forc c + (armed_t (x_srv (dstep t s l)) t - armed_t (x_srv s) t))
  end.

Fixpoint dlrun (t : xds_type) (s : dstate) (ls : list dlabel) (c : dcount) : dstate * dcount :=
  match ls with
  | [] => (s, c)
  | l :: ls' => dlrun t (dstep t s l) ls' (dcount_step t s l c)
  end.

(* first client class: changes only in spontaneous requests *)
Definition class1_label (l : dlabel) : bool :=
  match l with DRecv _ subs unsubs => is_nil subs && is_nil unsubs | _ => true end.

(* the server's record is the client's subscription ("*" is a mode, not a name) *)
Definition record_is (st : watched) (t : xds_type) (S : list N) : Prop :=
  forall x, In x (record st t) <-> (In x S /\ x <> star).
