(* Evaluation of harness cases for C04. *)
From V Require Export lib.Verdict C04.Model.
Open Scope N_scope.

(* one executed op: the op, what the real function returned / whether it panicked, and the real
   WatchedResource afterwards of every type the op may touch (its own type and the warming
   dependencies of that type) *)
Definition obs_step := (op * outcome * list (xds_type * option wr))%type.

Inductive case :=
(* an op sequence run against the real ShouldRespond / shouldRespondDelta / Send / sendDelta on one
   connection, starting with no watches.  [final] = every watched type at the end (all other
   types have no watch); [expect] = for closed-loop runs that ended quiescent after a
   non-rejected message: the reference client's subscription per type *)
| Seq (id : N) (steps : list obs_step) (universe : list xds_type)
      (final : list (xds_type * option wr)) (expect : list (xds_type * list N))
(* the per-type tables *)
| Table (id : N) (t : xds_type) (wildcard_ deps_eds req_mod debug set_watched : bool)
(* deltaWatchedResources called directly *)
| Dwr (id : N) (existing : list N) (r : dreq) (res : list N) (wc changed : bool).

Definition case_id c :=
  match c with Seq id _ _ _ _ => id | Table id _ _ _ _ _ _ => id | Dwr id _ _ _ _ _ => id end.

Definition outcome_eqb (a b : outcome) : bool :=
  match a, b with
  | Crash, Crash => true
  | Done, Done => true
  | Resp x s, Resp y s' => Bool.eqb x y && nlist_eqb s s'
  | _, _ => false
  end.

Definition touched_ok (st : watched) (l : list (xds_type * option wr)) : bool :=
  forallb (fun '(t, o) => owr_eqb (st t) o) l.

(* the model, started from no watches, predicts every observation *)
Fixpoint seq_model (st : watched) (steps : list obs_step) : bool * watched :=
  match steps with
  | [] => (true, st)
  | (o, out, touched) :: rest =>
    let '(mout, st') := step st o in
    if outcome_eqb mout out && touched_ok st' touched then
      match mout with
      | Crash => (is_nil rest, st')
      | _ => seq_model st' rest
      end
    else (false, st')
  end.

Definition assoc_wr (l : list (xds_type * option wr)) (t : xds_type) : option wr :=
  match find (fun '(t', _) => ty_eqb t t') l with
  | Some (_, o) => o
  | None => None
  end.

Definition seq_ok steps universe final : bool :=
  let '(ok, st) := seq_model empty_watched steps in
  ok && forallb (fun t => owr_eqb (st t) (assoc_wr final t)) universe.

(* the observed state, rebuilt from the observations alone *)
Definition apply_touched (st : watched) (l : list (xds_type * option wr)) : watched :=
  fold_left (fun s '(t, o) => upd s t o) l st.

Fixpoint rows_hold (st : watched) (steps : list obs_step) : bool :=
  match steps with
  | [] => true
  | (o, out, touched) :: rest =>
    let st' := apply_touched st touched in
    row_ok (st (op_ty o)) o out (st' (op_ty o)) && rows_hold st' rest
  end.

Definition expect_ok (final : list (xds_type * option wr)) (expect : list (xds_type * list N)) : bool :=
  forallb (fun '(t, cs) => nlist_eqb (onames (assoc_wr final t)) cs) expect.

Definition model_ok (c : case) : bool :=
  match c with
  | Seq _ steps universe final _ =>
    seq_ok steps universe final
  | Table _ t w d r g s =>
    Bool.eqb (is_wildcard t) w && Bool.eqb (negb (is_nil (warming_deps t))) d &&
    Bool.eqb (requires_names_mod t) r && Bool.eqb (is_debug t) g && Bool.eqb (should_set_watched t) s
  | Dwr _ ex r res wc ch =>
    let '(res', wc', ch') := delta_watched_resources ex r in
    nlist_eqb res' res && Bool.eqb wc' wc && Bool.eqb ch' ch
  end.

(* the property's own oracle on the observed behaviour *)
Definition prop_ok (c : case) : bool :=
  match c with
  | Seq _ steps _ final expect => rows_hold empty_watched steps && expect_ok final expect
  | Table _ t w d _ _ _ =>
    (* by the xDS spec LDS and CDS are the wildcard types, EDS/RDS/SDS/ECDS are not; an EDS
       subscription must be re-answered after CDS *)
    match t with
    | CDS => w && d
    | LDS => w
    | EDS | RDS | SDS | ECDS => negb w
    | _ => true
    end
  | Dwr _ ex r res wc _ =>
    nlist_eqb res (spec_delta_names ex r) &&
    Bool.eqb wc ((mem star (d_sub r ++ d_init r ++ ex) && negb (mem star (d_unsub r))) || is_nil (d_sub r))
  end.

Definition mismatches := check_all case_id model_ok prop_ok.
