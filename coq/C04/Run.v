(* Evaluation of harness cases for C04. *)
From V Require Export lib.Verdict C04.Model.
Open Scope N_scope.

(* one executed op: the op, what the real function returned / whether it panicked, and the real
   WatchedResource afterwards of every type the op may touch (its own type and the warming
   dependencies of that type) *)
Definition obs_step := (op * outcome * list (xds_type * option wr))%type.

(* glue ops: gen_ok = the stub generator returns resources (non-nil); n = nonce of the response
   that was sent (0 if none); gen = names of the generated resources; eds_ok / ne = the same for
   the forced EDS push that follows an answered delta CDS request *)
Inductive eop :=
| EOp (o : op)
| EProc (r : req) (gen_ok : bool) (n : N)
| EDProc (r : dreq) (gen_ok : bool) (n : N) (gen : list N) (eds_ok : bool) (ne : N).

Definition eop_ty (e : eop) : xds_type :=
  match e with EOp o => op_ty o | EProc r _ _ => r_ty r | EDProc r _ _ _ _ _ => d_ty r end.

Definition answered_b (o : outcome) : bool := match o with Resp true _ => true | _ => false end.

(* pilot/pkg/xds/ads.go processRequest: ShouldRespond, then pushXds on the watch (Generate; nothing is
   sent when res == nil; xds.Send records the nonce).
   pilot/pkg/xds/delta.go processDeltaRequest: shouldRespondDelta, pushDeltaXds (sendDelta with
   newResourceNames for the types shouldSetWatchedResources selects), then forceEDSPush after an
   answered CDS request when EDS is watched. *)
Definition estep (st : watched) (e : eop) : outcome * bool * bool * watched :=
  match e with
  | EOp o => let '(out, st') := step st o in (out, false, false, st')
  | EProc r g n =>
    let '(out, st') := should_respond st r in
    let sends := answered_b out && g in
    (out, sends, false, if sends then send st' (r_ty r) n true else st')
  | EDProc r g n gen ge ne =>
    let t := d_ty r in
    let '(out, st') := should_respond_delta st r in
    if answered_b out then
      let st1 := if g then send_delta st' t n true (newnames_for t gen) else st' in
      let forced := ty_eqb t CDS && is_some (st1 EDS) && ge in
      (out, g, forced, if forced then send_delta st1 EDS ne true (newnames_for EDS []) else st1)
    else (out, false, false, st')
  end.

Definition eobs_step := (eop * outcome * bool * bool * list (xds_type * option wr))%type.

Inductive case :=
(* an op sequence run against the real ShouldRespond / shouldRespondDelta / Send / sendDelta on one
   connection, starting with no watches.  [final] = every watched type at the end (all other
   types have no watch); [expect] = for closed-loop runs that ended quiescent after a
   non-rejected message: the reference client's subscription per type *)
| Seq (id : N) (steps : list obs_step) (universe : list xds_type)
      (final : list (xds_type * option wr)) (expect : list (xds_type * list N))
(* end-to-end: the real processRequest / processDeltaRequest on a bare connection with stub
   generators (plus plain ops for server pushes); per step: the op, (answered?, Subscribed seen by
   the generator), whether a response of the request's type was sent, whether processDeltaRequest's
   forced EDS response was sent, and the touched records afterwards *)
| E2E (id : N) (esteps : list eobs_step) (universe : list xds_type)
      (final : list (xds_type * option wr)) (expect : list (xds_type * list N))
(* the real xds.Stream / xds.Receive loop over an in-memory stream: [probes] istio-agent health probes,
   then the first ordinary request (node information present?, a generator exists for its type?),
   [nmsgs] messages in all, then the client closes.  Observed: Initialize calls, processed requests,
   was a response of the first request's type sent, was a request processed on a connection that
   was never initialized, did the loop panic, did it end (without the harness having to give up),
   did Stream return an error, Close calls *)
| Strm (id : N) (probes : N) (node_ok has_gen : bool) (nmsgs : N)
       (inits procs : N) (first_answered proc_early panicked ended err : bool) (closes : N)
(* the per-type tables *)
| Table (id : N) (t : xds_type) (wildcard_ deps_eds req_mod debug set_watched : bool)
(* deltaWatchedResources called directly *)
| Dwr (id : N) (existing : list N) (r : dreq) (res : list N) (wc changed : bool).

Definition case_id c :=
  match c with Seq id _ _ _ _ => id | E2E id _ _ _ _ => id | Strm id _ _ _ _ _ _ _ _ _ _ _ _ => id | Table id _ _ _ _ _ _ => id | Dwr id _ _ _ _ _ => id end.

Definition outcome_eqb (a b : outcome) : bool :=
  match a, b with
  | Crash, Crash => true
  | Done, Done => true
  | Resp x s, Resp y s' => Bool.eqb x y && nlist_eqb s s'
  | _, _ => false
  end.

Definition touched_ok (st : watched) (l : list (xds_type * option wr)) : bool :=
  forallb (fun '(t, o) => owr_eqb (st t) o) l.

(* the model, started from no watches, predicts every observation *)
Fixpoint seq_model (st : watched) (steps : list obs_step) : bool * watched :=
  match steps with
  | [] => (true, st)
  | (o, out, touched) :: rest =>
    let '(mout, st') := step st o in
    if outcome_eqb mout out && touched_ok st' touched then
      match mout with
      | Crash => (is_nil rest, st')
      | _ => seq_model st' rest
      end
    else (false, st')
  end.

Definition assoc_wr (l : list (xds_type * option wr)) (t : xds_type) : option wr :=
  match find (fun '(t', _) => ty_eqb t t') l with
  | Some (_, o) => o
  | None => None
  end.

Definition seq_ok steps universe final : bool :=
  let '(ok, st) := seq_model empty_watched steps in
  ok && forallb (fun t => owr_eqb (st t) (assoc_wr final t)) universe.

Fixpoint eseq_model (st : watched) (steps : list eobs_step) : bool * watched :=
  match steps with
  | [] => (true, st)
  | (e, out, sent, sent_eds, touched) :: rest =>
    let '(mout, msent, meds, st') := estep st e in
    if outcome_eqb mout out && Bool.eqb msent sent && Bool.eqb meds sent_eds && touched_ok st' touched then
      match mout with
      | Crash => (is_nil rest, st')
      | _ => eseq_model st' rest
      end
    else (false, st')
  end.

Definition eseq_ok steps universe final : bool :=
  let '(ok, st) := eseq_model empty_watched steps in
  ok && forallb (fun t => owr_eqb (st t) (assoc_wr final t)) universe.

(* the observed state, rebuilt from the observations alone *)
Definition apply_touched (st : watched) (l : list (xds_type * option wr)) : watched :=
  fold_left (fun s '(t, o) => upd s t o) l st.

Fixpoint rows_hold (st : watched) (steps : list obs_step) : bool :=
  match steps with
  | [] => true
  | (o, out, touched) :: rest =>
    let st' := apply_touched st touched in
    row_ok (st (op_ty o)) o out (st' (op_ty o)) && rows_hold st' rest
  end.

(* end-to-end rows: the request rows on the record as it was before the response was sent, plus:
   a response is sent exactly when the request is answered and the generator produced one, and its
   nonce is then the one on record *)
Definition unsend (pre post : option wr) (ns : option (list N)) : option wr :=
  match post with
  | Some w => Some (mkWr (match ns with Some l => l | None => names w end) (wildcard w) (osent pre)
                         (nonce_acked w) (always_respond w) (last_error w))
  | None => None
  end.

Definition erow_ok (pre : option wr) (e : eop) (out : outcome) (sent : bool) (post : option wr) : bool :=
  match e with
  | EOp o => row_ok pre o out post
  | EProc r g n =>
    Bool.eqb sent (answered_b out && g) &&
    (if sent then (osent post =? n) && negb (n =? 0) && row_sotw pre r out (unsend pre post None)
     else row_sotw pre r out post)
  | EDProc r g n gen _ _ =>
    Bool.eqb sent (answered_b out && g) &&
    (if sent then
       (osent post =? n) &&
       (if should_set_watched (d_ty r)
        then has_names post (norm gen) &&
             row_delta pre r out
               (unsend pre post (Some (if requires_names_mod (d_ty r) then []
                                       else spec_delta_names (onames pre) r)))
        else row_delta pre r out (unsend pre post None))
     else row_delta pre r out post)
  end.

Fixpoint erows_hold (st : watched) (steps : list eobs_step) : bool :=
  match steps with
  | [] => true
  | (e, out, sent, _, touched) :: rest =>
    let st' := apply_touched st touched in
    erow_ok (st (eop_ty e)) e out sent (st' (eop_ty e)) && erows_hold st' rest
  end.

Definition expect_ok (final : list (xds_type * option wr)) (expect : list (xds_type * list N)) : bool :=
  forallb (fun '(t, cs) => nlist_eqb (onames (assoc_wr final t)) cs) expect.

Definition model_ok (c : case) : bool :=
  match c with
  | Seq _ steps universe final _ =>
    seq_ok steps universe final
  | E2E _ steps universe final _ => eseq_ok steps universe final
  | Strm _ probes node_ok has_gen nmsgs inits procs fa early pan ended err closes =>
    (* pkg/xds/server.go Receive + Stream: probes before the first request are skipped; the first
       ordinary request must carry node information, else InvalidArgument and nothing is processed;
       otherwise Initialize once, every later message is processed in order, Close once at the end *)
    negb pan && ended && negb early &&
    (if node_ok
     then (inits =? 1) && (procs =? nmsgs - probes) && Bool.eqb fa has_gen && negb err && (closes =? 1)
     else (inits =? 0) && (procs =? 0) && negb fa && err && (closes =? 0))
  | Table _ t w d r g s =>
    Bool.eqb (is_wildcard t) w && Bool.eqb (negb (is_nil (warming_deps t))) d &&
    Bool.eqb (requires_names_mod t) r && Bool.eqb (is_debug t) g && Bool.eqb (should_set_watched t) s
  | Dwr _ ex r res wc ch =>
    let '(res', wc', ch') := delta_watched_resources ex r in
    nlist_eqb res' res && Bool.eqb wc' wc && Bool.eqb ch' ch
  end.

(* the property's own oracle on the observed behaviour *)
Definition prop_ok (c : case) : bool :=
  match c with
  | Seq _ steps _ final expect => rows_hold empty_watched steps && expect_ok final expect
  | E2E _ steps _ final expect => erows_hold empty_watched steps && expect_ok final expect
  | Strm _ _ node_ok has_gen _ _ _ fa early pan ended _ _ =>
    (* stream-level C04_total + first_request_responds: no panic, the stream ends, no request is handled
       before the connection is initialized, and a first request from an identified client for a type
       the server generates is answered *)
    negb pan && ended && negb early && (if node_ok && has_gen then fa else true)
  | Table _ t w d _ _ _ =>
    (* by the xDS spec LDS and CDS are the wildcard types, EDS/RDS/SDS/ECDS are not; an EDS
       subscription must be re-answered after CDS *)
    match t with
    | CDS => w && d
    | LDS => w
    | EDS | RDS | SDS | ECDS => negb w
    | _ => true
    end
  | Dwr _ ex r res wc _ =>
    nlist_eqb res (spec_delta_names ex r) &&
    Bool.eqb wc ((mem star (d_sub r ++ d_init r ++ ex) && negb (mem star (d_unsub r))) || is_nil (d_sub r))
  end.

Definition mismatches := check_all case_id model_ok prop_ok.
