(* C04 property theorems only.  Model: Session.v (step functions of ShouldRespond,
   shouldRespondDelta, Send, sendDelta, Proxy watched-resource helpers) and Model.v (closed loops).
   nil_policy: = the ErrorDetail closure as first read (dereferences nil, K14),
   = the closure guards nil. *)
From V Require Import lib.Verdict C04.Model C04.Proofs C04.ProofsSotw C04.ProofsDelta.
Open Scope N_scope.

(* ---------------------------------------------------------------- rows, SotW *)

Theorem C04_first_request_responds : forall st r,
  r_err r = None -> should_unsubscribe r = false -> r_nonce r = 0 ->
  should_respond st r = (Resp true [], new_watched_resource st (r_ty r) (r_names r)).
Proof. exact first_request_responds. Qed.
Print Assumptions C04_first_request_responds.

(* unknown type on this stream: answered even though the request carries a nonce *)
Theorem C04_reconnect_responds : forall st r,
  r_err r = None -> should_unsubscribe r = false -> st (r_ty r) = None ->
  should_respond st r = (Resp true [], new_watched_resource st (r_ty r) (r_names r)).
Proof. exact reconnect_responds. Qed.
Print Assumptions C04_reconnect_responds.

Theorem C04_new_watch_records_request : forall st t ns,
  exists w, new_watched_resource st t ns t = Some w /\ names w = norm ns /\ nonce_sent w = 0.
Proof. exact new_watched_has_names. Qed.
Print Assumptions C04_new_watch_records_request.

Theorem C04_added_names_respond : forall st r w,
  r_err r = None -> should_unsubscribe r = false -> st (r_ty r) = Some w ->
  r_nonce r <> 0 -> r_nonce r = nonce_sent w -> diff (norm (r_names r)) (names w) <> [] ->
  (exists s, fst (should_respond st r) = Resp true s) /\
  record (snd (should_respond st r)) (r_ty r) = norm (r_names r).
Proof. exact added_names_respond. Qed.
Print Assumptions C04_added_names_respond.

Theorem C04_ack_silent : forall st r w,
  r_err r = None -> should_unsubscribe r = false -> st (r_ty r) = Some w ->
  r_nonce r <> 0 -> r_nonce r = nonce_sent w -> always_respond w = false ->
  norm (r_names r) = names w ->
  fst (should_respond st r) = Resp false [] /\
  record (snd (should_respond st r)) (r_ty r) = names w.
Proof. exact ack_silent. Qed.
Print Assumptions C04_ack_silent.

(* ... and the state after the ACK is one where the same ACK is silent again *)
Theorem C04_ack_silent_stable : forall st r w,
  r_err r = None -> should_unsubscribe r = false -> st (r_ty r) = Some w ->
  r_nonce r <> 0 -> r_nonce r = nonce_sent w -> always_respond w = false ->
  norm (r_names r) = names w ->
  fst (should_respond (snd (should_respond st r)) r) = Resp false [].
Proof. exact ack_silent_stable. Qed.
Print Assumptions C04_ack_silent_stable.

Theorem C04_nack_silent : forall st r m,
  r_err r = Some m ->
  fst (should_respond st r) = Resp false [] /\
  record (snd (should_respond st r)) (r_ty r) = record st (r_ty r).
Proof. exact nack_silent. Qed.
Print Assumptions C04_nack_silent.

(* with a watch on record the NACK is remembered in LastError *)
Theorem C04_nack_silent_watched : forall st r m w,
  r_err r = Some m -> st (r_ty r) = Some w ->
  should_respond st r = (Resp false [], upd st (r_ty r) (Some (set_err w m))).
Proof. exact nack_silent_watched. Qed.
Print Assumptions C04_nack_silent_watched.

Theorem C04_stale_nonce_silent : forall st r w,
  r_err r = None -> should_unsubscribe r = false -> st (r_ty r) = Some w ->
  r_nonce r <> 0 -> r_nonce r <> nonce_sent w ->
  should_respond st r = (Resp false [], st).
Proof. exact stale_nonce_silent. Qed.
Print Assumptions C04_stale_nonce_silent.

Theorem C04_unsubscribe_deletes_watch : forall st r,
  r_err r = None -> should_unsubscribe r = true ->
  fst (should_respond st r) = Resp false [] /\ snd (should_respond st r) (r_ty r) = None.
Proof. exact unsubscribe_deletes_watch. Qed.
Print Assumptions C04_unsubscribe_deletes_watch.

(* ---------------------------------------------------------------- rows, delta *)

Theorem C04_delta_first_responds : forall st r,
  d_err r = None -> st (d_ty r) = None -> fst (should_respond_delta st r) = Resp true [].
Proof. exact delta_first_responds. Qed.
Print Assumptions C04_delta_first_responds.

Theorem C04_delta_stale_nonce_silent : forall st r w,
  d_err r = None -> st (d_ty r) = Some w -> d_nonce r <> 0 -> d_nonce r <> nonce_sent w ->
  should_respond_delta st r = (Resp false [], st).
Proof. exact delta_stale_silent. Qed.
Print Assumptions C04_delta_stale_nonce_silent.

Theorem C04_delta_nack_silent : forall st r m,
  d_err r = Some m ->
  fst (should_respond_delta st r) = Resp false [] /\
  record (snd (should_respond_delta st r)) (d_ty r) = record st (d_ty r).
Proof. exact delta_nack_silent. Qed.
Print Assumptions C04_delta_nack_silent.

Theorem C04_delta_ack_silent : forall st r w,
  d_err r = None -> st (d_ty r) = Some w -> d_nonce r = nonce_sent w ->
  d_sub r = [] -> d_unsub r = [] -> d_init r = [] -> always_respond w = false ->
  fst (should_respond_delta st r) = Resp false [].
Proof. exact delta_ack_silent. Qed.
Print Assumptions C04_delta_ack_silent.

(* deltaWatchedResources is (existing + subscribe + initial) - unsubscribe, "*" never a name *)
Theorem C04_delta_names_are_set_update : forall ns r res wc ch,
  delta_watched_resources ns r = (res, wc, ch) ->
  forall x, In x res <->
    ((In x ns \/ In x (d_sub r) \/ In x (d_init r)) /\ ~ In x (d_unsub r) /\ x <> star).
Proof. exact dwr_names_spec. Qed.
Print Assumptions C04_delta_names_are_set_update.

(* ---------------------------------------------------------------- no crash on any sequence *)

(* every op of every sequence, conformant or not, from any state, is executed and none crashes *)
Theorem C04_total : forall ops st,
  crashed (fst (run st ops)) = false /\
  List.length (fst (run st ops)) = List.length ops.
Proof. intros ops st. split; [apply run_no_crash|apply run_length]. Qed.
Print Assumptions C04_total.

(* in particular a NACK for a type without a watch (K14, repaired) is silent and changes nothing *)
Theorem C04_nack_unwatched_is_noop : forall st r m,
  r_err r = Some m -> st (r_ty r) = None -> should_respond st r = (Resp false [], st).
Proof. intros st r m He Hs. unfold should_respond, nack. rewrite He, Hs. reflexivity. Qed.
Print Assumptions C04_nack_unwatched_is_noop.

Theorem C04_delta_nack_unwatched_is_noop : forall st r m,
  d_err r = Some m -> st (d_ty r) = None -> should_respond_delta st r = (Resp false [], st).
Proof. intros st r m He Hs. unfold should_respond_delta, nack. rewrite He, Hs. reflexivity. Qed.
Print Assumptions C04_delta_nack_unwatched_is_noop.

(* ---------------------------------------------------------------- no request/response loop *)

(* along every op sequence (requests of both protocols and sends, any order, any state) the
   number of answers is at most the number of requests that are a first request, a reconnect,
   a subscription change on the current nonce, or a warming-forced re-answer *)
Theorem C04_no_loop_partial : forall ops st,
  let c := fst (count_run st ops zero_counts) in
  (n_resp c <= n_first c + n_reconnect c + n_subchange c + n_forced c)%nat.
Proof. intros ops st. apply (count_run_bound ops st zero_counts). cbn. apply le_n. Qed.
Print Assumptions C04_no_loop_partial.

(* a forced answer clears AlwaysRespond: it cannot repeat without a new CDS (re)initialisation *)
Theorem C04_forced_answer_is_one_shot : forall st r,
  req_cause st r = Some CForced ->
  exists w', snd (should_respond st r) (r_ty r) = Some w' /\ always_respond w' = false.
Proof. exact forced_consumes_flag. Qed.
Print Assumptions C04_forced_answer_is_one_shot.

Theorem C04_delta_forced_answer_is_one_shot : forall st r,
  dreq_cause st r = Some CForced ->
  exists w', snd (should_respond_delta st r) (d_ty r) = Some w' /\ always_respond w' = false.
Proof. exact delta_forced_consumes_flag. Qed.
Print Assumptions C04_delta_forced_answer_is_one_shot.

(* ---------------------------------------------------------------- record = client subscription *)

(* SotW, full statement (the server may answer a request without sending anything, which
   pushXds does when the generator returns nil): false.  Witness: SDS; subscribe, unsubscribe,
   re-subscribe answered-but-nothing-sent, then a subscription change carrying the nonce the client
   still holds is classified stale. *)
Theorem C04_record_matches_client_sotw_refuted :
  exists t ls, is_debug t = false /\
    let s := srun t (sinit empty_watched 0) ls in
    s_c2s s = [] /\ s_s2c s = [] /\ s_np s = true /\ s_ln s = false /\
    record (s_srv s) t <> norm (s_S s).
Proof. exact record_matches_client_sotw_refuted. Qed.
Print Assumptions C04_record_matches_client_sotw_refuted.

(* SotW, any type (wildcard or not), every interleaving of client subscription changes, client
   ACKs/NACKs, server processing, server pushes and traffic of other types, FIFO channels, the
   client possibly holding a nonce of an earlier stream - UNDER THE HYPOTHESIS that every answered
   request is followed by a sent response (forallb sends_ok ls): when both channels are empty and
   the last processed message was no NACK, the server's record is the client's subscription *)
Theorem C04_record_matches_client_sotw_partial : forall t, is_debug t = false ->
  forall st0 cn0 ls, st0 t = None -> forallb sends_ok ls = true ->
  let s := srun t (sinit st0 cn0) ls in
  s_c2s s = [] -> s_s2c s = [] -> s_np s = true -> s_ln s = false ->
  record (s_srv s) t = norm (s_S s).
Proof. exact record_matches_client_sotw. Qed.
Print Assumptions C04_record_matches_client_sotw_partial.

(* delta, non-wildcard types, clients that change subscriptions only in spontaneous requests:
   whenever the request channel is empty (responses may be in flight, the last message may even be
   a NACK, answered requests may or may not be followed by a sent response) the record is the
   client's subscription *)
Theorem C04_record_matches_client_delta_spontaneous : forall t, is_wildcard t = false ->
  forall st0 cn0 ls, st0 t = None -> forallb class1_label ls = true ->
  let s := drun t (dinit st0 cn0) ls in
  x_c2s s = [] -> record_is (x_srv s) t (x_S s).
Proof. exact record_matches_client_delta_spontaneous. Qed.
Print Assumptions C04_record_matches_client_delta_spontaneous.

(* delta, clients that piggyback changes on ACKs (Envoy): full statement false (K13) *)
Theorem C04_record_matches_client_delta_piggyback_refuted :
  exists t ls, is_wildcard t = false /\
    let s := drun t (dinit empty_watched 0) ls in
    x_c2s s = [] /\ x_s2c s = [] /\ x_ln s = false /\ ~ record_is (x_srv s) t (x_S s).
Proof. exact record_matches_client_delta_piggyback_refuted. Qed.
Print Assumptions C04_record_matches_client_delta_piggyback_refuted.

(* ... true as long as no request that carried changes met the stale-nonce or NACK branch *)
Theorem C04_record_matches_client_delta_piggyback_partial : forall t, is_wildcard t = false ->
  forall st0 cn0 ls, st0 t = None ->
  let s := drun t (dinit st0 cn0) ls in
  x_c2s s = [] -> x_ok s = true -> record_is (x_srv s) t (x_S s).
Proof. exact record_matches_client_delta_partial. Qed.
Print Assumptions C04_record_matches_client_delta_piggyback_partial.

(* ---------------------------------------------------------------- hypotheses are satisfiable *)

Example C04_sotw_loop_nonvacuous :
  let s := srun EDS (sinit empty_watched 7)
             [CSub [2; 1]; SProc 1 true; SPush 2; CSub [3]; CRecv (Some 1); CRecv None; SProc 3 true; SProc 4 true;
              SProc 5 true; CRecv None; SProc 6 true] in
  s_c2s s = [] /\ s_s2c s = [] /\ s_np s = true /\ s_ln s = false /\ record (s_srv s) EDS = [3].
Proof. vm_compute. repeat split. Qed.

Example C04_delta_loop_nonvacuous :
  let s := drun RDS (dinit empty_watched 0)
             [DChange [1; 2] [] []; DProc 1 [] true; DPush 2 []; DChange [3] [1] []; DRecv None [] [];
              DProc 3 [] true; DProc 4 [] true; DRecv (Some 1) [] []; DProc 5 [] false] in
  forallb class1_label
             [DChange [1; 2] [] []; DProc 1 [] true; DPush 2 []; DChange [3] [1] []; DRecv None [] [];
              DProc 3 [] true; DProc 4 [] true; DRecv (Some 1) [] []; DProc 5 [] false] = true /\
  x_c2s s = [] /\ x_ok s = true /\ record (x_srv s) RDS = [2; 3].
Proof. vm_compute. repeat split. Qed.

Example C04_rows_nonvacuous :
  let st := send (snd (should_respond empty_watched (mkReq RDS [1] 0 None))) RDS 5 true in
  fst (should_respond st (mkReq RDS [1] 5 None)) = Resp false [] /\
  fst (should_respond st (mkReq RDS [1; 2] 5 None)) = Resp true [2] /\
  fst (should_respond st (mkReq RDS [1; 2] 4 None)) = Resp false [] /\
  fst (should_respond st (mkReq RDS [1; 2] 5 (Some 1))) = Resp false [] /\
  fst (should_respond st (mkReq LDS [] 5 (Some 1))) = Resp false [].
Proof. vm_compute. repeat split. Qed.
