(* C04 property theorems only.  Model: Session.v (step functions of ShouldRespond,
   shouldRespondDelta, Send, sendDelta, Proxy watched-resource helpers) and Model.v (closed loops).
   nil_policy: = the ErrorDetail closure as first read (dereferences nil, K14),
   = the closure guards nil. *)
From V Require Import lib.Verdict C04.Model C04.Proofs C04.ProofsSotw C04.ProofsDelta C04.ProofsLoop C04.ProofsLoopDelta.
Open Scope N_scope.

(* ---------------------------------------------------------------- rows, SotW *)

Theorem C04_first_request_responds : forall st r,
  r_err r = None -> should_unsubscribe r = false -> r_nonce r = 0 ->
  should_respond st r = (Resp true [], new_watched_resource st (r_ty r) (r_names r)).
Proof. exact first_request_responds. Qed.
Print Assumptions C04_first_request_responds.

(* unknown type on this stream: answered even though the request carries a nonce *)
Theorem C04_reconnect_responds : forall st r,
  r_err r = None -> should_unsubscribe r = false -> st (r_ty r) = None ->
  should_respond st r = (Resp true [], new_watched_resource st (r_ty r) (r_names r)).
Proof. exact reconnect_responds. Qed.
Print Assumptions C04_reconnect_responds.

Theorem C04_new_watch_records_request : forall st t ns,
  exists w, new_watched_resource st t ns t = Some w /\ names w = norm ns /\ nonce_sent w = 0 /\
            always_respond w = false.
Proof. exact new_watched_has_names. Qed.
Print Assumptions C04_new_watch_records_request.

Theorem C04_added_names_respond : forall st r w,
  r_err r = None -> should_unsubscribe r = false -> st (r_ty r) = Some w ->
  r_nonce r <> 0 -> r_nonce r = nonce_sent w -> diff (norm (r_names r)) (names w) <> [] ->
  (exists s, fst (should_respond st r) = Resp true s) /\
  record (snd (should_respond st r)) (r_ty r) = norm (r_names r).
Proof. exact added_names_respond. Qed.
Print Assumptions C04_added_names_respond.

Theorem C04_ack_silent : forall st r w,
  r_err r = None -> should_unsubscribe r = false -> st (r_ty r) = Some w ->
  r_nonce r <> 0 -> r_nonce r = nonce_sent w -> always_respond w = false ->
  norm (r_names r) = names w ->
  fst (should_respond st r) = Resp false [] /\
  record (snd (should_respond st r)) (r_ty r) = names w.
Proof. exact ack_silent. Qed.
Print Assumptions C04_ack_silent.

(* ... and the state after the ACK is one where the same ACK is silent again *)
Theorem C04_ack_silent_stable : forall st r w,
  r_err r = None -> should_unsubscribe r = false -> st (r_ty r) = Some w ->
  r_nonce r <> 0 -> r_nonce r = nonce_sent w -> always_respond w = false ->
  norm (r_names r) = names w ->
  fst (should_respond (snd (should_respond st r)) r) = Resp false [].
Proof. exact ack_silent_stable. Qed.
Print Assumptions C04_ack_silent_stable.

Theorem C04_nack_silent : forall st r m,
  r_err r = Some m ->
  fst (should_respond st r) = Resp false [] /\
  record (snd (should_respond st r)) (r_ty r) = record st (r_ty r).
Proof. exact nack_silent. Qed.
Print Assumptions C04_nack_silent.

(* with a watch on record the NACK is remembered in LastError *)
Theorem C04_nack_silent_watched : forall st r m w,
  r_err r = Some m -> st (r_ty r) = Some w ->
  should_respond st r = (Resp false [], upd st (r_ty r) (Some (set_err w m))).
Proof. exact nack_silent_watched. Qed.
Print Assumptions C04_nack_silent_watched.

Theorem C04_stale_nonce_silent : forall st r w,
  r_err r = None -> should_unsubscribe r = false -> st (r_ty r) = Some w ->
  r_nonce r <> 0 -> r_nonce r <> nonce_sent w ->
  should_respond st r = (Resp false [], st).
Proof. exact stale_nonce_silent. Qed.
Print Assumptions C04_stale_nonce_silent.

Theorem C04_unsubscribe_deletes_watch : forall st r,
  r_err r = None -> should_unsubscribe r = true ->
  fst (should_respond st r) = Resp false [] /\ snd (should_respond st r) (r_ty r) = None.
Proof. exact unsubscribe_deletes_watch. Qed.
Print Assumptions C04_unsubscribe_deletes_watch.

(* ---------------------------------------------------------------- rows, delta *)

Theorem C04_delta_first_responds : forall st r,
  d_err r = None -> st (d_ty r) = None -> fst (should_respond_delta st r) = Resp true [].
Proof. exact delta_first_responds. Qed.
Print Assumptions C04_delta_first_responds.

Theorem C04_delta_stale_nonce_silent : forall st r w,
  d_err r = None -> st (d_ty r) = Some w -> d_nonce r <> 0 -> d_nonce r <> nonce_sent w ->
  should_respond_delta st r = (Resp false [], st).
Proof. exact delta_stale_silent. Qed.
Print Assumptions C04_delta_stale_nonce_silent.

Theorem C04_delta_nack_silent : forall st r m,
  d_err r = Some m ->
  fst (should_respond_delta st r) = Resp false [] /\
  record (snd (should_respond_delta st r)) (d_ty r) = record st (d_ty r).
Proof. exact delta_nack_silent. Qed.
Print Assumptions C04_delta_nack_silent.

Theorem C04_delta_ack_silent : forall st r w,
  d_err r = None -> st (d_ty r) = Some w -> d_nonce r = nonce_sent w ->
  d_sub r = [] -> d_unsub r = [] -> d_init r = [] -> always_respond w = false ->
  fst (should_respond_delta st r) = Resp false [].
Proof. exact delta_ack_silent. Qed.
Print Assumptions C04_delta_ack_silent.

(* deltaWatchedResources is (existing + subscribe + initial) - unsubscribe, "*" never a name *)
Theorem C04_delta_names_are_set_update : forall ns r res wc ch,
  delta_watched_resources ns r = (res, wc, ch) ->
  forall x, In x res <->
    ((In x ns \/ In x (d_sub r) \/ In x (d_init r)) /\ ~ In x (d_unsub r) /\ x <> star).
Proof. exact dwr_names_spec. Qed.
Print Assumptions C04_delta_names_are_set_update.

(* ---------------------------------------------------------------- no crash on any sequence *)

(* every op of every sequence, conformant or not, from any state, is executed and none crashes *)
Theorem C04_total : forall ops st,
  crashed (fst (run st ops)) = false /\
  List.length (fst (run st ops)) = List.length ops.
Proof. intros ops st. split; [apply run_no_crash|apply run_length]. Qed.
Print Assumptions C04_total.

(* in particular a NACK for a type without a watch (K14, repaired) is silent and changes nothing *)
Theorem C04_nack_unwatched_is_noop : forall st r m,
  r_err r = Some m -> st (r_ty r) = None -> should_respond st r = (Resp false [], st).
Proof. intros st r m He Hs. unfold should_respond, nack. rewrite He, Hs. reflexivity. Qed.
Print Assumptions C04_nack_unwatched_is_noop.

Theorem C04_delta_nack_unwatched_is_noop : forall st r m,
  d_err r = Some m -> st (d_ty r) = None -> should_respond_delta st r = (Resp false [], st).
Proof. intros st r m He Hs. unfold should_respond_delta, nack. rewrite He, Hs. reflexivity. Qed.
Print Assumptions C04_delta_nack_unwatched_is_noop.

(* ---------------------------------------------------------------- no request/response loop *)

(* SotW closed loop, any type, every schedule (client (re)subscriptions, ACKs/NACKs, request
   processing with or without a sent response, pushes, traffic of other types), client possibly
   holding a nonce of an earlier stream: the number of requests the server answers is at most the
   number of client (re)subscriptions (first requests, reconnects, subscription changes) plus the
   number of steps of other types that armed AlwaysRespond; pushes never cause an answer, so
   #answers <= #subscriptions + #pushes + #forcings holds a fortiori *)
Theorem C04_no_loop_sotw : forall t st0 cn0 ls, st0 t = None ->
  let c := snd (lrun t (sinit st0 cn0) ls lzero) in
  (l_ans c <= l_csub c + l_forc c)%nat /\ (l_ans c <= l_csub c + l_push c + l_forc c)%nat.
Proof.
  intros t st0 cn0 ls H0 c. pose proof (no_loop_sotw t st0 cn0 ls H0) as H. fold c in H.
  split; [exact H|]. apply (Nat.le_trans _ _ _ H). rewrite <- Nat.add_assoc.
  apply Nat.add_le_mono_l. apply Nat.le_add_l.
Qed.
Print Assumptions C04_no_loop_sotw.

(* ... and with no external cause the exchange terminates: from every reachable state, a schedule of
   request processing and client receives only fires at most
   2*|responses in flight| + |requests in flight| + 2*(pending changes + armed flag) labels *)
Theorem C04_exchange_terminates_sotw : forall t st0 cn0 ls ls', st0 t = None ->
  forallb internal_label ls' = true ->
  let sc := lrun t (sinit st0 cn0) ls lzero in
  (fired t (fst sc) ls' <= measure t (fst sc) (snd sc))%nat.
Proof. exact exchange_terminates_sotw. Qed.
Print Assumptions C04_exchange_terminates_sotw.

(* delta closed loop, any type: answers <= spontaneous requests (first, reconnect, subscription
   change) + ACKs that carry piggybacked changes + arming steps of other types *)
Theorem C04_no_loop_delta : forall t st0 cn0 ls, st0 t = None ->
  let c := snd (dlrun t (dinit st0 cn0) ls dczero) in
  (dc_ans c <= dc_req c + dc_forc c)%nat.
Proof. exact no_loop_delta. Qed.
Print Assumptions C04_no_loop_delta.

(* open loop, any op sequence from any state (requests of both protocols and sends in any order):
   every answer has a cause - first request, reconnect, subscription change on the current nonce, or
   a warming-forced re-answer *)
Theorem C04_every_answer_has_a_cause : forall ops st,
  let c := fst (count_run st ops zero_counts) in
  (n_resp c <= n_first c + n_reconnect c + n_subchange c + n_forced c)%nat.
Proof. intros ops st. apply (count_run_bound ops st zero_counts). cbn. apply le_n. Qed.
Print Assumptions C04_every_answer_has_a_cause.

(* a forced answer clears AlwaysRespond: it cannot repeat without a new CDS (re)initialisation *)
Theorem C04_forced_answer_is_one_shot : forall st r,
  req_cause st r = Some CForced ->
  exists w', snd (should_respond st r) (r_ty r) = Some w' /\ always_respond w' = false.
Proof. exact forced_consumes_flag. Qed.
Print Assumptions C04_forced_answer_is_one_shot.

Theorem C04_delta_forced_answer_is_one_shot : forall st r,
  dreq_cause st r = Some CForced ->
  exists w', snd (should_respond_delta st r) (d_ty r) = Some w' /\ always_respond w' = false.
Proof. exact delta_forced_consumes_flag. Qed.
Print Assumptions C04_delta_forced_answer_is_one_shot.

(* ---------------------------------------------------------------- record = client subscription *)

(* SotW, full statement (the server may answer a request without sending anything, which
   pushXds does when the generator returns nil): false.  Witness: SDS; subscribe, unsubscribe,
   re-subscribe answered-but-nothing-sent, then a subscription change carrying the nonce the client
   still holds is classified stale. *)
Theorem C04_record_matches_client_sotw_refuted :
  exists t ls, is_debug t = false /\
    let s := srun t (sinit empty_watched 0) ls in
    s_c2s s = [] /\ s_s2c s = [] /\ s_np s = true /\ s_ln s = false /\
    record (s_srv s) t <> norm (s_S s).
Proof. exact record_matches_client_sotw_refuted. Qed.
Print Assumptions C04_record_matches_client_sotw_refuted.

(* SotW, any type (wildcard or not), every interleaving of client subscription changes, client
   ACKs/NACKs, server processing, server pushes and traffic of other types, FIFO channels, the
   client possibly holding a nonce of an earlier stream - UNDER THE HYPOTHESIS that every answered
   request is followed by a sent response (forallb sends_ok ls): when both channels are empty and
   the last processed message was no NACK, the server's record is the client's subscription *)
Theorem C04_record_matches_client_sotw_partial : forall t, is_debug t = false ->
  forall st0 cn0 ls, st0 t = None -> forallb sends_ok ls = true ->
  let s := srun t (sinit st0 cn0) ls in
  s_c2s s = [] -> s_s2c s = [] -> s_np s = true -> s_ln s = false ->
  record (s_srv s) t = norm (s_S s).
Proof. exact record_matches_client_sotw. Qed.
Print Assumptions C04_record_matches_client_sotw_partial.

(* delta, non-wildcard types, clients that change subscriptions only in spontaneous requests:
   whenever the request channel is empty (responses may be in flight, the last message may even be
   a NACK, answered requests may or may not be followed by a sent response) the record is the
   client's subscription *)
Theorem C04_record_matches_client_delta_spontaneous : forall t, is_wildcard t = false ->
  forall st0 cn0 ls, st0 t = None -> forallb class1_label ls = true ->
  let s := drun t (dinit st0 cn0) ls in
  x_c2s s = [] -> record_is (x_srv s) t (x_S s).
Proof. exact record_matches_client_delta_spontaneous. Qed.
Print Assumptions C04_record_matches_client_delta_spontaneous.

(* delta, clients that piggyback changes on ACKs (Envoy): full statement false (K13) *)
Theorem C04_record_matches_client_delta_piggyback_refuted :
  exists t ls, is_wildcard t = false /\
    let s := drun t (dinit empty_watched 0) ls in
    x_c2s s = [] /\ x_s2c s = [] /\ x_ln s = false /\ ~ record_is (x_srv s) t (x_S s).
Proof. exact record_matches_client_delta_piggyback_refuted. Qed.
Print Assumptions C04_record_matches_client_delta_piggyback_refuted.

(* ... true as long as no request that carried changes met the stale-nonce or NACK branch *)
Theorem C04_record_matches_client_delta_piggyback_partial : forall t, is_wildcard t = false ->
  forall st0 cn0 ls, st0 t = None ->
  let s := drun t (dinit st0 cn0) ls in
  x_c2s s = [] -> x_ok s = true -> record_is (x_srv s) t (x_S s).
Proof. exact record_matches_client_delta_partial. Qed.
Print Assumptions C04_record_matches_client_delta_piggyback_partial.

(* ---------------------------------------------------------------- delta record, wildcard types *)

(* where pushDeltaXds hands sendDelta newResourceNames (wildcard types whose names are not managed by
   the generator) a sent response overwrites the record with exactly the generated names *)
Theorem C04_delta_send_sets_record : forall st t n gen,
  should_set_watched t = true -> is_debug t = false ->
  forall x, In x (record (send_delta st t n true (newnames_for t gen)) t) <-> In x gen.
Proof. exact send_delta_sets_record. Qed.
Print Assumptions C04_delta_send_sets_record.

(* a delta request that is not dropped updates the record as a set, for every type that stores names *)
Theorem C04_delta_request_updates_record : forall st r out st',
  requires_names_mod (d_ty r) = false ->
  should_respond_delta st r = (out, st') -> dropped st r = false ->
  forall x, In x (record st' (d_ty r)) <->
     ((In x (record st (d_ty r)) \/ In x (d_sub r) \/ In x (d_init r)) /\ ~ In x (d_unsub r) /\ x <> star).
Proof. exact request_updates_record. Qed.
Print Assumptions C04_delta_request_updates_record.

(* Address / Workload with a wildcard subscription: no names are stored at all *)
Theorem C04_delta_managed_wildcard_stores_no_names : forall st r out st',
  requires_names_mod (d_ty r) = true -> d_err r = None ->
  should_respond_delta st r = (out, st') ->
  match st (d_ty r) with
  | None => snd (fst (delta_watched_resources [] r)) = true -> record st' (d_ty r) = []
  | Some w => wildcard w = true -> dropped st r = false -> record st' (d_ty r) = []
  end.
Proof. exact wildcard_managed_record_empty. Qed.
Print Assumptions C04_delta_managed_wildcard_stores_no_names.

(* closed loop, wildcard types: along every schedule the record equals the reference set [wrun]:
   the generated names of the last sent response, updated by every later request that was not
   dropped, untouched by anything else *)
Theorem C04_record_wildcard_delta : forall t, should_set_watched t = true -> is_debug t = false ->
  forall st0 cn0 ls, st0 t = None ->
  let sp := wrun t (dinit st0 cn0) ls (fun _ => False) in
  forall x, In x (record (x_srv (fst sp)) t) <-> snd sp x.
Proof. exact record_wildcard_delta. Qed.
Print Assumptions C04_record_wildcard_delta.

(* ---------------------------------------------------------------- hypotheses are satisfiable *)

Example C04_sotw_loop_nonvacuous :
  let s := srun EDS (sinit empty_watched 7)
             [CSub [2; 1]; SProc 1 true; SPush 2; CSub [3]; CRecv (Some 1); CRecv None; SProc 3 true; SProc 4 true;
              SProc 5 true; CRecv None; SProc 6 true] in
  s_c2s s = [] /\ s_s2c s = [] /\ s_np s = true /\ s_ln s = false /\ record (s_srv s) EDS = [3].
Proof. vm_compute. repeat split. Qed.

Example C04_delta_loop_nonvacuous :
  let s := drun RDS (dinit empty_watched 0)
             [DChange [1; 2] [] []; DProc 1 [] true; DPush 2 []; DChange [3] [1] []; DRecv None [] [];
              DProc 3 [] true; DProc 4 [] true; DRecv (Some 1) [] []; DProc 5 [] false] in
  forallb class1_label
             [DChange [1; 2] [] []; DProc 1 [] true; DPush 2 []; DChange [3] [1] []; DRecv None [] [];
              DProc 3 [] true; DProc 4 [] true; DRecv (Some 1) [] []; DProc 5 [] false] = true /\
  x_c2s s = [] /\ x_ok s = true /\ record (x_srv s) RDS = [2; 3].
Proof. vm_compute. repeat split. Qed.

Example C04_rows_nonvacuous :
  let st := send (snd (should_respond empty_watched (mkReq RDS [1] 0 None))) RDS 5 true in
  fst (should_respond st (mkReq RDS [1] 5 None)) = Resp false [] /\
  fst (should_respond st (mkReq RDS [1; 2] 5 None)) = Resp true [2] /\
  fst (should_respond st (mkReq RDS [1; 2] 4 None)) = Resp false [] /\
  fst (should_respond st (mkReq RDS [1; 2] 5 (Some 1))) = Resp false [] /\
  fst (should_respond st (mkReq LDS [] 5 (Some 1))) = Resp false [].
Proof. vm_compute. repeat split. Qed.

Example C04_no_loop_counts_nonvacuous :
  let c := snd (lrun EDS (sinit empty_watched 0)
             [CSub [1]; SProc 1 true; CRecv None; SProc 2 true; SOther (OReq (mkReq CDS [] 0 None));
              SPush 3; CRecv None; SProc 4 true; CRecv None; SProc 5 true; CSub [1; 2]; SProc 6 true] lzero) in
  l_ans c = 3%nat /\ l_csub c = 2%nat /\ l_push c = 1%nat /\ l_forc c = 1%nat.
Proof. vm_compute. repeat split. Qed.
