(* C04 property theorems only. *)
From V Require Import lib.Verdict C04.Model.
Theorem C04_stub : True. Proof. exact I. Qed.
Print Assumptions C04_stub.
