(* C04 proofs, part 5: no request/response loop in the delta closed loop, any type.
   Potential = armed AlwaysRespond flag + number of counted requests in flight. *)
From V Require Import C04.Model C04.Proofs C04.ProofsSotw C04.ProofsLoop.
From Coq Require Import List NArith Bool Lia PeanoNat.
Import ListNotations.
Open Scope N_scope.

Fixpoint pendc (l : list dreq) : nat :=
  match l with [] => 0%nat | r :: l' => (d_counted r + pendc l')%nat end.

Lemma pendc_app l r : pendc (l ++ [r]) = (pendc l + d_counted r)%nat.
Proof. induction l as [|x l IH]; cbn; [lia|]. rewrite IH. lia. Qed.

Lemma d_counted_le_1 r : (d_counted r <= 1)%nat.
Proof. unfold d_counted. destruct (_ || _); lia. Qed.

(* deltaWatchedResources reports a change only if the request names something *)
Lemma dwr_changed_carries ns r res wc ch :
  delta_watched_resources ns r = (res, wc, ch) -> ch = true -> carries_changes r = true.
Proof.
  unfold delta_watched_resources, carries_changes.
  destruct (d_sub r) as [|a l1]; [|reflexivity].
  destruct (d_init r) as [|b l2]; [|reflexivity].
  destruct (d_unsub r) as [|c0 l3]; [|intros; cbn; reflexivity].
  cbn. intros [= _ _ <-]. discriminate.
Qed.

Lemma srd_potential st r out st' :
  should_respond_delta st r = (out, st') ->
  let t := d_ty r in
  (responded out + armed_t st' t <=
     (match st t with None => 1 | Some _ => d_counted r end) + armed_t st t)%nat /\
  (st t <> None -> st' t <> None) /\
  (responded out = 1%nat -> st' t <> None).
Proof.
  unfold should_respond_delta, nack. intros E. cbn zeta.
  destruct (d_err r) as [m|].
  - destruct (st (d_ty r)) as [w|] eqn:Es; injection E as <- <-; unfold armed_t.
    + rewrite upd_same, Es. cbn. repeat split; try discriminate. lia.
    + rewrite Es. cbn. repeat split; try discriminate; try lia. intros H; contradiction.
  - destruct (st (d_ty r)) as [w|] eqn:Es.
    + destruct (negb (d_nonce r =? 0) && negb (d_nonce r =? nonce_sent w)).
      * injection E as <- <-. unfold armed_t. rewrite Es. cbn. repeat split; try discriminate; try lia.
      * assert (Hfin : forall ns changed,
                  (changed = true -> carries_changes r = true) ->
                  (if negb changed
                   then if always_respond w
                        then (Resp true [], upd st (d_ty r) (Some (mkWr ns (wildcard w) (nonce_sent w)
                                 (if d_nonce r =? 0 then nonce_acked w else d_nonce r) false
                                 (if d_nonce r =? 0 then last_error w else 0))))
                        else (Resp false [], upd st (d_ty r) (Some (mkWr ns (wildcard w) (nonce_sent w)
                                 (if d_nonce r =? 0 then nonce_acked w else d_nonce r) false
                                 (if d_nonce r =? 0 then last_error w else 0))))
                   else (Resp true [], upd st (d_ty r) (Some (mkWr ns (wildcard w) (nonce_sent w)
                                 (if d_nonce r =? 0 then nonce_acked w else d_nonce r) false
                                 (if d_nonce r =? 0 then last_error w else 0))))) = (out, st') ->
                  (responded out + armed_t st' (d_ty r) <= d_counted r + armed_t st (d_ty r))%nat /\
                  (Some w <> None -> st' (d_ty r) <> None) /\ (responded out = 1%nat -> st' (d_ty r) <> None)).
        { intros ns changed Hch E'. unfold armed_t at 2. rewrite Es.
          destruct changed; cbn [negb] in E'.
          - injection E' as <- <-. unfold armed_t. rewrite upd_same. cbn.
            unfold d_counted. rewrite (Hch eq_refl), orb_true_r. repeat split; try discriminate. lia.
          - destruct (always_respond w); injection E' as <- <-; unfold armed_t; rewrite upd_same; cbn;
              repeat split; try discriminate; lia. }
        destruct (requires_names_mod (d_ty r) && wildcard w).
        -- apply (Hfin [] (negb (is_nil (d_sub r)) || negb (is_nil (d_unsub r)))); [|exact E].
           intros H. unfold carries_changes. apply orb_true_iff in H. destruct H as [H|H]; rewrite H; cbn;
             [reflexivity|apply orb_true_r].
        -- destruct (delta_watched_resources (names w) r) as [[res wc] ch] eqn:Ed.
           apply (Hfin res ch); [|exact E]. intros ->. eapply dwr_changed_carries; eauto.
    + destruct (delta_watched_resources [] r) as [[res wc] ch]. injection E as <- <-.
      unfold armed_t. rewrite upd_same, Es. cbn. repeat split; try discriminate. lia.
Qed.

Lemma send_delta_keeps st t n nn w0 :
  st t = Some w0 ->
  armed_t (send_delta st t n true nn) t = armed_t st t /\ send_delta st t n true nn t <> None.
Proof.
  intros H. unfold send_delta, armed_t. destruct (true && negb (is_debug t)).
  - rewrite upd_same, H. destruct nn; cbn; split; try reflexivity; discriminate.
  - rewrite H. split; [reflexivity|discriminate].
Qed.

Section DeltaNoLoop.
Variable t : xds_type.

Definition dlinv (s : dstate) (c : dcount) : Prop :=
  Forall (fun m => d_ty m = t) (x_c2s s) /\
  (x_srv s t = None -> x_s2c s = [] /\ Forall (fun m => d_counted m = 1%nat) (x_c2s s)) /\
  (dc_ans c + pendc (x_c2s s) + armed_t (x_srv s) t <= dc_req c + dc_forc c)%nat.

Lemma dlstep_inv s c l : dlinv s c -> dlinv (dstep t s l) (dcount_step t s l c).
Proof.
  intros Hinv. pose proof Hinv as [HF [H0 HP]].
  destruct l as [subs unsubs inits|e subs unsubs|n gen sends|n gen|o]; unfold dcount_step, dstep.
  - (* DChange *) unfold dlinv. cbn. rewrite pendc_app. repeat split.
    + apply Forall_app. split; [exact HF|constructor; [reflexivity|constructor]].
    + apply H0. assumption.
    + apply Forall_app. split; [apply H0; assumption|constructor; [reflexivity|constructor]].
    + cbn. lia.
  - (* DRecv *) destruct (x_s2c s) as [|n rest] eqn:Es; [exact Hinv|].
    unfold dlinv. cbn. rewrite pendc_app. repeat split.
    + apply Forall_app. split; [exact HF|constructor; [reflexivity|constructor]].
    + destruct (H0 H) as [Hs _]. discriminate.
    + destruct (H0 H) as [Hs _]. discriminate.
    + lia.
  - (* DProc *) destruct (x_c2s s) as [|r rest] eqn:Ec; [exact Hinv|].
    assert (Hrt : d_ty r = t) by (inversion HF; assumption).
    assert (HFr : Forall (fun m => d_ty m = t) rest) by (inversion HF; assumption).
    destruct (should_respond_delta (x_srv s) r) as [out st'] eqn:Esr.
    pose proof (srd_potential _ _ _ _ Esr) as Hpot. cbn zeta in Hpot. rewrite Hrt in Hpot.
    destruct Hpot as [Hp1 [Hp2 Hp3]]. cbn [pendc] in HP. cbn [fst].
    assert (Hcnt : (match x_srv s t with None => 1 | Some _ => d_counted r end = d_counted r)%nat).
    { destruct (x_srv s t) eqn:Ew; [reflexivity|]. destruct (H0 eq_refl) as [_ Hc]. inversion Hc; subst. congruence. }
    rewrite Hcnt in Hp1.
    assert (Hfin : forall srv'' s2c'' ln' ok',
              armed_t srv'' t = armed_t st' t ->
              (srv'' t = None -> st' t = None /\ s2c'' = x_s2c s) ->
              dlinv (mkD srv'' rest s2c'' (x_S s) (x_cn s) ln' ok')
                    (mkDC (dc_ans c + responded out) (dc_req c) (dc_push c) (dc_forc c))).
    { intros srv'' s2c'' ln' ok' Ha Hnone. unfold dlinv. cbn. rewrite Ha. repeat split; auto.
      - destruct (Hnone H) as [Hn1 Hn2]. subst s2c''.
        destruct (x_srv s t) eqn:Ew; [exfalso; apply Hp2; [discriminate|exact Hn1]|]. apply (H0 eq_refl).
      - destruct (Hnone H) as [Hn1 Hn2].
        destruct (x_srv s t) eqn:Ew; [exfalso; apply Hp2; [discriminate|exact Hn1]|].
        destruct (H0 eq_refl) as [_ Hc]. inversion Hc; assumption.
      - lia. }
    destruct out as [|b subs0|]; try (apply Hfin; auto).
    destruct b; [|apply Hfin; auto].
    destruct sends; [|apply Hfin; auto].
    destruct (st' t) as [w0|] eqn:Ew0; [|exfalso; apply Hp3; reflexivity].
    destruct (send_delta_keeps st' t n (newnames_for t gen) w0 Ew0) as [Ha Hne].
    apply Hfin; [rewrite Ha; reflexivity|]. intros H. contradiction.
  - (* DPush *) destruct (x_srv s t) as [w0|] eqn:Ew; [|exact Hinv].
    destruct (send_delta_keeps (x_srv s) t n (newnames_for t gen) w0 Ew) as [Ha Hne].
    unfold dlinv. cbn. rewrite Ha. repeat split; auto; try contradiction.
  - (* DOther *) destruct (ty_eqb (op_ty o) t) eqn:Et.
    + cbn -[Nat.sub armed_t]. rewrite Nat.sub_diag, Nat.add_0_r. destruct c; exact Hinv.
    + assert (Hne : op_ty o <> t) by (intros E; apply ty_eqb_eq in E; rewrite E in Et; discriminate).
      pose proof (step_other (x_srv s) o t Hne) as Hss.
      assert (Hnone : snd (step (x_srv s) o) t = None -> x_srv s t = None).
      { intros H. rewrite H in Hss. destruct (x_srv s t); [contradiction|reflexivity]. }
      unfold dlinv. cbn. repeat split; auto.
      * apply H0. apply Hnone. assumption.
      * apply H0. apply Hnone. assumption.
      * lia.
Qed.

Lemma dlrun_inv ls : forall s c, dlinv s c -> dlinv (fst (dlrun t s ls c)) (snd (dlrun t s ls c)).
Proof.
  induction ls as [|l ls IH]; intros s c H; cbn; [exact H|]. apply IH. apply dlstep_inv. exact H.
Qed.

Theorem no_loop_delta st0 cn0 ls :
  st0 t = None ->
  let c := snd (dlrun t (dinit st0 cn0) ls dczero) in
  (dc_ans c <= dc_req c + dc_forc c)%nat.
Proof.
  intros H0 c.
  assert (Hi : dlinv (dinit st0 cn0) dczero).
  { unfold dlinv, dinit, dczero, armed_t. cbn. rewrite H0. repeat split; auto; constructor. }
  destruct (dlrun_inv ls _ _ Hi) as [_ [_ HP]]. fold c in HP. lia.
Qed.

End DeltaNoLoop.
