(* C04 proofs, part 2: the SotW closed loop - the server's record equals the client's
   subscription at quiescence, for every interleaving. *)
From V Require Import C04.Model C04.Proofs.
From Coq Require Import List NArith Bool Lia.
Import ListNotations.
Open Scope N_scope.

(* names, last sent nonce and existence of a watch agree *)
Definition same_sub (a b : option wr) : Prop :=
  match a, b with
  | None, None => True
  | Some x, Some y => names x = names y /\ nonce_sent x = nonce_sent y
  | _, _ => False
  end.

Lemma same_sub_refl a : same_sub a a.
Proof. destruct a; cbn; auto. Qed.

Lemma same_sub_trans a b c : same_sub a b -> same_sub b c -> same_sub a c.
Proof.
  destruct a, b, c; cbn; try tauto. intros [H1 H2] [H3 H4]. split; congruence.
Qed.

Lemma same_sub_record st st' t : same_sub (st' t) (st t) -> record st' t = record st t.
Proof. unfold record. destruct (st' t), (st t); cbn; tauto. Qed.

Lemma same_sub_upd_other st t0 v t : t0 <> t -> same_sub (upd st t0 v t) (st t).
Proof. intros H. rewrite upd_other by exact H. apply same_sub_refl. Qed.

Lemma same_sub_mark st d t : same_sub (mark_always st d t) (st t).
Proof.
  unfold mark_always. destruct (st d) as [w|] eqn:E; [|apply same_sub_refl].
  unfold upd. destruct (ty_eqb d t) eqn:Et; [|apply same_sub_refl].
  apply ty_eqb_eq in Et. subst. rewrite E. cbn. auto.
Qed.

Lemma same_sub_marks l : forall st t, same_sub (fold_left mark_always l st t) (st t).
Proof.
  induction l as [|d l IH]; intros st t; cbn; [apply same_sub_refl|].
  eapply same_sub_trans; [apply IH|apply same_sub_mark].
Qed.

Lemma same_sub_new_watched st t0 ns t : t0 <> t -> same_sub (new_watched_resource st t0 ns t) (st t).
Proof.
  intros H. unfold new_watched_resource.
  eapply same_sub_trans; [apply same_sub_marks|apply same_sub_upd_other; exact H].
Qed.

(* a step on another type leaves names, nonce and existence of t's watch alone *)
Lemma step_other st o t : op_ty o <> t -> same_sub (snd (step st o) t) (st t).
Proof.
  intros H. destruct o as [r|r|t0 n ok|t0 n ok nn]; cbn in H; cbn [step snd].
  - unfold should_respond, nack. destruct (r_err r).
    + destruct (st (r_ty r)); cbn; [apply same_sub_upd_other; exact H|apply same_sub_refl].
    + destruct (should_unsubscribe r); [cbn; apply same_sub_upd_other; exact H|].
      destruct (st (r_ty r)) as [w|]; [|cbn; apply same_sub_new_watched; exact H].
      destruct (r_nonce r =? 0); [cbn; apply same_sub_new_watched; exact H|].
      destruct (negb (r_nonce r =? nonce_sent w)); [cbn; apply same_sub_refl|]. cbn zeta.
      destruct (always_respond w); [cbn; apply same_sub_upd_other; exact H|].
      destruct (is_nil _ && is_nil _); [cbn; apply same_sub_upd_other; exact H|].
      destruct (negb _ && is_nil _); cbn; apply same_sub_upd_other; exact H.
  - unfold should_respond_delta, nack. destruct (d_err r).
    + destruct (st (d_ty r)); cbn; [apply same_sub_upd_other; exact H|apply same_sub_refl].
    + destruct (st (d_ty r)) as [w|].
      * destruct (negb _ && negb _); [cbn; apply same_sub_refl|].
        destruct (requires_names_mod (d_ty r) && wildcard w).
        -- destruct (negb _); [|cbn; apply same_sub_upd_other; exact H].
           destruct (always_respond w); cbn; apply same_sub_upd_other; exact H.
        -- destruct (delta_watched_resources (names w) r) as [[res wc] ch].
           destruct (negb ch); [|cbn; apply same_sub_upd_other; exact H].
           destruct (always_respond w); cbn; apply same_sub_upd_other; exact H.
      * destruct (delta_watched_resources [] r) as [[res wc] ch]. cbn. apply same_sub_upd_other; exact H.
  - unfold send. destruct (ok && negb (n =? 0) && negb (is_debug t0)); [apply same_sub_upd_other; exact H|apply same_sub_refl].
  - unfold send_delta. destruct (ok && negb (is_debug t0)); [apply same_sub_upd_other; exact H|apply same_sub_refl].
Qed.

Lemma send_sets st t n :
  n <> 0 -> is_debug t = false ->
  exists w, send st t n true t = Some w /\ nonce_sent w = n /\ names w = record st t.
Proof.
  intros Hn Hd. unfold send, record. apply N.eqb_neq in Hn. rewrite Hn, Hd. cbn.
  rewrite upd_same. destruct (st t); eexists; repeat split; reflexivity.
Qed.

(* a request that is not answered: the nonce on record is untouched, and if the request was
   no rejection and carried the nonce on record, its names are now the record *)
Lemma sr_not_answered st r out st' :
  should_respond st r = (out, st') -> (forall s, out <> Resp true s) ->
  (forall w', st' (r_ty r) = Some w' -> exists w, st (r_ty r) = Some w /\ nonce_sent w' = nonce_sent w) /\
  (r_err r = None -> (forall w, st (r_ty r) = Some w -> r_nonce r = nonce_sent w) ->
   record st' (r_ty r) = norm (r_names r)).
Proof.
  unfold should_respond, nack. intros E Hno.
  destruct (r_err r) as [m|] eqn:He.
  - destruct (st (r_ty r)) as [w|] eqn:Es; injection E as <- <-.
    + split; [|discriminate]. intros w'. rewrite upd_same. intros [= <-]. exists w. split; reflexivity.
    + split; [|discriminate]. intros w' Hw. rewrite Es in Hw. discriminate.
  - destruct (should_unsubscribe r) eqn:Hu.
    + injection E as <- <-. split.
      * intros w'. rewrite upd_same. discriminate.
      * intros _ _. unfold record. rewrite upd_same.
        unfold should_unsubscribe in Hu. apply andb_true_iff in Hu. destruct Hu as [Hu _].
        apply is_nil_true in Hu. rewrite Hu. reflexivity.
    + destruct (st (r_ty r)) as [w|] eqn:Es.
      * destruct (r_nonce r =? 0) eqn:Hz; [injection E as <- <-; exfalso; eapply Hno; reflexivity|].
        destruct (negb (r_nonce r =? nonce_sent w)) eqn:Hst.
        -- injection E as <- <-. split.
           ++ intros w' Hw. rewrite Es in Hw. injection Hw as <-. exists w. split; reflexivity.
           ++ intros _ Hm. specialize (Hm w eq_refl). rewrite Hm, N.eqb_refl in Hst. discriminate.
        -- cbn zeta in E.
           assert (Hrec : forall o, (o, upd st (r_ty r) (Some (mkWr (norm (r_names r)) (wildcard w) (nonce_sent w) (r_nonce r) false 0))) = (out, st') ->
                    (forall w', st' (r_ty r) = Some w' -> exists w0, Some w = Some w0 /\ nonce_sent w' = nonce_sent w0) /\
                    (None = None (A:=N) -> (forall w0, Some w = Some w0 -> r_nonce r = nonce_sent w0) -> record st' (r_ty r) = norm (r_names r))).
           { intros o [= <- <-]. split.
             - intros w'. rewrite upd_same. intros [= <-]. exists w. split; reflexivity.
             - intros _ _. unfold record. rewrite upd_same. reflexivity. }
           destruct (always_respond w); [injection E as <- <-; exfalso; eapply Hno; reflexivity|].
           destruct (is_nil _ && is_nil _); [eapply Hrec; exact E|].
           destruct (negb _ && is_nil _); [eapply Hrec; exact E|].
           injection E as <- <-; exfalso; eapply Hno; reflexivity.
      * injection E as <- <-; exfalso; eapply Hno; reflexivity.
Qed.

Lemma last_indep {A} (l : list A) x d d' : last (x :: l) d = last (x :: l) d'.
Proof.
  revert x. induction l as [|y l IH]; intros x; [reflexivity|].
  change (last (x :: y :: l) d) with (last (y :: l) d).
  change (last (x :: y :: l) d') with (last (y :: l) d'). apply IH.
Qed.

Lemma last_cons {A} (n : A) rest d : last (n :: rest) d = last rest n.
Proof.
  destruct rest as [|x rest]; [reflexivity|].
  change (last (n :: x :: rest) d) with (last (x :: rest) d). apply last_indep.
Qed.

Section SotwLoop.
Variable t : xds_type.
Hypothesis Hdbg : is_debug t = false.

Definition sinv (s : sstate) : Prop :=
  Forall (fun m => r_ty m = t) (s_c2s s) /\
  (forall pre m, s_c2s s = pre ++ [m] -> r_names m = s_S s /\ r_nonce m = s_cn s) /\
  (forall w, s_srv s t = Some w -> last (s_s2c s) (s_cn s) = nonce_sent w) /\
  (s_c2s s = [] -> s_s2c s = [] -> s_np s = true -> s_ln s = false ->
   record (s_srv s) t = norm (s_S s)).

Lemma sinv_append s m srv' s2c' S' cn' ln' np' :
  Forall (fun m => r_ty m = t) (s_c2s s) -> r_ty m = t -> r_names m = S' -> r_nonce m = cn' ->
  (forall w, srv' t = Some w -> last s2c' cn' = nonce_sent w) ->
  sinv (mkS srv' (s_c2s s ++ [m]) s2c' S' cn' ln' np').
Proof.
  intros HF Ht Hn Hc H23. unfold sinv. cbn. repeat split.
  - apply Forall_app. split; [exact HF|constructor; [exact Ht|constructor]].
  - apply app_inj_tail in H. destruct H as [_ <-]. exact Hn.
  - apply app_inj_tail in H. destruct H as [_ <-]. exact Hc.
  - exact H23.
  - intros H. destruct (s_c2s s); discriminate.
Qed.

Lemma sstep_inv s l : sends_ok l = true -> sinv s -> sinv (sstep t s l).
Proof.
  intros Hsend Hinv. pose proof Hinv as [HF [H1 [H23 H5]]]. destruct l as [S'|e|n sends|n|o]; unfold sstep.
  - (* CSub *) apply sinv_append; auto.
  - (* CRecv *) destruct (s_s2c s) as [|n rest] eqn:Es; [exact Hinv|].
    apply sinv_append; auto. intros w Hw. rewrite <- (H23 w Hw). symmetry. apply last_cons.
  - (* SProc *) destruct (s_c2s s) as [|r rest] eqn:Ec; [exact Hinv|].
    destruct (n =? 0) eqn:Hn; [exact Hinv|].
    apply N.eqb_neq in Hn.
    assert (Hrt : r_ty r = t) by (inversion HF; assumption).
    assert (HFr : Forall (fun m => r_ty m = t) rest) by (inversion HF; assumption).
    assert (H1r : forall pre m, rest = pre ++ [m] -> r_names m = s_S s /\ r_nonce m = s_cn s).
    { intros pre m ->. apply (H1 (r :: pre) m). reflexivity. }
    destruct (should_respond (s_srv s) r) as [out st'] eqn:Esr.
    assert (Hans : forall subs, out = Resp true subs ->
              sinv (mkS (send st' t n true) rest (s_s2c s ++ [n]) (s_S s) (s_cn s) (is_some (r_err r)) true)).
    { intros subs _. unfold sinv. cbn. repeat split; auto.
      - apply (H1r pre m H).
      - apply (H1r pre m H).
      - intros w Hw. destruct (send_sets st' t n Hn Hdbg) as [w0 [E0 [E1 _]]].
        rewrite E0 in Hw. injection Hw as <-. rewrite last_last. symmetry. exact E1.
      - intros _ H. destruct (s_s2c s); discriminate. }
    assert (Hsil : (forall subs, out <> Resp true subs) ->
              sinv (mkS st' rest (s_s2c s) (s_S s) (s_cn s) (is_some (r_err r)) true)).
    { intros Hno. destruct (sr_not_answered _ _ _ _ Esr Hno) as [Hn1 Hn2]. rewrite Hrt in Hn1, Hn2.
      unfold sinv. cbn. repeat split; auto.
      - apply (H1r pre m H).
      - apply (H1r pre m H).
      - intros w' Hw'. destruct (Hn1 w' Hw') as [w [Hw Hs]]. rewrite Hs. apply H23. exact Hw.
      - intros Hrest Hs2c _ Hln.
        destruct (H1 [] r) as [Hnm Hcn]; [rewrite Hrest; reflexivity|].
        rewrite <- Hnm. apply Hn2.
        + destruct (r_err r); [discriminate|reflexivity].
        + intros w Hw. rewrite Hcn. specialize (H23 w Hw). rewrite Hs2c in H23. exact H23. }
    destruct out as [|b subs|].
    + apply Hsil. discriminate.
    + destruct b; [|apply Hsil; discriminate]. cbn in Hsend. rewrite Hsend. eapply Hans; reflexivity.
    + apply Hsil. discriminate.
  - (* SPush *) destruct (n =? 0) eqn:Hn; [exact Hinv|]. apply N.eqb_neq in Hn.
    destruct (s_srv s t) as [w0|] eqn:Ew; [|exact Hinv].
    unfold sinv. cbn. repeat split; auto.
    + apply (H1 pre m H).
    + apply (H1 pre m H).
    + intros w Hw. destruct (send_sets (s_srv s) t n Hn Hdbg) as [w1 [E0 [E1 _]]].
      rewrite E0 in Hw. injection Hw as <-. rewrite last_last. symmetry. exact E1.
    + intros _ H. destruct (s_s2c s); discriminate.
  - (* SOther *) destruct (ty_eqb (op_ty o) t) eqn:Et; [exact Hinv|].
    assert (Hne : op_ty o <> t) by (intros E; apply ty_eqb_eq in E; rewrite E in Et; discriminate).
    pose proof (step_other (s_srv s) o t Hne) as Hss.
    unfold sinv. cbn. repeat split; auto.
    + apply (H1 pre m H).
    + apply (H1 pre m H).
    + intros w' Hw'. rewrite Hw' in Hss. destruct (s_srv s t) as [w|] eqn:Ew; cbn in Hss; [|contradiction].
      destruct Hss as [_ Hs]. rewrite Hs. apply H23. reflexivity.
    + intros Hc Hs Hnp Hln. rewrite (same_sub_record _ _ _ Hss). apply H5; assumption.
Qed.

Lemma srun_inv ls : forall s, forallb sends_ok ls = true -> sinv s -> sinv (srun t s ls).
Proof.
  unfold srun. induction ls as [|l ls IH]; intros s Hs H; cbn; [exact H|].
  cbn in Hs. apply andb_true_iff in Hs. destruct Hs as [Hs1 Hs2].
  apply IH; [exact Hs2|]. apply sstep_inv; assumption.
Qed.

Lemma sinit_inv st0 cn0 : st0 t = None -> sinv (sinit st0 cn0).
Proof.
  intros H0. unfold sinv, sinit. cbn. repeat split.
  - constructor.
  - destruct pre; discriminate.
  - destruct pre; discriminate.
  - intros w Hw. rewrite H0 in Hw. discriminate.
  - intros _ _ Hnp. discriminate.
Qed.

Theorem record_matches_client_sotw st0 cn0 ls :
  st0 t = None -> forallb sends_ok ls = true ->
  let s := srun t (sinit st0 cn0) ls in
  s_c2s s = [] -> s_s2c s = [] -> s_np s = true -> s_ln s = false ->
  record (s_srv s) t = norm (s_S s).
Proof.
  intros H0 Hs s. pose proof (srun_inv ls _ Hs (sinit_inv st0 cn0 H0)) as [_ [_ [_ H5]]]. exact H5.
Qed.

End SotwLoop.

(* without the hypothesis the statement is false: an answered re-subscription for which nothing is
   sent leaves NonceSent empty, and the next request - carrying the nonce the client holds - is
   classified stale *)
Definition no_send_schedule : list slabel :=
  [ CSub [1]; SProc 1 true; CRecv None; SProc 9 true; CSub []; SProc 9 true;
    CSub [1]; SProc 2 false; CSub [1; 2]; SProc 3 true ].

Lemma record_matches_client_sotw_refuted :
  exists t ls, is_debug t = false /\
    let s := srun t (sinit empty_watched 0) ls in
    s_c2s s = [] /\ s_s2c s = [] /\ s_np s = true /\ s_ln s = false /\
    record (s_srv s) t <> norm (s_S s).
Proof. exists SDS, no_send_schedule. vm_compute. repeat split. discriminate. Qed.
