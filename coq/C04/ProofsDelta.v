(* C04 proofs, part 3: the delta closed loop. *)
From V Require Import C04.Model C04.Proofs C04.ProofsSotw.
From Coq Require Import List NArith Bool Lia.
Import ListNotations.
Open Scope N_scope.

(* ------------------------------------------------------------------ deltaWatchedResources as a set function *)

Lemma fold_ins_spec l : forall acc x,
  In x (fst (fold_left dwr_ins l acc)) <-> In x (fst acc) \/ In x l.
Proof.
  induction l as [|y l IH]; intros [res ch] x; cbn [fold_left]; [cbn; tauto|].
  rewrite IH. unfold dwr_ins. destruct (mem y res) eqn:E; cbn [fst In].
  - apply mem_In in E. split; [intros [H|H]; auto|intros [H|[H|H]]; subst; auto].
  - rewrite In_ins. split; [intros [[H|H]|H]; auto|intros [H|[H|H]]; auto].
Qed.

Lemma fold_del_spec l : forall acc x,
  In x (fst (fold_left dwr_del l acc)) <-> In x (fst acc) /\ ~ In x l.
Proof.
  induction l as [|y l IH]; intros [res ch] x; cbn [fold_left]; [cbn; tauto|].
  rewrite IH. unfold dwr_del. destruct (mem y res) eqn:E; cbn [fst In].
  - rewrite In_del. split; [intros [[H1 H2] H3]; split; [auto|intros [H|H]; auto]|intros [H1 H2]; repeat split; auto].
  - apply mem_false in E. split; [intros [H1 H2]; split; [auto|intros [H|H]; subst; auto]|intros [H1 H2]; split; auto].
Qed.

Lemma dwr_names_spec ns r res wc ch :
  delta_watched_resources ns r = (res, wc, ch) ->
  forall x, In x res <->
    ((In x ns \/ In x (d_sub r) \/ In x (d_init r)) /\ ~ In x (d_unsub r) /\ x <> star).
Proof.
  unfold delta_watched_resources. intros E x.
  destruct (fold_left dwr_del (d_unsub r) (fold_left dwr_ins (d_init r) (fold_left dwr_ins (d_sub r) (ns, false))))
    as [res0 ch0] eqn:E0.
  injection E as <- _ _.
  rewrite In_del.
  change res0 with (fst (res0, ch0)). rewrite <- E0.
  rewrite fold_del_spec, fold_ins_spec, fold_ins_spec. cbn [fst]. tauto.
Qed.

(* ------------------------------------------------------------------ pending changes *)

Definition sem_apply (r : dreq) (P : N -> Prop) : N -> Prop :=
  fun x => (P x \/ In x (d_sub r) \/ In x (d_init r)) /\ ~ In x (d_unsub r) /\ x <> star.

Fixpoint pending (l : list dreq) (P : N -> Prop) : N -> Prop :=
  match l with [] => P | r :: l' => pending l' (sem_apply r P) end.

Lemma sem_apply_ext r P Q : (forall x, P x <-> Q x) -> forall x, sem_apply r P x <-> sem_apply r Q x.
Proof. intros H x. unfold sem_apply. rewrite H. tauto. Qed.

Lemma pending_ext l : forall P Q, (forall x, P x <-> Q x) -> forall x, pending l P x <-> pending l Q x.
Proof.
  induction l as [|r l IH]; intros P Q H x; cbn; [apply H|]. apply IH. apply sem_apply_ext. exact H.
Qed.

Lemma pending_app l r : forall P, pending (l ++ [r]) P = sem_apply r (pending l P).
Proof. induction l as [|a l IH]; intros P; cbn; [reflexivity|apply IH]. Qed.

Definition base (st : watched) (t : xds_type) : N -> Prop := fun x => In x (record st t) /\ x <> star.

Lemma nonwildcard_no_mod t : is_wildcard t = false -> requires_names_mod t = false /\ should_set_watched t = false.
Proof. destruct t; cbn; intros H; try discriminate; auto. Qed.

(* what processing one request does to the record of its type *)
Lemma srd_record st r out st' :
  requires_names_mod (d_ty r) = false ->
  should_respond_delta st r = (out, st') ->
  (dropped st r = true -> record st' (d_ty r) = record st (d_ty r)) /\
  (dropped st r = false -> forall x, In x (record st' (d_ty r)) <->
     ((In x (record st (d_ty r)) \/ In x (d_sub r) \/ In x (d_init r)) /\ ~ In x (d_unsub r) /\ x <> star)).
Proof.
  intros Hm.
  unfold should_respond_delta, dropped, nack, record. rewrite Hm. cbn [andb].
  destruct (d_err r) as [m|].
  - destruct (st (d_ty r)) as [w|] eqn:Es; intros [= <- <-]; (split; [intros _|discriminate]).
    + rewrite upd_same. reflexivity.
    + rewrite Es. reflexivity.
  - destruct (st (d_ty r)) as [w|] eqn:Es.
    + destruct (negb (d_nonce r =? 0) && negb (d_nonce r =? nonce_sent w)).
      * intros [= <- <-]. split; [intros _; rewrite Es; reflexivity|discriminate].
      * destruct (delta_watched_resources (names w) r) as [[res wc] ch] eqn:Ed.
        pose proof (dwr_names_spec _ _ _ _ _ Ed) as Hspec.
        intros E. split; [discriminate|]. intros _ x. rewrite <- Hspec.
        destruct (negb ch); [destruct (always_respond w)|]; injection E as <- <-; rewrite upd_same; cbn; tauto.
    + destruct (delta_watched_resources [] r) as [[res wc] ch] eqn:Ed.
      pose proof (dwr_names_spec _ _ _ _ _ Ed) as Hspec.
      intros [= <- <-]. split; [discriminate|]. intros _ x. rewrite upd_same. cbn. rewrite Hspec. cbn. tauto.
Qed.

Lemma send_delta_none_record st t n ok : record (send_delta st t n ok None) t = record st t.
Proof.
  unfold send_delta, record. destruct (ok && negb (is_debug t)); [|reflexivity].
  rewrite upd_same. destruct (st t); reflexivity.
Qed.

Lemma In_client_apply x S subs inits unsubs :
  In x (client_apply S subs inits unsubs) <-> (In x S \/ In x subs \/ In x inits) /\ ~ In x unsubs.
Proof.
  unfold client_apply. rewrite filter_In, !in_app_iff, negb_true_iff, mem_false. tauto.
Qed.

(* ------------------------------------------------------------------ wildcard types *)

(* types for which pushDeltaXds hands sendDelta the new resource names (wildcard types that do not
   manage names in the generator): every sent response overwrites the record with exactly the names
   of the resources generated for it - the record there means "what the client was last sent" *)
Lemma send_delta_sets_record st t n gen :
  should_set_watched t = true -> is_debug t = false ->
  forall x, In x (record (send_delta st t n true (newnames_for t gen)) t) <-> In x gen.
Proof.
  intros Hs Hd x. unfold newnames_for, send_delta, record. rewrite Hs, Hd. cbn.
  rewrite upd_same. cbn. apply In_norm.
Qed.

(* ... and between two sends a request that is not dropped updates that set by
   (record + subscribe + initial) - unsubscribe - "*" *)
Lemma request_updates_record st r out st' :
  requires_names_mod (d_ty r) = false ->
  should_respond_delta st r = (out, st') -> dropped st r = false ->
  forall x, In x (record st' (d_ty r)) <->
     ((In x (record st (d_ty r)) \/ In x (d_sub r) \/ In x (d_init r)) /\ ~ In x (d_unsub r) /\ x <> star).
Proof. intros Hm E Hd. exact (proj2 (srd_record st r out st' Hm E) Hd). Qed.

Lemma dropped_keeps_record st r out st' :
  should_respond_delta st r = (out, st') -> dropped st r = true ->
  record st' (d_ty r) = record st (d_ty r).
Proof.
  unfold should_respond_delta, dropped, nack, record.
  destruct (d_err r) as [m|].
  - destruct (st (d_ty r)) as [w|] eqn:Es; intros [= <- <-] _; [rewrite upd_same|rewrite Es]; reflexivity.
  - destruct (st (d_ty r)) as [w|] eqn:Es; [|discriminate].
    intros E Hd. rewrite Hd in E. injection E as <- <-. rewrite Es. reflexivity.
Qed.

(* generator-managed types (Address, Workload) with a wildcard subscription: no names are stored *)
Lemma wildcard_managed_record_empty st r out st' :
  requires_names_mod (d_ty r) = true -> d_err r = None ->
  should_respond_delta st r = (out, st') ->
  match st (d_ty r) with
  | None => snd (fst (delta_watched_resources [] r)) = true -> record st' (d_ty r) = []
  | Some w => wildcard w = true -> dropped st r = false -> record st' (d_ty r) = []
  end.
Proof.
  intros Hm He. unfold should_respond_delta, dropped, record. rewrite He, Hm. cbn [andb].
  destruct (st (d_ty r)) as [w|] eqn:Es.
  - intros E Hw Hd. rewrite Hd, Hw in E.
    destruct (negb (negb (is_nil (d_sub r)) || negb (is_nil (d_unsub r)))); [destruct (always_respond w)|];
      injection E as <- <-; rewrite upd_same; reflexivity.
  - destruct (delta_watched_resources [] r) as [[res wc] ch]. cbn. intros [= <- <-] ->. rewrite upd_same. reflexivity.
Qed.

Section DeltaLoop.
Variable t : xds_type.
Hypothesis Hnw : is_wildcard t = false.

Definition dinv (s : dstate) : Prop :=
  Forall (fun m => d_ty m = t) (x_c2s s) /\
  ~ In star (record (x_srv s) t) /\
  (x_ok s = true ->
   forall x, pending (x_c2s s) (base (x_srv s) t) x <-> (In x (x_S s) /\ x <> star)).

Lemma dinv_append s m ln' cn' s2c' :
  dinv s -> d_ty m = t ->
  dinv (mkD (x_srv s) (x_c2s s ++ [m]) s2c' (client_apply (x_S s) (d_sub m) (d_init m) (d_unsub m)) cn' ln' (x_ok s)).
Proof.
  intros [HF [Hst HP]] Ht. unfold dinv. cbn. split; [|split].
  - apply Forall_app. split; [exact HF|constructor; [exact Ht|constructor]].
  - exact Hst.
  - intros Hok x. rewrite pending_app. unfold sem_apply. rewrite (HP Hok). rewrite In_client_apply. tauto.
Qed.

Lemma dinv_same_record s srv' s2c' cn' ln' :
  dinv s -> record srv' t = record (x_srv s) t ->
  dinv (mkD srv' (x_c2s s) s2c' (x_S s) cn' ln' (x_ok s)).
Proof.
  intros [HF [Hst HP]] Hr. unfold dinv, base. cbn. rewrite Hr. split; [exact HF|split; [exact Hst|exact HP]].
Qed.

Lemma dstep_inv s l : dinv s -> dinv (dstep t s l).
Proof.
  intros Hinv. destruct l as [subs unsubs inits|e subs unsubs|n gen sends|n gen|o]; unfold dstep.
  - apply (dinv_append s (mkDReq t subs unsubs inits 0 None)); [exact Hinv|reflexivity].
  - destruct (x_s2c s) as [|n rest]; [exact Hinv|].
    apply (dinv_append s (mkDReq t subs unsubs [] n e)); [exact Hinv|reflexivity].
  - destruct (x_c2s s) as [|r rest] eqn:Ec; [exact Hinv|].
    destruct Hinv as [HF [Hst HP]]. rewrite Ec in HF, HP.
    assert (Hrt : d_ty r = t) by (inversion HF; assumption).
    assert (HFr : Forall (fun m => d_ty m = t) rest) by (inversion HF; assumption).
    destruct (should_respond_delta (x_srv s) r) as [out st'] eqn:Esr.
    assert (Hwr : requires_names_mod (d_ty r) = false) by (rewrite Hrt; apply (nonwildcard_no_mod _ Hnw)).
    destruct (srd_record _ _ _ _ Hwr Esr) as [Hdrop Happ]. rewrite Hrt in Hdrop, Happ.
    destruct (nonwildcard_no_mod _ Hnw) as [_ Hset].
    assert (Hcore : forall srv'' s2c'', record srv'' t = record st' t ->
              dinv (mkD srv'' rest s2c'' (x_S s) (x_cn s) (is_some (d_err r))
                        (x_ok s && negb (dropped (x_srv s) r && carries_changes r)))).
    { intros srv'' s2c'' Hrec. unfold dinv. cbn [x_srv x_c2s x_S x_ok]. split; [exact HFr|].
      destruct (dropped (x_srv s) r) eqn:Edr.
      - specialize (Hdrop eq_refl). split; [rewrite Hrec, Hdrop; exact Hst|].
        intros Hok. apply andb_true_iff in Hok. destruct Hok as [Hok Hcc].
        cbn in Hcc. apply negb_true_iff in Hcc.
        intros x. rewrite <- (HP Hok x). cbn [pending]. apply pending_ext.
        intros y. unfold sem_apply, base. rewrite Hrec, Hdrop.
        unfold carries_changes in Hcc. apply orb_false_iff in Hcc. destruct Hcc as [Hcc Hc3].
        apply orb_false_iff in Hcc. destruct Hcc as [Hc1 Hc2].
        apply negb_false_iff, is_nil_true in Hc1. apply negb_false_iff, is_nil_true in Hc2.
        apply negb_false_iff, is_nil_true in Hc3. rewrite Hc1, Hc2, Hc3. cbn. tauto.
      - specialize (Happ eq_refl). split.
        + rewrite Hrec. intros Hin. apply Happ in Hin. tauto.
        + intros Hok. rewrite andb_true_r in Hok.
          intros x. rewrite <- (HP Hok x). cbn [pending]. apply pending_ext.
          intros y. unfold sem_apply, base. rewrite Hrec, Happ. tauto. }
    unfold newnames_for. rewrite Hset.
    destruct out as [|b subs0|]; [apply Hcore; reflexivity| |apply Hcore; reflexivity].
    destruct b; [destruct sends|]; apply Hcore; first [apply send_delta_none_record|reflexivity].
  - destruct (x_srv s t) eqn:Ew; [|exact Hinv].
    destruct (nonwildcard_no_mod _ Hnw) as [_ Hset]. unfold newnames_for. rewrite Hset.
    apply (dinv_same_record s); [exact Hinv|apply send_delta_none_record].
  - destruct (ty_eqb (op_ty o) t) eqn:Et; [exact Hinv|].
    assert (Hne : op_ty o <> t) by (intros E; apply ty_eqb_eq in E; rewrite E in Et; discriminate).
    apply (dinv_same_record s); [exact Hinv|]. apply same_sub_record. apply step_other. exact Hne.
Qed.

Lemma drun_inv ls : forall s, dinv s -> dinv (drun t s ls).
Proof.
  unfold drun. induction ls as [|l ls IH]; intros s H; cbn; [exact H|]. apply IH, dstep_inv, H.
Qed.

Lemma dinit_inv st0 cn0 : st0 t = None -> dinv (dinit st0 cn0).
Proof.
  intros H0. unfold dinv, dinit, base, record. cbn. rewrite H0. repeat split; try constructor; cbn; tauto.
Qed.

(* no change-carrying request was dropped  =>  at an empty request channel the record is the
   client's subscription (responses may still be in flight) *)
Theorem record_matches_client_delta_partial st0 cn0 ls :
  st0 t = None ->
  let s := drun t (dinit st0 cn0) ls in
  x_c2s s = [] -> x_ok s = true -> record_is (x_srv s) t (x_S s).
Proof.
  intros H0 s Hc Hok. destruct (drun_inv ls _ (dinit_inv st0 cn0 H0)) as [_ [Hst HP]].
  fold s in Hst, HP. specialize (HP Hok). rewrite Hc in HP. cbn in HP. unfold base in HP.
  intros x. rewrite <- HP. split; [intros H; split; [exact H|intros ->; contradiction]|tauto].
Qed.

(* first client class: changes travel only in spontaneous requests; nothing that carries
   changes can be dropped *)
Definition good_msg (m : dreq) : Prop := carries_changes m = true -> d_nonce m = 0 /\ d_err m = None.

Definition dinv1 (s : dstate) : Prop := x_ok s = true /\ Forall good_msg (x_c2s s).

Lemma good_not_dropped st m : good_msg m -> dropped st m && carries_changes m = false.
Proof.
  unfold good_msg, dropped. intros H. destruct (carries_changes m); [|apply andb_false_r].
  destruct (H eq_refl) as [Hn He]. rewrite He, Hn. destruct (st (d_ty m)); reflexivity.
Qed.

Lemma dstep_inv1 s l : class1_label l = true -> dinv1 s -> dinv1 (dstep t s l).
Proof.
  intros Hl [Hok HG]. destruct l as [subs unsubs inits|e subs unsubs|n gen sends|n gen|o]; unfold dstep.
  - split; [exact Hok|]. cbn. apply Forall_app. split; [exact HG|]. constructor; [|constructor].
    intros _. cbn. auto.
  - destruct (x_s2c s) as [|n rest]; [split; assumption|]. split; [exact Hok|]. cbn.
    apply Forall_app. split; [exact HG|]. constructor; [|constructor].
    cbn in Hl. apply andb_true_iff in Hl. destruct Hl as [H1 H2].
    apply is_nil_true in H1. apply is_nil_true in H2. subst. intros H. cbn in H. discriminate.
  - destruct (x_c2s s) as [|r rest] eqn:Ec; [split; [assumption|rewrite Ec; assumption]|].
    assert (Hg : good_msg r) by (inversion HG; assumption).
    assert (HGr : Forall good_msg rest) by (inversion HG; assumption).
    rewrite (good_not_dropped (x_srv s) r Hg), Hok.
    destruct (should_respond_delta (x_srv s) r) as [[|[] ?|] st']; [|destruct sends| |]; split; cbn; auto.
  - destruct (x_srv s t); split; assumption.
  - destruct (ty_eqb (op_ty o) t); split; assumption.
Qed.

Lemma drun_inv1 ls : forall s, forallb class1_label ls = true -> dinv1 s -> dinv1 (drun t s ls).
Proof.
  unfold drun. induction ls as [|l ls IH]; intros s Hc H; cbn; [exact H|].
  cbn in Hc. apply andb_true_iff in Hc. destruct Hc as [H1 H2]. apply IH; [exact H2|]. apply dstep_inv1; assumption.
Qed.

Theorem record_matches_client_delta_spontaneous st0 cn0 ls :
  st0 t = None -> forallb class1_label ls = true ->
  let s := drun t (dinit st0 cn0) ls in
  x_c2s s = [] -> record_is (x_srv s) t (x_S s).
Proof.
  intros H0 Hc s Hq. apply record_matches_client_delta_partial; [exact H0|exact Hq|].
  apply (drun_inv1 ls (dinit st0 cn0) Hc). split; [reflexivity|constructor].
Qed.

End DeltaLoop.

(* ------------------------------------------------------------------ wildcard types, closed loop *)

(* For the types where sendDelta is handed newResourceNames the record is not the client's
   subscription but this reference set: overwritten by the generated names at every sent response,
   updated by (set + subscribe + initial) - unsubscribe - "*" at every request that is not dropped,
   untouched by everything else (dropped requests, client steps, traffic of other types). *)
Definition answered (o : outcome) : bool := match o with Resp true _ => true | _ => false end.

Definition wnext (t : xds_type) (s : dstate) (l : dlabel) (P : N -> Prop) : N -> Prop :=
  match l with
  | DProc n gen sends =>
    match x_c2s s with
    | [] => P
    | r :: _ =>
      if answered (fst (should_respond_delta (x_srv s) r)) && sends then (fun x => In x gen)
      else if dropped (x_srv s) r then P else sem_apply r P
    end
  | DPush n gen => match x_srv s t with None => P | Some _ => (fun x => In x gen) end
  | _ => P
  end.

Fixpoint wrun (t : xds_type) (s : dstate) (ls : list dlabel) (P : N -> Prop) : dstate * (N -> Prop) :=
  match ls with
  | [] => (s, P)
  | l :: ls' => wrun t (dstep t s l) ls' (wnext t s l P)
  end.

Section WildcardLoop.
Variable t : xds_type.
Hypothesis Hset : should_set_watched t = true.
Hypothesis Hdbg : is_debug t = false.

Lemma set_watched_no_mod : requires_names_mod t = false.
Proof. unfold should_set_watched in Hset. destruct (requires_names_mod t); [discriminate|reflexivity]. Qed.

Definition winv (s : dstate) (P : N -> Prop) : Prop :=
  Forall (fun m => d_ty m = t) (x_c2s s) /\ (forall x, In x (record (x_srv s) t) <-> P x).

Lemma wstep_inv s P l : winv s P -> winv (dstep t s l) (wnext t s l P).
Proof.
  intros [HF HP]. destruct l as [subs unsubs inits|e subs unsubs|n gen sends|n gen|o]; unfold dstep, wnext.
  - split; [|exact HP]. cbn. apply Forall_app. split; [exact HF|constructor; [reflexivity|constructor]].
  - destruct (x_s2c s) as [|n rest]; [split; assumption|]. split; [|exact HP]. cbn.
    apply Forall_app. split; [exact HF|constructor; [reflexivity|constructor]].
  - destruct (x_c2s s) as [|r rest] eqn:Ec; [split; [rewrite Ec|]; assumption|].
    assert (Hrt : d_ty r = t) by (inversion HF; assumption).
    assert (HFr : Forall (fun m => d_ty m = t) rest) by (inversion HF; assumption).
    destruct (should_respond_delta (x_srv s) r) as [out st'] eqn:Esr. cbn [fst].
    assert (Hm : requires_names_mod (d_ty r) = false) by (rewrite Hrt; apply set_watched_no_mod).
    assert (Hmid : forall x, In x (record st' t) <-> (if dropped (x_srv s) r then P else sem_apply r P) x).
    { intros x. destruct (dropped (x_srv s) r) eqn:Ed.
      - pose proof (dropped_keeps_record _ _ _ _ Esr Ed) as H. rewrite Hrt in H. rewrite H. apply HP.
      - pose proof (request_updates_record _ _ _ _ Hm Esr Ed x) as H. rewrite Hrt in H. rewrite H.
        unfold sem_apply. rewrite (HP x). tauto. }
    destruct out as [|b subs0|]; cbn [answered andb]; try (split; [exact HFr|exact Hmid]).
    destruct b; cbn [answered andb]; [|split; [exact HFr|exact Hmid]].
    destruct sends; [|split; [exact HFr|exact Hmid]].
    split; [exact HFr|]. cbn. apply send_delta_sets_record; assumption.
  - destruct (x_srv s t) eqn:Ew; [|split; assumption].
    split; [exact HF|]. cbn. apply send_delta_sets_record; assumption.
  - destruct (ty_eqb (op_ty o) t) eqn:Et; [split; assumption|].
    assert (Hne : op_ty o <> t) by (intros E; apply ty_eqb_eq in E; rewrite E in Et; discriminate).
    split; [exact HF|]. cbn. intros x. rewrite (same_sub_record _ _ _ (step_other (x_srv s) o t Hne)). apply HP.
Qed.

Theorem record_wildcard_delta st0 cn0 ls :
  st0 t = None ->
  let sp := wrun t (dinit st0 cn0) ls (fun _ => False) in
  forall x, In x (record (x_srv (fst sp)) t) <-> snd sp x.
Proof.
  intros H0.
  assert (Hgen : forall ls s P, winv s P -> winv (fst (wrun t s ls P)) (snd (wrun t s ls P))).
  { induction ls0 as [|l ls0 IH]; intros s P H; cbn; [exact H|]. apply IH. apply wstep_inv. exact H. }
  assert (Hi : winv (dinit st0 cn0) (fun _ => False)).
  { split; [constructor|]. intros x. unfold record, dinit. cbn. rewrite H0. cbn. tauto. }
  intros sp. exact (proj2 (Hgen ls _ _ Hi)).
Qed.

End WildcardLoop.

(* K13: with changes piggybacked on ACKs the full statement is false - a push overtakes the ACK *)
Definition k13_schedule : list dlabel :=
  [ DChange [1] [] []; DProc 1 [] true; DPush 2 []; DRecv None [2] []; DProc 3 [] true; DRecv None [] []; DProc 4 [] true ].

Lemma record_matches_client_delta_piggyback_refuted :
  exists t ls, is_wildcard t = false /\
    let s := drun t (dinit empty_watched 0) ls in
    x_c2s s = [] /\ x_s2c s = [] /\ x_ln s = false /\ ~ record_is (x_srv s) t (x_S s).
Proof.
  exists EDS, k13_schedule. split; [reflexivity|]. vm_compute. repeat split.
  intros H. destruct (H 2) as [_ H2].
  assert (Hin : 1 = 2 \/ False) by (apply H2; split; [left; reflexivity|discriminate]).
  destruct Hin as [Hin|[]]. discriminate.
Qed.
