(* XdsSession: per-connection server state of the xDS request/ACK/NACK protocol, shared by
   C04 (and later C03/C05).  Definitions only; every definition names the Go code it models.

   Interface (stable names other properties may import):
     xds_type, ty_eqb, is_wildcard, warming_deps, requires_names_mod, is_debug, should_set_watched
     name sets:   star, mem, ins, del, norm, diff, subset, seteq
     wr, watched, empty_watched, upd, record
     req, dreq, outcome
     should_respond, delta_watched_resources, should_respond_delta, send, send_delta
     op, step, run

   Abstractions: resource names and error messages are interned to N ("*" is 0, the empty error
   message is 0); nonces are N with 0 = the empty string; a name set (sets.String) is a strictly
   increasing list N (all operations below keep that form); LastSendTime and TypeUrl of a
   WatchedResource are not modelled. *)
From Coq Require Import List NArith Bool.
Import ListNotations.
Open Scope N_scope.

(* ------------------------------------------------------------------ type URLs *)

(* v3.ClusterType ... ; OTHER n = any other non-debug type URL (unknown / internal types),
   DEBUG n = a URL with the v3.DebugType prefix. *)
Inductive xds_type :=
| CDS | EDS | LDS | RDS | SDS | ECDS | ADDR | WORKLOAD | OTHER (n : N) | DEBUG (n : N).

Definition ty_eqb (a b : xds_type) : bool :=
  match a, b with
  | CDS, CDS | EDS, EDS | LDS, LDS | RDS, RDS | SDS, SDS | ECDS, ECDS
  | ADDR, ADDR | WORKLOAD, WORKLOAD => true
  | OTHER n, OTHER m => N.eqb n m
  | DEBUG n, DEBUG m => N.eqb n m
  | _, _ => false
  end.

(* pkg/xds/server.go IsWildcardTypeURL *)
Definition is_wildcard (t : xds_type) : bool :=
  match t with
  | SDS | EDS | RDS | ECDS => false
  | CDS | LDS => true
  | _ => true
  end.

(* pilot/pkg/model/context.go WarmingDependencies *)
Definition warming_deps (t : xds_type) : list xds_type :=
  match t with
  | CDS => [EDS]
  | _ => []
  end.

(* pilot/pkg/xds/delta.go requiresResourceNamesModification *)
Definition requires_names_mod (t : xds_type) : bool :=
  match t with ADDR | WORKLOAD => true | _ => false end.

(* strings.HasPrefix(typeURL, v3.DebugType) in Send / sendDelta *)
Definition is_debug (t : xds_type) : bool :=
  match t with DEBUG _ => true | _ => false end.

(* pilot/pkg/xds/delta.go shouldSetWatchedResources *)
Definition should_set_watched (t : xds_type) : bool :=
  if requires_names_mod t then false else is_wildcard t.

(* ------------------------------------------------------------------ name sets *)

Definition star : N := 0.

Definition mem (x : N) (l : list N) : bool := existsb (N.eqb x) l.

(* sets.Insert on the sorted representation *)
Fixpoint ins (x : N) (l : list N) : list N :=
  match l with
  | [] => [x]
  | y :: l' => if x <? y then x :: l else if x =? y then l else y :: ins x l'
  end.

(* sets.Delete *)
Definition del (x : N) (l : list N) : list N := filter (fun y => negb (x =? y)) l.

(* sets.New(names...) *)
Definition norm (l : list N) : list N := fold_right ins [] l.

(* a.Difference(b) *)
Definition diff (a b : list N) : list N := filter (fun x => negb (mem x b)) a.

Definition subset (a b : list N) : bool := forallb (fun x => mem x b) a.
Definition seteq (a b : list N) : bool := subset a b && subset b a.

Definition is_nil {A} (l : list A) : bool := match l with [] => true | _ => false end.

(* ------------------------------------------------------------------ WatchedResource *)

(* pkg/xds/server.go WatchedResource *)
Record wr := mkWr {
  names : list N;          (* ResourceNames *)
  wildcard : bool;         (* Wildcard *)
  nonce_sent : N;          (* NonceSent *)
  nonce_acked : N;         (* NonceAcked *)
  always_respond : bool;   (* AlwaysRespond *)
  last_error : N           (* LastError *)
}.

(* Proxy.WatchedResources : map[string]*WatchedResource *)
Definition watched := xds_type -> option wr.
Definition empty_watched : watched := fun _ => None.
Definition upd (st : watched) (t : xds_type) (v : option wr) : watched :=
  fun t' => if ty_eqb t t' then v else st t'.

(* the server's record of the client's subscription for a type *)
Definition record (st : watched) (t : xds_type) : list N :=
  match st t with Some w => names w | None => [] end.

Definition set_err (w : wr) (m : N) : wr :=
  mkWr (names w) (wildcard w) (nonce_sent w) (nonce_acked w) (always_respond w) m.
Definition set_always (w : wr) (b : bool) : wr :=
  mkWr (names w) (wildcard w) (nonce_sent w) (nonce_acked w) b (last_error w).
Definition set_sent (w : wr) (n : N) : wr :=
  mkWr (names w) (wildcard w) n (nonce_acked w) (always_respond w) (last_error w).
Definition set_names (w : wr) (ns : list N) : wr :=
  mkWr ns (wildcard w) (nonce_sent w) (nonce_acked w) (always_respond w) (last_error w).

(* &WatchedResource{TypeUrl: url} *)
Definition zero_wr : wr := mkWr [] false 0 0 false 0.

(* ------------------------------------------------------------------ requests *)

(* discovery.DiscoveryRequest: TypeUrl, ResourceNames, ResponseNonce, ErrorDetail (Some m =
   error_detail present with message m) *)
Record req := mkReq { r_ty : xds_type; r_names : list N; r_nonce : N; r_err : option N }.

(* discovery.DeltaDiscoveryRequest: TypeUrl, ResourceNamesSubscribe, ResourceNamesUnsubscribe,
   keys of InitialResourceVersions, ResponseNonce, ErrorDetail *)
Record dreq := mkDReq {
  d_ty : xds_type; d_sub : list N; d_unsub : list N; d_init : list N; d_nonce : N; d_err : option N }.

(* Crash = Go panic in the stream goroutine (what the harness reports when the real code panics; no
   modelled branch produces it); Resp b s = (respond?, ResourceDelta.Subscribed);
   Done = a send step completed *)
Inductive outcome := Crash | Resp (respond : bool) (subscribed : list N) | Done.

(* ------------------------------------------------------------------ SotW *)

(* the ErrorDetail branch shared by ShouldRespond and shouldRespondDelta:
   w.UpdateWatchedResource(url, func(wr) { if wr == nil { return nil }; wr.LastError = msg; return wr })
   ; return false.   With no watch the closure returns nil and UpdateWatchedResource deletes nothing
   (repaired by /repo commit a0e93fb; before it the closure dereferenced nil, K14). *)
Definition nack (st : watched) (t : xds_type) (m : N) : outcome * watched :=
  match st t with
  | Some w => (Resp false [], upd st t (Some (set_err w m)))
  | None => (Resp false [], st)
  end.

(* Proxy.NewWatchedResource: fresh watch, then every existing watch of a warming dependency
   gets AlwaysRespond *)
Definition mark_always (st : watched) (d : xds_type) : watched :=
  match st d with
  | Some w => upd st d (Some (set_always w true))
  | None => st
  end.
Definition new_watched_resource (st : watched) (t : xds_type) (ns : list N) : watched :=
  fold_left mark_always (warming_deps t)
    (upd st t (Some (mkWr (norm ns) false 0 0 false 0))).

(* pkg/xds/server.go shouldUnsubscribe *)
Definition should_unsubscribe (r : req) : bool :=
  is_nil (r_names r) && negb (is_wildcard (r_ty r)).

(* pkg/xds/server.go ShouldRespond with Watcher = *model.Proxy (features.EnableUnsafeAssertions
   off, its default) *)
Definition should_respond (st : watched) (r : req) : outcome * watched :=
  let t := r_ty r in
  match r_err r with
  | Some m => nack st t m
  | None =>
    if should_unsubscribe r then (Resp false [], upd st t None)
    else
      match st t with
      | None => (Resp true [], new_watched_resource st t (r_names r))
      | Some w =>
        if r_nonce r =? 0 then (Resp true [], new_watched_resource st t (r_names r))
        else if negb (r_nonce r =? nonce_sent w) then (Resp false [], st)
        else
          let prev := names w in
          let cur := norm (r_names r) in
          let st' := upd st t (Some (mkWr cur (wildcard w) (nonce_sent w) (r_nonce r) false 0)) in
          let removed := diff prev cur in
          let added := diff cur prev in
          if always_respond w then (Resp true [], st')
          else if is_nil removed && is_nil added then (Resp false [], st')
          else if negb (is_wildcard t) && is_nil added then (Resp false [], st')
          else (Resp true added, st')
      end
  end.

(* pkg/xds/server.go Send, the bookkeeping after stream.Send returned (ok = no error) *)
Definition send (st : watched) (t : xds_type) (nonce : N) (ok : bool) : watched :=
  if ok && negb (nonce =? 0) && negb (is_debug t) then
    let w := match st t with Some w => w | None => zero_wr end in
    upd st t (Some (set_sent w nonce))
  else st.

(* ------------------------------------------------------------------ delta *)

(* pilot/pkg/xds/delta.go deltaWatchedResources: (resulting names, wildcard, changed) *)
Definition dwr_ins (acc : list N * bool) (x : N) : list N * bool :=
  let '(res, ch) := acc in if mem x res then (res, ch) else (ins x res, true).
Definition dwr_del (acc : list N * bool) (x : N) : list N * bool :=
  let '(res, ch) := acc in if mem x res then (del x res, true) else (res, ch).
Definition delta_watched_resources (existing : list N) (r : dreq) : list N * bool * bool :=
  let a1 := fold_left dwr_ins (d_sub r) (existing, false) in
  let a2 := fold_left dwr_ins (d_init r) a1 in
  let '(res, ch) := fold_left dwr_del (d_unsub r) a2 in
  let wc := mem star res || is_nil (d_sub r) in
  (del star res, wc, ch).

(* pilot/pkg/xds/delta.go shouldRespondDelta (features.EnableUnsafeAssertions off) *)
Definition should_respond_delta (st : watched) (r : dreq) : outcome * watched :=
  let t := d_ty r in
  match d_err r with
  | Some m => nack st t m
  | None =>
    match st t with
    | None =>
      let '(res, wc, _) := delta_watched_resources [] r in
      let res := if requires_names_mod t && wc then [] else res in
      (Resp true [], upd st t (Some (mkWr res wc 0 0 false 0)))
    | Some w =>
      if negb (d_nonce r =? 0) && negb (d_nonce r =? nonce_sent w) then (Resp false [], st)
      else
        let spont := d_nonce r =? 0 in
        let '(ns, changed) :=
          if requires_names_mod t && wildcard w
          then ([], negb (is_nil (d_sub r)) || negb (is_nil (d_unsub r)))
          else let '(res, _, ch) := delta_watched_resources (names w) r in (res, ch) in
        let w' := mkWr ns (wildcard w) (nonce_sent w)
                       (if spont then nonce_acked w else d_nonce r)
                       false
                       (if spont then last_error w else 0) in
        let st' := upd st t (Some w') in
        if negb changed then
          (if always_respond w then (Resp true [], st') else (Resp false [], st'))
        else (Resp true [], st')
    end
  end.

(* pilot/pkg/xds/delta.go Connection.sendDelta bookkeeping; newnames = newResourceNames
   (None = nil) *)
Definition send_delta (st : watched) (t : xds_type) (nonce : N) (ok : bool)
  (newnames : option (list N)) : watched :=
  if ok && negb (is_debug t) then
    let w := match st t with Some w => w | None => zero_wr end in
    let w := match newnames with Some ns => set_names w (norm ns) | None => w end in
    upd st t (Some (set_sent w nonce))
  else st.

(* ------------------------------------------------------------------ op sequences *)

Inductive op :=
| OReq (r : req)
| ODReq (r : dreq)
| OSend (t : xds_type) (nonce : N) (ok : bool)
| OSendDelta (t : xds_type) (nonce : N) (ok : bool) (newnames : option (list N)).

Definition op_ty (o : op) : xds_type :=
  match o with
  | OReq r => r_ty r | ODReq r => d_ty r | OSend t _ _ => t | OSendDelta t _ _ _ => t
  end.

Definition step (st : watched) (o : op) : outcome * watched :=
  match o with
  | OReq r => should_respond st r
  | ODReq r => should_respond_delta st r
  | OSend t n ok => (Done, send st t n ok)
  | OSendDelta t n ok nn => (Done, send_delta st t n ok nn)
  end.

(* a crash ends the process: the remaining ops are not executed *)
Fixpoint run (st : watched) (ops : list op) : list outcome * watched :=
  match ops with
  | [] => ([], st)
  | o :: ops' =>
    match step st o with
    | (Crash, st') => ([Crash], st')
    | (out, st') => let '(outs, st'') := run st' ops' in (out :: outs, st'')
    end
  end.

Definition crashed (outs : list outcome) : bool :=
  existsb (fun o => match o with Crash => true | _ => false end) outs.
