(* C11 proofs, part 1: identity binding and the unauthenticated stream. *)
From V Require Import lib.Verdict C11.Model.
Open Scope string_scope.

Lemma identity_matches_sound cns csa raw i :
  identity_matches cns csa raw = Some i ->
  parse_identity raw = Some i /\
  (cns <> "" -> id_ns i = cns) /\ (csa <> "" -> id_sa i = csa).
Proof.
  unfold identity_matches. destruct (parse_identity raw) as [j|]; [|discriminate].
  destruct (String.eqb cns "") eqn:E1; destruct (String.eqb (id_ns j) cns) eqn:E2; cbn;
  destruct (String.eqb csa "") eqn:E3; destruct (String.eqb (id_sa j) csa) eqn:E4; cbn;
  intros H; inversion H; subst; clear H;
  repeat match goal with
  | H : String.eqb _ _ = true |- _ => apply String.eqb_eq in H
  | H : String.eqb _ _ = false |- _ => apply String.eqb_neq in H
  end; repeat split; auto; intros; congruence.
Qed.

Lemma check_connection_identity_sound cns csa ids i :
  check_connection_identity cns csa ids = Some i ->
  (exists raw, In raw ids /\ parse_identity raw = Some i) /\
  (cns <> "" -> id_ns i = cns) /\ (csa <> "" -> id_sa i = csa).
Proof.
  induction ids as [|raw rest IH]; cbn; [discriminate|].
  destruct (identity_matches cns csa raw) as [j|] eqn:E.
  - intros H; inversion H; subst. apply identity_matches_sound in E. destruct E as [P Q].
    split; [exists raw; auto|exact Q].
  - intros H. destruct (IH H) as [[r [Hin Hp]] Q]. split; [exists r; auto|exact Q].
Qed.

(* an accepted connection: verified identity is one the credential proves and equals the claim *)
Lemma authorize_bound en cns csa ids v :
  authorize en cns csa ids = AuthAccepted (Some v) ->
  en = true /\
  (exists l raw, ids = Some l /\ In raw l /\ parse_identity raw = Some v) /\
  (cns <> "" -> id_ns v = cns) /\ (csa <> "" -> id_sa v = csa).
Proof.
  unfold authorize. destruct ids as [l|]; [|discriminate].
  destruct en; [|discriminate].
  destruct (check_connection_identity cns csa l) as [i|] eqn:E; [|discriminate].
  intros H; inversion H; subst. apply check_connection_identity_sound in E.
  destruct E as [[raw [Hin Hp]] Q]. split; auto. split; [exists l, raw; auto|exact Q].
Qed.

Lemma authorize_bound_metadata en mns dns csa ids v :
  authorize en (config_namespace mns dns) csa ids = AuthAccepted (Some v) ->
  mns <> "" -> id_ns v = mns.
Proof.
  intros H Hm. apply authorize_bound in H. destruct H as (_ & _ & Hn & _).
  unfold config_namespace in Hn. apply String.eqb_neq in Hm. rewrite Hm in Hn. cbn in Hn.
  apply Hn. apply String.eqb_neq. exact Hm.
Qed.

(* what initConnection establishes *)
Lemma init_connection_bound en node mns csa ids c v :
  init_connection en node mns csa ids = ConnAccepted c (Some v) ->
  en = true /\
  (exists dns, node_dns_domain node = Some dns /\ c = config_namespace mns dns) /\
  (exists l raw, ids = Some l /\ In raw l /\ parse_identity raw = Some v) /\
  (c <> "" -> id_ns v = c) /\ (mns <> "" -> id_ns v = mns) /\ (csa <> "" -> id_sa v = csa).
Proof.
  unfold init_connection. destruct (node_dns_domain node) as [dns|]; [|discriminate].
  destruct (authorize en (config_namespace mns dns) csa ids) as [|x] eqn:A; [discriminate|].
  intros H; inversion H; subst; clear H.
  pose proof (authorize_bound_metadata _ _ _ _ _ _ A) as Hm.
  apply authorize_bound in A. destruct A as (E & X & Hn & Hs).
  split; [exact E|]. split; [exists dns; auto|]. split; [exact X|]. auto.
Qed.

(* an unauthenticated stream or a disabled check never yields a verified identity; a credential that
   proves no matching identity is refused *)
Lemma init_connection_unverified en node mns csa c v :
  init_connection en node mns csa None = ConnAccepted c v -> v = None.
Proof.
  unfold init_connection. destruct (node_dns_domain node); [|discriminate].
  cbn. intros H; inversion H; reflexivity.
Qed.

(* with the check on, an authenticated stream whose credential proves no matching identity is refused *)
Lemma authorize_denies en cns csa l :
  en = true -> (forall raw, In raw l -> identity_matches cns csa raw = None) ->
  authorize en cns csa (Some l) = AuthDenied.
Proof.
  intros -> H. unfold authorize.
  assert (E : check_connection_identity cns csa l = None).
  { induction l as [|raw rest IH]; cbn; auto. rewrite (H raw (or_introl eq_refl)). apply IH.
    intros r Hr. apply H. right. exact Hr. }
  rewrite E. reflexivity.
Qed.

Lemma authorize_unauthenticated en cns csa : authorize en cns csa None = AuthAccepted None.
Proof. reflexivity. Qed.

Lemma generate_unverified w c p names r :
  verified p = None -> generate w c p names r = ([], c).
Proof. intros H. unfold generate. rewrite H. reflexivity. Qed.
