(* C11 — config and secrets are released only to the identity entitled to them.

   Executable model of
     pilot/pkg/xds/auth.go          authorize, checkConnectionIdentity
     pkg/spiffe/spiffe.go           ParseIdentity
     pilot/pkg/model/credentials/resource.go   ParseResourceName, SecretResource.Key
     pilot/pkg/xds/sds.go           parseResources, filterAuthorizedResources, SecretGen.Generate,
                                    SecretGen.generate, sdsNeedsPush, relatedConfigs, SecretResource.Key
   over a cache shared between proxies (pilot/pkg/model XdsCache restricted to what Generate uses:
   Get / Add / Clear / ClearAll) and a secrets backend whose content and Authorize outcome are data
   (the harness supplies a fake credscontroller.MulticlusterController with exactly this content).
   Strings stay strings: the model sees the same bytes as the code. *)
From V Require Import lib.Verdict.
Open Scope string_scope.

(* ---------------------------------------------------------------- Go string helpers *)

(* strings.Split(s, sep) for a one-byte separator: never empty, n separators give n+1 pieces *)
Fixpoint split_on (c : ascii) (s : string) : list string :=
  match s with
  | EmptyString => [EmptyString]
  | String a r =>
      let rest := split_on c r in
      if Ascii.eqb a c then EmptyString :: rest
      else match rest with
           | h :: t => String a h :: t
           | [] => [String a EmptyString]
           end
  end.

(* strings.CutPrefix *)
Fixpoint cut_prefix (p s : string) : option string :=
  match p with
  | EmptyString => Some s
  | String a p' =>
      match s with
      | String b s' => if Ascii.eqb a b then cut_prefix p' s' else None
      | EmptyString => None
      end
  end.

Definition has_prefix (p s : string) : bool :=
  match cut_prefix p s with Some _ => true | None => false end.

(* strings.HasSuffix: some tail of s equals suf *)
Fixpoint has_suffix (suf s : string) : bool :=
  String.eqb suf s || match s with EmptyString => false | String _ r => has_suffix suf r end.

(* strings.TrimSuffix *)
Definition trim_suffix (suf s : string) : string :=
  if has_suffix suf s then substring 0 (String.length s - String.length suf) s else s.

Definition slash : ascii := "/"%char.
Definition ca_suffix : string := "-cacert".
Definition is_ca_name (n : string) : bool := has_suffix ca_suffix n.

(* ---------------------------------------------------------------- identities (auth.go, spiffe.go) *)

Record identity := { id_td : string; id_ns : string; id_sa : string }.

(* spiffe.ParseIdentity *)
Definition parse_identity (s : string) : option identity :=
  match cut_prefix "spiffe://" s with
  | None => None
  | Some r =>
      match split_on slash r with
      | [a; b; c; d; e] =>
          if String.eqb b "ns" && String.eqb d "sa"
          then Some {| id_td := a; id_ns := c; id_sa := e |} else None
      | _ => None
      end
  end.

(* one iteration of the loop of checkConnectionIdentity: does this raw identity match the claim? *)
Definition identity_matches (cns csa : string) (raw : string) : option identity :=
  match parse_identity raw with
  | None => None
  | Some i =>
      if negb (String.eqb cns "") && negb (String.eqb (id_ns i) cns) then None
      else if negb (String.eqb csa "") && negb (String.eqb (id_sa i) csa) then None
      else Some i
  end.

(* checkConnectionIdentity(proxy, identities): cns = proxy.ConfigNamespace, csa = proxy.Metadata.ServiceAccount;
   None = error *)
Fixpoint check_connection_identity (cns csa : string) (ids : list string) : option identity :=
  match ids with
  | [] => None
  | raw :: rest =>
      match identity_matches cns csa raw with
      | Some i => Some i
      | None => check_connection_identity cns csa rest
      end
  end.

(* model.GetProxyConfigNamespace: Metadata.Namespace if set, else the first label of the DNS domain of
   the node id when it has at least two labels, else "" *)
Definition dot : ascii := "."%char.
Definition config_namespace (meta_ns dns_domain : string) : string :=
  if negb (String.eqb meta_ns "") then meta_ns
  else match split_on dot dns_domain with
       | a :: _ :: _ => a
       | _ => ""
       end.

(* DiscoveryServer.authorize for a connection with a fresh proxy (VerifiedIdentity nil before):
   [ids = None] is the nil identity list of an unauthenticated stream.  *)
Inductive auth_result := AuthDenied | AuthAccepted (verified : option identity).

Definition authorize (enable_check : bool) (cns csa : string) (ids : option (list string)) : auth_result :=
  match ids with
  | Some l =>
      if enable_check then
        match check_connection_identity cns csa l with
        | None => AuthDenied
        | Some i => AuthAccepted (Some i)
        end
      else AuthAccepted None
  | None => AuthAccepted None
  end.

(* initConnection up to the point where the connection is registered (ads.go): initProxyMetadata parses
   the node id ("type~ip~id~dnsdomain", ParseServiceNodeWithMetadata: exactly four "~"-separated parts; the
   harness only sends valid types and IPs) and sets proxy.ConfigNamespace = GetProxyConfigNamespace BEFORE
   authorize runs; the proxy the rest of the stream is served as keeps that ConfigNamespace.
   mns = ISTIO_META namespace, csa = service account of the node metadata. *)
Definition tilde : ascii := "~"%char.
Definition node_dns_domain (node_id : string) : option string :=
  match split_on tilde node_id with
  | [_; _; _; d] => Some d
  | _ => None
  end.

Inductive conn_result :=
| ConnInvalid                                              (* InvalidArgument: malformed node *)
| ConnDenied                                               (* PermissionDenied *)
| ConnAccepted (cfg_ns : string) (verified : option identity).  (* the proxy's ConfigNamespace / VerifiedIdentity *)

Definition init_connection (enable_check : bool) (node_id mns csa : string) (ids : option (list string)) : conn_result :=
  match node_dns_domain node_id with
  | None => ConnInvalid
  | Some dns =>
      let cns := config_namespace mns dns in
      match authorize enable_check cns csa ids with
      | AuthDenied => ConnDenied
      | AuthAccepted v => ConnAccepted cns v
      end
  end.

(* ---------------------------------------------------------------- resource names (resource.go) *)

Inductive rtype := TKube | TConfigMap | TGateway | TInvalid.

Definition rtype_eqb (a b : rtype) : bool :=
  match a, b with
  | TKube, TKube | TConfigMap, TConfigMap | TGateway, TGateway | TInvalid, TInvalid => true
  | _, _ => false
  end.

Record sres := {
  sr_type : rtype;
  sr_name : string;
  sr_ns : string;
  sr_rn : string;        (* ResourceName: the original name *)
  sr_cluster : string
}.

(* the namespace-required forms (configmap://, kubernetes-gateway://) *)
Definition parse_ns_name (t : rtype) (rn after ccl : string) : option sres :=
  match split_on slash after with
  | ns :: name :: _ =>
      if String.eqb ns "" then None
      else if String.eqb name "" then None
      else Some {| sr_type := t; sr_name := name; sr_ns := ns; sr_rn := rn; sr_cluster := ccl |}
  | _ => None
  end.

(* credentials.ParseResourceName(resourceName, proxyNamespace, proxyCluster, configCluster); None = error *)
Definition parse_resource_name (rn pns pcl ccl : string) : option sres :=
  match cut_prefix "kubernetes://" rn with
  | Some after =>
      match split_on slash after with
      | a :: b :: _ => Some {| sr_type := TKube; sr_name := b; sr_ns := a; sr_rn := rn; sr_cluster := pcl |}
      | [a] => Some {| sr_type := TKube; sr_name := a; sr_ns := pns; sr_rn := rn; sr_cluster := pcl |}
      | [] => None
      end
  | None =>
      match cut_prefix "configmap://" rn with
      | Some after => parse_ns_name TConfigMap rn after ccl
      | None =>
          match cut_prefix "kubernetes-gateway://" rn with
          | Some after => parse_ns_name TGateway rn after ccl
          | None =>
              if has_prefix "invalid://" rn
              then Some {| sr_type := TInvalid; sr_name := ""; sr_ns := ""; sr_rn := rn; sr_cluster := ccl |}
              else None
          end
      end
  end.

Definition rtype_str (t : rtype) : string :=
  match t with
  | TKube => "kubernetes" | TConfigMap => "configmap" | TGateway => "kubernetes-gateway" | TInvalid => "invalid"
  end.
Definition rkind_str (t : rtype) : string :=
  match t with
  | TKube | TGateway => "Secret" | TConfigMap => "ConfigMap" | TInvalid => "Unknown"
  end.

(* a + "/" + b *)
Definition sl (a b : string) : string := a ++ String slash b.

(* xds.SecretResource.Key(): credentials.SecretResource.Key() + "/" + pkpConfHash *)
Definition cache_key (sr : sres) (pkp : string) : string :=
  sl (sl (sl (sl (sl (sl (sr_rn sr) (rtype_str (sr_type sr))) (rkind_str (sr_type sr))) (sr_name sr)) (sr_ns sr))
         (sr_cluster sr)) pkp.

(* ---------------------------------------------------------------- the world: secrets backends *)

(* A Kubernetes Secret of one cluster as the fake controller holds it. *)
Record secret := {
  s_cluster : string; s_ns : string; s_name : string;
  s_tls : bool;     (* has cert + private key (GetCertInfo succeeds) *)
  s_ca : bool       (* has a CA cert (GetCaCert succeeds) *)
}.

(* a private key provider configuration, by kind (the harness uses one fixed configuration per kind) *)
Inductive pkp := PNone | PCryptomb | PQat.
Definition pkp_eqb (a b : pkp) : bool :=
  match a, b with PNone, PNone | PCryptomb, PCryptomb | PQat, PQat => true | _, _ => false end.

Record world := {
  clusters : list string;                   (* ids ForCluster knows *)
  config_cluster : string;
  secrets : list secret;
  configmaps : list (string * string);      (* (namespace, name) with a ca.crt, config cluster only *)
  authz : list (string * string * string);  (* (cluster, namespace, service account) for which Authorize succeeds *)
  mesh_pkp : pkp;                           (* meshConfig.DefaultConfig.PrivateKeyProvider *)
  h_cryptomb : string;                      (* xxhash (decimal) of the cryptomb / qat provider configuration in use: *)
  h_qat : string                            (* opaque tokens, read back by the harness from real cache keys *)
}.

(* strconv.FormatUint(xxhash(pkpConf.String())), "" without provider *)
Definition pkp_hash (w : world) (k : pkp) : string :=
  match k with PNone => "" | PCryptomb => h_cryptomb w | PQat => h_qat w end.

Definition known_cluster (w : world) (c : string) : bool := existsb (String.eqb c) (clusters w).

Definition find_secret (w : world) (cl ns name : string) : option secret :=
  find (fun s => String.eqb (s_cluster s) cl && String.eqb (s_ns s) ns && String.eqb (s_name s) name) (secrets w).

(* Controller.Authorize(serviceAccount, namespace) of the controller of cluster cl *)
Definition authorized (w : world) (cl ns sa : string) : bool :=
  existsb (fun t => match t with (c, n, s) => String.eqb c cl && String.eqb n ns && String.eqb s sa end) (authz w).

(* which stored object a response item was built from *)
Definition src := (string * string * string)%type.   (* cluster, namespace, name *)
Definition src_eqb (a b : src) : bool :=
  match a, b with (a1, a2, a3), (b1, b2, b3) => String.eqb a1 b1 && String.eqb a2 b2 && String.eqb a3 b3 end.

(* what an envoy tls Secret carries *)
Inductive content :=
| CCa (from : src)             (* validation context only: no private key *)
| CTls (from : src) (fmt : pkp). (* tls_certificate with the private key of [from]; fmt = where the key sits:
                                    inline private_key, cryptomb provider config, qat provider config *)

Definition entry := (string * content)%type.    (* envoy Secret name, content *)

(* Controller.GetCertInfo(name, ns) on cluster cl *)
Definition get_cert_info (w : world) (cl name ns : string) : option src :=
  match find_secret w cl ns name with
  | Some s => if s_tls s then Some (cl, ns, name) else None
  | None => None
  end.

(* Controller.GetCaCert(name, ns): the named secret, else the one without the -cacert suffix *)
Definition get_ca_cert (w : world) (cl name ns : string) : option src :=
  match find_secret w cl ns name with
  | Some s => if s_ca s then Some (cl, ns, name) else None
  | None =>
      let stripped := trim_suffix ca_suffix name in
      match find_secret w cl ns stripped with
      | Some s => if s_ca s then Some (cl, ns, stripped) else None
      | None => None
      end
  end.

(* Controller.GetConfigMapCaCert(name, ns) *)
Definition get_configmap_ca (w : world) (cl name ns : string) : option src :=
  let stripped := trim_suffix ca_suffix name in
  if String.eqb cl (config_cluster w) &&
     existsb (fun p => String.eqb (fst p) ns && String.eqb (snd p) stripped) (configmaps w)
  then Some (cl, ns, stripped) else None.

(* ---------------------------------------------------------------- proxies and requests *)

Record proxy := {
  verified : option identity;        (* Proxy.VerifiedIdentity *)
  p_cluster : string;                (* Proxy.Metadata.ClusterID (claimed) *)
  p_cfg : option pkp;                (* Metadata.ProxyConfig: None = not sent; Some k = sent, with private key
                                        provider k *)
  p_refs : option (list string)      (* MergedGateway.VerifiedCertificateReferences; None = no MergedGateway *)
}.

(* model.ConfigKey restricted to the two kinds SDS looks at *)
Record ckey := { ck_cm : bool; ck_name : string; ck_ns : string }.
Definition ckey_eqb (a b : ckey) : bool :=
  Bool.eqb (ck_cm a) (ck_cm b) && String.eqb (ck_name a) (ck_name b) && String.eqb (ck_ns a) (ck_ns b).

Inductive req :=
| RNil                                         (* req == nil *)
| RForced (stores : bool)                      (* Forced; stores = Start is set, so XdsCache.Add keeps the entry *)
| RUpd (stores : bool) (upd : list ckey).      (* not forced; Secret/ConfigMap keys of ConfigsUpdated (other kinds are irrelevant) *)

(* req == nil || !sdsNeedsPush(req.Forced, req.ConfigsUpdated) *)
Definition needs_push (r : req) : bool :=
  match r with
  | RNil => false
  | RForced _ => true
  | RUpd _ upd => match upd with [] => false | _ => true end
  end.
Definition req_stores (r : req) : bool :=
  match r with RNil => false | RForced s => s | RUpd s _ => s end.

(* relatedConfigs *)
Definition related (k : ckey) : list ckey :=
  if is_ca_name (ck_name k)
  then [k; {| ck_cm := ck_cm k; ck_name := trim_suffix ca_suffix (ck_name k); ck_ns := ck_ns k |}]
  else [k; {| ck_cm := ck_cm k; ck_name := ck_name k ++ ca_suffix; ck_ns := ck_ns k |}].

Definition sres_ckey (sr : sres) : ckey :=
  {| ck_cm := rtype_eqb (sr_type sr) TConfigMap; ck_name := sr_name sr; ck_ns := sr_ns sr |}.

(* the incremental-update filter at the top of the Generate loop *)
Definition wanted (r : req) (sr : sres) : bool :=
  match r with
  | RUpd _ upd => existsb (fun k => existsb (ckey_eqb k) upd) (related (sres_ckey sr))
  | _ => true
  end.

(* ---------------------------------------------------------------- sds.go *)

(* parseResources: invalid names are skipped; pns = proxy.VerifiedIdentity.Namespace *)
Definition parse_resources (names : list string) (pns pcl ccl : string) : list sres :=
  flat_map (fun n => match parse_resource_name n pns pcl ccl with Some sr => [sr] | None => [] end) names.

Definition ref_verified (p : proxy) (rn : string) : bool :=
  match p_refs p with
  | Some l => existsb (String.eqb rn) l
  | None => false
  end.

(* the switch of filterAuthorizedResources for one resource; [auth] = the (memoised) outcome of
   secrets.Authorize(VerifiedIdentity.ServiceAccount, VerifiedIdentity.Namespace) *)
Definition allowed (p : proxy) (vns : string) (auth : bool) (sr : sres) : bool :=
  let same_namespace := String.eqb (sr_ns sr) vns in
  let verified_ref := ref_verified p (sr_rn sr) in
  match sr_type sr with
  | TGateway => verified_ref
  | TConfigMap => true
  | TKube => same_namespace && (is_ca_name (sr_name sr) || auth)
  | TInvalid => false
  end.

Definition filter_authorized (p : proxy) (vns : string) (auth : bool) (rs : list sres) : list sres :=
  filter (allowed p vns auth) rs.

(* the provider both parseResources (for the cache key, since fix 31f7dc3) and toEnvoyTLSSecret (for the
   encoding) use: proxy.Metadata.ProxyConfigOrDefault(meshConfig.GetDefaultConfig()).GetPrivateKeyProvider() *)
Definition eff_fmt (w : world) (p : proxy) : pkp :=
  match p_cfg p with Some k => k | None => mesh_pkp w end.

(* parseResources' pkpConfHashStr, the last component of the cache key *)
Definition p_pkp (w : world) (p : proxy) : string := pkp_hash w (eff_fmt w p).

(* SecretGen.generate: controller chosen by type, then the three fetch paths; fmt = eff_fmt of the
   requesting proxy *)
Definition build (w : world) (pcl : string) (fmt : pkp) (sr : sres) : option entry :=
  let cl := match sr_type sr with
            | TGateway | TConfigMap => config_cluster w
            | _ => pcl
            end in
  match sr_type sr with
  | TConfigMap =>
      match get_configmap_ca w cl (sr_name sr) (sr_ns sr) with
      | Some s => Some (sr_rn sr, CCa s) | None => None end
  | _ =>
      if is_ca_name (sr_name sr) then
        match get_ca_cert w cl (sr_name sr) (sr_ns sr) with
        | Some s => Some (sr_rn sr, CCa s) | None => None end
      else
        match get_cert_info w cl (sr_name sr) (sr_ns sr) with
        | Some s => Some (sr_rn sr, CTls s fmt) | None => None end
  end.

(* the shared cache: key -> (dependent configs, entry).  Newest first. *)
Definition cache := list (string * (list ckey * entry)).

Fixpoint cache_get (k : string) (c : cache) : option entry :=
  match c with
  | [] => None
  | (k', (_, e)) :: r => if String.eqb k k' then Some e else cache_get k r
  end.

(* XdsCache.Clear(configs): drop every entry one of whose dependent configs is listed *)
Definition cache_clear (ks : list ckey) (c : cache) : cache :=
  filter (fun x => negb (existsb (fun d => existsb (ckey_eqb d) ks) (fst (snd x)))) c.

(* the loop of Generate over the authorised resources *)
Fixpoint gen_loop (w : world) (p : proxy) (r : req) (rs : list sres) (c : cache) : list entry * cache :=
  match rs with
  | [] => ([], c)
  | sr :: rest =>
      if negb (wanted r sr) then gen_loop w p r rest c
      else
        match cache_get (cache_key sr (p_pkp w p)) c with
        | Some e => let '(out, c') := gen_loop w p r rest c in (e :: out, c')
        | None =>
            match build w (p_cluster p) (eff_fmt w p) sr with
            | Some e =>
                let c1 := if req_stores r then (cache_key sr (p_pkp w p), (related (sres_ckey sr), e)) :: c else c in
                let '(out, c') := gen_loop w p r rest c1 in (e :: out, c')
            | None => gen_loop w p r rest c
            end
        end
  end.

(* SecretGen.Generate(proxy, w.ResourceNames, req) *)
Definition generate (w : world) (c : cache) (p : proxy) (names : list string) (r : req) : list entry * cache :=
  match verified p with
  | None => ([], c)
  | Some i =>
      if negb (needs_push r) then ([], c)
      else if negb (known_cluster w (p_cluster p)) then ([], c)
      else if negb (known_cluster w (config_cluster w)) then ([], c)
      else
        let auth := authorized w (p_cluster p) (id_ns i) (id_sa i) in
        let rs := filter_authorized p (id_ns i) auth
                    (parse_resources names (id_ns i) (p_cluster p) (config_cluster w)) in
        gen_loop w p r rs c
  end.

(* ---------------------------------------------------------------- histories on one shared cache *)

Inductive op :=
| OGen (p : proxy) (names : list string) (r : req)
| OClearAll
| OClear (ks : list ckey).

Fixpoint run (w : world) (c : cache) (ops : list op) : list (list entry) :=
  match ops with
  | [] => []
  | OGen p names r :: rest => let '(out, c') := generate w c p names r in out :: run w c' rest
  | OClearAll :: rest => run w [] rest
  | OClear ks :: rest => run w (cache_clear ks c) rest
  end.

(* the cache after a history *)
Fixpoint run_cache (w : world) (c : cache) (ops : list op) : cache :=
  match ops with
  | [] => c
  | OGen p names r :: rest => run_cache w (snd (generate w c p names r)) rest
  | OClearAll :: rest => run_cache w [] rest
  | OClear ks :: rest => run_cache w (cache_clear ks c) rest
  end.

(* the key set of the cache after each op of a history (XdsCache.Keys(SDSType)) *)
Definition step_cache (w : world) (c : cache) (o : op) : cache :=
  match o with
  | OGen p names r => snd (generate w c p names r)
  | OClearAll => []
  | OClear ks => cache_clear ks c
  end.

Fixpoint run_keys (w : world) (c : cache) (ops : list op) : list (list string) :=
  match ops with
  | [] => []
  | o :: rest => let c' := step_cache w c o in map fst c' :: run_keys w c' rest
  end.

(* ---------------------------------------------------------------- the specification *)

(* [covers rn ns name]: the verified reference rn is a kubernetes-gateway:// name of secret ns/name *)
Definition covers (rn ns name : string) : bool :=
  match cut_prefix "kubernetes-gateway://" rn with
  | Some after =>
      match split_on slash after with
      | a :: b :: _ => String.eqb a ns && String.eqb b name
      | _ => false
      end
  | None => false
  end.

(* Proxy p may hold the private key of the secret (cl, ns, name):
   it is authenticated, and either the secret lives in its own verified namespace (in the cluster it
   reads from) and its service account is authorised to read secrets there, or a verified (granted)
   gateway reference names the secret in the config cluster. *)
Definition entitled (w : world) (p : proxy) (s : src) : bool :=
  match verified p, s with
  | None, _ => false
  | Some i, (cl, ns, name) =>
      (String.eqb cl (p_cluster p) && String.eqb ns (id_ns i) && authorized w cl ns (id_sa i))
      || (String.eqb cl (config_cluster w) &&
          match p_refs p with
          | Some l => existsb (fun rn => covers rn ns name) l
          | None => false
          end)
  end.

Definition key_of (e : entry) : option src :=
  match snd e with CTls s _ => Some s | CCa _ => None end.

(* every private key in a response is one the receiver is entitled to *)
Definition keys_entitled (w : world) (p : proxy) (out : list entry) : bool :=
  forallb (fun e => match key_of e with Some s => entitled w p s | None => true end) out.

(* well-formedness used by the cache-key argument: no "/" inside the key components that follow
   the resource name *)
Fixpoint no_slash (s : string) : bool :=
  match s with
  | EmptyString => true
  | String a r => negb (Ascii.eqb a slash) && no_slash r
  end.

(* cluster ids and the provider hashes are "/"-free; the hashes of distinct providers are distinct *)
Definition wf_world (w : world) : bool :=
  forallb no_slash (clusters w) && no_slash (h_cryptomb w) && no_slash (h_qat w)
  && negb (String.eqb (h_cryptomb w) "") && negb (String.eqb (h_qat w) "")
  && negb (String.eqb (h_cryptomb w) (h_qat w)).
Definition wf_proxy (p : proxy) : bool :=
  match verified p with Some i => no_slash (id_ns i) | None => true end.
Definition wf_op (o : op) : bool := match o with OGen p _ _ => wf_proxy p | _ => true end.

(* ---------------------------------------------------------------- kube/secrets.go: CredentialsController.Authorize *)

Definition colon : ascii := ":"%char.

(* serviceaccount.MakeUsername(namespace, name) *)
Definition mk_username (ns sa : string) : string := "system:serviceaccount:" ++ ns ++ String colon sa.

(* The RBAC backend as data: [grants] = (namespace, service account) pairs allowed to list secrets in
   that namespace.  A SubjectAccessReview {User: user, Verb: list, Resource: secrets, Namespace: attr_ns}
   is allowed iff user is the user name of a granted pair of that namespace. *)
Definition sar_allowed (grants : list (string * string)) (user attr_ns : string) : bool :=
  existsb (fun g => String.eqb user (mk_username (fst g) (snd g)) && String.eqb attr_ns (fst g)) grants.

(* authorizationCache inside one TTL window (entries expire after 1 min / 5 min; time is not modelled) *)
Definition acache := list (string * bool).
Fixpoint acache_get (u : string) (ac : acache) : option bool :=
  match ac with
  | [] => None
  | (u', b) :: r => if String.eqb u u' then Some b else acache_get u r
  end.

(* Authorize(serviceAccount, namespace): the cached answer for the user if any, else a
   SubjectAccessReview for (user, list secrets in namespace) whose outcome is cached *)
Definition kube_authorize (grants : list (string * string)) (ac : acache) (sa ns : string) : bool * acache :=
  let user := mk_username ns sa in
  match acache_get user ac with
  | Some b => (b, ac)
  | None => let b := sar_allowed grants user ns in (b, (user, b) :: ac)
  end.

(* histories: RBAC changes and Authorize calls on one controller *)
Inductive kop := KSet (grants : list (string * string)) | KCall (sa ns : string).

Fixpoint kube_run (grants : list (string * string)) (ac : acache) (ops : list kop) : list bool :=
  match ops with
  | [] => []
  | KSet g :: rest => kube_run g ac rest
  | KCall sa ns :: rest => let '(b, ac') := kube_authorize grants ac sa ns in b :: kube_run grants ac' rest
  end.

Definition kcalls (ops : list kop) : list (string * string) :=
  flat_map (fun o => match o with KCall sa ns => [(sa, ns)] | KSet _ => [] end) ops.

(* every grant table in force at some point of the history *)
Fixpoint ever_granted (grants : list (string * string)) (ops : list kop) : list (string * string) :=
  match ops with
  | [] => grants
  | KSet g :: rest => grants ++ ever_granted g rest
  | KCall _ _ :: rest => ever_granted grants rest
  end.

Fixpoint no_colon (s : string) : bool :=
  match s with
  | EmptyString => true
  | String a r => negb (Ascii.eqb a colon) && no_colon r
  end.
