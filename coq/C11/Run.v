(* Evaluation of harness cases for C11. *)
From V Require Export lib.Verdict C11.Model.
Open Scope string_scope.

Inductive case :=
(* the REAL DiscoveryServer.initConnection on a fake discovery server, for a first request carrying
   node id [node] and metadata namespace [mns] / service account [csa], on a stream whose credential
   proved [ids]: observed = error class, or the ConfigNamespace and VerifiedIdentity of the proxy the
   connection ends up with *)
| Ident (id : N) (enable : bool) (node mns csa : string) (ids : option (list string)) (observed : conn_result)
(* credentials.ParseResourceName *)
| Parse (id : N) (rn pns pcl ccl : string) (observed : option sres)
(* parseResources + filterAuthorizedResources with the controller of the proxy's cluster:
   observed parse results with their real cache keys, and the resources that passed the filter *)
| Filter (id : N) (w : world) (p : proxy) (names : list string)
         (parsed : list (sres * string)) (passed : list sres)
(* a history on one SecretGen with the real XdsCache.  observed: one response per OGen;
   fresh: the response of a brand-new SecretGen (empty cache) to the same single request;
   keys: the key set of the real cache after every op *)
| Scen (id : N) (w : world) (ops : list op) (observed fresh : list (list entry)) (keys : list (list string))
(* the real kube CredentialsController.Authorize against a fake SubjectAccessReview backend whose
   grant table the harness changes between calls; one observed outcome per KCall *)
| KAuth (id : N) (grants : list (string * string)) (ops : list kop) (observed : list bool).

Definition case_id c :=
  match c with
  | Ident id _ _ _ _ _ _ => id | Parse id _ _ _ _ _ => id | Filter id _ _ _ _ _ => id | Scen id _ _ _ _ _ => id
  | KAuth id _ _ _ => id
  end.

(* ---- equality tests *)
Definition identity_eqb (a b : identity) : bool :=
  String.eqb (id_td a) (id_td b) && String.eqb (id_ns a) (id_ns b) && String.eqb (id_sa a) (id_sa b).
Definition auth_eqb (a b : auth_result) : bool :=
  match a, b with
  | AuthDenied, AuthDenied => true
  | AuthAccepted x, AuthAccepted y => option_eqb identity_eqb x y
  | _, _ => false
  end.
Definition conn_eqb (a b : conn_result) : bool :=
  match a, b with
  | ConnInvalid, ConnInvalid | ConnDenied, ConnDenied => true
  | ConnAccepted c x, ConnAccepted d y => String.eqb c d && option_eqb identity_eqb x y
  | _, _ => false
  end.
Definition sres_eqb (a b : sres) : bool :=
  rtype_eqb (sr_type a) (sr_type b) && String.eqb (sr_name a) (sr_name b) && String.eqb (sr_ns a) (sr_ns b)
  && String.eqb (sr_rn a) (sr_rn b) && String.eqb (sr_cluster a) (sr_cluster b).
Definition content_eqb (a b : content) : bool :=
  match a, b with
  | CCa x, CCa y => src_eqb x y
  | CTls x f, CTls y g => src_eqb x y && pkp_eqb f g
  | _, _ => false
  end.
Definition entry_eqb (a b : entry) : bool := String.eqb (fst a) (fst b) && content_eqb (snd a) (snd b).

(* responses are compared as sets of equal size (Generate iterates a Go set) *)
Definition same_set {A} (eqb : A -> A -> bool) (l1 l2 : list A) : bool :=
  Nat.eqb (List.length l1) (List.length l2)
  && forallb (fun x => existsb (eqb x) l2) l1 && forallb (fun x => existsb (eqb x) l1) l2.

Fixpoint all2 {A B} (f : A -> B -> bool) (l1 : list A) (l2 : list B) : bool :=
  match l1, l2 with
  | [], [] => true
  | x :: r1, y :: r2 => f x y && all2 f r1 r2
  | _, _ => false
  end.

Definition gens (ops : list op) : list (proxy * list string * req) :=
  flat_map (fun o => match o with OGen p n r => [(p, n, r)] | _ => [] end) ops.

Definition proxy_ns (p : proxy) : string := match verified p with Some i => id_ns i | None => "" end.
Definition proxy_auth (w : world) (p : proxy) : bool :=
  match verified p with Some i => authorized w (p_cluster p) (id_ns i) (id_sa i) | None => false end.

(* ---- correspondence: the model predicts the observation *)
Definition model_ok (c : case) : bool :=
  match c with
  | Ident _ en node mns csa ids o => conn_eqb (init_connection en node mns csa ids) o
  | Parse _ rn pns pcl ccl o => option_eqb sres_eqb (parse_resource_name rn pns pcl ccl) o
  | Filter _ w p names parsed passed =>
      let rs := parse_resources names (proxy_ns p) (p_cluster p) (config_cluster w) in
      all2 (fun sr o => sres_eqb sr (fst o) && String.eqb (cache_key sr (p_pkp w p)) (snd o)) rs parsed
      && all2 sres_eqb (filter_authorized p (proxy_ns p) (proxy_auth w p) rs) passed
  | Scen _ w ops obs fresh keys =>
      all2 (same_set entry_eqb) (run w [] ops) obs
      && all2 (same_set String.eqb) (run_keys w [] ops) keys
      && all2 (fun g f => match g with (p, n, r) => same_set entry_eqb (fst (generate w [] p n r)) f end)
              (gens ops) fresh
  | KAuth _ grants ops obs => all2 Bool.eqb (kube_run grants [] ops) obs
  end.

(* ---- property oracles on the observed behaviour (written from the property, not from the code) *)

(* rn = scheme ++ ns ++ "/" ++ name [++ "/" ++ anything] *)
Definition names_ns_name (scheme rn ns name : string) : bool :=
  match cut_prefix (scheme ++ ns ++ "/" ++ name) rn with
  | Some EmptyString => true
  | Some (String a _) => Ascii.eqb a slash
  | None => false
  end.

Definition parse_spec (rn pns pcl ccl : string) (sr : sres) : bool :=
  String.eqb (sr_rn sr) rn &&
  match sr_type sr with
  | TKube =>
      String.eqb (sr_cluster sr) pcl && no_slash (sr_name sr) &&
      ((String.eqb rn ("kubernetes://" ++ sr_name sr) && String.eqb (sr_ns sr) pns)
       || (no_slash (sr_ns sr) && names_ns_name "kubernetes://" rn (sr_ns sr) (sr_name sr)))
  | TConfigMap =>
      String.eqb (sr_cluster sr) ccl && no_slash (sr_name sr) && no_slash (sr_ns sr)
      && negb (String.eqb (sr_ns sr) "") && negb (String.eqb (sr_name sr) "")
      && names_ns_name "configmap://" rn (sr_ns sr) (sr_name sr)
  | TGateway =>
      String.eqb (sr_cluster sr) ccl && no_slash (sr_name sr) && no_slash (sr_ns sr)
      && negb (String.eqb (sr_ns sr) "") && negb (String.eqb (sr_name sr) "")
      && names_ns_name "kubernetes-gateway://" rn (sr_ns sr) (sr_name sr)
  | TInvalid => has_prefix "invalid://" rn
  end.

(* the namespace a node claims: its metadata namespace, else the leading label of a dotted DNS domain *)
Definition claimed_ns (mns dns : string) : string :=
  if String.eqb mns "" then
    match split_on dot dns with
    | [] | [_] => ""
    | a :: _ => a
    end
  else mns.

(* the last "~"-separated part of a node id *)
Definition last_part (node : string) : string := List.last (split_on tilde node) "".

(* [cns] = the namespace the node claims; the connection must end up as a proxy of exactly that
   namespace, and with a verified identity only one that the credential proves and that matches *)
Definition ident_spec (en : bool) (cns csa : string) (ids : option (list string)) (o : conn_result) : bool :=
  match o with
  | ConnInvalid | ConnDenied => true
  | ConnAccepted c None => String.eqb c cns && match ids with None => true | Some _ => negb en end
  | ConnAccepted c (Some v) =>
      String.eqb c cns &&
      en && (String.eqb c "" || String.eqb (id_ns v) c) && (String.eqb csa "" || String.eqb (id_sa v) csa)
      && match ids with
         | Some l => existsb (fun raw => String.eqb raw ("spiffe://" ++ id_td v ++ "/ns/" ++ id_ns v ++ "/sa/" ++ id_sa v)) l
         | None => false
         end
  end.

Definition passed_spec (w : world) (p : proxy) (sr : sres) : bool :=
  match verified p with
  | None => false
  | Some i =>
      match sr_type sr with
      | TKube => String.eqb (sr_ns sr) (id_ns i)
                 && (is_ca_name (sr_name sr) || authorized w (p_cluster p) (id_ns i) (id_sa i))
      | TGateway => ref_verified p (sr_rn sr)
      | TConfigMap => true
      | TInvalid => false
      end
  end.

Definition prop_ok (c : case) : bool :=
  match c with
  | Ident _ en node mns csa ids o => ident_spec en (claimed_ns mns (last_part node)) csa ids o
  | Parse _ rn pns pcl ccl o => match o with Some sr => parse_spec rn pns pcl ccl sr | None => true end
  | Filter _ w p names parsed passed => forallb (passed_spec w p) passed
  | Scen _ w ops obs fresh _ =>
      all2 (fun g o => match g with (p, n, r) =>
                         keys_entitled w p o
                         && match verified p with None => match o with [] => true | _ => false end | Some _ => true end
                       end) (gens ops) obs
      && all2 (same_set entry_eqb) obs fresh
  | KAuth _ grants ops obs =>
      (* a positive answer only for a (namespace, SA) pair granted at some point of the history *)
      all2 (fun c b => negb b || existsb (fun g => String.eqb (fst g) (snd c) && String.eqb (snd g) (fst c))
                                         (ever_granted grants ops)) (kcalls ops) obs
  end.

Definition mismatches := check_all case_id model_ok prop_ok.
