(* C11 property theorems only. *)
From V Require Import lib.Verdict C11.Model C11.Proofs C11.ProofsKey C11.ProofsCache C11.ProofsMisc C11.ProofsKube.
Open Scope string_scope.

(* ---- identity binding (auth.go) *)

(* An accepted connection with a verified identity: the check is on, the identity is one the
   credential proves, and it equals the claimed namespace / service account wherever one is claimed. *)
Theorem C11_identity_bound : forall en cns csa ids v,
  authorize en cns csa ids = AuthAccepted (Some v) ->
  en = true /\
  (exists l raw, ids = Some l /\ In raw l /\ parse_identity raw = Some v) /\
  (cns <> "" -> id_ns v = cns) /\ (csa <> "" -> id_sa v = csa).
Proof. exact authorize_bound. Qed.
Print Assumptions C11_identity_bound.

(* ... where the claimed namespace is the node's metadata namespace whenever it sends one. *)
Theorem C11_identity_bound_metadata : forall en mns dns csa ids v,
  authorize en (config_namespace mns dns) csa ids = AuthAccepted (Some v) ->
  mns <> "" -> id_ns v = mns.
Proof. exact authorize_bound_metadata. Qed.
Print Assumptions C11_identity_bound_metadata.

(* What the real connection setup (initConnection: node parsing, ConfigNamespace, authorize) establishes:
   a connection that ends up with a verified identity is a proxy of the namespace its node claims
   (c = GetProxyConfigNamespace of the node), and that namespace / the claimed service account are the
   ones of an identity the credential proves. *)
Theorem C11_connection_identity_bound : forall en node mns csa ids c v,
  init_connection en node mns csa ids = ConnAccepted c (Some v) ->
  en = true /\
  (exists dns, node_dns_domain node = Some dns /\ c = config_namespace mns dns) /\
  (exists l raw, ids = Some l /\ In raw l /\ parse_identity raw = Some v) /\
  (c <> "" -> id_ns v = c) /\ (mns <> "" -> id_ns v = mns) /\ (csa <> "" -> id_sa v = csa).
Proof. exact init_connection_bound. Qed.
Print Assumptions C11_connection_identity_bound.

(* With the check on, an authenticated stream none of whose identities matches the claim is refused. *)
Theorem C11_identity_mismatch_denied : forall en cns csa l,
  en = true -> (forall raw, In raw l -> identity_matches cns csa raw = None) ->
  authorize en cns csa (Some l) = AuthDenied.
Proof. exact authorize_denies. Qed.
Print Assumptions C11_identity_mismatch_denied.

(* A verified identity is "/"-free, so the well-formedness premise of the cache theorems holds for
   every proxy whose VerifiedIdentity was set by authorize. *)
Theorem C11_verified_identity_wellformed : forall en cns csa ids v p,
  authorize en cns csa ids = AuthAccepted (Some v) ->
  verified p = Some v -> wf_proxy p = true.
Proof. exact authorize_wf. Qed.
Print Assumptions C11_verified_identity_wellformed.

(* ---- unauthenticated streams *)

(* A stream without credential identities is accepted without a verified identity ... *)
Theorem C11_unauthenticated_unverified : forall en cns csa, authorize en cns csa None = AuthAccepted None.
Proof. exact authorize_unauthenticated. Qed.
Print Assumptions C11_unauthenticated_unverified.

Theorem C11_unauthenticated_connection_unverified : forall en node mns csa c v,
  init_connection en node mns csa None = ConnAccepted c v -> v = None.
Proof. exact init_connection_unverified. Qed.
Print Assumptions C11_unauthenticated_connection_unverified.

(* ... and such a proxy gets nothing over SDS, whatever the shared cache holds, and does not touch it. *)
Theorem C11_unauthenticated_gets_nothing : forall w c p names r,
  verified p = None -> generate w c p names r = ([], c).
Proof. exact unauthenticated_nothing. Qed.
Print Assumptions C11_unauthenticated_gets_nothing.

(* ---- resource names and the filter *)

Theorem C11_implicit_name_binds_verified_namespace : forall name pns pcl ccl,
  no_slash name = true ->
  parse_resource_name ("kubernetes://" ++ name) pns pcl ccl =
  Some {| sr_type := TKube; sr_name := name; sr_ns := pns; sr_rn := "kubernetes://" ++ name; sr_cluster := pcl |}.
Proof. exact parse_implicit_namespace. Qed.
Print Assumptions C11_implicit_name_binds_verified_namespace.

(* every parsed resource: components "/"-free, original name kept, cluster by type, and a gateway
   resource names exactly the namespace/name written after the scheme *)
Theorem C11_parse_shape : forall rn pns pcl ccl sr,
  no_slash pns = true -> no_slash pcl = true -> no_slash ccl = true ->
  parse_resource_name rn pns pcl ccl = Some sr ->
  wf_sres sr /\ sr_rn sr = rn /\
  match sr_type sr with
  | TKube => sr_cluster sr = pcl
  | TGateway =>
      sr_cluster sr = ccl /\
      exists after rest, cut_prefix "kubernetes-gateway://" rn = Some after /\
                         split_on slash after = sr_ns sr :: sr_name sr :: rest
  | _ => sr_cluster sr = ccl
  end.
Proof. exact parse_resource_name_wf. Qed.
Print Assumptions C11_parse_shape.

Theorem C11_filter_table : forall p vns auth rs sr,
  In sr (filter_authorized p vns auth rs) <->
  In sr rs /\
  match sr_type sr with
  | TGateway => ref_verified p (sr_rn sr) = true
  | TConfigMap => True
  | TKube => sr_ns sr = vns /\ (is_ca_name (sr_name sr) = true \/ auth = true)
  | TInvalid => False
  end.
Proof. exact filter_table. Qed.
Print Assumptions C11_filter_table.

(* the cache key (which does not contain the requester) determines the resource *)
Theorem C11_cache_key_injective : forall sr sr' h h',
  wf_sres sr -> wf_sres sr' -> no_slash h = true -> no_slash h' = true ->
  cache_key sr h = cache_key sr' h' -> sr = sr' /\ h = h'.
Proof. exact cache_key_inj. Qed.
Print Assumptions C11_cache_key_injective.

(* ---- histories on a shared cache *)

(* For every history (Generate calls by arbitrary proxies with arbitrary names and push requests,
   ClearAll, Clear) on one shared cache, every response carries only private keys its receiver is
   entitled to: own verified namespace in the cluster it reads and authorised, or a verified
   gateway reference naming that secret in the config cluster. *)
Theorem C11_no_key_without_right : forall w ops,
  wf_world w = true -> forallb wf_op ops = true ->
  Forall2 (fun g out => match g with (p, _, _) => keys_entitled w p out = true end) (gens ops) (run w [] ops).
Proof. exact no_key_without_right. Qed.
Print Assumptions C11_no_key_without_right.

(* The response to a request does not depend on the history that preceded it on the cache (exact
   equality, including the encoding of the key: since fix 31f7dc3 the cache key carries the hash of the
   provider the secret is encoded with). *)
Theorem C11_order_independent : forall w ops p names r,
  wf_world w = true -> forallb wf_op ops = true -> wf_proxy p = true ->
  fst (generate w (run_cache w [] ops) p names r) = fst (generate w [] p names r).
Proof. exact order_independent. Qed.
Print Assumptions C11_order_independent.

(* All responses of a history are, one by one, the answers an empty cache would give. *)
Theorem C11_history_is_pointwise : forall w ops,
  wf_world w = true -> forallb wf_op ops = true ->
  run w [] ops = map (fun g => match g with (p, n, r) => fst (generate w [] p n r) end) (gens ops).
Proof. exact run_is_pointwise. Qed.
Print Assumptions C11_history_is_pointwise.

(* Never across namespaces: after any history, a proxy without verified references receives private
   keys only from its own verified namespace, from the cluster it reads, and only when authorised. *)
Theorem C11_never_across_namespaces : forall w ops p i names r e cl ns name,
  wf_world w = true -> forallb wf_op ops = true -> wf_proxy p = true ->
  verified p = Some i -> p_refs p = None ->
  In e (fst (generate w (run_cache w [] ops) p names r)) -> key_of e = Some (cl, ns, name) ->
  ns = id_ns i /\ cl = p_cluster p /\ authorized w cl ns (id_sa i) = true.
Proof. exact never_across_namespaces. Qed.
Print Assumptions C11_never_across_namespaces.

(* ---- the SubjectAccessReview-backed Authorize (kube/secrets.go) *)

(* The authorization cache is keyed by the full user name, and that key is injective on identities with
   colon-free namespaces: two different (namespace, service account) pairs never share a cache entry.
   (The statements below rest on this; a key that is not injective -- e.g. namespace + "-" + SA -- lets one
   identity inherit another's cached answer, which the harness exercises with colliding "-" names.) *)
Theorem C11_kube_cache_key_injective : forall ns ns' sa sa',
  no_colon ns = true -> no_colon ns' = true ->
  mk_username ns sa = mk_username ns' sa' -> ns = ns' /\ sa = sa'.
Proof. exact mk_username_inj. Qed.
Print Assumptions C11_kube_cache_key_injective.

(* Without a cached answer, Authorize succeeds exactly for a granted (namespace, service account). *)
Theorem C11_kube_authorize_exact : forall grants sa ns,
  fst (kube_authorize grants [] sa ns) = true <-> In (ns, sa) grants.
Proof. exact kube_authorize_fresh. Qed.
Print Assumptions C11_kube_authorize_exact.

(* Over every history of RBAC changes and Authorize calls on one controller (within one cache TTL
   window), a positive answer for a colon-free namespace means that exact (namespace, SA) pair was
   granted at some point of the history.  (Revocation is seen only when the cache entry expires:
   time is not modelled.) *)
Theorem C11_kube_authorize_history_partial : forall grants ops,
  forallb (fun g => no_colon (fst g)) (ever_granted grants ops) = true ->
  Forall2 (fun c b => b = true -> no_colon (snd c) = true -> In (snd c, fst c) (ever_granted grants ops))
          (kcalls ops) (kube_run grants [] ops).
Proof. exact kube_run_sound. Qed.
Print Assumptions C11_kube_authorize_history_partial.

(* ---- the hypotheses are satisfiable and the statements are not vacuous: an authorised gateway gets
   its key, the same name is then refused to an unauthorised twin, a foreign namespace and an
   unauthenticated proxy although the entry sits in the shared cache *)
Definition ex_world : world :=
  {| clusters := ["c1"]; config_cluster := "c1";
     secrets := [ {| s_cluster := "c1"; s_ns := "a"; s_name := "tls"; s_tls := true; s_ca := false |} ];
     configmaps := []; authz := [("c1", "a", "gw")]; mesh_pkp := PCryptomb; h_cryptomb := "1"; h_qat := "2" |}.
Definition ex_proxy (ns sa : string) : proxy :=
  {| verified := Some {| id_td := "cluster.local"; id_ns := ns; id_sa := sa |};
     p_cluster := "c1"; p_cfg := Some PNone; p_refs := None |}.
(* a proxy that sends no ProxyConfig and therefore gets the mesh default provider (the former finding) *)
Definition ex_default (ns sa : string) : proxy :=
  {| verified := Some {| id_td := "cluster.local"; id_ns := ns; id_sa := sa |};
     p_cluster := "c1"; p_cfg := None; p_refs := None |}.
Definition ex_anon : proxy := {| verified := None; p_cluster := "c1"; p_cfg := None; p_refs := None |}.
Definition ex_ops : list op :=
  [ OGen (ex_proxy "a" "gw") ["kubernetes://tls"] (RForced true);
    OGen (ex_proxy "a" "default") ["kubernetes://tls"] (RForced true);
    OGen (ex_proxy "b" "gw") ["kubernetes://a/tls"; "kubernetes://tls"] (RForced true);
    OGen ex_anon ["kubernetes://tls"; "kubernetes://a/tls"] (RForced true);
    OGen (ex_default "a" "gw") ["kubernetes://tls"] (RForced true);
    OGen (ex_proxy "a" "gw") ["kubernetes://tls"] (RForced true) ].

Example C11_example_hypotheses : wf_world ex_world = true /\ forallb wf_op ex_ops = true.
Proof. vm_compute. auto. Qed.

Example C11_example_history :
  run ex_world [] ex_ops = [ [("kubernetes://tls", CTls ("c1", "a", "tls") PNone)]; []; []; [];
                              [("kubernetes://tls", CTls ("c1", "a", "tls") PCryptomb)];
                              [("kubernetes://tls", CTls ("c1", "a", "tls") PNone)] ]
  /\ cache_get (cache_key {| sr_type := TKube; sr_name := "tls"; sr_ns := "a"; sr_rn := "kubernetes://tls"; sr_cluster := "c1" |} "")
               (run_cache ex_world [] ex_ops) = Some ("kubernetes://tls", CTls ("c1", "a", "tls") PNone).
Proof. vm_compute. auto. Qed.

Example C11_example_kube :
  kube_run [("a", "gw")] [] [KCall "gw" "a"; KCall "default" "a"; KCall "gw" "b"; KSet []; KCall "gw" "a"; KCall "default" "a"]
  = [true; false; false; true; false].
Proof. vm_compute. reflexivity. Qed.

Example C11_example_identity :
  authorize true "a" "gw" (Some ["spiffe://cluster.local/ns/b/sa/gw"; "spiffe://cluster.local/ns/a/sa/gw"])
  = AuthAccepted (Some {| id_td := "cluster.local"; id_ns := "a"; id_sa := "gw" |})
  /\ authorize true "a" "gw" (Some ["spiffe://cluster.local/ns/b/sa/gw"]) = AuthDenied.
Proof. vm_compute. auto. Qed.
