(* C11 proofs, part 2: the cache key determines the resource (no "/" in the trailing components),
   parsed resources are well-formed. *)
From V Require Import lib.Verdict C11.Model.
Open Scope string_scope.

Lemma no_slash_app_slash a b : no_slash (a ++ String slash b) = false.
Proof.
  induction a as [|x a IH]; cbn.
  - reflexivity.
  - rewrite IH. apply andb_false_r.
Qed.

Lemma sl_inj a a' b b' :
  no_slash b = true -> no_slash b' = true -> sl a b = sl a' b' -> a = a' /\ b = b'.
Proof.
  unfold sl. revert a'. induction a as [|x a IH]; intros a' Hb Hb' H.
  - destruct a' as [|y a']; cbn in H.
    + inversion H. auto.
    + inversion H; subst. rewrite no_slash_app_slash in Hb. discriminate.
  - destruct a' as [|y a']; cbn in H.
    + inversion H; subst. rewrite no_slash_app_slash in Hb'. discriminate.
    + inversion H; subst. destruct (IH a' Hb Hb' H2) as [-> ->]. auto.
Qed.

Lemma rtype_str_no_slash t : no_slash (rtype_str t) = true.
Proof. destruct t; reflexivity. Qed.
Lemma rkind_str_no_slash t : no_slash (rkind_str t) = true.
Proof. destruct t; reflexivity. Qed.
Lemma rtype_str_inj t t' : rtype_str t = rtype_str t' -> t = t'.
Proof. destruct t, t'; cbn; intros H; try reflexivity; discriminate. Qed.

Definition wf_sres (sr : sres) : Prop :=
  no_slash (sr_name sr) = true /\ no_slash (sr_ns sr) = true /\ no_slash (sr_cluster sr) = true.

(* SecretResource.Key() is injective on well-formed resources *)
Lemma cache_key_inj sr sr' h h' :
  wf_sres sr -> wf_sres sr' -> no_slash h = true -> no_slash h' = true ->
  cache_key sr h = cache_key sr' h' -> sr = sr' /\ h = h'.
Proof.
  intros (N1 & N2 & N3) (M1 & M2 & M3) Hh Hh' H. unfold cache_key in H.
  apply sl_inj in H; auto. destruct H as [H Eh].
  apply sl_inj in H; auto. destruct H as [H Ecl].
  apply sl_inj in H; auto. destruct H as [H Ens].
  apply sl_inj in H; auto. destruct H as [H Ename].
  apply sl_inj in H; auto using rkind_str_no_slash. destruct H as [H _].
  apply sl_inj in H; auto using rtype_str_no_slash. destruct H as [Ern Ety].
  apply rtype_str_inj in Ety.
  destruct sr, sr'; cbn in *; subst. auto.
Qed.

(* strings.Split pieces contain no separator *)
Lemma split_on_no_slash s : forall x, In x (split_on slash s) -> no_slash x = true.
Proof.
  induction s as [|a r IH]; cbn [split_on]; intros x Hin.
  - destruct Hin as [<-|[]]. reflexivity.
  - destruct (Ascii.eqb a slash) eqn:E.
    + destruct Hin as [<-|Hin]; [reflexivity|apply IH; exact Hin].
    + destruct (split_on slash r) as [|h t] eqn:Es.
      * destruct Hin as [<-|[]]. cbn. rewrite E. reflexivity.
      * destruct Hin as [<-|Hin].
        -- cbn. rewrite E. cbn. apply IH. left. reflexivity.
        -- apply IH. right. exact Hin.
Qed.

Lemma parse_ns_name_wf t rn after ccl sr :
  no_slash ccl = true -> parse_ns_name t rn after ccl = Some sr ->
  wf_sres sr /\ sr_type sr = t /\ sr_cluster sr = ccl /\ sr_rn sr = rn /\
  exists rest, split_on slash after = sr_ns sr :: sr_name sr :: rest.
Proof.
  intros Hc. unfold parse_ns_name.
  destruct (split_on slash after) as [|ns [|name rest]] eqn:Es; try discriminate.
  destruct (String.eqb ns ""); [discriminate|].
  destruct (String.eqb name ""); [discriminate|].
  intros H; inversion H; subst; clear H. cbn.
  assert (Hns : no_slash ns = true) by (apply (split_on_no_slash after); rewrite Es; cbn; auto).
  assert (Hname : no_slash name = true) by (apply (split_on_no_slash after); rewrite Es; cbn; auto).
  repeat split; auto. exists rest. reflexivity.
Qed.

(* the shape of every successfully parsed resource *)
Lemma parse_resource_name_wf rn pns pcl ccl sr :
  no_slash pns = true -> no_slash pcl = true -> no_slash ccl = true ->
  parse_resource_name rn pns pcl ccl = Some sr ->
  wf_sres sr /\ sr_rn sr = rn /\
  match sr_type sr with
  | TKube => sr_cluster sr = pcl
  | TGateway =>
      sr_cluster sr = ccl /\
      exists after rest, cut_prefix "kubernetes-gateway://" rn = Some after /\
                         split_on slash after = sr_ns sr :: sr_name sr :: rest
  | _ => sr_cluster sr = ccl
  end.
Proof.
  intros Hn Hp Hc. unfold parse_resource_name.
  destruct (cut_prefix "kubernetes://" rn) as [after|] eqn:E1.
  { destruct (split_on slash after) as [|a [|b rest]] eqn:Es; try discriminate.
    - intros H; inversion H; subst; clear H. cbn.
      assert (no_slash a = true) by (apply (split_on_no_slash after); rewrite Es; cbn; auto).
      repeat split; auto.
    - intros H; inversion H; subst; clear H. cbn.
      assert (no_slash a = true) by (apply (split_on_no_slash after); rewrite Es; cbn; auto).
      assert (no_slash b = true) by (apply (split_on_no_slash after); rewrite Es; cbn; auto).
      repeat split; auto. }
  destruct (cut_prefix "configmap://" rn) as [after|] eqn:E2.
  { intros H. apply parse_ns_name_wf in H; auto.
    destruct H as (W & T & C & R & _). rewrite T. auto. }
  destruct (cut_prefix "kubernetes-gateway://" rn) as [after|] eqn:E3.
  { intros H. apply parse_ns_name_wf in H; auto.
    destruct H as (W & T & C & R & rest & Sp). rewrite T.
    split; [exact W|]. split; [exact R|]. split; [exact C|]. exists after, rest. auto. }
  destruct (has_prefix "invalid://" rn); [|discriminate].
  intros H; inversion H; subst; clear H. cbn. repeat split; auto.
Qed.
