(* C11 proofs, part 5: the SubjectAccessReview-backed Authorize with its per-user cache. *)
From V Require Import lib.Verdict C11.Model.
Open Scope string_scope.

Lemma append_inv_head p a b : (p ++ a = p ++ b)%string -> a = b.
Proof. induction p as [|x p IH]; cbn; intros H; [exact H|]. inversion H. auto. Qed.

Lemma no_colon_app_colon a b : no_colon (a ++ String colon b) = false.
Proof. induction a as [|x a IH]; cbn; [reflexivity|]. rewrite IH. apply andb_false_r. Qed.

(* ns ++ ":" ++ sa determines both parts when namespaces are colon-free *)
Lemma colon_join_inj ns ns' sa sa' :
  no_colon ns = true -> no_colon ns' = true ->
  (ns ++ String colon sa = ns' ++ String colon sa')%string -> ns = ns' /\ sa = sa'.
Proof.
  revert ns'. induction ns as [|x ns IH]; intros ns' H1 H2 H.
  - destruct ns' as [|y ns']; cbn in H.
    + inversion H. auto.
    + inversion H; subst. cbn in H2. discriminate.
  - destruct ns' as [|y ns']; cbn in H.
    + inversion H; subst. cbn in H1. discriminate.
    + injection H as Hxy Htl. subst y. cbn in H1, H2.
      apply andb_true_iff in H1. destruct H1 as [_ H1]. apply andb_true_iff in H2. destruct H2 as [_ H2].
      destruct (IH ns' H1 H2 Htl) as [-> ->]. auto.
Qed.

Lemma mk_username_inj ns ns' sa sa' :
  no_colon ns = true -> no_colon ns' = true ->
  mk_username ns sa = mk_username ns' sa' -> ns = ns' /\ sa = sa'.
Proof.
  unfold mk_username. intros H1 H2 H. apply append_inv_head in H. apply colon_join_inj; auto.
Qed.

(* the uncached decision: allowed only for a granted (namespace, service account) pair *)
Lemma sar_sound grants sa ns :
  sar_allowed grants (mk_username ns sa) ns = true -> In (ns, sa) grants.
Proof.
  unfold sar_allowed. intros H. apply existsb_exists in H. destruct H as [[n s] [Hin H]]. cbn in H.
  apply andb_true_iff in H. destruct H as [Hu Hn]. apply String.eqb_eq in Hn. subst n.
  apply String.eqb_eq in Hu. unfold mk_username in Hu. apply append_inv_head in Hu.
  try apply append_inv_head in Hu. inversion Hu; subst. exact Hin.
Qed.

Lemma sar_complete grants sa ns :
  In (ns, sa) grants -> sar_allowed grants (mk_username ns sa) ns = true.
Proof.
  intros H. unfold sar_allowed. apply existsb_exists. exists (ns, sa). split; [exact H|].
  cbn. rewrite !String.eqb_refl. reflexivity.
Qed.

Lemma kube_authorize_fresh grants sa ns :
  fst (kube_authorize grants [] sa ns) = true <-> In (ns, sa) grants.
Proof.
  unfold kube_authorize. cbn. split; [apply sar_sound|apply sar_complete].
Qed.

(* cached answers: every positive entry stems from a grant that was in force when it was made *)
Definition acache_inv (G : list (string * string)) (ac : acache) : Prop :=
  forall u, acache_get u ac = Some true -> exists g, In g G /\ u = mk_username (fst g) (snd g).

Lemma kube_authorize_inv G grants ac sa ns :
  incl grants G -> acache_inv G ac ->
  (fst (kube_authorize grants ac sa ns) = true ->
     exists g, In g G /\ mk_username ns sa = mk_username (fst g) (snd g)) /\
  acache_inv G (snd (kube_authorize grants ac sa ns)).
Proof.
  intros Hg Hc. unfold kube_authorize.
  destruct (acache_get (mk_username ns sa) ac) as [b|] eqn:E; cbn [fst snd].
  - split; [|exact Hc]. intros ->. apply Hc. exact E.
  - split.
    + intros H. apply sar_sound in H. exists (ns, sa). split; [apply Hg; exact H|reflexivity].
    + intros u. cbn [acache_get]. destruct (String.eqb u (mk_username ns sa)) eqn:Eu.
      * intros H. inversion H as [H1]. apply sar_sound in H1. apply String.eqb_eq in Eu. subst u.
        exists (ns, sa). split; [apply Hg; exact H1|reflexivity].
      * apply Hc.
Qed.

Lemma ever_granted_incl grants ops : incl grants (ever_granted grants ops).
Proof.
  revert grants. induction ops as [|[g|sa ns] rest IH]; intros grants; cbn.
  - apply incl_refl.
  - apply incl_appl. apply incl_refl.
  - apply IH.
Qed.

Lemma kube_run_sound_gen ops : forall G grants ac,
  incl (ever_granted grants ops) G -> acache_inv G ac ->
  Forall2 (fun c b => b = true -> exists g, In g G /\ mk_username (snd c) (fst c) = mk_username (fst g) (snd g))
          (kcalls ops) (kube_run grants ac ops).
Proof.
  induction ops as [|[g|sa ns] rest IH]; intros G grants ac HG Hc; cbn [kcalls flat_map kube_run app].
  - constructor.
  - apply IH; auto. cbn in HG. intros x Hx. apply HG. apply in_or_app. right. exact Hx.
  - cbn in HG.
    assert (Hgr : incl grants G) by (intros x Hx; apply HG; apply ever_granted_incl; exact Hx).
    destruct (kube_authorize_inv G grants ac sa ns Hgr Hc) as [H1 H2].
    destruct (kube_authorize grants ac sa ns) as [b ac'] eqn:E. cbn [fst snd] in *.
    constructor; [exact H1|]. apply IH; auto.
Qed.

Lemma Forall2_weaken {A B} (P Q : A -> B -> Prop) l1 l2 :
  (forall a b, P a b -> Q a b) -> Forall2 P l1 l2 -> Forall2 Q l1 l2.
Proof. intros H F. induction F; constructor; auto. Qed.

(* Over every history of RBAC changes and Authorize calls on one controller (one TTL window), a
   positive answer for colon-free (namespace, SA) means that exact pair was granted at some point
   of the history (possibly earlier: revocation is only seen when the cache entry expires). *)
Lemma kube_run_sound grants ops :
  forallb (fun g => no_colon (fst g)) (ever_granted grants ops) = true ->
  Forall2 (fun c b => b = true -> no_colon (snd c) = true -> In (snd c, fst c) (ever_granted grants ops))
          (kcalls ops) (kube_run grants [] ops).
Proof.
  intros Hnc.
  pose proof (kube_run_sound_gen ops (ever_granted grants ops) grants [] (incl_refl _)) as H.
  assert (Hc : acache_inv (ever_granted grants ops) []) by (intros u Hu; discriminate).
  specialize (H Hc). revert H. apply Forall2_weaken.
  intros [sa ns] b H Hb Hn. cbn [fst snd] in *. destruct (H Hb) as [[n s] [Hin Hu]]. cbn [fst snd] in Hu.
  rewrite forallb_forall in Hnc. pose proof (Hnc _ Hin) as Hn'. cbn in Hn'.
  destruct (mk_username_inj ns n sa s Hn Hn' Hu) as [-> ->]. exact Hin.
Qed.
