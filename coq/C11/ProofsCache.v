(* C11 proofs, part 3: the shared cache never changes an answer (order independence), and every
   private key in an answer is one the receiver is entitled to. *)
From V Require Import lib.Verdict C11.Model C11.ProofsKey.
Open Scope string_scope.

(* the answer computed without any cache *)
Definition gen_spec (w : world) (p : proxy) (r : req) (rs : list sres) : list entry :=
  flat_map (fun sr => if wanted r sr
                      then match build w (p_cluster p) (eff_fmt w p) sr with Some e => [e] | None => [] end
                      else []) rs.

(* every cache entry is what [build] yields for some well-formed resource and provider with that key *)
Definition cache_inv (w : world) (c : cache) : Prop :=
  forall k d e, In (k, (d, e)) c ->
    exists sr f, k = cache_key sr (pkp_hash w f) /\ wf_sres sr /\ build w (sr_cluster sr) f sr = Some e.

Lemma cache_inv_nil w : cache_inv w [].
Proof. intros k d e []. Qed.

Lemma cache_inv_clear w ks c : cache_inv w c -> cache_inv w (cache_clear ks c).
Proof.
  intros H k d e Hin. unfold cache_clear in Hin. apply filter_In in Hin. destruct Hin as [Hin _].
  eapply H; eauto.
Qed.

Lemma cache_get_in k c e : cache_get k c = Some e -> exists d, In (k, (d, e)) c.
Proof.
  induction c as [|[k' [d' e']] r IH]; cbn; [discriminate|].
  destruct (String.eqb k k') eqn:E.
  - intros H; inversion H; subst. apply String.eqb_eq in E. subst. exists d'. auto.
  - intros H. destruct (IH H) as [d Hd]. exists d. auto.
Qed.

(* consequences of wf_world *)
Lemma wf_world_clusters w : wf_world w = true -> forallb no_slash (clusters w) = true.
Proof. unfold wf_world. intros H. repeat (apply andb_true_iff in H; destruct H as [H ?]). exact H. Qed.

Lemma pkp_hash_no_slash w f : wf_world w = true -> no_slash (pkp_hash w f) = true.
Proof.
  unfold wf_world. intros H. repeat (apply andb_true_iff in H; destruct H as [H ?]).
  destruct f; cbn; auto.
Qed.

Lemma pkp_hash_inj w f f' : wf_world w = true -> pkp_hash w f = pkp_hash w f' -> f = f'.
Proof.
  unfold wf_world. intros H. repeat (apply andb_true_iff in H; destruct H as [H ?]).
  repeat match goal with H : negb (String.eqb _ _) = true |- _ =>
    apply negb_true_iff in H; apply String.eqb_neq in H end.
  destruct f, f'; cbn; intros E; try reflexivity; exfalso; auto.
Qed.

(* resources on which the proxy-cluster controller choice of [generate] is the resource's own cluster *)
Definition good_sres (w : world) (pcl : string) (sr : sres) : Prop :=
  wf_sres sr /\ forall f, build w pcl f sr = build w (sr_cluster sr) f sr.

Lemma gen_loop_spec w p r rs :
  wf_world w = true ->
  (forall sr, In sr rs -> good_sres w (p_cluster p) sr) ->
  forall c, cache_inv w c ->
    fst (gen_loop w p r rs c) = gen_spec w p r rs /\ cache_inv w (snd (gen_loop w p r rs c)).
Proof.
  intros Hw. induction rs as [|sr rest IH]; intros Hg c Hc; cbn [gen_loop gen_spec flat_map].
  - split; [reflexivity|exact Hc].
  - assert (Hrest : forall s, In s rest -> good_sres w (p_cluster p) s) by (intros s Hs; apply Hg; right; exact Hs).
    destruct (Hg sr (or_introl eq_refl)) as [Wsr Bsr].
    destruct (wanted r sr); cbn [negb].
    2:{ apply IH; auto. }
    destruct (cache_get (cache_key sr (p_pkp w p)) c) as [e|] eqn:G.
    + (* hit: the entry is what build would give *)
      destruct (cache_get_in _ _ _ G) as [d Hin].
      destruct (Hc _ _ _ Hin) as (sr' & f' & Ek & W' & B').
      unfold p_pkp in Ek.
      destruct (cache_key_inj sr sr' _ _ Wsr W' (pkp_hash_no_slash w _ Hw) (pkp_hash_no_slash w _ Hw) Ek) as [<- Eh].
      apply (pkp_hash_inj w _ _ Hw) in Eh. subst f'.
      rewrite Bsr, B'.
      destruct (IH Hrest c Hc) as [E1 E2].
      destruct (gen_loop w p r rest c) as [out c'] eqn:GL. cbn [fst snd] in *.
      split; [rewrite E1; reflexivity|exact E2].
    + destruct (build w (p_cluster p) (eff_fmt w p) sr) as [e|] eqn:B.
      * set (c1 := if req_stores r then (cache_key sr (p_pkp w p), (related (sres_ckey sr), e)) :: c else c).
        assert (Hc1 : cache_inv w c1).
        { unfold c1. destruct (req_stores r); [|exact Hc].
          intros k d e0 [Heq|Hin]; [|eapply Hc; eauto].
          inversion Heq; subst. exists sr, (eff_fmt w p). rewrite <- Bsr. auto. }
        destruct (IH Hrest c1 Hc1) as [E1 E2].
        destruct (gen_loop w p r rest c1) as [out c'] eqn:GL. cbn [fst snd] in *.
        split; [rewrite E1; reflexivity|exact E2].
      * apply IH; auto.
Qed.

(* which resources reach the loop *)
Definition authorized_resources (w : world) (p : proxy) (i : identity) (names : list string) : list sres :=
  filter_authorized p (id_ns i) (authorized w (p_cluster p) (id_ns i) (id_sa i))
    (parse_resources names (id_ns i) (p_cluster p) (config_cluster w)).

(* Generate without a cache *)
Definition generate_spec (w : world) (p : proxy) (names : list string) (r : req) : list entry :=
  match verified p with
  | None => []
  | Some i =>
      if negb (needs_push r) then []
      else if negb (known_cluster w (p_cluster p)) then []
      else if negb (known_cluster w (config_cluster w)) then []
      else gen_spec w p r (authorized_resources w p i names)
  end.

Lemma known_cluster_no_slash w c : wf_world w = true -> known_cluster w c = true -> no_slash c = true.
Proof.
  intros Hw Hk. apply wf_world_clusters in Hw. unfold known_cluster in Hk.
  apply existsb_exists in Hk. destruct Hk as [x [Hin E]]. apply String.eqb_eq in E. subst.
  rewrite forallb_forall in Hw. apply Hw. exact Hin.
Qed.

Lemma in_parse_resources names pns pcl ccl sr :
  In sr (parse_resources names pns pcl ccl) ->
  exists rn, In rn names /\ parse_resource_name rn pns pcl ccl = Some sr.
Proof.
  unfold parse_resources. intros H. apply in_flat_map in H. destruct H as [rn [Hin H]].
  destruct (parse_resource_name rn pns pcl ccl) as [s|] eqn:E; [|destruct H].
  destruct H as [<-|[]]. exists rn. auto.
Qed.

Lemma authorized_resources_good w p i names sr :
  no_slash (id_ns i) = true -> no_slash (p_cluster p) = true -> no_slash (config_cluster w) = true ->
  In sr (authorized_resources w p i names) -> good_sres w (p_cluster p) sr.
Proof.
  intros H1 H2 H3 Hin. unfold authorized_resources, filter_authorized in Hin.
  apply filter_In in Hin. destruct Hin as [Hin Hal].
  apply in_parse_resources in Hin. destruct Hin as [rn [_ Hp]].
  apply parse_resource_name_wf in Hp; auto. destruct Hp as (W & _ & T).
  split; [exact W|]. intros f. unfold build. unfold allowed in Hal.
  destruct (sr_type sr); try reflexivity.
  - rewrite T. reflexivity.
  - discriminate.
Qed.

Lemma generate_spec_ok w c p names r :
  wf_world w = true -> wf_proxy p = true -> cache_inv w c ->
  fst (generate w c p names r) = generate_spec w p names r /\ cache_inv w (snd (generate w c p names r)).
Proof.
  intros Hw Hp Hc. unfold generate, generate_spec. unfold wf_proxy in Hp.
  destruct (verified p) as [i|]; [|split; [reflexivity|exact Hc]].
  destruct (negb (needs_push r)); [split; [reflexivity|exact Hc]|].
  destruct (known_cluster w (p_cluster p)) eqn:K1; cbn [negb]; [|split; [reflexivity|exact Hc]].
  destruct (known_cluster w (config_cluster w)) eqn:K2; cbn [negb]; [|split; [reflexivity|exact Hc]].
  apply gen_loop_spec; auto.
  intros sr Hin. eapply authorized_resources_good; eauto using known_cluster_no_slash.
Qed.

(* ---- histories *)

Definition gens (ops : list op) : list (proxy * list string * req) :=
  flat_map (fun o => match o with OGen p n r => [(p, n, r)] | _ => [] end) ops.

Definition spec_of (w : world) (g : proxy * list string * req) : list entry :=
  match g with (p, n, r) => generate_spec w p n r end.

Lemma run_pointwise w ops :
  wf_world w = true -> forallb wf_op ops = true ->
  forall c, cache_inv w c ->
    run w c ops = map (spec_of w) (gens ops) /\ cache_inv w (run_cache w c ops).
Proof.
  intros Hw. induction ops as [|o rest IH]; intros Hops c Hc.
  - split; [reflexivity|exact Hc].
  - cbn [forallb] in Hops. apply andb_true_iff in Hops. destruct Hops as [Ho Hrest].
    destruct o as [p names r| |ks]; cbn [run run_cache gens flat_map app map].
    + destruct (generate_spec_ok w c p names r Hw Ho Hc) as [E1 E2].
      destruct (generate w c p names r) as [out c'] eqn:G. cbn [fst snd] in *.
      destruct (IH Hrest c' E2) as [R1 R2]. split; [|exact R2].
      cbn [spec_of]. rewrite E1. f_equal. exact R1.
    + apply IH; auto using cache_inv_nil.
    + apply IH; auto using cache_inv_clear.
Qed.

(* the response to a request does not depend on what happened on the cache before *)
Lemma order_independent w ops p names r :
  wf_world w = true -> forallb wf_op ops = true -> wf_proxy p = true ->
  fst (generate w (run_cache w [] ops) p names r) = fst (generate w [] p names r).
Proof.
  intros Hw Hops Hp.
  destruct (run_pointwise w ops Hw Hops [] (cache_inv_nil w)) as [_ Hc].
  destruct (generate_spec_ok w _ p names r Hw Hp Hc) as [-> _].
  destruct (generate_spec_ok w [] p names r Hw Hp (cache_inv_nil w)) as [-> _]. reflexivity.
Qed.

(* ---- entitlement *)

Lemma existsb_covers p sr after rest :
  ref_verified p (sr_rn sr) = true ->
  cut_prefix "kubernetes-gateway://" (sr_rn sr) = Some after ->
  split_on slash after = sr_ns sr :: sr_name sr :: rest ->
  match p_refs p with
  | Some l => existsb (fun rn => covers rn (sr_ns sr) (sr_name sr)) l
  | None => false
  end = true.
Proof.
  unfold ref_verified. destruct (p_refs p) as [l|]; [|discriminate].
  intros H Hc Hs. apply existsb_exists in H. destruct H as [x [Hin E]]. apply String.eqb_eq in E. subst x.
  apply existsb_exists. exists (sr_rn sr). split; [exact Hin|].
  unfold covers. rewrite Hc, Hs. rewrite !String.eqb_refl. reflexivity.
Qed.

Lemma gen_spec_entitled w p i names r e s :
  verified p = Some i ->
  no_slash (id_ns i) = true -> no_slash (p_cluster p) = true -> no_slash (config_cluster w) = true ->
  In e (gen_spec w p r (authorized_resources w p i names)) -> key_of e = Some s -> entitled w p s = true.
Proof.
  intros Hv H1 H2 H3 Hin Hk. unfold gen_spec in Hin. apply in_flat_map in Hin.
  destruct Hin as [sr [Hsr He]].
  destruct (wanted r sr); [|destruct He].
  destruct (build w (p_cluster p) (eff_fmt w p) sr) as [e'|] eqn:B; [|destruct He].
  destruct He as [<-|[]].
  unfold authorized_resources, filter_authorized in Hsr. apply filter_In in Hsr. destruct Hsr as [Hsr Hal].
  apply in_parse_resources in Hsr. destruct Hsr as [rn [_ Hp]].
  apply parse_resource_name_wf in Hp; auto. destruct Hp as (_ & Hrn & T).
  unfold build in B. unfold allowed in Hal. unfold entitled. rewrite Hv.
  destruct (sr_type sr) eqn:Ty.
  - (* kubernetes:// *)
    destruct (is_ca_name (sr_name sr)) eqn:Ca.
    + destruct (get_ca_cert w (p_cluster p) (sr_name sr) (sr_ns sr)); inversion B; subst; discriminate.
    + unfold get_cert_info in B.
      destruct (find_secret w (p_cluster p) (sr_ns sr) (sr_name sr)) as [sec|]; [|discriminate].
      destruct (s_tls sec); [|discriminate].
      inversion B; subst e'. cbn in Hk. inversion Hk; subst s.
      apply andb_true_iff in Hal. destruct Hal as [Hns Hau]. cbn [orb] in Hau.
      apply String.eqb_eq in Hns. rewrite Hns. rewrite !String.eqb_refl. cbn [andb].
      rewrite Hau. reflexivity.
  - (* configmap:// never carries a key *)
    destruct (get_configmap_ca w (config_cluster w) (sr_name sr) (sr_ns sr)); inversion B; subst; discriminate.
  - (* kubernetes-gateway:// *)
    destruct T as [_ (after & rest & Hc & Hs)]. rewrite <- Hrn in Hc.
    destruct (is_ca_name (sr_name sr)) eqn:Ca.
    + destruct (get_ca_cert w (config_cluster w) (sr_name sr) (sr_ns sr)); inversion B; subst; discriminate.
    + unfold get_cert_info in B.
      destruct (find_secret w (config_cluster w) (sr_ns sr) (sr_name sr)) as [sec|]; [|discriminate].
      destruct (s_tls sec); [|discriminate].
      inversion B; subst e'. cbn in Hk. inversion Hk; subst s.
      rewrite (existsb_covers p sr after rest Hal Hc Hs).
      rewrite String.eqb_refl. cbn [andb]. apply orb_true_r.
  - discriminate.
Qed.

Lemma generate_spec_entitled w p names r :
  wf_world w = true -> wf_proxy p = true -> keys_entitled w p (generate_spec w p names r) = true.
Proof.
  intros Hw Hp. unfold keys_entitled. apply forallb_forall. intros e Hin.
  destruct (key_of e) as [s|] eqn:K; [|reflexivity].
  unfold generate_spec in Hin. unfold wf_proxy in Hp. rename Hp into Hi.
  destruct (verified p) as [i|] eqn:V; [|destruct Hin].
  destruct (negb (needs_push r)); [destruct Hin|].
  destruct (known_cluster w (p_cluster p)) eqn:K1; cbn [negb] in Hin; [|destruct Hin].
  destruct (known_cluster w (config_cluster w)) eqn:K2; cbn [negb] in Hin; [|destruct Hin].
  eapply gen_spec_entitled; eauto using known_cluster_no_slash.
Qed.

Lemma gens_wf ops : forallb wf_op ops = true ->
  Forall (fun g => match g with (p, _, _) => wf_proxy p = true end) (gens ops).
Proof.
  induction ops as [|o rest IH]; cbn; [constructor|].
  intros Hops. apply andb_true_iff in Hops. destruct Hops as [Ho Hr].
  destruct o; cbn; auto.
Qed.

(* for every history on one shared cache, every response carries only private keys its receiver is
   entitled to *)
Lemma no_key_without_right w ops :
  wf_world w = true -> forallb wf_op ops = true ->
  Forall2 (fun g out => match g with (p, _, _) => keys_entitled w p out = true end) (gens ops) (run w [] ops).
Proof.
  intros Hw Hops.
  destruct (run_pointwise w ops Hw Hops [] (cache_inv_nil w)) as [-> _].
  pose proof (gens_wf ops Hops) as Hg.
  induction Hg as [|[[p n] r] l Hp _ IH]; cbn; constructor; auto.
  apply generate_spec_entitled; auto.
Qed.

(* the responses of a history are, one by one, the cache-free answers *)
Lemma run_is_pointwise w ops :
  wf_world w = true -> forallb wf_op ops = true ->
  run w [] ops = map (fun g => match g with (p, n, r) => fst (generate w [] p n r) end) (gens ops).
Proof.
  intros Hw Hops.
  destruct (run_pointwise w ops Hw Hops [] (cache_inv_nil w)) as [-> _].
  pose proof (gens_wf ops Hops) as Hg.
  induction Hg as [|[[p n] r] l Hp _ IH]; cbn; [reflexivity|].
  destruct (generate_spec_ok w [] p n r Hw Hp (cache_inv_nil w)) as [-> _]. f_equal. exact IH.
Qed.

(* an unauthenticated stream gets nothing, whatever the cache holds, and leaves the cache alone *)
Lemma unauthenticated_nothing w c p names r :
  verified p = None -> generate w c p names r = ([], c).
Proof. intros H. unfold generate. rewrite H. reflexivity. Qed.

(* never across namespaces for kubernetes:// names: a key from the proxy's own cluster store always
   belongs to the verified namespace *)
Lemma kube_key_same_namespace w p i names r e cl ns name :
  wf_world w = true -> wf_proxy p = true -> verified p = Some i ->
  In e (generate_spec w p names r) -> key_of e = Some (cl, ns, name) ->
  p_refs p = None -> ns = id_ns i /\ cl = p_cluster p /\ authorized w cl ns (id_sa i) = true.
Proof.
  intros Hw Hp Hv Hin Hk Hr.
  pose proof (generate_spec_entitled w p names r Hw Hp) as H.
  unfold keys_entitled in H. rewrite forallb_forall in H. specialize (H e Hin). rewrite Hk in H.
  unfold entitled in H. rewrite Hv, Hr in H. rewrite andb_false_r, orb_false_r in H.
  apply andb_true_iff in H. destruct H as [H H3]. apply andb_true_iff in H. destruct H as [H1 H2].
  apply String.eqb_eq in H1. apply String.eqb_eq in H2. subst. auto.
Qed.
