(* C11 proofs, part 3: the shared cache never changes an answer (order independence), and every
   private key in an answer is one the receiver is entitled to. *)
From V Require Import lib.Verdict C11.Model C11.ProofsKey.
Open Scope string_scope.

(* the answer computed without any cache *)
Definition gen_spec (w : world) (p : proxy) (r : req) (rs : list sres) : list entry :=
  flat_map (fun sr => if wanted r sr
                      then match build w (p_cluster p) (eff_fmt w p) sr with Some e => [e] | None => [] end
                      else []) rs.

(* every cache entry is what [build] yields for some well-formed resource with that key, in some
   key format f related to the hash component of the key by [ok] *)
Definition cache_inv (ok : string -> N -> Prop) (w : world) (c : cache) : Prop :=
  forall k d e, In (k, (d, e)) c ->
    exists sr h f, k = cache_key sr h /\ wf_sres sr /\ no_slash h = true /\ ok h f /\
                   build w (sr_cluster sr) f sr = Some e.

Definition functional (ok : string -> N -> Prop) : Prop := forall h f f', ok h f -> ok h f' -> f = f'.

Lemma cache_inv_nil (ok : string -> N -> Prop) w : cache_inv ok w [].
Proof. intros k d e []. Qed.

Lemma cache_inv_clear (ok : string -> N -> Prop) w ks c : cache_inv ok w c -> cache_inv ok w (cache_clear ks c).
Proof.
  intros H k d e Hin. unfold cache_clear in Hin. apply filter_In in Hin. destruct Hin as [Hin _].
  eapply H; eauto.
Qed.

Lemma cache_get_in k c e : cache_get k c = Some e -> exists d, In (k, (d, e)) c.
Proof.
  induction c as [|[k' [d' e']] r IH]; cbn; [discriminate|].
  destruct (String.eqb k k') eqn:E.
  - intros H; inversion H; subst. apply String.eqb_eq in E. subst. exists d'. auto.
  - intros H. destruct (IH H) as [d Hd]. exists d. auto.
Qed.

(* the key format changes nothing but the format *)
Lemma build_refmt w cl f f' sr e :
  build w cl f sr = Some e -> exists e', build w cl f' sr = Some e' /\ erase e = erase e'.
Proof.
  unfold build. intros H.
  destruct (sr_type sr).
  - destruct (is_ca_name (sr_name sr)).
    + destruct (get_ca_cert w cl (sr_name sr) (sr_ns sr)); inversion H; subst. eexists. split; reflexivity.
    + destruct (get_cert_info w cl (sr_name sr) (sr_ns sr)); inversion H; subst. eexists. split; reflexivity.
  - destruct (get_configmap_ca w (config_cluster w) (sr_name sr) (sr_ns sr)); inversion H; subst.
    eexists. split; reflexivity.
  - destruct (is_ca_name (sr_name sr)).
    + destruct (get_ca_cert w (config_cluster w) (sr_name sr) (sr_ns sr)); inversion H; subst. eexists. split; reflexivity.
    + destruct (get_cert_info w (config_cluster w) (sr_name sr) (sr_ns sr)); inversion H; subst. eexists. split; reflexivity.
  - destruct (is_ca_name (sr_name sr)).
    + destruct (get_ca_cert w cl (sr_name sr) (sr_ns sr)); inversion H; subst. eexists. split; reflexivity.
    + destruct (get_cert_info w cl (sr_name sr) (sr_ns sr)); inversion H; subst. eexists. split; reflexivity.
Qed.

(* resources on which the proxy-cluster controller choice of [generate] is the resource's own cluster *)
Definition good_sres (w : world) (pcl : string) (sr : sres) : Prop :=
  wf_sres sr /\ forall f, build w pcl f sr = build w (sr_cluster sr) f sr.

Lemma gen_loop_spec (ok : string -> N -> Prop) w p r rs :
  no_slash (p_pkp p) = true -> ok (p_pkp p) (eff_fmt w p) ->
  (forall sr, In sr rs -> good_sres w (p_cluster p) sr) ->
  forall c, cache_inv ok w c ->
    map erase (fst (gen_loop w p r rs c)) = map erase (gen_spec w p r rs) /\
    (functional ok -> fst (gen_loop w p r rs c) = gen_spec w p r rs) /\
    cache_inv ok w (snd (gen_loop w p r rs c)).
Proof.
  intros Hh Hok. induction rs as [|sr rest IH]; intros Hg c Hc; cbn [gen_loop gen_spec flat_map].
  - split; [reflexivity|]. split; [reflexivity|exact Hc].
  - assert (Hrest : forall s, In s rest -> good_sres w (p_cluster p) s) by (intros s Hs; apply Hg; right; exact Hs).
    destruct (Hg sr (or_introl eq_refl)) as [Wsr Bsr].
    destruct (wanted r sr); cbn [negb].
    2:{ apply IH; auto. }
    destruct (cache_get (cache_key sr (p_pkp p)) c) as [e|] eqn:G.
    + (* hit: the entry is what build would give, up to the key format *)
      destruct (cache_get_in _ _ _ G) as [d Hin].
      destruct (Hc _ _ _ Hin) as (sr' & h' & f' & Ek & W' & Hh' & Hok' & B').
      destruct (cache_key_inj sr sr' (p_pkp p) h' Wsr W' Hh Hh' Ek) as [<- <-].
      destruct (build_refmt w (sr_cluster sr) f' (eff_fmt w p) sr e B') as (e' & Be' & Er).
      rewrite Bsr, Be'.
      destruct (IH Hrest c Hc) as (E1 & E2 & E3).
      destruct (gen_loop w p r rest c) as [out c'] eqn:GL. cbn [fst snd app map] in *.
      split; [rewrite E1, Er; reflexivity|]. split; [|exact E3].
      intros Hf. rewrite (E2 Hf). f_equal.
      assert (f' = eff_fmt w p) by (eapply Hf; eauto). subst f'. congruence.
    + destruct (build w (p_cluster p) (eff_fmt w p) sr) as [e|] eqn:B.
      * set (c1 := if req_stores r then (cache_key sr (p_pkp p), (related (sres_ckey sr), e)) :: c else c).
        assert (Hc1 : cache_inv ok w c1).
        { unfold c1. destruct (req_stores r); [|exact Hc].
          intros k d e0 [Heq|Hin]; [|eapply Hc; eauto].
          inversion Heq; subst. exists sr, (p_pkp p), (eff_fmt w p). rewrite <- Bsr. auto. }
        destruct (IH Hrest c1 Hc1) as (E1 & E2 & E3).
        destruct (gen_loop w p r rest c1) as [out c'] eqn:GL. cbn [fst snd app map] in *.
        split; [rewrite E1; reflexivity|]. split; [|exact E3].
        intros Hf. rewrite (E2 Hf). reflexivity.
      * apply IH; auto.
Qed.

(* which resources reach the loop *)
Definition authorized_resources (w : world) (p : proxy) (i : identity) (names : list string) : list sres :=
  filter_authorized p (id_ns i) (authorized w (p_cluster p) (id_ns i) (id_sa i))
    (parse_resources names (id_ns i) (p_cluster p) (config_cluster w)).

(* Generate without a cache *)
Definition generate_spec (w : world) (p : proxy) (names : list string) (r : req) : list entry :=
  match verified p with
  | None => []
  | Some i =>
      if negb (needs_push r) then []
      else if negb (known_cluster w (p_cluster p)) then []
      else if negb (known_cluster w (config_cluster w)) then []
      else gen_spec w p r (authorized_resources w p i names)
  end.

Lemma known_cluster_no_slash w c : wf_world w = true -> known_cluster w c = true -> no_slash c = true.
Proof.
  unfold wf_world, known_cluster. intros Hw Hk.
  apply existsb_exists in Hk. destruct Hk as [x [Hin E]]. apply String.eqb_eq in E. subst.
  rewrite forallb_forall in Hw. apply Hw. exact Hin.
Qed.

Lemma in_parse_resources names pns pcl ccl sr :
  In sr (parse_resources names pns pcl ccl) ->
  exists rn, In rn names /\ parse_resource_name rn pns pcl ccl = Some sr.
Proof.
  unfold parse_resources. intros H. apply in_flat_map in H. destruct H as [rn [Hin H]].
  destruct (parse_resource_name rn pns pcl ccl) as [s|] eqn:E; [|destruct H].
  destruct H as [<-|[]]. exists rn. auto.
Qed.

Lemma authorized_resources_good w p i names sr :
  no_slash (id_ns i) = true -> no_slash (p_cluster p) = true -> no_slash (config_cluster w) = true ->
  In sr (authorized_resources w p i names) -> good_sres w (p_cluster p) sr.
Proof.
  intros H1 H2 H3 Hin. unfold authorized_resources, filter_authorized in Hin.
  apply filter_In in Hin. destruct Hin as [Hin Hal].
  apply in_parse_resources in Hin. destruct Hin as [rn [_ Hp]].
  apply parse_resource_name_wf in Hp; auto. destruct Hp as (W & _ & T).
  split; [exact W|]. intros f. unfold build. unfold allowed in Hal.
  destruct (sr_type sr); try reflexivity.
  - rewrite T. reflexivity.
  - discriminate.
Qed.

Lemma generate_spec_ok (ok : string -> N -> Prop) w c p names r :
  wf_world w = true -> wf_proxy p = true -> ok (p_pkp p) (eff_fmt w p) -> cache_inv ok w c ->
  map erase (fst (generate w c p names r)) = map erase (generate_spec w p names r) /\
  (functional ok -> fst (generate w c p names r) = generate_spec w p names r) /\
  cache_inv ok w (snd (generate w c p names r)).
Proof.
  intros Hw Hp Hok Hc. unfold generate, generate_spec. unfold wf_proxy in Hp.
  apply andb_true_iff in Hp. destruct Hp as [Hh Hi].
  destruct (verified p) as [i|]; [|split; [reflexivity|split; [reflexivity|exact Hc]]].
  destruct (negb (needs_push r)); [split; [reflexivity|split; [reflexivity|exact Hc]]|].
  destruct (known_cluster w (p_cluster p)) eqn:K1; cbn [negb]; [|split; [reflexivity|split; [reflexivity|exact Hc]]].
  destruct (known_cluster w (config_cluster w)) eqn:K2; cbn [negb]; [|split; [reflexivity|split; [reflexivity|exact Hc]]].
  apply gen_loop_spec; auto.
  intros sr Hin. eapply authorized_resources_good; eauto using known_cluster_no_slash.
Qed.

(* ---- histories *)

Definition gens (ops : list op) : list (proxy * list string * req) :=
  flat_map (fun o => match o with OGen p n r => [(p, n, r)] | _ => [] end) ops.

Definition spec_of (w : world) (g : proxy * list string * req) : list entry :=
  match g with (p, n, r) => generate_spec w p n r end.

Definition ok_op (ok : string -> N -> Prop) (w : world) (o : op) : Prop :=
  match o with OGen p _ _ => ok (p_pkp p) (eff_fmt w p) | _ => True end.

Lemma run_pointwise (ok : string -> N -> Prop) w ops :
  wf_world w = true -> forallb wf_op ops = true -> Forall (ok_op ok w) ops ->
  forall c, cache_inv ok w c ->
    map (map erase) (run w c ops) = map (map erase) (map (spec_of w) (gens ops)) /\
    (functional ok -> run w c ops = map (spec_of w) (gens ops)) /\
    cache_inv ok w (run_cache w c ops).
Proof.
  intros Hw. induction ops as [|o rest IH]; intros Hops Hok c Hc.
  - split; [reflexivity|]. split; [reflexivity|exact Hc].
  - cbn [forallb] in Hops. apply andb_true_iff in Hops. destruct Hops as [Ho Hrest].
    inversion Hok as [|? ? Hok1 Hokr]; subst.
    destruct o as [p names r| |ks]; cbn [run run_cache gens flat_map app map].
    + destruct (generate_spec_ok ok w c p names r Hw Ho Hok1 Hc) as (E1 & E2 & E3).
      destruct (generate w c p names r) as [out c'] eqn:G. cbn [fst snd] in *.
      destruct (IH Hrest Hokr c' E3) as (R1 & R2 & R3). split; [|split; [|exact R3]].
      * cbn [map spec_of]. rewrite E1. f_equal. exact R1.
      * intros Hf. cbn [map spec_of]. rewrite (E2 Hf). f_equal. exact (R2 Hf).
    + apply IH; auto using cache_inv_nil.
    + apply IH; auto using cache_inv_clear.
Qed.

Definition any_fmt : string -> N -> Prop := fun _ _ => True.
Definition fmt_is (F : string -> N) : string -> N -> Prop := fun h f => f = F h.

Lemma fmt_is_functional F : functional (fmt_is F).
Proof. intros h f f' -> ->. reflexivity. Qed.

Lemma ok_any w ops : Forall (ok_op any_fmt w) ops.
Proof. apply Forall_forall. intros o _. destruct o; exact I. Qed.

Lemma ok_fmt_is F w ops : forallb (fmt_op F w) ops = true -> Forall (ok_op (fmt_is F) w) ops.
Proof.
  intros H. apply Forall_forall. intros o Hin. rewrite forallb_forall in H. specialize (H o Hin).
  destruct o as [p n r| |]; cbn; auto. cbn in H. unfold fmt_by_hash in H. apply N.eqb_eq in H. exact H.
Qed.

(* the response to a request does not depend on what happened on the cache before: always as to which
   names are answered with whose certificate / key ... *)
Lemma order_independent_erased w ops p names r :
  wf_world w = true -> forallb wf_op ops = true -> wf_proxy p = true ->
  map erase (fst (generate w (run_cache w [] ops) p names r)) = map erase (fst (generate w [] p names r)).
Proof.
  intros Hw Hops Hp.
  destruct (run_pointwise any_fmt w ops Hw Hops (ok_any w ops) [] (cache_inv_nil _ w)) as (_ & _ & Hc).
  destruct (generate_spec_ok any_fmt w _ p names r Hw Hp I Hc) as [-> _].
  destruct (generate_spec_ok any_fmt w [] p names r Hw Hp I (cache_inv_nil _ w)) as [-> _]. reflexivity.
Qed.

(* ... and also as to where the key sits, when the key format is a function of the key's hash component *)
Lemma order_independent_fmt F w ops p names r :
  wf_world w = true -> forallb wf_op ops = true -> wf_proxy p = true ->
  forallb (fmt_op F w) ops = true -> fmt_by_hash F w p = true ->
  fst (generate w (run_cache w [] ops) p names r) = fst (generate w [] p names r).
Proof.
  intros Hw Hops Hp HF HFp.
  assert (Hokp : fmt_is F (p_pkp p) (eff_fmt w p)) by (unfold fmt_by_hash in HFp; apply N.eqb_eq in HFp; exact HFp).
  destruct (run_pointwise (fmt_is F) w ops Hw Hops (ok_fmt_is F w ops HF) [] (cache_inv_nil _ w)) as (_ & _ & Hc).
  destruct (generate_spec_ok (fmt_is F) w _ p names r Hw Hp Hokp Hc) as (_ & E & _).
  destruct (generate_spec_ok (fmt_is F) w [] p names r Hw Hp Hokp (cache_inv_nil _ w)) as (_ & E' & _).
  rewrite (E (fmt_is_functional F)), (E' (fmt_is_functional F)). reflexivity.
Qed.

(* ---- entitlement *)

Lemma existsb_covers p sr after rest :
  ref_verified p (sr_rn sr) = true ->
  cut_prefix "kubernetes-gateway://" (sr_rn sr) = Some after ->
  split_on slash after = sr_ns sr :: sr_name sr :: rest ->
  match p_refs p with
  | Some l => existsb (fun rn => covers rn (sr_ns sr) (sr_name sr)) l
  | None => false
  end = true.
Proof.
  unfold ref_verified. destruct (p_refs p) as [l|]; [|discriminate].
  intros H Hc Hs. apply existsb_exists in H. destruct H as [x [Hin E]]. apply String.eqb_eq in E. subst x.
  apply existsb_exists. exists (sr_rn sr). split; [exact Hin|].
  unfold covers. rewrite Hc, Hs. rewrite !String.eqb_refl. reflexivity.
Qed.

Lemma gen_spec_entitled w p i names r e s :
  verified p = Some i ->
  no_slash (id_ns i) = true -> no_slash (p_cluster p) = true -> no_slash (config_cluster w) = true ->
  In e (gen_spec w p r (authorized_resources w p i names)) -> key_of e = Some s -> entitled w p s = true.
Proof.
  intros Hv H1 H2 H3 Hin Hk. unfold gen_spec in Hin. apply in_flat_map in Hin.
  destruct Hin as [sr [Hsr He]].
  destruct (wanted r sr); [|destruct He].
  destruct (build w (p_cluster p) (eff_fmt w p) sr) as [e'|] eqn:B; [|destruct He].
  destruct He as [<-|[]].
  unfold authorized_resources, filter_authorized in Hsr. apply filter_In in Hsr. destruct Hsr as [Hsr Hal].
  apply in_parse_resources in Hsr. destruct Hsr as [rn [_ Hp]].
  apply parse_resource_name_wf in Hp; auto. destruct Hp as (_ & Hrn & T).
  unfold build in B. unfold allowed in Hal. unfold entitled. rewrite Hv.
  destruct (sr_type sr) eqn:Ty.
  - (* kubernetes:// *)
    destruct (is_ca_name (sr_name sr)) eqn:Ca.
    + destruct (get_ca_cert w (p_cluster p) (sr_name sr) (sr_ns sr)); inversion B; subst; discriminate.
    + unfold get_cert_info in B.
      destruct (find_secret w (p_cluster p) (sr_ns sr) (sr_name sr)) as [sec|]; [|discriminate].
      destruct (s_tls sec); [|discriminate].
      inversion B; subst e'. cbn in Hk. inversion Hk; subst s.
      apply andb_true_iff in Hal. destruct Hal as [Hns Hau]. cbn [orb] in Hau.
      apply String.eqb_eq in Hns. rewrite Hns. rewrite !String.eqb_refl. cbn [andb].
      rewrite Hau. reflexivity.
  - (* configmap:// never carries a key *)
    destruct (get_configmap_ca w (config_cluster w) (sr_name sr) (sr_ns sr)); inversion B; subst; discriminate.
  - (* kubernetes-gateway:// *)
    destruct T as [_ (after & rest & Hc & Hs)]. rewrite <- Hrn in Hc.
    destruct (is_ca_name (sr_name sr)) eqn:Ca.
    + destruct (get_ca_cert w (config_cluster w) (sr_name sr) (sr_ns sr)); inversion B; subst; discriminate.
    + unfold get_cert_info in B.
      destruct (find_secret w (config_cluster w) (sr_ns sr) (sr_name sr)) as [sec|]; [|discriminate].
      destruct (s_tls sec); [|discriminate].
      inversion B; subst e'. cbn in Hk. inversion Hk; subst s.
      rewrite (existsb_covers p sr after rest Hal Hc Hs).
      rewrite String.eqb_refl. cbn [andb]. apply orb_true_r.
  - discriminate.
Qed.

Lemma generate_spec_entitled w p names r :
  wf_world w = true -> wf_proxy p = true -> keys_entitled w p (generate_spec w p names r) = true.
Proof.
  intros Hw Hp. unfold keys_entitled. apply forallb_forall. intros e Hin.
  destruct (key_of e) as [s|] eqn:K; [|reflexivity].
  unfold generate_spec in Hin. unfold wf_proxy in Hp. apply andb_true_iff in Hp. destruct Hp as [_ Hi].
  destruct (verified p) as [i|] eqn:V; [|destruct Hin].
  destruct (negb (needs_push r)); [destruct Hin|].
  destruct (known_cluster w (p_cluster p)) eqn:K1; cbn [negb] in Hin; [|destruct Hin].
  destruct (known_cluster w (config_cluster w)) eqn:K2; cbn [negb] in Hin; [|destruct Hin].
  eapply gen_spec_entitled; eauto using known_cluster_no_slash.
Qed.

Lemma key_of_erase e : key_of (erase e) = key_of e.
Proof. destruct e as [n [s|s f]]; reflexivity. Qed.

Lemma keys_entitled_erase w p out : keys_entitled w p (map erase out) = keys_entitled w p out.
Proof.
  unfold keys_entitled. induction out as [|e out IH]; cbn [map forallb]; [reflexivity|].
  rewrite IH, key_of_erase. reflexivity.
Qed.

Lemma gens_wf ops : forallb wf_op ops = true ->
  Forall (fun g => match g with (p, _, _) => wf_proxy p = true end) (gens ops).
Proof.
  induction ops as [|o rest IH]; cbn; [constructor|].
  intros Hops. apply andb_true_iff in Hops. destruct Hops as [Ho Hr].
  destruct o; cbn; auto.
Qed.

(* for every history on one shared cache, every response carries only private keys its receiver is
   entitled to *)
Lemma no_key_without_right w ops :
  wf_world w = true -> forallb wf_op ops = true ->
  Forall2 (fun g out => match g with (p, _, _) => keys_entitled w p out = true end) (gens ops) (run w [] ops).
Proof.
  intros Hw Hops.
  destruct (run_pointwise any_fmt w ops Hw Hops (ok_any w ops) [] (cache_inv_nil _ w)) as (E & _ & _).
  pose proof (gens_wf ops Hops) as Hg.
  revert E. generalize (run w [] ops) as outs. induction Hg as [|[[p n] r] l Hp _ IH]; intros outs E.
  - destruct outs; [constructor|discriminate].
  - destruct outs as [|out outs]; [discriminate|]. cbn [map] in E. injection E as E1 E2.
    constructor; [|apply IH; exact E2].
    rewrite <- keys_entitled_erase, E1, keys_entitled_erase. cbn [spec_of].
    apply generate_spec_entitled; auto.
Qed.

(* the responses of a history are, one by one, the cache-free answers: up to the key format always ... *)
Lemma run_is_pointwise_erased w ops :
  wf_world w = true -> forallb wf_op ops = true ->
  map (map erase) (run w [] ops) =
  map (fun g => match g with (p, n, r) => map erase (fst (generate w [] p n r)) end) (gens ops).
Proof.
  intros Hw Hops.
  destruct (run_pointwise any_fmt w ops Hw Hops (ok_any w ops) [] (cache_inv_nil _ w)) as (-> & _ & _).
  pose proof (gens_wf ops Hops) as Hg.
  induction Hg as [|[[p n] r] l Hp _ IH]; cbn; [reflexivity|].
  destruct (generate_spec_ok any_fmt w [] p n r Hw Hp I (cache_inv_nil _ w)) as [-> _]. f_equal. exact IH.
Qed.

(* ... and exactly, when the key format is a function of the key's hash component *)
Lemma run_is_pointwise_fmt F w ops :
  wf_world w = true -> forallb wf_op ops = true -> forallb (fmt_op F w) ops = true ->
  run w [] ops = map (fun g => match g with (p, n, r) => fst (generate w [] p n r) end) (gens ops).
Proof.
  intros Hw Hops HF.
  destruct (run_pointwise (fmt_is F) w ops Hw Hops (ok_fmt_is F w ops HF) [] (cache_inv_nil _ w)) as (_ & E & _).
  rewrite (E (fmt_is_functional F)).
  assert (Hg : Forall (fun g => match g with (p, _, _) => wf_proxy p = true /\ fmt_by_hash F w p = true end) (gens ops)).
  { clear E. induction ops as [|o rest IH]; cbn; [constructor|].
    cbn in Hops, HF. apply andb_true_iff in Hops. destruct Hops as [Ho Hr].
    apply andb_true_iff in HF. destruct HF as [Hf Hfr].
    destruct o; cbn; auto. }
  clear E. induction Hg as [|[[p n] r] l [Hp Hf] _ IH]; cbn; [reflexivity|].
  assert (Hokp : fmt_is F (p_pkp p) (eff_fmt w p)) by (unfold fmt_by_hash in Hf; apply N.eqb_eq in Hf; exact Hf).
  destruct (generate_spec_ok (fmt_is F) w [] p n r Hw Hp Hokp (cache_inv_nil _ w)) as (_ & E' & _).
  rewrite (E' (fmt_is_functional F)). f_equal. exact IH.
Qed.

(* an unauthenticated stream gets nothing, whatever the cache holds, and leaves the cache alone *)
Lemma unauthenticated_nothing w c p names r :
  verified p = None -> generate w c p names r = ([], c).
Proof. intros H. unfold generate. rewrite H. reflexivity. Qed.

(* never across namespaces for kubernetes:// names: a key from the proxy's own cluster store always
   belongs to the verified namespace *)
Lemma kube_key_same_namespace w p i names r e cl ns name :
  wf_world w = true -> wf_proxy p = true -> verified p = Some i ->
  In e (generate_spec w p names r) -> key_of e = Some (cl, ns, name) ->
  p_refs p = None -> ns = id_ns i /\ cl = p_cluster p /\ authorized w cl ns (id_sa i) = true.
Proof.
  intros Hw Hp Hv Hin Hk Hr.
  pose proof (generate_spec_entitled w p names r Hw Hp) as H.
  unfold keys_entitled in H. rewrite forallb_forall in H. specialize (H e Hin). rewrite Hk in H.
  unfold entitled in H. rewrite Hv, Hr in H. rewrite andb_false_r, orb_false_r in H.
  apply andb_true_iff in H. destruct H as [H H3]. apply andb_true_iff in H. destruct H as [H1 H2].
  apply String.eqb_eq in H1. apply String.eqb_eq in H2. subst. auto.
Qed.
