(* C11 proofs, part 4: consequences used by Props.v. *)
From V Require Import lib.Verdict C11.Model C11.Proofs C11.ProofsKey C11.ProofsCache.
Open Scope string_scope.

(* a verified identity never has "/" in its namespace or service account: discharges [wf_proxy] for
   every proxy whose VerifiedIdentity was set by authorize *)
Lemma parse_identity_no_slash raw i :
  parse_identity raw = Some i -> no_slash (id_ns i) = true /\ no_slash (id_sa i) = true /\ no_slash (id_td i) = true.
Proof.
  unfold parse_identity. destruct (cut_prefix "spiffe://" raw) as [r|]; [|discriminate].
  destruct (split_on slash r) as [|a [|b [|c [|d [|e [|f rest]]]]]] eqn:Es; try discriminate.
  destruct (String.eqb b "ns" && String.eqb d "sa"); [|discriminate].
  intros H; inversion H; subst; clear H. cbn.
  repeat split; apply (split_on_no_slash r); rewrite Es; cbn; auto 10.
Qed.

Lemma authorize_wf en cns csa ids v p :
  authorize en cns csa ids = AuthAccepted (Some v) ->
  verified p = Some v -> wf_proxy p = true.
Proof.
  intros H Hv. apply authorize_bound in H. destruct H as (_ & (l & raw & _ & _ & Hp) & _).
  apply parse_identity_no_slash in Hp. destruct Hp as [Hn _].
  unfold wf_proxy. rewrite Hv, Hn. reflexivity.
Qed.

Lemma response_is_spec w ops p names r :
  wf_world w = true -> forallb wf_op ops = true -> wf_proxy p = true ->
  fst (generate w (run_cache w [] ops) p names r) = generate_spec w p names r.
Proof.
  intros Hw Hops Hp.
  destruct (run_pointwise w ops Hw Hops [] (cache_inv_nil w)) as [_ Hc].
  destruct (generate_spec_ok w _ p names r Hw Hp Hc) as [-> _]. reflexivity.
Qed.

(* after any history, a proxy without verified references receives only keys of its own verified
   namespace, from the cluster it reads, and only if its service account is authorised there *)
Lemma never_across_namespaces w ops p i names r e cl ns name :
  wf_world w = true -> forallb wf_op ops = true -> wf_proxy p = true ->
  verified p = Some i -> p_refs p = None ->
  In e (fst (generate w (run_cache w [] ops) p names r)) -> key_of e = Some (cl, ns, name) ->
  ns = id_ns i /\ cl = p_cluster p /\ authorized w cl ns (id_sa i) = true.
Proof.
  intros Hw Hops Hp Hv Hr Hin Hk.
  rewrite response_is_spec in Hin; auto.
  eapply kube_key_same_namespace; eauto.
Qed.

(* the four-case table of filterAuthorizedResources *)
Lemma filter_table p vns auth rs sr :
  In sr (filter_authorized p vns auth rs) <->
  In sr rs /\
  match sr_type sr with
  | TGateway => ref_verified p (sr_rn sr) = true
  | TConfigMap => True
  | TKube => sr_ns sr = vns /\ (is_ca_name (sr_name sr) = true \/ auth = true)
  | TInvalid => False
  end.
Proof.
  unfold filter_authorized. rewrite filter_In. unfold allowed.
  destruct (sr_type sr); split; intros [H1 H2]; split; auto.
  - apply andb_true_iff in H2. destruct H2 as [A B]. apply String.eqb_eq in A.
    apply orb_true_iff in B. auto.
  - destruct H2 as [A B]. apply andb_true_iff. split; [apply String.eqb_eq; exact A|].
    apply orb_true_iff. exact B.
  - discriminate.
Qed.

(* name parsing: the implicit form binds to the verified namespace *)
Lemma cut_prefix_app p s : cut_prefix p (p ++ s) = Some s.
Proof. induction p as [|a p IH]; cbn; [reflexivity|]. rewrite Ascii.eqb_refl. exact IH. Qed.

Lemma split_on_no_slash_single s : no_slash s = true -> split_on slash s = [s].
Proof.
  induction s as [|a r IH]; cbn; [reflexivity|].
  intros H. apply andb_true_iff in H. destruct H as [Ha Hr].
  destruct (Ascii.eqb a slash); [discriminate|]. rewrite (IH Hr). reflexivity.
Qed.

Lemma parse_implicit_namespace name pns pcl ccl :
  no_slash name = true ->
  parse_resource_name ("kubernetes://" ++ name) pns pcl ccl =
  Some {| sr_type := TKube; sr_name := name; sr_ns := pns; sr_rn := "kubernetes://" ++ name; sr_cluster := pcl |}.
Proof.
  intros H. unfold parse_resource_name. rewrite cut_prefix_app.
  rewrite (split_on_no_slash_single name H). reflexivity.
Qed.

(* an explicit foreign namespace in a kubernetes:// name is never served *)
Lemma foreign_namespace_denied p vns auth sr :
  sr_type sr = TKube -> sr_ns sr <> vns -> allowed p vns auth sr = false.
Proof.
  intros T N. unfold allowed. rewrite T. apply String.eqb_neq in N. rewrite N. reflexivity.
Qed.
