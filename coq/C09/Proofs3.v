(* C09 proofs, part 3: witnesses (refutations and satisfiability examples).  The same inputs are run
   against the real server by the harness (cases 1-4 of every run). *)
From Coq Require Import List NArith ZArith Bool String Ascii Lia.
From V Require Import C09.Model C09.Proofs C09.Proofs2.
Import ListNotations.
Open Scope string_scope.

Definition no_ip : ip_parser := fun _ => None.

Definition w_env : auth_env := {| ae_xds_auth := true; ae_has_peer := true; ae_tls := true; ae_plaintext := false |}.

Definition w_cfg : ca_cfg :=
  {| ca_signer := Some {| sg_not_after := 2000000000000000000; sg_has_ski := true |};
     ca_default_ttl := 3600 * second; ca_max_ttl := 86400 * second; ca_chain_len := 0; ca_has_root := true |}.

Definition w_now : Z := 1790000000000000000.

Definition w_csr : csr :=
  {| csr_st := CsrOk; csr_cn := ""; csr_key := 2; csr_sans := ["spiffe://cluster.local/ns/istio-system/sa/istiod"];
     csr_wants_ca := true; csr_extra_exts := 1 |}.

Definition w_world : node_auth :=
  {| na_trusted := [("istio-system", "ztunnel")];
     na_clusters := [("c1", [ {| p_name := "ztunnel-a"; p_ns := "istio-system"; p_sa := "ztunnel"; p_node := "n1"; p_uid := "u-zt-a" |};
                              {| p_name := "bar-1"; p_ns := "foo"; p_sa := "bar"; p_node := "n1"; p_uid := "u3" |};
                              {| p_name := "db-1"; p_ns := "app"; p_sa := "db"; p_node := "n2"; p_uid := "u2" |} ])] |}.

Definition w_zt : caller :=
  {| identities := ["spiffe://cluster.local/ns/istio-system/sa/ztunnel"];
     kinfo := {| k_pod := "ztunnel-a"; k_ns := "istio-system"; k_uid := "u-zt-a"; k_sa := "ztunnel" |} |}.

Definition w_rq (imp : string) : request :=
  {| rq_csr := w_csr; rq_validity := 3600;
     rq_metadata := if String.eqb imp "" then [] else [("ImpersonatedIdentity", MStr imp)];
     rq_cluster_ids := ["c1"] |}.

Definition w_evil_imp : string := "spiffe://cluster.local,istiod.istio-system.svc,x/ns/foo/sa/bar".
Definition w_good_imp : string := "spiffe://cluster.local/ns/foo/sa/bar".

Definition issued_sans (r : result) : option (list san) :=
  match r with RIssued leaf _ => Some (c_sans leaf) | _ => None end.

(* witness 1 (regression of fixed finding C09-K4-comma-identity-extra-sans): an authorised
   impersonation whose trust-domain segment carries commas is now a certificate-generation error *)
Lemma witness_impersonation_comma_refused :
  authenticate_impersonation w_world "c1" (kinfo w_zt) w_evil_imp = true /\
  create_certificate no_ip w_env [{| ar_caller := Some w_zt; ar_err := false |}] (Some w_world) w_cfg
                 (w_rq w_evil_imp) w_now = RSignError ECertGen.
Proof. split; vm_compute; reflexivity. Qed.

(* witness 2: an authenticated identity containing a comma is refused as well *)
Definition w_comma_caller : caller :=
  {| identities := ["spiffe://cluster.local/ns/foo/sa/bar,istiod.istio-system.svc"]; kinfo := no_kube |}.

Lemma witness_comma_identity_refused :
  create_certificate no_ip w_env [{| ar_caller := Some w_comma_caller; ar_err := false |}] None w_cfg
                 (w_rq "") w_now = RSignError ECertGen.
Proof. vm_compute. reflexivity. Qed.

(* witness 3: the comma-free impersonation is issued with exactly that identity *)
Lemma witness_good_impersonation :
  issued_sans (create_certificate no_ip w_env [{| ar_caller := Some w_zt; ar_err := false |}] (Some w_world) w_cfg
                 (w_rq w_good_imp) w_now)
  = Some [SURI w_good_imp].
Proof. vm_compute. reflexivity. Qed.

(* witness 4: one empty identity is accepted and becomes an empty dNSName *)
Lemma witness_empty_identity :
  issued_sans (create_certificate no_ip w_env [{| ar_caller := Some {| identities := [""]; kinfo := no_kube |}; ar_err := false |}]
                 None w_cfg (w_rq "") w_now)
  = Some [SDNS ""].
Proof. vm_compute. reflexivity. Qed.

(* ---- open finding C09-impersonation-trust-domain-unchecked *)

(* the impersonated identity lies in the trust domain of one of the caller's authenticated SPIFFE identities *)
Definition in_caller_trust_domain (u : caller) (imp : string) : Prop :=
  exists id cid s, parse_identity imp = Some id /\ In s (identities u) /\
                   parse_identity s = Some cid /\ sp_td cid = sp_td id.

Definition w_foreign_imp : string := "spiffe://other.td/ns/foo/sa/bar".

(* witness 5: the trust-domain segment of the impersonated identity is chosen by the request *)
Lemma witness_foreign_trust_domain :
  issued_sans (create_certificate no_ip w_env [{| ar_caller := Some w_zt; ar_err := false |}] (Some w_world) w_cfg
                 (w_rq w_foreign_imp) w_now) = Some [SURI w_foreign_imp].
Proof. vm_compute. reflexivity. Qed.

Lemma impersonation_trust_domain_refuted :
  exists ipf e rs a cfg rq now leaf n u,
    create_certificate ipf e rs (Some a) cfg rq now = RIssued leaf n /\
    authenticate e rs = Some u /\
    impersonation_justified a (extract_cluster_id (rq_cluster_ids rq)) (kinfo u) (imp_of rq) /\
    c_sans leaf = [SURI "spiffe://other.td/ns/foo/sa/bar"] /\
    identities u = ["spiffe://cluster.local/ns/istio-system/sa/ztunnel"] /\
    ~ in_caller_trust_domain u (imp_of rq).
Proof.
  exists no_ip, w_env, [{| ar_caller := Some w_zt; ar_err := false |}], w_world, w_cfg, (w_rq w_foreign_imp), w_now.
  eexists. eexists. exists w_zt.
  split; [vm_compute; reflexivity|]. split; [reflexivity|]. split.
  { apply authenticate_impersonation_sound. vm_compute. reflexivity. }
  split; [reflexivity|]. split; [reflexivity|].
  intros (id & cid & s & Hp & Hin & Hc & Heq).
  vm_compute in Hp. inversion Hp; subst. destruct Hin as [<-|[]].
  vm_compute in Hc. inversion Hc; subst. cbn in Heq. discriminate.
Qed.

(* hypotheses are satisfiable *)
Lemma sat_issued_exact :
  exists leaf n, create_certificate no_ip w_env [{| ar_caller := Some w_zt; ar_err := false |}] None w_cfg (w_rq "") w_now
                 = RIssued leaf n /\ c_sans leaf = [SURI "spiffe://cluster.local/ns/istio-system/sa/ztunnel"] /\
                 c_not_after leaf = (w_now + 3600 * second)%Z.
Proof. eexists. eexists. split; [vm_compute; reflexivity|]. split; reflexivity. Qed.
