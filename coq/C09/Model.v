(* C09 — issued workload certificates carry exactly the caller's authenticated identity.
   Executable model of the anchored Go code (definitions only).  Every definition names the Go
   function it follows.  Times are nanoseconds since the epoch in [Z]; strings whose bytes matter
   (identities, SAN pieces, sub claims, addresses) are Coq [string]s holding the same bytes. *)
From Coq Require Import List NArith ZArith Bool String Ascii.
Import ListNotations.
Open Scope string_scope.

(* ------------------------------------------------------------------ Go strings package *)

(* strings.Split(s, string(c)) for a one-byte separator: never returns the empty list *)
Fixpoint split_on (c : ascii) (s : string) : list string :=
  match s with
  | EmptyString => [EmptyString]
  | String a r =>
      if Ascii.eqb a c then EmptyString :: split_on c r
      else match split_on c r with
           | h :: t => String a h :: t
           | [] => [String a EmptyString]
           end
  end.

(* strings.Join(l, string(c)) *)
Fixpoint join_with (c : ascii) (l : list string) : string :=
  match l with
  | [] => EmptyString
  | [x] => x
  | x :: r => x ++ String c (join_with c r)
  end.

(* strings.HasPrefix(s, p) *)
Fixpoint has_prefix (p s : string) : bool :=
  match p, s with
  | EmptyString, _ => true
  | String a p', String b s' => Ascii.eqb a b && has_prefix p' s'
  | String _ _, EmptyString => false
  end.

Fixpoint drop (n : nat) (s : string) : string :=
  match n, s with
  | O, _ => s
  | S n', String _ r => drop n' r
  | S _, EmptyString => EmptyString
  end.

Fixpoint contains_char (c : ascii) (s : string) : bool :=
  match s with
  | EmptyString => false
  | String a r => Ascii.eqb a c || contains_char c r
  end.

(* strings.Replace(s, string(a), string(b), -1) for one-byte old/new *)
Fixpoint replace_char (a b : ascii) (s : string) : string :=
  match s with
  | EmptyString => EmptyString
  | String x r => String (if Ascii.eqb x a then b else x) (replace_char a b r)
  end.

Definition comma : ascii := ","%char.
Definition colon : ascii := ":"%char.
Definition slash : ascii := "/"%char.

Fixpoint str_in (s : string) (l : list string) : bool :=
  match l with
  | [] => false
  | x :: r => String.eqb s x || str_in s r
  end.

(* ------------------------------------------------------------------ pkg/spiffe *)

Definition uri_prefix : string := "spiffe://".

(* spiffe.genSpiffeURI / MustGenSpiffeURI (the error for empty ns/sa is only logged) *)
Definition gen_spiffe_uri (td ns sa : string) : string :=
  uri_prefix ++ replace_char "@"%char "."%char td ++ "/ns/" ++ ns ++ "/sa/" ++ sa.

Record spiffe_id := { sp_td : string; sp_ns : string; sp_sa : string }.

(* spiffe.ParseIdentity *)
Definition parse_identity (s : string) : option spiffe_id :=
  if negb (has_prefix uri_prefix s) then None
  else match split_on slash (drop 9 s) with
       | [td; seg1; ns; seg3; sa] =>
           if String.eqb seg1 "ns" && String.eqb seg3 "sa"
           then Some {| sp_td := td; sp_ns := ns; sp_sa := sa |} else None
       | _ => None
       end.

(* ------------------------------------------------------------------ pki/util/san.go *)

(* What net/netip.ParseAddr says about a string (Go standard library, not anchored code): the
   16- or 4-byte AsSlice() form and whether the address Is4In6().  The model and all theorems are
   parametric in this function. *)
Definition ip_parser := string -> option (bool * list N).

Inductive san :=
| SIP (bytes : list N)
| SURI (s : string)
| SDNS (s : string).

(* loop body of BuildSubjectAltNameExtension *)
Definition classify (ipf : ip_parser) (host : string) : san :=
  match ipf host with
  | Some (is4in6, bytes) => SIP (if is4in6 then skipn 12 bytes else bytes)
  | None => if has_prefix uri_prefix host then SURI host else SDNS host
  end.

(* BuildSubjectAltNameExtension(hosts): split on "," and classify every piece *)
Definition build_san (ipf : ip_parser) (hosts : string) : list san :=
  map (classify ipf) (split_on comma hosts).

(* util.DualUseCommonName: first comma piece; more than 64 bytes = error (CN omitted) *)
Definition dual_use_cn (hosts : string) : option string :=
  let first := hd EmptyString (split_on comma hosts) in
  if Nat.ltb 64 (String.length first) then None else Some first.

(* ------------------------------------------------------------------ CSR as seen by the CA *)

Inductive csr_status := CsrPemBad | CsrParseBad | CsrSigBad | CsrOk.

(* Everything a CSR can say.  Only [csr_st], [csr_cn] (emptiness) and [csr_key] are read by the
   code; the other fields are attacker-chosen content the theorems quantify over. *)
Record csr := {
  csr_st : csr_status;
  csr_cn : string;             (* Subject.CommonName *)
  csr_key : N;                 (* interned public key *)
  csr_sans : list string;      (* requested SAN entries (ignored by the CA) *)
  csr_wants_ca : bool;         (* requested basicConstraints CA:TRUE extension (ignored) *)
  csr_extra_exts : N           (* number of other requested extensions (ignored) *)
}.

(* ------------------------------------------------------------------ CA configuration *)

Record signer := {
  sg_not_after : Z;            (* signing certificate NotAfter, ns *)
  sg_has_ski : bool            (* signing cert has a SubjectKeyId (=> leaf gets AuthorityKeyId) *)
}.

Record ca_cfg := {
  ca_signer : option signer;   (* None: key cert bundle has no signing cert *)
  ca_default_ttl : Z;          (* effective default TTL (after NewIstioCA/minTTL), ns *)
  ca_max_ttl : Z;              (* ns *)
  ca_chain_len : N;            (* certificates in the cert chain PEM *)
  ca_has_root : bool           (* root cert PEM non-empty *)
}.

(* IstioCA.minTTL as used by NewIstioCA: chain = None when the chain PEM is empty, otherwise the
   NotAfter of the first certificate in it; [now0] is the construction time. *)
Definition min_ttl (default : Z) (chain_not_after : option Z) (now0 : Z) : option Z :=
  match chain_not_after with
  | None => Some default
  | Some na =>
      let left := (na - now0)%Z in
      if (left <=? 0)%Z then None
      else if (left <? default)%Z then Some left else Some default
  end.

(* ------------------------------------------------------------------ the certificate *)

Record cert := {
  c_sans : list san;
  c_san_critical : bool;
  c_cn : string;               (* "" = no CommonName *)
  c_is_ca : bool;
  c_bc_valid : bool;
  c_key : N;
  c_key_usage : N;             (* x509.KeyUsage bits *)
  c_ext_key_usage : list N;    (* x509.ExtKeyUsage values *)
  c_not_before : Z;            (* ns *)
  c_not_after : Z;             (* ns *)
  c_has_aki : bool;
  c_other_exts : N             (* extensions other than KU/EKU/BC/AKI/SAN *)
}.

Inductive sign_err := ENotReady | ECsr | ETtl | ECertGen.

Definition clock_skew : Z := 120000000000.   (* util.ClockSkewGracePeriod = 2 min *)
Definition second : Z := 1000000000.

(* util.genCertTemplateFromCSR (+ x509.CreateCertificate projected to the fields above) *)
Definition gen_cert_template (ipf : ip_parser) (c : csr) (subject_ids : list string) (ttl : Z)
           (is_ca : bool) (sg : signer) (now : Z) : option cert :=
  (* a subject ID containing a comma is refused (fix 5484dbd): join/split cannot represent it *)
  if existsb (contains_char comma) subject_ids then None else
  let ids := join_with comma subject_ids in
  let cn := if Nat.eqb (String.length (csr_cn c)) 0 then EmptyString
            else match dual_use_cn ids with Some x => x | None => EmptyString end in
  if (sg_not_after sg <=? now)%Z then None            (* signing certificate has expired *)
  else
    let na := (now + ttl)%Z in
    let na := if (sg_not_after sg <=? na)%Z then sg_not_after sg else na in
    Some {| c_sans := build_san ipf ids;
            c_san_critical := true;
            c_cn := cn;
            c_is_ca := is_ca;
            c_bc_valid := true;
            c_key := csr_key c;
            c_key_usage := if is_ca then 32%N else 5%N;   (* CertSign | DigitalSignature+KeyEncipherment *)
            c_ext_key_usage := if is_ca then [] else [1%N; 2%N];  (* ServerAuth, ClientAuth *)
            c_not_before := (now - clock_skew)%Z;
            c_not_after := na;
            c_has_aki := sg_has_ski sg;
            c_other_exts := 0%N |}.

(* IstioCA.sign (checkLifetime = true as from Sign / SignWithCertChain) *)
Definition ca_sign (ipf : ip_parser) (cfg : ca_cfg) (c : csr) (subject_ids : list string)
           (requested : Z) (for_ca : bool) (now : Z) : sign_err + cert :=
  match ca_signer cfg with
  | None => inl ENotReady
  | Some sg =>
      match csr_st c with
      | CsrPemBad | CsrParseBad | CsrSigBad => inl ECsr
      | CsrOk =>
          let lifetime := if (requested <=? 0)%Z then ca_default_ttl cfg else requested in
          if (ca_max_ttl cfg <? requested)%Z then inl ETtl
          else match gen_cert_template ipf c subject_ids lifetime for_ca sg now with
               | None => inl ECertGen
               | Some crt => inr crt
               end
      end
  end.

(* ------------------------------------------------------------------ authentication result *)

Record kube_info := { k_pod : string; k_ns : string; k_uid : string; k_sa : string }.
Definition no_kube : kube_info := {| k_pod := ""; k_ns := ""; k_uid := ""; k_sa := "" |}.

Record caller := { identities : list string; kinfo : kube_info }.

(* what one security.Authenticator returned *)
Record auth_result := { ar_caller : option caller; ar_err : bool }.

Record auth_env := {
  ae_xds_auth : bool;          (* features.XDSAuth *)
  ae_has_peer : bool;          (* peer.FromContext ok *)
  ae_tls : bool;               (* peer AuthInfo is credentials.TLSInfo *)
  ae_plaintext : bool          (* security.AuthPlaintext *)
}.

(* authenticationManager.authenticate: first authenticator with a caller, >0 identities, no error *)
Fixpoint am_authenticate (rs : list auth_result) : option caller :=
  match rs with
  | [] => None
  | r :: rest =>
      match ar_caller r with
      | Some u => if negb (ar_err r) && negb (Nat.eqb (List.length (identities u)) 0) then Some u
                  else am_authenticate rest
      | None => am_authenticate rest
      end
  end.

(* security.Authenticate; CreateCertificate treats (nil, nil) and errors alike *)
Definition authenticate (e : auth_env) (rs : list auth_result) : option caller :=
  if negb (ae_xds_auth e) then None
  else if negb (ae_has_peer e) then None
  else if negb (ae_tls e) && negb (ae_plaintext e) then None
  else am_authenticate rs.

(* ------------------------------------------------------------------ node authorizer *)

Record pod := { p_name : string; p_ns : string; p_sa : string; p_node : string; p_uid : string }.

Record node_auth := {
  na_trusted : list (string * string);            (* trusted node accounts (namespace, name) *)
  na_clusters : list (string * list pod)          (* cluster id -> pods known to that cluster's informer *)
}.

Fixpoint find_cluster (id : string) (cs : list (string * list pod)) : option (list pod) :=
  match cs with
  | [] => None
  | (k, ps) :: r => if String.eqb k id then Some ps else find_cluster id r
  end.

Fixpoint pair_in (ns n : string) (l : list (string * string)) : bool :=
  match l with
  | [] => false
  | (a, b) :: r => (String.eqb a ns && String.eqb b n) || pair_in ns n r
  end.

(* kclient Get(name, namespace) *)
Fixpoint get_pod (name ns : string) (ps : list pod) : option pod :=
  match ps with
  | [] => None
  | p :: r => if String.eqb (p_name p) name && String.eqb (p_ns p) ns then Some p else get_pod name ns r
  end.

(* the "saNode" index: pods with non-empty node and service account, keyed {node, ns, sa} *)
Definition index_has (ps : list pod) (node ns sa : string) : bool :=
  existsb (fun p => negb (Nat.eqb (String.length (p_node p)) 0) &&
                    negb (Nat.eqb (String.length (p_sa p)) 0) &&
                    String.eqb (p_node p) node && String.eqb (p_ns p) ns && String.eqb (p_sa p) sa) ps.

(* ClusterNodeAuthorizer.authenticateImpersonation: true = authorised (nil error) *)
Definition cluster_authenticate_impersonation (trusted : list (string * string)) (ps : list pod)
           (k : kube_info) (requested : string) : bool :=
  if negb (pair_in (k_ns k) (k_sa k) trusted) then false
  else match parse_identity requested with
       | None => false
       | Some id =>
           match get_pod (k_pod k) (k_ns k) ps with
           | None => false
           | Some cp =>
               if negb (String.eqb (p_uid cp) (k_uid k)) then false
               else if negb (String.eqb (p_sa cp) (k_sa k)) then false
               else index_has ps (p_node cp) (sp_ns id) (sp_sa id)
           end
       end.

(* MulticlusterNodeAuthorizor.authenticateImpersonation; [cluster_id] = kubeauth.ExtractClusterID *)
Definition authenticate_impersonation (na : node_auth) (cluster_id : string) (k : kube_info)
           (requested : string) : bool :=
  match find_cluster cluster_id (na_clusters na) with
  | None => false
  | Some ps => cluster_authenticate_impersonation (na_trusted na) ps k requested
  end.

(* ------------------------------------------------------------------ CA errors -> gRPC status *)

(* pki/error ErrType values a CertificateAuthority may return, and CreateCertificate's status code for
   them (caerror.Error.HTTPErrorCode): 3 = InvalidArgument, 13 = Internal *)
Inductive ca_err_kind := KNotReady | KCsr | KTtl | KCertGen | KIllegalConfig | KInitFail.

Definition grpc_code (k : ca_err_kind) : N :=
  match k with
  | KCsr | KTtl => 3%N
  | KNotReady | KCertGen | KIllegalConfig | KInitFail => 13%N
  end.

Definition kind_of_sign_err (e : sign_err) : ca_err_kind :=
  match e with ENotReady => KNotReady | ECsr => KCsr | ETtl => KTtl | ECertGen => KCertGen end.

(* ------------------------------------------------------------------ histories of one cluster's authorizer *)

(* what happens to one long-lived ClusterNodeAuthorizer: pod events seen by its informer (an add of an
   existing namespace/name is an update, e.g. a move to another node) and impersonation requests *)
Inductive hop :=
| HAdd (p : pod)
| HDel (name ns : string)
| HReq (k : kube_info) (imp : string).

Definition same_key (name ns : string) (p : pod) : bool :=
  String.eqb (p_name p) name && String.eqb (p_ns p) ns.

Definition world_step (ps : list pod) (op : hop) : list pod :=
  match op with
  | HAdd p => p :: filter (fun q => negb (same_key (p_name p) (p_ns p) q)) ps
  | HDel n ns => filter (fun q => negb (same_key n ns q)) ps
  | HReq _ _ => ps
  end.

(* the authorizer keeps no state of its own: every request is answered from the informer's current pods *)
Fixpoint run_history (trusted : list (string * string)) (ps : list pod) (ops : list hop) : list bool :=
  match ops with
  | [] => []
  | HReq k imp :: r => cluster_authenticate_impersonation trusted ps k imp :: run_history trusted ps r
  | op :: r => run_history trusted (world_step ps op) r
  end.

Fixpoint count_reqs (ops : list hop) : nat :=
  match ops with
  | [] => 0
  | HReq _ _ :: r => S (count_reqs r)
  | _ :: r => count_reqs r
  end.

(* ------------------------------------------------------------------ the request *)

(* structpb.Value kinds; GetStringValue is "" for every kind but string *)
Inductive mval := MStr (s : string) | MNum | MBool | MNull | MList | MStruct.
Definition get_string_value (o : option mval) : string :=
  match o with Some (MStr s) => s | _ => EmptyString end.

Fixpoint md_get (k : string) (md : list (string * mval)) : option mval :=
  match md with
  | [] => None
  | (a, v) :: r => if String.eqb a k then Some v else md_get k r
  end.

Record request := {
  rq_csr : csr;
  rq_validity : Z;                      (* ValidityDuration, int64 seconds *)
  rq_metadata : list (string * mval);   (* Metadata.Fields (unique keys) *)
  rq_cluster_ids : list string          (* values of the "clusterid" gRPC metadata header *)
}.

(* kubeauth.ExtractClusterID *)
Definition extract_cluster_id (hs : list string) : string :=
  match hs with [x] => x | _ => EmptyString end.

(* int64 wrap-around of time.Duration(request.ValidityDuration) * time.Second *)
Definition two63 : Z := 9223372036854775808.
Definition wrap64 (z : Z) : Z := ((z + two63) mod (2 * two63) - two63)%Z.
Definition requested_ttl (validity : Z) : Z := wrap64 (validity * second).

Inductive result :=
| RUnauthenticated          (* codes.Unauthenticated "request authenticate failure" *)
| RImpersonationDenied      (* codes.Unauthenticated "request impersonation authentication failure" *)
| RSignError (e : sign_err) (* InvalidArgument for ECsr/ETtl, Internal for ENotReady/ECertGen *)
| RIssued (leaf : cert) (chain_len : N).   (* OK; number of elements of response.cert_chain *)

(* which identities go into the certificate: CreateCertificate up to the Sign call *)
Definition select_sans (na : option node_auth) (u : caller) (rq : request) : option (list string) :=
  let imp := get_string_value (md_get "ImpersonatedIdentity" (rq_metadata rq)) in
  if Nat.eqb (String.length imp) 0 then Some (identities u)
  else match na with
       | None => None
       | Some a =>
           if authenticate_impersonation a (extract_cluster_id (rq_cluster_ids rq)) (kinfo u) imp
           then Some [imp] else None
       end.

(* Server.CreateCertificate *)
Definition create_certificate (ipf : ip_parser) (e : auth_env) (rs : list auth_result)
           (na : option node_auth) (cfg : ca_cfg) (rq : request) (now : Z) : result :=
  match authenticate e rs with
  | None => RUnauthenticated
  | Some u =>
      match select_sans na u rq with
      | None => RImpersonationDenied
      | Some sans =>
          (* CertSigner only selects Sign vs SignWithCertChain; both sign the same leaf and the
             expanded response has the same number of elements *)
          match ca_sign ipf cfg (rq_csr rq) sans (requested_ttl (rq_validity rq)) false now with
          | inl err => RSignError err
          | inr leaf => RIssued leaf (1 + ca_chain_len cfg + (if ca_has_root cfg then 1 else 0))%N
          end
      end
  end.

(* ------------------------------------------------------------------ authenticators *)

Inductive authn_out :=
| APanic                                   (* the Go code panics *)
| AErr                                     (* (nil, error) *)
| AOk (ids : list string) (k : kube_info).

Fixpoint check_audience (to_check expected : list string) : bool :=
  match to_check with
  | [] => false
  | a :: r => str_in a expected || check_audience r expected
  end.

(* "aud" claim as json: JwtPayload.Aud is []string, a bare string fails idToken.Claims *)
Inductive aud_claim := AudList (l : list string) | AudString (s : string).

(* JwtAuthenticator.authenticate after j.verifier.Verify succeeded *)
Definition oidc_authenticate (td : string) (audiences : list string) (sub : string) (aud : aud_claim)
  : authn_out :=
  match aud with
  | AudString _ => AErr
  | AudList auds =>
      if negb (has_prefix "system:serviceaccount" sub) then AErr
      else
        let parts := split_on colon sub in
        if Nat.ltb (List.length parts) 4 then AErr       (* fix b1796d6: fewer than four parts = invalid sub *)
        else
        match nth_error parts 2, nth_error parts 3 with
        | Some ns, Some ksa =>
            if negb (check_audience auds audiences) then AErr
            else AOk [gen_spiffe_uri td ns ksa] no_kube
        | _, _ => APanic        (* parts[2] / parts[3]: index out of range (unreachable, C09_oidc_total) *)
        end
  end.

(* TokenReview status as returned by the API server *)
Record token_review := {
  tr_api_err : bool;           (* the Create call failed *)
  tr_error : string;           (* Status.Error *)
  tr_authenticated : bool;
  tr_groups : list string;
  tr_username : string;
  tr_pod_name : string;        (* first value of extra[pod-name] or "" *)
  tr_pod_uid : string
}.

(* KubeJWTAuthenticator.authenticate with tokenreview.getTokenReviewResult; [client_found] =
   getKubeClient(clusterID) != nil *)
Definition kube_jwt_authenticate (td : string) (client_found : bool) (tr : token_review) : authn_out :=
  if negb client_found then AErr
  else if tr_api_err tr then AErr
  else if negb (Nat.eqb (String.length (tr_error tr)) 0) then AErr
  else if negb (tr_authenticated tr) then AErr
  else if negb (str_in "system:serviceaccounts" (tr_groups tr)) then AErr
  else match split_on colon (tr_username tr) with
       | [_; _; ns; sa] =>
           if Nat.eqb (String.length sa) 0 then AErr
           else if Nat.eqb (String.length ns) 0 then AErr
           else AOk [gen_spiffe_uri td ns sa]
                    {| k_pod := tr_pod_name tr; k_ns := ns; k_uid := tr_pod_uid tr; k_sa := sa |}
       | _ => AErr
       end.

(* ClientCertAuthenticator.authenticateGrpc *)
Inductive peer_auth := PeerNone | PeerOtherAuth | PeerTLS (chains : list (list (option (list string)))).
(* a verified chain is a list of certificates; each projected to ExtractIDs of its extensions:
   None = no SAN extension / undecodable, Some ids = the SAN values as strings *)
Definition cert_authenticate (p : peer_auth) : authn_out :=
  match p with
  | PeerNone => AErr
  | PeerOtherAuth => AErr
  | PeerTLS chains =>
      match chains with
      | (Some ids :: _) :: _ => AOk ids no_kube
      | _ => AErr
      end
  end.

(* XfccAuthenticator: the address test.  [split_host_port], [parse_addr] (loopback flag) and
   [in_prefix] stand for net.SplitHostPort, netip.ParseAddr(..).IsLoopback and
   netip.ParsePrefix(cidr).Contains (Go standard library). *)
Inductive addr_shape :=
| AddrNoPort                       (* SplitHostPort fails *)
| AddrHost (is_ip : bool) (loopback : bool) (in_cidrs : list bool).
  (* host part: parses as an IP?; is loopback; for each trusted CIDR that contains "/" and parses
     as a prefix: does it contain the address (only meaningful when is_ip) *)

(* isTrustedAddress (fix 273ad34: the host is parsed once with netip.ParseAddr; a host that is not an
   IP literal is not trusted) *)
Definition is_trusted_address (a : addr_shape) : bool :=
  match a with
  | AddrNoPort => false
  | AddrHost is_ip loopback in_cidrs =>
      if is_ip then existsb (fun b => b) in_cidrs || loopback else false
  end.

(* one parsed XFCC element: URI list, DNS list, subject CN if a Subject is present *)
Record xfcc_elem := { x_uri : list string; x_dns : list string; x_subject_cn : option string }.

Definition xfcc_ids (es : list xfcc_elem) : list string :=
  flat_map (fun e => (x_uri e ++ x_dns e ++ match x_subject_cn e with Some cn => [cn] | None => [] end)%list) es.

(* XfccAuthenticator.Authenticate; [parsed] = xfccparser.ParseXFCCHeader result (None = error) *)
Definition xfcc_authenticate (remote_addr_empty header_absent : bool) (a : addr_shape)
           (parsed : option (list xfcc_elem)) : authn_out :=
  if remote_addr_empty || header_absent then AErr
  else if negb (is_trusted_address a) then AErr
  else match parsed with
       | None => AErr
       | Some [] => AErr
       | Some es => AOk (xfcc_ids es) no_kube
       end.
