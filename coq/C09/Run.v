(* Evaluation of harness cases for C09. *)
From V Require Export lib.Verdict C09.Model.
From Coq Require Import List NArith ZArith Bool String Ascii.
Import ListNotations.
Open Scope string_scope.

(* what the harness observed from Server.CreateCertificate *)
Inductive observed :=
| OPanic
| OResult (r : result)
| OOther (code : N).        (* any other gRPC status / unparsable response *)

Inductive case :=
(* the real Server.CreateCertificate: [iptab] = netip.ParseAddr on every comma piece that is an IP;
   [t0],[t1] = wall clock (ns) just before / after the call *)
| Create (id : N) (iptab : list (string * (bool * list N))) (env : auth_env) (rs : list auth_result)
         (na : option node_auth) (cfg : ca_cfg) (rq : request) (t0 t1 : Z) (obs : observed)
(* companion of a [Create] case that issued an impersonated identity outside the caller's trust
   domain: same data, checks only that part of the oracle (which [Create] leaves to this case; open
   finding C09-impersonation-trust-domain-unchecked) *)
| CreateTd (id : N) (iptab : list (string * (bool * list N))) (env : auth_env) (rs : list auth_result)
         (na : option node_auth) (cfg : ca_cfg) (rq : request) (t0 t1 : Z) (obs : observed)
(* one real Server + ClusterNodeAuthorizer kept alive over a sequence of pod events (applied through
   the fake kube client, each awaited on the authorizer's informer) and impersonation requests sent
   through CreateCertificate; [obs] = granted? per request, in order *)
| History (id : N) (trusted : list (string * string)) (ops : list hop) (obs : list bool)
(* Server.CreateCertificate over a CertificateAuthority that answers Sign / SignWithCertChain with a
   *caerror.Error of the given kind: observed gRPC status code (0 = OK, 999 = the handler panicked) *)
| ErrMap (id : N) (k : ca_err_kind) (obs : N)
(* JwtAuthenticator.Authenticate with a token carrying these claims; [verified] = the token is one
   go-oidc's verifier accepts (right issuer and key, not expired) *)
| Oidc (id : N) (verified : bool) (td : string) (audiences : list string) (sub : string) (aud : aud_claim) (obs : authn_out)
(* KubeJWTAuthenticator.Authenticate against a fake TokenReview API *)
| KubeJwt (id : N) (td : string) (client_found : bool) (tr : token_review) (obs : authn_out)
(* ClientCertAuthenticator.Authenticate *)
| CertAuth (id : N) (p : peer_auth) (obs : authn_out)
(* XfccAuthenticator.Authenticate *)
| Xfcc (id : N) (addr_empty header_absent : bool) (a : addr_shape) (parsed : option (list xfcc_elem))
       (obs : authn_out)
(* ca.NewIstioCA: effective default TTL (None = constructor error) *)
| NewCA (id : N) (default : Z) (chain_na : option Z) (t0 t1 : Z) (obs : option Z)
(* util.BuildSubjectAltNameExtension decoded back *)
| San (id : N) (iptab : list (string * (bool * list N))) (hosts : string) (obs : list san)
(* spiffe.ParseIdentity *)
| ParseId (id : N) (s : string) (obs : option (string * string * string)).

Definition case_id c :=
  match c with
  | Create id _ _ _ _ _ _ _ _ _ => id | CreateTd id _ _ _ _ _ _ _ _ _ => id | History id _ _ _ => id | ErrMap id _ _ => id | Oidc id _ _ _ _ _ _ => id | KubeJwt id _ _ _ _ => id
  | CertAuth id _ _ => id | Xfcc id _ _ _ _ _ => id | NewCA id _ _ _ _ _ => id
  | San id _ _ _ => id | ParseId id _ _ => id
  end.

(* ------------------------------------------------------------------ equality tests *)

Definition lstr_eqb := list_eqb String.eqb.
Definition ln_eqb := list_eqb N.eqb.

Definition san_eqb (a b : san) : bool :=
  match a, b with
  | SIP x, SIP y => ln_eqb x y
  | SURI x, SURI y => String.eqb x y
  | SDNS x, SDNS y => String.eqb x y
  | _, _ => false
  end.

Definition kube_eqb (a b : kube_info) : bool :=
  String.eqb (k_pod a) (k_pod b) && String.eqb (k_ns a) (k_ns b) &&
  String.eqb (k_uid a) (k_uid b) && String.eqb (k_sa a) (k_sa b).

Definition authn_eqb (a b : authn_out) : bool :=
  match a, b with
  | APanic, APanic => true
  | AErr, AErr => true
  | AOk i k, AOk j l => lstr_eqb i j && kube_eqb k l
  | _, _ => false
  end.

Definition sign_err_eqb (a b : sign_err) : bool :=
  match a, b with
  | ENotReady, ENotReady | ECsr, ECsr | ETtl, ETtl | ECertGen, ECertGen => true
  | _, _ => false
  end.

(* all fields except the two times *)
Definition cert_static_eqb (a b : cert) : bool :=
  list_eqb san_eqb (c_sans a) (c_sans b) && Bool.eqb (c_san_critical a) (c_san_critical b) &&
  String.eqb (c_cn a) (c_cn b) && Bool.eqb (c_is_ca a) (c_is_ca b) &&
  Bool.eqb (c_bc_valid a) (c_bc_valid b) && N.eqb (c_key a) (c_key b) &&
  N.eqb (c_key_usage a) (c_key_usage b) && ln_eqb (c_ext_key_usage a) (c_ext_key_usage b) &&
  Bool.eqb (c_has_aki a) (c_has_aki b) && N.eqb (c_other_exts a) (c_other_exts b).

Definition result_eqb_noissue (a b : result) : bool :=
  match a, b with
  | RUnauthenticated, RUnauthenticated => true
  | RImpersonationDenied, RImpersonationDenied => true
  | RSignError x, RSignError y => sign_err_eqb x y
  | _, _ => false
  end.

Fixpoint ip_lookup (tab : list (string * (bool * list N))) (s : string) : option (bool * list N) :=
  match tab with
  | [] => None
  | (k, v) :: r => if String.eqb k s then Some v else ip_lookup r s
  end.

Definition floor_s (z : Z) : Z := ((z / second) * second)%Z.

(* ------------------------------------------------------------------ correspondence *)

(* The certificate's times have one-second resolution and the code reads the clock itself, so the
   observed NotBefore fixes the second in which `now` fell; the model is evaluated at both ends of
   that second (cut to the measured window) and NotAfter must lie between the two predictions. *)
Definition create_model_ok iptab env rs na cfg rq (t0 t1 : Z) (obs : observed) : bool :=
  let run := create_certificate (ip_lookup iptab) env rs na cfg rq in
  match obs with
  | OPanic => false
  | OOther _ => false
  | OResult (RIssued leaf n) =>
      let s := (c_not_before leaf + clock_skew)%Z in
      let lo := Z.max s t0 in
      let hi := Z.min (s + second - 1) t1 in
      (lo <=? hi)%Z &&
      match run lo, run hi with
      | RIssued m1 n1, RIssued m2 n2 =>
          cert_static_eqb m1 leaf && N.eqb n1 n && N.eqb n2 n &&
          (floor_s (c_not_before m1) =? c_not_before leaf)%Z &&
          (floor_s (c_not_after m1) <=? c_not_after leaf)%Z &&
          (c_not_after leaf <=? floor_s (c_not_after m2))%Z
      | _, _ => false
      end
  | OResult r => result_eqb_noissue (run t0) r || result_eqb_noissue (run t1) r
  end.

Definition model_ok (c : case) : bool :=
  match c with
  | Create _ iptab env rs na cfg rq t0 t1 obs => create_model_ok iptab env rs na cfg rq t0 t1 obs
  | CreateTd _ _ _ _ _ _ _ _ _ _ => true
  | History _ trusted ops obs => list_eqb Bool.eqb (run_history trusted [] ops) obs
  | ErrMap _ k obs => N.eqb (grpc_code k) obs
  | Oidc _ verified td auds sub aud obs =>
      authn_eqb (if verified then oidc_authenticate td auds sub aud else AErr) obs
  | KubeJwt _ td found tr obs => authn_eqb (kube_jwt_authenticate td found tr) obs
  | CertAuth _ p obs => authn_eqb (cert_authenticate p) obs
  | Xfcc _ ae ha a parsed obs => authn_eqb (xfcc_authenticate ae ha a parsed) obs
  | NewCA _ d chain t0 t1 obs =>
      match obs, min_ttl d chain t1, min_ttl d chain t0 with
      | Some o, Some lo, Some hi => (lo <=? o)%Z && (o <=? hi)%Z
      | None, None, _ => true
      | None, _, None => true
      | _, _, _ => false
      end
  | San _ iptab hosts obs => list_eqb san_eqb (build_san (ip_lookup iptab) hosts) obs
  | ParseId _ s obs =>
      match parse_identity s, obs with
      | None, None => true
      | Some i, Some (td, ns, sa) => String.eqb (sp_td i) td && String.eqb (sp_ns i) ns && String.eqb (sp_sa i) sa
      | _, _ => false
      end
  end.

(* ------------------------------------------------------------------ property oracle *)

(* Spec, written independently of the code's join/split: who is authenticated and which identity
   list the certificate must carry. *)
Definition spec_auth_ok (r : auth_result) : bool :=
  match ar_caller r with
  | Some u => negb (ar_err r) && match identities u with [] => false | _ => true end
  | None => false
  end.

Definition spec_caller (env : auth_env) (rs : list auth_result) : option caller :=
  if ae_xds_auth env && ae_has_peer env && (ae_tls env || ae_plaintext env)
  then match find spec_auth_ok rs with Some r => ar_caller r | None => None end
  else None.

(* the impersonation rule of the property: a trusted node account, known pod with matching uid
   and service account, and a pod of the requested (namespace, service account) on the same node *)
Definition spec_may_impersonate (na : option node_auth) (rq : request) (u : caller) (imp : string) : bool :=
  match na with
  | None => false
  | Some a =>
      let cid := match rq_cluster_ids rq with [x] => x | _ => EmptyString end in
      match find (fun kv => String.eqb (fst kv) cid) (na_clusters a), parse_identity imp with
      | Some (_, ps), Some id =>
          let k := kinfo u in
          existsb (fun t => String.eqb (fst t) (k_ns k) && String.eqb (snd t) (k_sa k)) (na_trusted a) &&
          match find (fun p => String.eqb (p_name p) (k_pod k) && String.eqb (p_ns p) (k_ns k)) ps with
          | Some cp =>
              String.eqb (p_uid cp) (k_uid k) && String.eqb (p_sa cp) (k_sa k) &&
              negb (String.eqb (p_node cp) "") &&
              existsb (fun p => String.eqb (p_node p) (p_node cp) && String.eqb (p_ns p) (sp_ns id) &&
                                String.eqb (p_sa p) (sp_sa id) && negb (String.eqb (p_sa p) "")) ps
          | None => false
          end
      | _, _ => false
      end
  end.

Definition spec_identities (na : option node_auth) (rq : request) (u : caller) : option (list string) :=
  match find (fun kv => String.eqb (fst kv) "ImpersonatedIdentity") (rq_metadata rq) with
  | Some (_, MStr imp) =>
      if String.eqb imp "" then Some (identities u)
      else if spec_may_impersonate na rq u imp then Some [imp] else None
  | _ => Some (identities u)
  end.

(* one SAN entry per identity, nothing else *)
Definition spec_sans (ipf : ip_parser) (ids : list string) : list san := map (classify ipf) ids.

Definition ceil_s (z : Z) : Z := (((z + second - 1) / second) * second)%Z.

(* the impersonated identity must lie in the trust domain of one of the caller's authenticated
   SPIFFE identities: the trust-domain segment is not for the request metadata to choose *)
Definition spec_in_caller_td (u : caller) (imp : string) : bool :=
  match parse_identity imp with
  | Some id => existsb (fun s => match parse_identity s with
                                 | Some cid => String.eqb (sp_td cid) (sp_td id)
                                 | None => false end) (identities u)
  | None => false
  end.

Definition spec_impersonating (rq : request) : option string :=
  match find (fun kv => String.eqb (fst kv) "ImpersonatedIdentity") (rq_metadata rq) with
  | Some (_, MStr imp) => if String.eqb imp "" then None else Some imp
  | _ => None
  end.

(* [part]: 0 = everything; 1 = everything, but the trust-domain test of an impersonated identity is
   left to the companion [CreateTd] case when it fails; 2 = only that trust-domain test *)
Definition create_prop_part (part : N) iptab env rs na cfg rq (t0 t1 : Z) (obs : observed) : bool :=
  match obs with
  | OPanic => false
  | OOther _ => false
  | OResult (RIssued leaf _) =>
      match spec_caller env rs with
      | None => false                                   (* signed for an unauthenticated caller *)
      | Some u =>
          match spec_identities na rq u with
          | None => false                               (* signed an unauthorised impersonation *)
          | Some ids =>
              (match spec_impersonating rq with
               | Some imp => N.eqb part 1 || spec_in_caller_td u imp      (* impersonation stays in the caller's trust domain *)
               | None => true
               end) &&
              (N.eqb part 2 ||
              list_eqb san_eqb (c_sans leaf) (spec_sans (ip_lookup iptab) ids) &&   (* exactly the identities *)
              negb (existsb (contains_char comma) ids) &&
              negb (c_is_ca leaf) && N.eqb (N.land (c_key_usage leaf) 32) 0 &&      (* never a CA / CertSign *)
              c_bc_valid leaf &&
              N.eqb (c_key leaf) (csr_key (rq_csr rq)) &&                           (* binds the CSR key *)
              N.eqb (c_other_exts leaf) 0 &&                                        (* nothing copied from the CSR *)
              match ca_signer cfg with
              | Some sg => (c_not_after leaf <=? sg_not_after sg)%Z                 (* not beyond the signer *)
              | None => false
              end &&
              (* lifetime counted from the issuing instant is at most max(max_ttl, default) rounded
                 up to a second; with default <= max this is the configured maximum *)
              (c_not_after leaf - (c_not_before leaf + clock_skew) <=?
                 ceil_s (Z.max (ca_max_ttl cfg) (ca_default_ttl cfg)))%Z &&
              (t0 - second <? c_not_before leaf + clock_skew)%Z && (c_not_before leaf + clock_skew <=? t1)%Z)
          end
      end
  | OResult _ => true
  end.

(* history oracle, written from the property: walking the events, every GRANTED request names a
   (namespace, service account) that a pod on the caller's node has at that moment (and the caller is
   a trusted node account whose pod is known with this uid and service account) *)
Fixpoint spec_history (trusted : list (string * string)) (ps : list pod) (ops : list hop) (obs : list bool) : bool :=
  match ops with
  | [] => match obs with [] => true | _ => false end
  | HReq k imp :: r =>
      match obs with
      | [] => false
      | granted :: obs' =>
          (if granted
           then spec_may_impersonate (Some {| na_trusted := trusted; na_clusters := [("c1", ps)] |})
                  {| rq_csr := {| csr_st := CsrOk; csr_cn := ""; csr_key := 0; csr_sans := []; csr_wants_ca := false; csr_extra_exts := 0 |};
                     rq_validity := 0; rq_metadata := []; rq_cluster_ids := ["c1"] |}
                  {| identities := []; kinfo := k |} imp
           else true) && spec_history trusted ps r obs'
      end
  | HAdd p :: r =>
      spec_history trusted (p :: filter (fun q => negb (String.eqb (p_name q) (p_name p) && String.eqb (p_ns q) (p_ns p))) ps) r obs
  | HDel n ns :: r =>
      spec_history trusted (filter (fun q => negb (String.eqb (p_name q) n && String.eqb (p_ns q) ns)) ps) r obs
  end.

Definition authn_no_panic (o : authn_out) : bool := match o with APanic => false | _ => true end.

Definition prop_ok (c : case) : bool :=
  match c with
  | Create _ iptab env rs na cfg rq t0 t1 obs => create_prop_part 1 iptab env rs na cfg rq t0 t1 obs
  | CreateTd _ iptab env rs na cfg rq t0 t1 obs => create_prop_part 2 iptab env rs na cfg rq t0 t1 obs
  | History _ trusted ops obs => spec_history trusted [] ops obs
  | ErrMap _ _ obs => negb (N.eqb obs 0) && negb (N.eqb obs 999)   (* an error status: neither a certificate nor a crash *)
  | Oidc _ verified td auds sub aud obs =>
      authn_no_panic obs &&
      match obs with
      | AOk ids _ =>
          verified &&
          (* an accepted token names a service account subject and an expected audience *)
          has_prefix "system:serviceaccount" sub &&
          match aud with AudList l => existsb (fun a => existsb (String.eqb a) auds) l | AudString _ => false end &&
          match ids with [_] => true | _ => false end
      | _ => true
      end
  | KubeJwt _ td found tr obs =>
      authn_no_panic obs &&
      match obs with
      | AOk ids k =>
          found && negb (tr_api_err tr) && tr_authenticated tr && String.eqb (tr_error tr) "" &&
          existsb (String.eqb "system:serviceaccounts") (tr_groups tr) &&
          lstr_eqb ids [gen_spiffe_uri td (k_ns k) (k_sa k)]
      | _ => true
      end
  | CertAuth _ p obs =>
      authn_no_panic obs &&
      match obs, p with
      | AOk ids _, PeerTLS ((Some l :: _) :: _) => lstr_eqb ids l
      | AOk _ _, _ => false
      | _, _ => true
      end
  | Xfcc _ ae ha a parsed obs =>
      authn_no_panic obs &&
      match obs with
      | AOk _ _ =>
          negb ae && negb ha &&
          match a with
          | AddrHost true loopback ins => loopback || existsb (fun b => b) ins
          | _ => false
          end
      | _ => true
      end
  | NewCA _ d chain t0 t1 obs =>
      match obs with
      | Some o => (o <=? d)%Z && (0 <? o)%Z || (o =? d)%Z
      | None => match chain with Some na => (na <=? t1)%Z | None => false end
      end
  | San _ iptab hosts obs =>
      (* every emitted entry comes from a comma piece of the input *)
      Nat.eqb (List.length obs) (List.length (split_on comma hosts))
  | ParseId _ s obs =>
      match obs with
      | Some (td, ns, sa) => String.eqb s (uri_prefix ++ td ++ "/ns/" ++ ns ++ "/sa/" ++ sa)
      | None => true
      end
  end.

Definition mismatches := check_all case_id model_ok prop_ok.
