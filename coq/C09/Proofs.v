(* C09 proofs, part 1: strings (split/join round trip), SAN construction, signing step. *)
From Coq Require Import List NArith ZArith Bool String Ascii Lia Arith.
From V Require Import C09.Model.
Import ListNotations.
Open Scope string_scope.

(* ------------------------------------------------------------------ split / join *)

Definition no_char (c : ascii) (s : string) : Prop := contains_char c s = false.

Lemma join_cons2 : forall c x y r, join_with c (x :: y :: r) = x ++ String c (join_with c (y :: r)).
Proof. reflexivity. Qed.

Lemma split_no_char : forall c x, no_char c x -> split_on c x = [x].
Proof.
  intros c x. unfold no_char. induction x as [|a x IH]; intros H; cbn in *.
  - reflexivity.
  - apply orb_false_iff in H. destruct H as [Ha Hx]. rewrite Ha. rewrite (IH Hx). reflexivity.
Qed.

Lemma split_app_sep : forall c x r, no_char c x -> split_on c (x ++ String c r) = x :: split_on c r.
Proof.
  intros c x r. unfold no_char. induction x as [|a x IH]; intros H; cbn in *.
  - rewrite Ascii.eqb_refl. reflexivity.
  - apply orb_false_iff in H. destruct H as [Ha Hx]. rewrite Ha. rewrite (IH Hx). reflexivity.
Qed.

Lemma split_join : forall c l, l <> [] -> Forall (no_char c) l -> split_on c (join_with c l) = l.
Proof.
  intros c l. induction l as [|x l IH]; intros Hne Hall; [congruence|].
  inversion Hall as [|? ? Hx Hl]; subst.
  destruct l as [|y r].
  - cbn. apply split_no_char; assumption.
  - rewrite join_cons2. rewrite split_app_sep by assumption.
    f_equal. apply IH; [discriminate|assumption].
Qed.

(* number of separator bytes *)
Fixpoint count_char (c : ascii) (s : string) : nat :=
  match s with
  | EmptyString => 0
  | String a r => (if Ascii.eqb a c then 1 else 0) + count_char c r
  end.

Lemma split_length : forall c s, List.length (split_on c s) = S (count_char c s).
Proof.
  intros c s. induction s as [|a s IH]; cbn; [reflexivity|].
  destruct (Ascii.eqb a c); cbn.
  - rewrite IH. reflexivity.
  - destruct (split_on c s) as [|h t] eqn:E; cbn in *; [discriminate|]. lia.
Qed.

Lemma count_app : forall c a b, count_char c (a ++ b) = count_char c a + count_char c b.
Proof. intros c a b. induction a as [|x a IH]; cbn; [reflexivity|]. rewrite IH. lia. Qed.

Definition total_count (c : ascii) (l : list string) : nat :=
  fold_right (fun s n => count_char c s + n) 0 l.

Lemma count_join : forall c l, l <> [] ->
  count_char c (join_with c l) = pred (List.length l) + total_count c l.
Proof.
  intros c l. induction l as [|x l IH]; intros Hne; [congruence|].
  destruct l as [|y r].
  - cbn. lia.
  - rewrite join_cons2, count_app. cbn [count_char]. rewrite Ascii.eqb_refl.
    rewrite IH by discriminate. cbn [List.length pred total_count fold_right]. lia.
Qed.

(* the number of pieces after join+split = number of identities + number of separator bytes in them *)
Lemma split_join_length : forall c l, l <> [] ->
  List.length (split_on c (join_with c l)) = List.length l + total_count c l.
Proof.
  intros c l Hne. rewrite split_length, count_join by assumption.
  destruct l; [congruence|]. cbn [List.length pred]. lia.
Qed.

Lemma contains_count : forall c s, contains_char c s = true <-> count_char c s > 0.
Proof.
  intros c s. induction s as [|a s IH]; cbn.
  - split; [discriminate|intros H; exfalso; inversion H].
  - destruct (Ascii.eqb a c); cbn [orb plus].
    + split; intros _; [apply Nat.lt_0_succ|reflexivity].
    + exact IH.
Qed.

Lemma total_count_pos : forall c l, Exists (fun s => contains_char c s = true) l -> total_count c l > 0.
Proof.
  intros c l H. unfold total_count. induction H as [x l Hx|x l _ IH]; cbn [fold_right].
  - apply contains_count in Hx. lia.
  - lia.
Qed.

(* ------------------------------------------------------------------ SAN construction *)

Lemma build_san_exact : forall ipf ids, ids <> [] -> Forall (no_char comma) ids ->
  build_san ipf (join_with comma ids) = map (classify ipf) ids.
Proof. intros ipf ids Hne Hall. unfold build_san. rewrite split_join by assumption. reflexivity. Qed.

Lemma build_san_length : forall ipf ids, ids <> [] ->
  List.length (build_san ipf (join_with comma ids)) = List.length ids + total_count comma ids.
Proof. intros. unfold build_san. rewrite map_length. apply split_join_length. assumption. Qed.

Lemma comma_always_adds : forall ipf ids,
  ids <> [] -> Exists (fun s => contains_char comma s = true) ids ->
  List.length (build_san ipf (join_with comma ids)) > List.length ids.
Proof.
  intros ipf ids Hne Hex. rewrite (build_san_length ipf ids Hne).
  pose proof (total_count_pos comma ids Hex). apply PeanoNat.Nat.lt_add_pos_r. exact H.
Qed.

(* ------------------------------------------------------------------ the signing step *)

Lemma ca_sign_inv : forall ipf cfg c ids req for_ca now crt,
  ca_sign ipf cfg c ids req for_ca now = inr crt ->
  exists sg,
    ca_signer cfg = Some sg /\ csr_st c = CsrOk /\ (req <= ca_max_ttl cfg)%Z /\ (now < sg_not_after sg)%Z /\
    existsb (contains_char comma) ids = false /\
    let lifetime := if (req <=? 0)%Z then ca_default_ttl cfg else req in
    crt = {| c_sans := build_san ipf (join_with comma ids);
             c_san_critical := true;
             c_cn := if Nat.eqb (String.length (csr_cn c)) 0 then EmptyString
                     else match dual_use_cn (join_with comma ids) with Some x => x | None => EmptyString end;
             c_is_ca := for_ca;
             c_bc_valid := true;
             c_key := csr_key c;
             c_key_usage := if for_ca then 32%N else 5%N;
             c_ext_key_usage := if for_ca then [] else [1%N; 2%N];
             c_not_before := (now - clock_skew)%Z;
             c_not_after := if (sg_not_after sg <=? now + lifetime)%Z then sg_not_after sg else (now + lifetime)%Z;
             c_has_aki := sg_has_ski sg;
             c_other_exts := 0%N |}.
Proof.
  intros ipf cfg c ids req for_ca now crt H. unfold ca_sign in H.
  destruct (ca_signer cfg) as [sg|]; [|discriminate].
  destruct (csr_st c) eqn:Est; try discriminate.
  destruct (ca_max_ttl cfg <? req)%Z eqn:Emax; [discriminate|].
  unfold gen_cert_template in H.
  destruct (existsb (contains_char comma) ids) eqn:Ecomma; [discriminate|].
  destruct (sg_not_after sg <=? now)%Z eqn:Eexp; [discriminate|].
  exists sg. repeat split; try reflexivity.
  - apply Z.ltb_ge in Emax. exact Emax.
  - apply Z.leb_gt in Eexp. exact Eexp.
  - cbv zeta. inversion H. reflexivity.
Qed.

Lemma ca_sign_not_ca : forall ipf cfg c ids req now crt,
  ca_sign ipf cfg c ids req false now = inr crt ->
  c_is_ca crt = false /\ N.land (c_key_usage crt) 32 = 0%N /\ c_bc_valid crt = true.
Proof.
  intros ipf cfg c ids req now crt H.
  destruct (ca_sign_inv _ _ _ _ _ _ _ _ H) as (sg & _ & _ & _ & _ & _ & Hc). cbv zeta in Hc. subst crt. cbn. auto.
Qed.

Lemma no_comma_forall : forall ids, existsb (contains_char comma) ids = false -> Forall (no_char comma) ids.
Proof.
  induction ids as [|x l IH]; cbn; intros H; constructor.
  - apply orb_false_iff in H. exact (proj1 H).
  - apply IH. apply orb_false_iff in H. exact (proj2 H).
Qed.

Lemma exists_comma_existsb : forall ids, Exists (fun s => contains_char comma s = true) ids ->
  existsb (contains_char comma) ids = true.
Proof. intros ids H. apply existsb_exists. apply Exists_exists in H. exact H. Qed.

(* a subject ID with a comma is never signed: the outcome is the certificate-generation error *)
Lemma ca_sign_comma_refused : forall ipf cfg c ids req for_ca now,
  Exists (fun s => contains_char comma s = true) ids ->
  exists e, ca_sign ipf cfg c ids req for_ca now = inl e.
Proof.
  intros ipf cfg c ids req for_ca now H. apply exists_comma_existsb in H. unfold ca_sign.
  destruct (ca_signer cfg) as [sg|]; [|eexists; reflexivity].
  destruct (csr_st c); try (eexists; reflexivity).
  destruct (ca_max_ttl cfg <? req)%Z; [eexists; reflexivity|].
  unfold gen_cert_template. rewrite H. eexists; reflexivity.
Qed.

(* TTL policy: lifetime from the issuing instant and the signer clamp *)
Lemma ca_sign_ttl : forall ipf cfg c ids req for_ca now crt,
  ca_sign ipf cfg c ids req for_ca now = inr crt ->
  exists sg, ca_signer cfg = Some sg /\
    (c_not_after crt <= sg_not_after sg)%Z /\
    (c_not_after crt - now <= Z.max (ca_max_ttl cfg) (ca_default_ttl cfg))%Z /\
    (ca_default_ttl cfg <= ca_max_ttl cfg -> c_not_after crt - now <= ca_max_ttl cfg)%Z /\
    (0 < ca_default_ttl cfg -> now < c_not_after crt)%Z /\
    c_not_before crt = (now - clock_skew)%Z.
Proof.
  intros ipf cfg c ids req for_ca now crt H.
  destruct (ca_sign_inv _ _ _ _ _ _ _ _ H) as (sg & Hsg & _ & Hmax & Hnow & _ & Hc). cbv zeta in Hc.
  exists sg. split; [exact Hsg|]. subst crt. cbn [c_not_after c_not_before].
  destruct (req <=? 0)%Z eqn:Er;
    [apply Z.leb_le in Er|apply Z.leb_gt in Er];
    match goal with |- context [(sg_not_after sg <=? ?x)%Z] => destruct (sg_not_after sg <=? x)%Z eqn:Ec end;
    try apply Z.leb_le in Ec; try apply Z.leb_gt in Ec; repeat split; intros; lia.
Qed.

(* IstioCA.minTTL: the effective default never exceeds the configured one nor the chain's remaining life *)
Lemma min_ttl_bound : forall d chain now0 t,
  min_ttl d chain now0 = Some t ->
  (t <= d)%Z /\ (forall na, chain = Some na -> t <= na - now0 /\ 0 < na - now0)%Z /\
  (t = d \/ exists na, chain = Some na /\ t = na - now0)%Z.
Proof.
  intros d chain now0 t H. unfold min_ttl in H. destruct chain as [na|].
  - destruct (na - now0 <=? 0)%Z eqn:E0; [discriminate|]. apply Z.leb_gt in E0.
    destruct (na - now0 <? d)%Z eqn:E1; inversion H; subst;
      [apply Z.ltb_lt in E1|apply Z.ltb_ge in E1].
    + split; [lia|]. split.
      * intros na' Heq. inversion Heq; subst. lia.
      * right. exists na. split; reflexivity.
    + split; [lia|]. split.
      * intros na' Heq. inversion Heq; subst. lia.
      * left; reflexivity.
  - inversion H; subst. split; [lia|]. split; [intros na' Heq; discriminate|left; reflexivity].
Qed.

Lemma min_ttl_expired : forall d na now0, (na <= now0)%Z -> min_ttl d (Some na) now0 = None.
Proof. intros. unfold min_ttl. destruct (na - now0 <=? 0)%Z eqn:E; [reflexivity|]. apply Z.leb_gt in E. lia. Qed.
