(* C09 proofs, part 4: histories of one long-lived node authorizer. *)
From Coq Require Import List NArith ZArith Bool String Ascii Lia Arith.
From V Require Import C09.Model C09.Proofs C09.Proofs2.
Import ListNotations.
Open Scope string_scope.

Definition world_after (ps : list pod) (ops : list hop) : list pod := fold_left world_step ops ps.

(* the outcome of every request is the impersonation gate evaluated on the world as it is at that
   moment: it depends on the earlier operations only through the current set of pods *)
Lemma history_outcome : forall trusted ops1 ps k imp ops2,
  nth_error (run_history trusted ps (ops1 ++ HReq k imp :: ops2)) (count_reqs ops1)
  = Some (cluster_authenticate_impersonation trusted (world_after ps ops1) k imp).
Proof.
  intros trusted ops1. induction ops1 as [|op r IH]; intros ps k imp ops2.
  - reflexivity.
  - destruct op as [p|n ns|k' imp']; cbn [app run_history count_reqs world_after fold_left].
    + apply IH.
    + apply IH.
    + cbn [nth_error world_step]. apply IH.
Qed.

(* two histories that lead to the same pods answer the next request alike *)
Lemma history_current_world_only : forall trusted psa opsa psb opsb k imp resta restb,
  world_after psa opsa = world_after psb opsb ->
  nth_error (run_history trusted psa (opsa ++ HReq k imp :: resta)) (count_reqs opsa) =
  nth_error (run_history trusted psb (opsb ++ HReq k imp :: restb)) (count_reqs opsb).
Proof. intros. rewrite !history_outcome. rewrite H. reflexivity. Qed.

(* a granted request is justified by pods that exist NOW *)
Lemma history_grant_justified : forall trusted ops1 ps k imp ops2,
  nth_error (run_history trusted ps (ops1 ++ HReq k imp :: ops2)) (count_reqs ops1) = Some true ->
  impersonation_justified {| na_trusted := trusted; na_clusters := [("c", world_after ps ops1)] |} "c" k imp.
Proof.
  intros trusted ops1 ps k imp ops2 H. rewrite history_outcome in H. inversion H as [Hc].
  apply authenticate_impersonation_sound. unfold authenticate_impersonation.
  cbn [na_clusters na_trusted find_cluster]. rewrite String.eqb_refl. exact Hc.
Qed.

(* once no pod with the requested (namespace, service account) is left on the caller's node, the
   request is denied, whatever was granted before *)
Lemma history_revoked : forall trusted ops1 ps k imp ops2,
  (forall cp id, get_pod (k_pod k) (k_ns k) (world_after ps ops1) = Some cp -> parse_identity imp = Some id ->
                 index_has (world_after ps ops1) (p_node cp) (sp_ns id) (sp_sa id) = false) ->
  nth_error (run_history trusted ps (ops1 ++ HReq k imp :: ops2)) (count_reqs ops1) = Some false.
Proof.
  intros trusted ops1 ps k imp ops2 H. rewrite history_outcome. f_equal.
  unfold cluster_authenticate_impersonation.
  destruct (negb (pair_in (k_ns k) (k_sa k) trusted)); [reflexivity|].
  destruct (parse_identity imp) as [id|] eqn:Eid; [|reflexivity].
  destruct (get_pod (k_pod k) (k_ns k) (world_after ps ops1)) as [cp|] eqn:Ecp; [|reflexivity].
  destruct (negb (String.eqb (p_uid cp) (k_uid k))); [reflexivity|].
  destruct (negb (String.eqb (p_sa cp) (k_sa k))); [reflexivity|].
  apply (H cp id); reflexivity.
Qed.

(* the three-step history of seeded change C09-2: grant, workload leaves the node, same request again *)
Example history_grant_then_revoke :
  run_history [("istio-system", "ztunnel")] []
    [ HAdd {| p_name := "ztunnel-a"; p_ns := "istio-system"; p_sa := "ztunnel"; p_node := "n1"; p_uid := "u1" |};
      HAdd {| p_name := "bar-1"; p_ns := "foo"; p_sa := "bar"; p_node := "n1"; p_uid := "u2" |};
      HReq {| k_pod := "ztunnel-a"; k_ns := "istio-system"; k_uid := "u1"; k_sa := "ztunnel" |} "spiffe://cluster.local/ns/foo/sa/bar";
      HAdd {| p_name := "bar-1"; p_ns := "foo"; p_sa := "bar"; p_node := "n2"; p_uid := "u2" |};
      HReq {| k_pod := "ztunnel-a"; k_ns := "istio-system"; k_uid := "u1"; k_sa := "ztunnel" |} "spiffe://cluster.local/ns/foo/sa/bar";
      HDel "bar-1" "foo";
      HReq {| k_pod := "ztunnel-a"; k_ns := "istio-system"; k_uid := "u1"; k_sa := "ztunnel" |} "spiffe://cluster.local/ns/foo/sa/bar" ]
  = [true; false; false].
Proof. vm_compute. reflexivity. Qed.

(* every CA error kind is answered with an error status (InvalidArgument or Internal), never OK *)
Lemma grpc_code_is_error : forall k, grpc_code k = 3%N \/ grpc_code k = 13%N.
Proof. destruct k; cbn; auto. Qed.
