(* C09 property theorems only.  [ipf] (what net/netip.ParseAddr says about a string) is universally
   quantified everywhere: the theorems hold for every IP parser. *)
From Coq Require Import List NArith ZArith Bool String Ascii.
From V Require Import lib.Verdict C09.Model C09.Proofs C09.Proofs2 C09.Proofs3 C09.Proofs4.
Import ListNotations.
Open Scope string_scope.

(* ---- authentication is required *)

Theorem C09_unauthenticated_rejected : forall ipf e rs na cfg rq now,
  authenticate e rs = None -> create_certificate ipf e rs na cfg rq now = RUnauthenticated.
Proof. exact create_unauthenticated. Qed.
Print Assumptions C09_unauthenticated_rejected.

(* a certificate is only issued when XDS auth is on, the peer is known, the transport is TLS (or
   plaintext auth is enabled) and some configured authenticator returned a caller with at least
   one identity and no error *)
Theorem C09_issued_only_for_authenticated : forall ipf e rs na cfg rq now leaf n,
  create_certificate ipf e rs na cfg rq now = RIssued leaf n ->
  ae_xds_auth e = true /\ ae_has_peer e = true /\ (ae_tls e = true \/ ae_plaintext e = true) /\
  exists r u, In r rs /\ ar_caller r = Some u /\ ar_err r = false /\ identities u <> [].
Proof. exact create_requires_authentication. Qed.
Print Assumptions C09_issued_only_for_authenticated.

Theorem C09_no_successful_authenticator_no_caller : forall rs,
  (forall r, In r rs -> ar_caller r = None \/ ar_err r = true \/
                        (exists u, ar_caller r = Some u /\ identities u = [])) ->
  am_authenticate rs = None.
Proof. exact am_authenticate_none. Qed.
Print Assumptions C09_no_successful_authenticator_no_caller.

(* ---- the SANs *)

(* Headline: the signed identity list is the authenticated caller's identities, or the one
   impersonated identity for which the node-authorizer conditions hold; no selected identity contains
   a comma and the SAN extension is entry-for-entry that list (one SAN entry per identity). *)
Theorem C09_sans_exact : forall ipf e rs na cfg rq now leaf n,
  create_certificate ipf e rs na cfg rq now = RIssued leaf n ->
  exists u ids,
    authenticate e rs = Some u /\ ids <> [] /\
    ((imp_of rq = EmptyString /\ ids = identities u) \/
     (exists a, na = Some a /\ imp_of rq <> EmptyString /\ ids = [imp_of rq] /\
                impersonation_justified a (extract_cluster_id (rq_cluster_ids rq)) (kinfo u) (imp_of rq))) /\
    Forall (no_char comma) ids /\
    c_sans leaf = map (classify ipf) ids.
Proof. exact create_sans. Qed.
Print Assumptions C09_sans_exact.

(* an identity with a comma -- authenticated or taken from the ImpersonatedIdentity metadata -- is an
   error outcome, never a certificate (fixed finding C09-K4-comma-identity-extra-sans, 5484dbd) *)
Theorem C09_comma_identity_refused : forall ipf e rs na cfg rq now u ids,
  authenticate e rs = Some u -> select_sans na u rq = Some ids ->
  Exists (fun s => contains_char comma s = true) ids ->
  exists err, create_certificate ipf e rs na cfg rq now = RSignError err.
Proof. exact create_comma_refused. Qed.
Print Assumptions C09_comma_identity_refused.

(* Open finding C09-impersonation-trust-domain-unchecked: the node authorizer justifies only the
   (namespace, service account) of the impersonated identity; its trust-domain segment is taken from
   the request metadata.  Full statement ("the impersonated identity lies in the trust domain the
   caller was authenticated in") refuted; what does hold is C09_impersonation_in_caller_trust_domain_partial. *)
Theorem C09_impersonation_in_caller_trust_domain_refuted :
  exists ipf e rs a cfg rq now leaf n u,
    create_certificate ipf e rs (Some a) cfg rq now = RIssued leaf n /\
    authenticate e rs = Some u /\
    impersonation_justified a (extract_cluster_id (rq_cluster_ids rq)) (kinfo u) (imp_of rq) /\
    c_sans leaf = [SURI "spiffe://other.td/ns/foo/sa/bar"] /\
    identities u = ["spiffe://cluster.local/ns/istio-system/sa/ztunnel"] /\
    ~ in_caller_trust_domain u (imp_of rq).
Proof. exact impersonation_trust_domain_refuted. Qed.
Print Assumptions C09_impersonation_in_caller_trust_domain_refuted.

(* partial: namespace and service account of a granted impersonation are those of a workload on the
   caller's node, in the caller's cluster; nothing is said about the trust domain *)
Theorem C09_impersonation_in_caller_trust_domain_partial : forall a cid k imp,
  authenticate_impersonation a cid k imp = true -> impersonation_justified a cid k imp.
Proof. exact authenticate_impersonation_sound. Qed.
Print Assumptions C09_impersonation_in_caller_trust_domain_partial.

(* the round trip the SAN construction relies on, and why a comma could not be represented *)
Theorem C09_split_join_roundtrip : forall c l, l <> [] -> Forall (no_char c) l ->
  split_on c (join_with c l) = l.
Proof. exact split_join. Qed.
Print Assumptions C09_split_join_roundtrip.

Theorem C09_comma_always_adds_entries : forall ipf ids,
  ids <> [] -> Exists (fun s => contains_char comma s = true) ids ->
  List.length (build_san ipf (join_with comma ids)) > List.length ids.
Proof. exact comma_always_adds. Qed.
Print Assumptions C09_comma_always_adds_entries.

(* History form of the impersonation gate, for ALL sequences of pod events and requests on one
   long-lived authorizer: the outcome of each request is the gate evaluated on the pods that exist at
   that moment -- it depends on earlier events and earlier grants only through the current world. *)
Theorem C09_impersonation_gate_history : forall trusted ops1 ps k imp ops2,
  nth_error (run_history trusted ps (ops1 ++ HReq k imp :: ops2)) (count_reqs ops1)
  = Some (cluster_authenticate_impersonation trusted (world_after ps ops1) k imp).
Proof. exact history_outcome. Qed.
Print Assumptions C09_impersonation_gate_history.

Theorem C09_history_current_world_only : forall trusted psa opsa psb opsb k imp resta restb,
  world_after psa opsa = world_after psb opsb ->
  nth_error (run_history trusted psa (opsa ++ HReq k imp :: resta)) (count_reqs opsa) =
  nth_error (run_history trusted psb (opsb ++ HReq k imp :: restb)) (count_reqs opsb).
Proof. exact history_current_world_only. Qed.
Print Assumptions C09_history_current_world_only.

(* a grant at any point of a history is justified by pods on the caller's node NOW ... *)
Theorem C09_history_grant_justified_now : forall trusted ops1 ps k imp ops2,
  nth_error (run_history trusted ps (ops1 ++ HReq k imp :: ops2)) (count_reqs ops1) = Some true ->
  impersonation_justified {| na_trusted := trusted; na_clusters := [("c", world_after ps ops1)] |} "c" k imp.
Proof. exact history_grant_justified. Qed.
Print Assumptions C09_history_grant_justified_now.

(* ... and once no pod with the requested (namespace, service account) is left on the caller's node
   the request is denied, whatever was granted before *)
Theorem C09_history_revoked_when_workload_leaves : forall trusted ops1 ps k imp ops2,
  (forall cp id, get_pod (k_pod k) (k_ns k) (world_after ps ops1) = Some cp -> parse_identity imp = Some id ->
                 index_has (world_after ps ops1) (p_node cp) (sp_ns id) (sp_sa id) = false) ->
  nth_error (run_history trusted ps (ops1 ++ HReq k imp :: ops2)) (count_reqs ops1) = Some false.
Proof. exact history_revoked. Qed.
Print Assumptions C09_history_revoked_when_workload_leaves.

(* nothing in the CSR beyond (validity of the CSR, whether it has a CN, its public key) and nothing
   in the metadata beyond the ImpersonatedIdentity string influences the outcome *)
Theorem C09_independent_of_csr_and_metadata : forall ipf e rs na cfg now c1 c2 v md1 md2 cl,
  csr_st c1 = csr_st c2 -> csr_key c1 = csr_key c2 ->
  Nat.eqb (String.length (csr_cn c1)) 0 = Nat.eqb (String.length (csr_cn c2)) 0 ->
  get_string_value (md_get "ImpersonatedIdentity" md1) = get_string_value (md_get "ImpersonatedIdentity" md2) ->
  create_certificate ipf e rs na cfg {| rq_csr := c1; rq_validity := v; rq_metadata := md1; rq_cluster_ids := cl |} now =
  create_certificate ipf e rs na cfg {| rq_csr := c2; rq_validity := v; rq_metadata := md2; rq_cluster_ids := cl |} now.
Proof. exact create_independent. Qed.
Print Assumptions C09_independent_of_csr_and_metadata.

(* every error kind a CertificateAuthority can report is mapped to an error status, never to OK *)
Theorem C09_ca_error_is_error_status : forall k, grpc_code k = 3%N \/ grpc_code k = 13%N.
Proof. exact grpc_code_is_error. Qed.
Print Assumptions C09_ca_error_is_error_status.

(* ---- never a CA, binds the CSR key *)

Theorem C09_not_ca : forall ipf e rs na cfg rq now leaf n,
  create_certificate ipf e rs na cfg rq now = RIssued leaf n ->
  c_is_ca leaf = false /\ N.land (c_key_usage leaf) 32 = 0%N /\ c_bc_valid leaf = true.
Proof. exact create_not_ca. Qed.
Print Assumptions C09_not_ca.

Theorem C09_binds_csr_key : forall ipf e rs na cfg rq now leaf n,
  create_certificate ipf e rs na cfg rq now = RIssued leaf n ->
  c_key leaf = csr_key (rq_csr rq) /\ c_other_exts leaf = 0%N /\ c_san_critical leaf = true /\
  c_ext_key_usage leaf = [1%N; 2%N] /\ c_key_usage leaf = 5%N.
Proof. exact create_binds_key. Qed.
Print Assumptions C09_binds_csr_key.

(* ---- validity *)

(* for every requested TTL (any int64 number of seconds, including values whose conversion to
   nanoseconds wraps): never beyond the signer, lifetime from the issuing instant at most
   max(max_ttl, default_ttl), i.e. at most max_ttl for a configuration with default <= max *)
Theorem C09_ttl : forall ipf e rs na cfg rq now leaf n,
  create_certificate ipf e rs na cfg rq now = RIssued leaf n ->
  exists sg, ca_signer cfg = Some sg /\
    (c_not_after leaf <= sg_not_after sg)%Z /\
    (c_not_after leaf - now <= Z.max (ca_max_ttl cfg) (ca_default_ttl cfg))%Z /\
    (ca_default_ttl cfg <= ca_max_ttl cfg -> c_not_after leaf - now <= ca_max_ttl cfg)%Z /\
    (0 < ca_default_ttl cfg -> now < c_not_after leaf)%Z /\
    c_not_before leaf = (now - clock_skew)%Z.
Proof. exact create_ttl. Qed.
Print Assumptions C09_ttl.

(* NewIstioCA: the effective default TTL never exceeds the configured default nor the remaining
   life of the cert chain; an expired chain is an error *)
Theorem C09_default_ttl_bounded_by_chain : forall d chain now0 t,
  min_ttl d chain now0 = Some t ->
  (t <= d)%Z /\ (forall na, chain = Some na -> t <= na - now0 /\ 0 < na - now0)%Z /\
  (t = d \/ exists na, chain = Some na /\ t = na - now0)%Z.
Proof. exact min_ttl_bound. Qed.
Print Assumptions C09_default_ttl_bounded_by_chain.

Theorem C09_expired_chain_rejected : forall d na now0, (na <= now0)%Z -> min_ttl d (Some na) now0 = None.
Proof. exact min_ttl_expired. Qed.
Print Assumptions C09_expired_chain_rejected.

(* ---- authenticators: error rather than crash *)

(* no token crashes the OIDC authenticator (fixed finding C09-K4-oidc-short-sub-panic, b1796d6);
   a sub with fewer than four ':'-separated parts is an error *)
Theorem C09_oidc_total : forall td auds sub aud, oidc_authenticate td auds sub aud <> APanic.
Proof. exact oidc_total. Qed.
Print Assumptions C09_oidc_total.

Theorem C09_oidc_short_sub_is_error : forall td auds sub aud,
  List.length (split_on colon sub) < 4 -> oidc_authenticate td auds sub aud = AErr.
Proof. exact oidc_short_sub_err. Qed.
Print Assumptions C09_oidc_short_sub_is_error.

(* which sub strings are accepted, and the identity they yield *)
Theorem C09_oidc_sub_accepted : forall td auds sub aud ids k,
  oidc_authenticate td auds sub aud = AOk ids k ->
  exists l ns sa, aud = AudList l /\ has_prefix "system:serviceaccount" sub = true /\
    nth_error (split_on colon sub) 2 = Some ns /\ nth_error (split_on colon sub) 3 = Some sa /\
    check_audience l auds = true /\ ids = [gen_spiffe_uri td ns sa] /\ k = no_kube.
Proof. exact oidc_ok_inv. Qed.
Print Assumptions C09_oidc_sub_accepted.

Theorem C09_kube_jwt_total : forall td found tr, kube_jwt_authenticate td found tr <> APanic.
Proof. exact kube_jwt_total. Qed.
Print Assumptions C09_kube_jwt_total.

Theorem C09_kube_jwt_identity : forall td found tr ids k,
  kube_jwt_authenticate td found tr = AOk ids k ->
  found = true /\ tr_api_err tr = false /\ tr_error tr = EmptyString /\ tr_authenticated tr = true /\
  str_in "system:serviceaccounts" (tr_groups tr) = true /\
  k_ns k <> EmptyString /\ k_sa k <> EmptyString /\
  (exists a b, split_on colon (tr_username tr) = [a; b; k_ns k; k_sa k]) /\
  ids = [gen_spiffe_uri td (k_ns k) (k_sa k)].
Proof. exact kube_jwt_ok_inv. Qed.
Print Assumptions C09_kube_jwt_identity.

Theorem C09_client_cert_total : forall p, cert_authenticate p <> APanic.
Proof. exact cert_total. Qed.
Print Assumptions C09_client_cert_total.

(* no peer address crashes the XFCC authenticator (fixed finding C09-K11-xfcc-non-ip-peer-panic,
   273ad34); a host that is not an IP literal is untrusted *)
Theorem C09_xfcc_total : forall ae ha a parsed, xfcc_authenticate ae ha a parsed <> APanic.
Proof. exact xfcc_total. Qed.
Print Assumptions C09_xfcc_total.

Theorem C09_xfcc_non_ip_peer_untrusted : forall ae ha lb ins parsed,
  xfcc_authenticate ae ha (AddrHost false lb ins) parsed = AErr.
Proof. exact xfcc_non_ip_untrusted. Qed.
Print Assumptions C09_xfcc_non_ip_peer_untrusted.

(* an XFCC header is believed only from a loopback peer or a peer inside a trusted CIDR *)
Theorem C09_xfcc_only_trusted_peers : forall ae ha a parsed ids k,
  xfcc_authenticate ae ha a parsed = AOk ids k ->
  ae = false /\ ha = false /\
  (exists lb ins, a = AddrHost true lb ins /\ (lb = true \/ existsb (fun b => b) ins = true)) /\
  exists es, parsed = Some es /\ es <> [] /\ ids = xfcc_ids es.
Proof. exact xfcc_ok_inv. Qed.
Print Assumptions C09_xfcc_only_trusted_peers.

(* ---- hypotheses are satisfiable / witnesses *)

Example C09_ex_issued :
  exists leaf n, create_certificate no_ip w_env [{| ar_caller := Some w_zt; ar_err := false |}] None w_cfg (w_rq "") w_now
                 = RIssued leaf n /\ c_sans leaf = [SURI "spiffe://cluster.local/ns/istio-system/sa/ztunnel"] /\
                 c_not_after leaf = (w_now + 3600 * second)%Z.
Proof. exact sat_issued_exact. Qed.

Example C09_ex_good_impersonation :
  issued_sans (create_certificate no_ip w_env [{| ar_caller := Some w_zt; ar_err := false |}] (Some w_world) w_cfg
                 (w_rq w_good_imp) w_now) = Some [SURI w_good_imp].
Proof. exact witness_good_impersonation. Qed.

Example C09_ex_comma_impersonation_refused :
  create_certificate no_ip w_env [{| ar_caller := Some w_zt; ar_err := false |}] (Some w_world) w_cfg
                 (w_rq w_evil_imp) w_now = RSignError ECertGen.
Proof. exact (proj2 witness_impersonation_comma_refused). Qed.

Example C09_ex_roundtrip_premise : Forall (no_char comma) ["spiffe://cluster.local/ns/foo/sa/bar"; "10.1.2.3"].
Proof. repeat constructor. Qed.
