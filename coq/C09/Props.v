(* C09 property theorems only.  [ipf] (what net/netip.ParseAddr says about a string) is universally
   quantified everywhere: the theorems hold for every IP parser. *)
From Coq Require Import List NArith ZArith Bool String Ascii.
From V Require Import lib.Verdict C09.Model C09.Proofs C09.Proofs2 C09.Proofs3.
Import ListNotations.
Open Scope string_scope.

(* ---- authentication is required *)

Theorem C09_unauthenticated_rejected : forall ipf e rs na cfg rq now,
  authenticate e rs = None -> create_certificate ipf e rs na cfg rq now = RUnauthenticated.
Proof. exact create_unauthenticated. Qed.
Print Assumptions C09_unauthenticated_rejected.

(* a certificate is only issued when XDS auth is on, the peer is known, the transport is TLS (or
   plaintext auth is enabled) and some configured authenticator returned a caller with at least
   one identity and no error *)
Theorem C09_issued_only_for_authenticated : forall ipf e rs na cfg rq now leaf n,
  create_certificate ipf e rs na cfg rq now = RIssued leaf n ->
  ae_xds_auth e = true /\ ae_has_peer e = true /\ (ae_tls e = true \/ ae_plaintext e = true) /\
  exists r u, In r rs /\ ar_caller r = Some u /\ ar_err r = false /\ identities u <> [].
Proof. exact create_requires_authentication. Qed.
Print Assumptions C09_issued_only_for_authenticated.

Theorem C09_no_successful_authenticator_no_caller : forall rs,
  (forall r, In r rs -> ar_caller r = None \/ ar_err r = true \/
                        (exists u, ar_caller r = Some u /\ identities u = [])) ->
  am_authenticate rs = None.
Proof. exact am_authenticate_none. Qed.
Print Assumptions C09_no_successful_authenticator_no_caller.

(* ---- the SANs *)

(* Headline, partial: the signed identity list is the authenticated caller's identities, or the one
   impersonated identity for which the node-authorizer conditions hold; the SAN extension is built
   from exactly that list, has (number of identities + number of commas inside them) entries, and
   is entry-for-entry that list when no selected identity contains a comma. *)
Theorem C09_sans_exact_partial : forall ipf e rs na cfg rq now leaf n,
  create_certificate ipf e rs na cfg rq now = RIssued leaf n ->
  exists u ids,
    authenticate e rs = Some u /\ ids <> [] /\
    ((imp_of rq = EmptyString /\ ids = identities u) \/
     (exists a, na = Some a /\ imp_of rq <> EmptyString /\ ids = [imp_of rq] /\
                impersonation_justified a (extract_cluster_id (rq_cluster_ids rq)) (kinfo u) (imp_of rq))) /\
    c_sans leaf = build_san ipf (join_with comma ids) /\
    List.length (c_sans leaf) = List.length ids + total_count comma ids /\
    (Forall (no_char comma) ids -> c_sans leaf = map (classify ipf) ids).
Proof. exact create_sans. Qed.
Print Assumptions C09_sans_exact_partial.

(* the full statement (without the comma premise) is false of the code: finding C09-K4-comma-identity-extra-sans *)
Theorem C09_sans_exact_refuted :
  exists ipf e rs na cfg rq now leaf n u,
    create_certificate ipf e rs na cfg rq now = RIssued leaf n /\
    authenticate e rs = Some u /\ imp_of rq = EmptyString /\
    c_sans leaf <> map (classify ipf) (identities u).
Proof. exact sans_exact_refuted. Qed.
Print Assumptions C09_sans_exact_refuted.

(* ... and request metadata CAN add an identity: a justified impersonation of (foo, bar) issues a
   certificate that also carries the DNS name of istiod *)
Theorem C09_impersonation_adds_identity_refuted :
  exists ipf e rs a cfg rq now leaf n u id,
    create_certificate ipf e rs (Some a) cfg rq now = RIssued leaf n /\
    authenticate e rs = Some u /\
    impersonation_justified a (extract_cluster_id (rq_cluster_ids rq)) (kinfo u) (imp_of rq) /\
    parse_identity (imp_of rq) = Some id /\ sp_ns id = "foo" /\ sp_sa id = "bar" /\
    In (SDNS "istiod.istio-system.svc") (c_sans leaf) /\
    ~ In "istiod.istio-system.svc" (identities u) /\
    List.length (c_sans leaf) = 3.
Proof. exact impersonation_adds_identity_refuted. Qed.
Print Assumptions C09_impersonation_adds_identity_refuted.

(* the round trip the SAN construction relies on, and how it fails *)
Theorem C09_split_join_roundtrip : forall c l, l <> [] -> Forall (no_char c) l ->
  split_on c (join_with c l) = l.
Proof. exact split_join. Qed.
Print Assumptions C09_split_join_roundtrip.

Theorem C09_comma_always_adds_entries : forall ipf ids,
  ids <> [] -> Exists (fun s => contains_char comma s = true) ids ->
  List.length (build_san ipf (join_with comma ids)) > List.length ids.
Proof. exact comma_always_adds. Qed.
Print Assumptions C09_comma_always_adds_entries.

(* the impersonation gate *)
Theorem C09_impersonation_gate : forall a cid k imp,
  authenticate_impersonation a cid k imp = true -> impersonation_justified a cid k imp.
Proof. exact authenticate_impersonation_sound. Qed.
Print Assumptions C09_impersonation_gate.

(* nothing in the CSR beyond (validity of the CSR, whether it has a CN, its public key) and nothing
   in the metadata beyond the ImpersonatedIdentity string influences the outcome *)
Theorem C09_independent_of_csr_and_metadata : forall ipf e rs na cfg now c1 c2 v md1 md2 cl,
  csr_st c1 = csr_st c2 -> csr_key c1 = csr_key c2 ->
  Nat.eqb (String.length (csr_cn c1)) 0 = Nat.eqb (String.length (csr_cn c2)) 0 ->
  get_string_value (md_get "ImpersonatedIdentity" md1) = get_string_value (md_get "ImpersonatedIdentity" md2) ->
  create_certificate ipf e rs na cfg {| rq_csr := c1; rq_validity := v; rq_metadata := md1; rq_cluster_ids := cl |} now =
  create_certificate ipf e rs na cfg {| rq_csr := c2; rq_validity := v; rq_metadata := md2; rq_cluster_ids := cl |} now.
Proof. exact create_independent. Qed.
Print Assumptions C09_independent_of_csr_and_metadata.

(* ---- never a CA, binds the CSR key *)

Theorem C09_not_ca : forall ipf e rs na cfg rq now leaf n,
  create_certificate ipf e rs na cfg rq now = RIssued leaf n ->
  c_is_ca leaf = false /\ N.land (c_key_usage leaf) 32 = 0%N /\ c_bc_valid leaf = true.
Proof. exact create_not_ca. Qed.
Print Assumptions C09_not_ca.

Theorem C09_binds_csr_key : forall ipf e rs na cfg rq now leaf n,
  create_certificate ipf e rs na cfg rq now = RIssued leaf n ->
  c_key leaf = csr_key (rq_csr rq) /\ c_other_exts leaf = 0%N /\ c_san_critical leaf = true /\
  c_ext_key_usage leaf = [1%N; 2%N] /\ c_key_usage leaf = 5%N.
Proof. exact create_binds_key. Qed.
Print Assumptions C09_binds_csr_key.

(* ---- validity *)

(* for every requested TTL (any int64 number of seconds, including values whose conversion to
   nanoseconds wraps): never beyond the signer, lifetime from the issuing instant at most
   max(max_ttl, default_ttl), i.e. at most max_ttl for a configuration with default <= max *)
Theorem C09_ttl : forall ipf e rs na cfg rq now leaf n,
  create_certificate ipf e rs na cfg rq now = RIssued leaf n ->
  exists sg, ca_signer cfg = Some sg /\
    (c_not_after leaf <= sg_not_after sg)%Z /\
    (c_not_after leaf - now <= Z.max (ca_max_ttl cfg) (ca_default_ttl cfg))%Z /\
    (ca_default_ttl cfg <= ca_max_ttl cfg -> c_not_after leaf - now <= ca_max_ttl cfg)%Z /\
    (0 < ca_default_ttl cfg -> now < c_not_after leaf)%Z /\
    c_not_before leaf = (now - clock_skew)%Z.
Proof. exact create_ttl. Qed.
Print Assumptions C09_ttl.

(* NewIstioCA: the effective default TTL never exceeds the configured default nor the remaining
   life of the cert chain; an expired chain is an error *)
Theorem C09_default_ttl_bounded_by_chain : forall d chain now0 t,
  min_ttl d chain now0 = Some t ->
  (t <= d)%Z /\ (forall na, chain = Some na -> t <= na - now0 /\ 0 < na - now0)%Z /\
  (t = d \/ exists na, chain = Some na /\ t = na - now0)%Z.
Proof. exact min_ttl_bound. Qed.
Print Assumptions C09_default_ttl_bounded_by_chain.

Theorem C09_expired_chain_rejected : forall d na now0, (na <= now0)%Z -> min_ttl d (Some na) now0 = None.
Proof. exact min_ttl_expired. Qed.
Print Assumptions C09_expired_chain_rejected.

(* ---- authenticators: error rather than crash *)

(* exactly which verified tokens crash the OIDC authenticator *)
Theorem C09_oidc_total_partial : forall td auds sub l,
  oidc_authenticate td auds sub (AudList l) = APanic <->
  has_prefix "system:serviceaccount" sub = true /\ List.length (split_on colon sub) < 4.
Proof. exact oidc_panic_iff. Qed.
Print Assumptions C09_oidc_total_partial.

Theorem C09_oidc_total_refuted : exists td auds sub aud, oidc_authenticate td auds sub aud = APanic.
Proof. exact oidc_total_refuted. Qed.
Print Assumptions C09_oidc_total_refuted.

(* which sub strings are accepted, and the identity they yield *)
Theorem C09_oidc_sub_accepted : forall td auds sub aud ids k,
  oidc_authenticate td auds sub aud = AOk ids k ->
  exists l ns sa, aud = AudList l /\ has_prefix "system:serviceaccount" sub = true /\
    nth_error (split_on colon sub) 2 = Some ns /\ nth_error (split_on colon sub) 3 = Some sa /\
    check_audience l auds = true /\ ids = [gen_spiffe_uri td ns sa] /\ k = no_kube.
Proof. exact oidc_ok_inv. Qed.
Print Assumptions C09_oidc_sub_accepted.

Theorem C09_kube_jwt_total : forall td found tr, kube_jwt_authenticate td found tr <> APanic.
Proof. exact kube_jwt_total. Qed.
Print Assumptions C09_kube_jwt_total.

Theorem C09_kube_jwt_identity : forall td found tr ids k,
  kube_jwt_authenticate td found tr = AOk ids k ->
  found = true /\ tr_api_err tr = false /\ tr_error tr = EmptyString /\ tr_authenticated tr = true /\
  str_in "system:serviceaccounts" (tr_groups tr) = true /\
  k_ns k <> EmptyString /\ k_sa k <> EmptyString /\
  (exists a b, split_on colon (tr_username tr) = [a; b; k_ns k; k_sa k]) /\
  ids = [gen_spiffe_uri td (k_ns k) (k_sa k)].
Proof. exact kube_jwt_ok_inv. Qed.
Print Assumptions C09_kube_jwt_identity.

Theorem C09_client_cert_total : forall p, cert_authenticate p <> APanic.
Proof. exact cert_total. Qed.
Print Assumptions C09_client_cert_total.

(* exactly which peers crash the XFCC authenticator: host:port addresses whose host is not an IP *)
Theorem C09_xfcc_total_partial : forall ae ha a parsed,
  xfcc_authenticate ae ha a parsed = APanic <->
  ae = false /\ ha = false /\ exists lb ins, a = AddrHost false lb ins.
Proof. exact xfcc_panic_iff. Qed.
Print Assumptions C09_xfcc_total_partial.

Theorem C09_xfcc_total_refuted : exists a parsed, xfcc_authenticate false false a parsed = APanic.
Proof. exact xfcc_total_refuted. Qed.
Print Assumptions C09_xfcc_total_refuted.

(* an XFCC header is believed only from a loopback peer or a peer inside a trusted CIDR *)
Theorem C09_xfcc_only_trusted_peers : forall ae ha a parsed ids k,
  xfcc_authenticate ae ha a parsed = AOk ids k ->
  ae = false /\ ha = false /\
  (exists lb ins, a = AddrHost true lb ins /\ (lb = true \/ existsb (fun b => b) ins = true)) /\
  exists es, parsed = Some es /\ es <> [] /\ ids = xfcc_ids es.
Proof. exact xfcc_ok_inv. Qed.
Print Assumptions C09_xfcc_only_trusted_peers.

(* ---- hypotheses are satisfiable / witnesses *)

Example C09_ex_issued :
  exists leaf n, create_certificate no_ip w_env [{| ar_caller := Some w_zt; ar_err := false |}] None w_cfg (w_rq "") w_now
                 = RIssued leaf n /\ c_sans leaf = [SURI "spiffe://cluster.local/ns/istio-system/sa/ztunnel"] /\
                 c_not_after leaf = (w_now + 3600 * second)%Z.
Proof. exact sat_issued_exact. Qed.

Example C09_ex_good_impersonation :
  issued_sans (create_certificate no_ip w_env [{| ar_caller := Some w_zt; ar_err := false |}] (Some w_world) w_cfg
                 (w_rq w_good_imp) w_now) = Some [SURI w_good_imp].
Proof. exact witness_good_impersonation. Qed.

Example C09_ex_roundtrip_premise : Forall (no_char comma) ["spiffe://cluster.local/ns/foo/sa/bar"; "10.1.2.3"].
Proof. repeat constructor. Qed.
