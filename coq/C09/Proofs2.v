(* C09 proofs, part 2: authentication, impersonation gate, CreateCertificate, authenticators. *)
From Coq Require Import List NArith ZArith Bool String Ascii Lia Arith.
From V Require Import C09.Model C09.Proofs.
Import ListNotations.
Open Scope string_scope.

(* ------------------------------------------------------------------ authentication *)

Lemma am_authenticate_sound : forall rs u,
  am_authenticate rs = Some u ->
  exists r, In r rs /\ ar_caller r = Some u /\ ar_err r = false /\ identities u <> [].
Proof.
  induction rs as [|r rs IH]; intros u H; cbn in H; [discriminate|].
  destruct (ar_caller r) as [v|] eqn:Ec.
  - destruct (negb (ar_err r) && negb (Nat.eqb (List.length (identities v)) 0)) eqn:Eok.
    + inversion H; subst. apply andb_true_iff in Eok. destruct Eok as [He Hn].
      exists r. split; [left; reflexivity|]. split; [exact Ec|]. split.
      * destruct (ar_err r); [discriminate|reflexivity].
      * intros Hnil. rewrite Hnil in Hn. discriminate.
    + destruct (IH u H) as (r' & Hin & Hr). exists r'. split; [right; exact Hin|exact Hr].
  - destruct (IH u H) as (r' & Hin & Hr). exists r'. split; [right; exact Hin|exact Hr].
Qed.

Lemma authenticate_sound : forall e rs u,
  authenticate e rs = Some u ->
  ae_xds_auth e = true /\ ae_has_peer e = true /\ (ae_tls e = true \/ ae_plaintext e = true) /\
  exists r, In r rs /\ ar_caller r = Some u /\ ar_err r = false /\ identities u <> [].
Proof.
  intros e rs u H. unfold authenticate in H.
  destruct (ae_xds_auth e); [|discriminate].
  destruct (ae_has_peer e); [|discriminate].
  destruct (ae_tls e) eqn:Et, (ae_plaintext e) eqn:Ep; cbn in H; try discriminate;
    (split; [reflexivity|]; split; [reflexivity|]; split; [auto|]; apply am_authenticate_sound; exact H).
Qed.

(* no authenticator configured, or none succeeds: nobody is authenticated *)
Lemma am_authenticate_none : forall rs,
  (forall r, In r rs -> ar_caller r = None \/ ar_err r = true \/
                        (exists u, ar_caller r = Some u /\ identities u = [])) ->
  am_authenticate rs = None.
Proof.
  induction rs as [|r rs IH]; intros H; cbn; [reflexivity|].
  destruct (H r (or_introl eq_refl)) as [Hn|[He|(u & Hu & Hi)]].
  - rewrite Hn. apply IH. intros r' Hin. apply H. right. exact Hin.
  - destruct (ar_caller r); rewrite ?He; cbn; apply IH; intros r' Hin; apply H; right; exact Hin.
  - rewrite Hu, Hi. cbn. rewrite andb_false_r. apply IH. intros r' Hin. apply H. right. exact Hin.
Qed.

(* ------------------------------------------------------------------ impersonation gate *)

Lemma pair_in_In : forall ns n l, pair_in ns n l = true -> In (ns, n) l.
Proof.
  induction l as [|[a b] l IH]; cbn; intros H; [discriminate|].
  apply orb_true_iff in H. destruct H as [H|H].
  - apply andb_true_iff in H. destruct H as [Ha Hb]. apply String.eqb_eq in Ha, Hb. subst. left; reflexivity.
  - right. apply IH. exact H.
Qed.

Lemma get_pod_In : forall name ns ps p, get_pod name ns ps = Some p -> In p ps /\ p_name p = name /\ p_ns p = ns.
Proof.
  induction ps as [|q ps IH]; cbn; intros p H; [discriminate|].
  destruct (String.eqb (p_name q) name && String.eqb (p_ns q) ns) eqn:E.
  - inversion H; subst. apply andb_true_iff in E. destruct E as [Ea Eb]. apply String.eqb_eq in Ea, Eb. auto.
  - destruct (IH p H) as (Hin & Hr). split; [right; exact Hin|exact Hr].
Qed.

Lemma find_cluster_In : forall id cs ps, find_cluster id cs = Some ps -> In (id, ps) cs.
Proof.
  induction cs as [|[k v] cs IH]; cbn; intros ps H; [discriminate|].
  destruct (String.eqb k id) eqn:E.
  - inversion H; subst. apply String.eqb_eq in E. subst. left; reflexivity.
  - right. apply IH. exact H.
Qed.

Lemma nat_eqb_len_false : forall s, negb (Nat.eqb (String.length s) 0) = true -> s <> EmptyString.
Proof. intros s H Hs. subst. discriminate. Qed.

(* what an authorised impersonation means, in terms of the world *)
Definition impersonation_justified (a : node_auth) (cluster_id : string) (k : kube_info) (imp : string) : Prop :=
  exists ps cp id w,
    In (cluster_id, ps) (na_clusters a) /\
    In (k_ns k, k_sa k) (na_trusted a) /\                      (* caller is a trusted node account *)
    In cp ps /\ p_name cp = k_pod k /\ p_ns cp = k_ns k /\     (* the caller's pod is known ... *)
    p_uid cp = k_uid k /\ p_sa cp = k_sa k /\                  (* ... with this uid and service account *)
    parse_identity imp = Some id /\
    In w ps /\ p_node w = p_node cp /\ p_node w <> EmptyString /\   (* a workload on the caller's node ... *)
    p_ns w = sp_ns id /\ p_sa w = sp_sa id /\ p_sa w <> EmptyString. (* ... runs as the requested (ns, sa) *)

Lemma authenticate_impersonation_sound : forall a cid k imp,
  authenticate_impersonation a cid k imp = true -> impersonation_justified a cid k imp.
Proof.
  intros a cid k imp H. unfold authenticate_impersonation in H.
  destruct (find_cluster cid (na_clusters a)) as [ps|] eqn:Ecl; [|discriminate].
  unfold cluster_authenticate_impersonation in H.
  destruct (pair_in (k_ns k) (k_sa k) (na_trusted a)) eqn:Etr; cbn in H; [|discriminate].
  destruct (parse_identity imp) as [id|] eqn:Eid; [|discriminate].
  destruct (get_pod (k_pod k) (k_ns k) ps) as [cp|] eqn:Ecp; [|discriminate].
  destruct (String.eqb (p_uid cp) (k_uid k)) eqn:Euid; cbn in H; [|discriminate].
  destruct (String.eqb (p_sa cp) (k_sa k)) eqn:Esa; cbn in H; [|discriminate].
  unfold index_has in H. apply existsb_exists in H. destruct H as (w & Hw & Hc).
  repeat (apply andb_true_iff in Hc; destruct Hc as [Hc ?]).
  destruct (get_pod_In _ _ _ _ Ecp) as (Hcp & Hn & Hns).
  exists ps, cp, id, w.
  repeat match goal with H : String.eqb _ _ = true |- _ => apply String.eqb_eq in H end.
  repeat split; auto using find_cluster_In, pair_in_In, nat_eqb_len_false.
Qed.

(* ------------------------------------------------------------------ which identities are signed *)

Definition imp_of (rq : request) : string := get_string_value (md_get "ImpersonatedIdentity" (rq_metadata rq)).

Lemma select_sans_cases : forall na u rq ids,
  select_sans na u rq = Some ids ->
  (imp_of rq = EmptyString /\ ids = identities u) \/
  (exists a, na = Some a /\ imp_of rq <> EmptyString /\ ids = [imp_of rq] /\
             impersonation_justified a (extract_cluster_id (rq_cluster_ids rq)) (kinfo u) (imp_of rq)).
Proof.
  intros na u rq ids H. unfold select_sans in H. fold (imp_of rq) in H.
  destruct (Nat.eqb (String.length (imp_of rq)) 0) eqn:E.
  - left. inversion H; subst. split; [|reflexivity].
    destruct (imp_of rq); [reflexivity|discriminate].
  - right. destruct na as [a|]; [|discriminate].
    destruct (authenticate_impersonation a (extract_cluster_id (rq_cluster_ids rq)) (kinfo u) (imp_of rq)) eqn:Ea; [|discriminate].
    inversion H; subst. exists a. split; [reflexivity|]. split.
    + intros Hs. rewrite Hs in E. discriminate.
    + split; [reflexivity|]. apply authenticate_impersonation_sound. exact Ea.
Qed.

(* ------------------------------------------------------------------ CreateCertificate *)

Lemma create_inv : forall ipf e rs na cfg rq now leaf n,
  create_certificate ipf e rs na cfg rq now = RIssued leaf n ->
  exists u ids,
    authenticate e rs = Some u /\ select_sans na u rq = Some ids /\
    ca_sign ipf cfg (rq_csr rq) ids (requested_ttl (rq_validity rq)) false now = inr leaf.
Proof.
  intros ipf e rs na cfg rq now leaf n H. unfold create_certificate in H.
  destruct (authenticate e rs) as [u|]; [|discriminate].
  destruct (select_sans na u rq) as [ids|] eqn:Es; [|discriminate].
  destruct (ca_sign ipf cfg (rq_csr rq) ids (requested_ttl (rq_validity rq)) false now) as [err|crt] eqn:E; [discriminate|].
  inversion H; subst. exists u, ids. auto.
Qed.

Lemma create_unauthenticated : forall ipf e rs na cfg rq now,
  authenticate e rs = None -> create_certificate ipf e rs na cfg rq now = RUnauthenticated.
Proof. intros. unfold create_certificate. rewrite H. reflexivity. Qed.

Lemma create_requires_authentication : forall ipf e rs na cfg rq now leaf n,
  create_certificate ipf e rs na cfg rq now = RIssued leaf n ->
  ae_xds_auth e = true /\ ae_has_peer e = true /\ (ae_tls e = true \/ ae_plaintext e = true) /\
  exists r u, In r rs /\ ar_caller r = Some u /\ ar_err r = false /\ identities u <> [].
Proof.
  intros ipf e rs na cfg rq now leaf n H.
  destruct (create_inv _ _ _ _ _ _ _ _ _ H) as (u & ids & Ha & _ & _).
  destruct (authenticate_sound _ _ _ Ha) as (H1 & H2 & H3 & r & Hr). repeat split; auto. exists r, u. exact Hr.
Qed.

Lemma create_not_ca : forall ipf e rs na cfg rq now leaf n,
  create_certificate ipf e rs na cfg rq now = RIssued leaf n ->
  c_is_ca leaf = false /\ N.land (c_key_usage leaf) 32 = 0%N /\ c_bc_valid leaf = true.
Proof.
  intros ipf e rs na cfg rq now leaf n H.
  destruct (create_inv _ _ _ _ _ _ _ _ _ H) as (u & ids & _ & _ & Hs). eapply ca_sign_not_ca; eauto.
Qed.

Lemma create_binds_key : forall ipf e rs na cfg rq now leaf n,
  create_certificate ipf e rs na cfg rq now = RIssued leaf n ->
  c_key leaf = csr_key (rq_csr rq) /\ c_other_exts leaf = 0%N /\ c_san_critical leaf = true /\
  c_ext_key_usage leaf = [1%N; 2%N] /\ c_key_usage leaf = 5%N.
Proof.
  intros ipf e rs na cfg rq now leaf n H.
  destruct (create_inv _ _ _ _ _ _ _ _ _ H) as (u & ids & _ & _ & Hs).
  destruct (ca_sign_inv _ _ _ _ _ _ _ _ Hs) as (sg & _ & _ & _ & _ & _ & Hc). cbv zeta in Hc. subst leaf. cbn. auto.
Qed.

Lemma create_ttl : forall ipf e rs na cfg rq now leaf n,
  create_certificate ipf e rs na cfg rq now = RIssued leaf n ->
  exists sg, ca_signer cfg = Some sg /\
    (c_not_after leaf <= sg_not_after sg)%Z /\
    (c_not_after leaf - now <= Z.max (ca_max_ttl cfg) (ca_default_ttl cfg))%Z /\
    (ca_default_ttl cfg <= ca_max_ttl cfg -> c_not_after leaf - now <= ca_max_ttl cfg)%Z /\
    (0 < ca_default_ttl cfg -> now < c_not_after leaf)%Z /\
    c_not_before leaf = (now - clock_skew)%Z.
Proof.
  intros ipf e rs na cfg rq now leaf n H.
  destruct (create_inv _ _ _ _ _ _ _ _ _ H) as (u & ids & _ & _ & Hs). eapply ca_sign_ttl; eauto.
Qed.

(* the headline: SANs = the authenticated identities, or the one justified impersonated identity,
   one SAN entry per identity; no selected identity contains a comma *)
Lemma create_sans : forall ipf e rs na cfg rq now leaf n,
  create_certificate ipf e rs na cfg rq now = RIssued leaf n ->
  exists u ids,
    authenticate e rs = Some u /\ ids <> [] /\
    ((imp_of rq = EmptyString /\ ids = identities u) \/
     (exists a, na = Some a /\ imp_of rq <> EmptyString /\ ids = [imp_of rq] /\
                impersonation_justified a (extract_cluster_id (rq_cluster_ids rq)) (kinfo u) (imp_of rq))) /\
    Forall (no_char comma) ids /\
    c_sans leaf = map (classify ipf) ids.
Proof.
  intros ipf e rs na cfg rq now leaf n H.
  destruct (create_inv _ _ _ _ _ _ _ _ _ H) as (u & ids & Ha & Hsel & Hs).
  destruct (authenticate_sound _ _ _ Ha) as (_ & _ & _ & r & _ & _ & _ & Hne).
  assert (Hids : ids <> []).
  { destruct (select_sans_cases _ _ _ _ Hsel) as [[_ ->]|(a & _ & _ & -> & _)]; [exact Hne|discriminate]. }
  exists u, ids. split; [exact Ha|]. split; [exact Hids|]. split; [apply select_sans_cases; exact Hsel|].
  destruct (ca_sign_inv _ _ _ _ _ _ _ _ Hs) as (sg & _ & _ & _ & _ & Hcomma & Hc). cbv zeta in Hc.
  apply no_comma_forall in Hcomma. split; [exact Hcomma|].
  subst leaf. cbn [c_sans]. apply build_san_exact; assumption.
Qed.

(* a comma in a selected identity (authenticated or impersonated) is an error outcome, never a certificate *)
Lemma create_comma_refused : forall ipf e rs na cfg rq now u ids,
  authenticate e rs = Some u -> select_sans na u rq = Some ids ->
  Exists (fun s => contains_char comma s = true) ids ->
  exists err, create_certificate ipf e rs na cfg rq now = RSignError err.
Proof.
  intros ipf e rs na cfg rq now u ids Ha Hs Hex. unfold create_certificate. rewrite Ha, Hs.
  destruct (ca_sign_comma_refused ipf cfg (rq_csr rq) ids (requested_ttl (rq_validity rq)) false now Hex) as (err & ->).
  exists err. reflexivity.
Qed.

(* the result reads the CSR only through (status, CN-emptiness, key), the metadata only through
   the ImpersonatedIdentity string *)
Lemma create_independent : forall ipf e rs na cfg now c1 c2 v md1 md2 cl,
  csr_st c1 = csr_st c2 -> csr_key c1 = csr_key c2 ->
  Nat.eqb (String.length (csr_cn c1)) 0 = Nat.eqb (String.length (csr_cn c2)) 0 ->
  get_string_value (md_get "ImpersonatedIdentity" md1) = get_string_value (md_get "ImpersonatedIdentity" md2) ->
  create_certificate ipf e rs na cfg {| rq_csr := c1; rq_validity := v; rq_metadata := md1; rq_cluster_ids := cl |} now =
  create_certificate ipf e rs na cfg {| rq_csr := c2; rq_validity := v; rq_metadata := md2; rq_cluster_ids := cl |} now.
Proof.
  intros ipf e rs na cfg now c1 c2 v md1 md2 cl Hst Hkey Hcn Hmd.
  unfold create_certificate. destruct (authenticate e rs) as [u|]; [|reflexivity].
  unfold select_sans. cbn [rq_metadata rq_cluster_ids rq_csr rq_validity]. rewrite Hmd.
  match goal with |- match ?x with _ => _ end = match ?y with _ => _ end => assert (Hx : x = y) by reflexivity end.
  match goal with |- match ?x with Some s => _ | None => _ end = _ => destruct x as [sans|]; [|reflexivity] end.
  unfold ca_sign. destruct (ca_signer cfg) as [sg|]; [|reflexivity].
  rewrite Hst. destruct (csr_st c2); try reflexivity.
  destruct (ca_max_ttl cfg <? requested_ttl v)%Z; [reflexivity|].
  unfold gen_cert_template. rewrite Hcn, Hkey. reflexivity.
Qed.

(* ------------------------------------------------------------------ authenticators *)

Lemma nth_error_some_of_len : forall (A : Type) (l : list A) i, i < List.length l -> exists x, nth_error l i = Some x.
Proof.
  intros A l i H. destruct (nth_error l i) as [x|] eqn:E; [eauto|].
  apply nth_error_None in E. lia.
Qed.

Lemma oidc_total : forall td auds sub aud, oidc_authenticate td auds sub aud <> APanic.
Proof.
  intros td auds sub aud. unfold oidc_authenticate. destruct aud as [l|s]; [|discriminate].
  destruct (negb (has_prefix "system:serviceaccount" sub)); [discriminate|].
  destruct (Nat.ltb (List.length (split_on colon sub)) 4) eqn:El; [discriminate|].
  apply Nat.ltb_ge in El.
  destruct (nth_error_some_of_len _ (split_on colon sub) 2) as (a & ->); [lia|].
  destruct (nth_error_some_of_len _ (split_on colon sub) 3) as (b & ->); [lia|].
  destruct (negb (check_audience l auds)); discriminate.
Qed.

Lemma oidc_short_sub_err : forall td auds sub aud,
  List.length (split_on colon sub) < 4 -> oidc_authenticate td auds sub aud = AErr.
Proof.
  intros td auds sub aud H. unfold oidc_authenticate. destruct aud as [l|s]; [|reflexivity].
  destruct (negb (has_prefix "system:serviceaccount" sub)); [reflexivity|].
  apply Nat.ltb_lt in H. rewrite H. reflexivity.
Qed.

Lemma oidc_ok_inv : forall td auds sub aud ids k,
  oidc_authenticate td auds sub aud = AOk ids k ->
  exists l ns sa, aud = AudList l /\ has_prefix "system:serviceaccount" sub = true /\
    nth_error (split_on colon sub) 2 = Some ns /\ nth_error (split_on colon sub) 3 = Some sa /\
    check_audience l auds = true /\ ids = [gen_spiffe_uri td ns sa] /\ k = no_kube.
Proof.
  intros td auds sub aud ids k H. unfold oidc_authenticate in H.
  destruct aud as [l|s]; [|discriminate].
  destruct (has_prefix "system:serviceaccount" sub) eqn:Ep; cbn [negb] in H; [|discriminate].
  destruct (Nat.ltb (List.length (split_on colon sub)) 4); [discriminate|].
  destruct (nth_error (split_on colon sub) 2) as [ns|] eqn:E2; [|discriminate].
  destruct (nth_error (split_on colon sub) 3) as [sa|] eqn:E3; [|discriminate].
  destruct (check_audience l auds) eqn:Ea; cbn [negb] in H; [|discriminate].
  inversion H; subst. exists l, ns, sa. repeat split; auto.
Qed.

Lemma kube_jwt_total : forall td found tr, kube_jwt_authenticate td found tr <> APanic.
Proof.
  intros td found tr. unfold kube_jwt_authenticate.
  destruct (negb found); [discriminate|].
  destruct (tr_api_err tr); [discriminate|].
  destruct (negb (Nat.eqb (String.length (tr_error tr)) 0)); [discriminate|].
  destruct (negb (tr_authenticated tr)); [discriminate|].
  destruct (negb (str_in "system:serviceaccounts" (tr_groups tr))); [discriminate|].
  destruct (split_on colon (tr_username tr)) as [|p0 [|p1 [|p2 [|p3 [|p4 r]]]]]; try discriminate.
  destruct (Nat.eqb (String.length p3) 0); [discriminate|].
  destruct (Nat.eqb (String.length p2) 0); discriminate.
Qed.

Lemma kube_jwt_ok_inv : forall td found tr ids k,
  kube_jwt_authenticate td found tr = AOk ids k ->
  found = true /\ tr_api_err tr = false /\ tr_error tr = EmptyString /\ tr_authenticated tr = true /\
  str_in "system:serviceaccounts" (tr_groups tr) = true /\
  k_ns k <> EmptyString /\ k_sa k <> EmptyString /\
  (exists a b, split_on colon (tr_username tr) = [a; b; k_ns k; k_sa k]) /\
  ids = [gen_spiffe_uri td (k_ns k) (k_sa k)].
Proof.
  intros td found tr ids k H. unfold kube_jwt_authenticate in H.
  destruct found; cbn [negb] in H; [|discriminate].
  destruct (tr_api_err tr); [discriminate|].
  destruct (tr_error tr) eqn:Ee; cbn in H; [|discriminate].
  destruct (tr_authenticated tr); cbn [negb] in H; [|discriminate].
  destruct (str_in "system:serviceaccounts" (tr_groups tr)); cbn [negb] in H; [|discriminate].
  destruct (split_on colon (tr_username tr)) as [|p0 [|p1 [|p2 [|p3 [|p4 r]]]]]; try discriminate.
  destruct p3 as [|x3 r3]; cbn in H; [discriminate|].
  destruct p2 as [|x2 r2]; cbn in H; [discriminate|].
  inversion H; subst; cbn. repeat split; try discriminate. exists p0, p1. reflexivity.
Qed.

Lemma cert_total : forall p, cert_authenticate p <> APanic.
Proof.
  intros p. unfold cert_authenticate. destruct p as [| |chains]; try discriminate.
  destruct chains as [|[|[ids|] ch] chs]; discriminate.
Qed.

Lemma xfcc_total : forall ae ha a parsed, xfcc_authenticate ae ha a parsed <> APanic.
Proof.
  intros ae ha a parsed. unfold xfcc_authenticate.
  destruct (ae || ha); [discriminate|].
  destruct (negb (is_trusted_address a)); [discriminate|].
  destruct parsed as [[|x es]|]; discriminate.
Qed.

Lemma xfcc_non_ip_untrusted : forall ae ha lb ins parsed,
  xfcc_authenticate ae ha (AddrHost false lb ins) parsed = AErr.
Proof. intros. unfold xfcc_authenticate. destruct (ae || ha); reflexivity. Qed.

Lemma xfcc_ok_inv : forall ae ha a parsed ids k,
  xfcc_authenticate ae ha a parsed = AOk ids k ->
  ae = false /\ ha = false /\
  (exists lb ins, a = AddrHost true lb ins /\ (lb = true \/ existsb (fun b => b) ins = true)) /\
  exists es, parsed = Some es /\ es <> [] /\ ids = xfcc_ids es.
Proof.
  intros ae ha a parsed ids k H. unfold xfcc_authenticate in H.
  destruct ae, ha; cbn [orb] in H; try discriminate.
  destruct a as [|is_ip lb ins]; cbn in H; [discriminate|].
  destruct is_ip; cbn in H; [|discriminate].
  destruct (existsb (fun b => b) ins || lb) eqn:Et; cbn in H; [|discriminate].
  destruct parsed as [[|x es]|]; try discriminate.
  inversion H; subst. repeat split; auto.
  - exists lb, ins. split; [reflexivity|]. apply orb_true_iff in Et. tauto.
  - exists (x :: es). repeat split; auto. discriminate.
Qed.
