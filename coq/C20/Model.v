(* C20 — traffic-capture iptables rules.
   Model of tools/istio-iptables/pkg/capture/run.go (IptablesConfigurator.Run and helpers),
   builder/iptables_builder_impl.go (Append/Insert/AppendVersionedRule per family) and
   tools/common/config (Split, SeparateV4V6, ParseInterceptFilter), as a compiler
   [gen : config -> fam -> list rule] that emits the rules in the order the Go code appends them;
   a reference netfilter evaluator [run]/[nat_eval]; and the specification of the property
   ([spec_out], [spec_pre]).  Definitions only. *)
From V Require Import lib.Verdict.
Open Scope N_scope.

(* ------------------------------------------------------------------ rule AST *)

Inductive table := Tnat | Tmangle | Traw | Tfilter.
Inductive chain :=
| PREROUTING | OUTPUT | ISTIO_OUTPUT | ISTIO_OUTPUT_DNS | ISTIO_INBOUND | ISTIO_DIVERT
| ISTIO_TPROXY | ISTIO_REDIRECT | ISTIO_IN_REDIRECT | ISTIO_DROP | COther (n : N).
Inductive proto := TCP | UDP | POther.

(* a CIDR as (address, number of HOST bits): a matches iff a >> hb = base >> hb.
   iptables masks the address itself, so "10.0.0.5/8" is the same as "10.0.0.0/8". *)
Record cidr := C { c_base : N; c_hb : N }.

Inductive mtch :=
| MProto (p : proto)
| MDport (neg : bool) (n : N)
| MSport (n : N)
| MDports (neg : bool) (l : list N)          (* -m multiport [!] --dports *)
| MSrc (c : cidr)
| MDst (neg : bool) (c : cidr)
| MIn (i : N) | MOut (i : N)                 (* interfaces interned, lo = 0 *)
| MUid (neg : bool) (u : N) | MGid (neg : bool) (g : N)
| MMark (neg : bool) (m : N) | MConnmark (m : N)
| MCtEst | MCtInvalid.

Inductive target :=
| TReturn | TAccept | TDrop | TJump (c : chain)
| TRedirect (port : N) | TTproxy (mark port : N)
| TSetMark (m : N) | TConnSave | TConnRestore | TCtZone (z : N).

(* r_pos = None: "-A chain"; Some n: "-I chain n" *)
Record rule := R { r_table : table; r_chain : chain; r_pos : option N; r_m : list mtch; r_t : target }.

Definition A t c m tg := R t c None m tg.
Definition I t c p m tg := R t c (Some p) m tg.

(* ------------------------------------------------------------------ configuration *)

(* INBOUND_PORTS_INCLUDE: "" | "*" | list (a non-empty string that splits to nothing is PList []) *)
Inductive psel := PNone | PStar | PList (l : list N).
Record pfx := P { p_v6 : bool; p_addr : N; p_len : N }.

Record config := {
  proxy_port : N; in_port : N; tunnel_port : N;
  uids : list N; gids : list N;                 (* Split(ProxyUID), Split(ProxyGID) *)
  tproxy : bool; tmark : N;                     (* InboundInterceptionMode == "TPROXY" *)
  in_inc : psel; in_exc : list N;
  og_star : bool; og_inc : list N; og_exc : list N;   (* OwnerGroupsInclude == "*", Split of both *)
  out_pinc : list N; out_pexc : list N;
  inc_star : bool; inc : list pfx;              (* OutboundIPRangesInclude *)
  exc_star : bool; exc : list pfx;              (* OutboundIPRangesExclude *)
  virt_ifs : list N; excl_ifs : list N;
  dns : bool; dns_all : bool; dns4 : list N; dns6 : list N;
  drop_invalid : bool; v6 : bool;
  loop4 : cidr                                  (* HostIPv4LoopbackCidr *)
}.

Definition lo : N := 0.
Definition dns_port : N := 15053.       (* constants.IstioAgentDNSListenerPort *)
Definition outbound_mark : N := 1338.   (* constants.OutboundMark *)

Definition is_nil {X} (l : list X) := match l with [] => true | _ => false end.
Definition mem (x : N) (l : list N) := existsb (N.eqb x) l.

(* What one address family sees (the builder keeps rulesv4 / rulesv6; AppendVersionedRule
   substitutes the family's value; AppendRuleV4/V6 feed one family only). *)
Record fam := {
  f_loop : cidr;            (* HostIPv4LoopbackCidr | ::1/128 *)
  f_pass : cidr;            (* 127.0.0.6/32 | ::6/128 *)
  f_inc_star : bool; f_inc : list cidr;
  f_exc : list cidr;
  f_dns : list N
}.

Definition width (six : bool) : N := if six then 128 else 32.
Definition cidr_of (p : pfx) : cidr := C (p_addr p) (width (p_v6 p) - p_len p).
Definition of_ver (six : bool) (l : list pfx) : list cidr :=
  map cidr_of (filter (fun p => Bool.eqb (p_v6 p) six) l).

(* netip.Addr.IsLoopback on the prefix ADDRESS (config.SeparateV4V6 sets HasLoopBackIP) *)
Definition pfx_loopback (p : pfx) : bool :=
  if p_v6 p then p_addr p =? 1 else N.shiftr (p_addr p) 24 =? 127.
(* ipv4RangesInclude.HasLoopBackIP || ipv6RangesInclude.HasLoopBackIP; "*" returns early *)
Definition has_lb (cfg : config) : bool := negb (inc_star cfg) && existsb pfx_loopback (inc cfg).

Definition fam_of (cfg : config) (six : bool) : fam :=
  {| f_loop := if six then C 1 0 else loop4 cfg;
     f_pass := if six then C 6 0 else C 2130706438 0;
     f_inc_star := inc_star cfg;
     f_inc := if inc_star cfg then [] else of_ver six (inc cfg);
     f_exc := of_ver six (exc cfg);
     f_dns := if six then dns6 cfg else dns4 cfg |}.

(* redirectDNS after the "three flags" adjustment in Run *)
Definition rdns (cfg : config) : bool :=
  dns cfg && (dns_all cfg || negb (is_nil (dns4 cfg)) || negb (is_nil (dns6 cfg))).

(* ------------------------------------------------------------------ the compiler (Run) *)

(* shortCircuitExcludeInterfaces *)
Definition seg_excl (cfg : config) : list rule :=
  flat_map (fun i => [A Tnat PREROUTING [MIn i] TReturn; A Tnat OUTPUT [MOut i] TReturn]) (excl_ifs cfg) ++
  (if tproxy cfg then
     flat_map (fun i => [A Tmangle PREROUTING [MIn i] TReturn; A Tmangle OUTPUT [MOut i] TReturn]) (excl_ifs cfg)
   else []).

(* shortCircuitKubeInternalInterface *)
Definition seg_virt (cfg : config) : list rule :=
  map (fun i => I Tnat PREROUTING 1 [MIn i] TReturn) (virt_ifs cfg).

Definition seg_drop (cfg : config) : list rule :=
  if drop_invalid cfg then
    [A Tmangle PREROUTING [MCtInvalid] (TJump ISTIO_DROP); A Tmangle ISTIO_DROP [] TDrop]
  else [].

Definition seg_base (cfg : config) : list rule :=
  [A Tnat ISTIO_INBOUND [MProto TCP; MDport false (tunnel_port cfg)] TReturn;
   A Tnat ISTIO_REDIRECT [MProto TCP] (TRedirect (proxy_port cfg));
   A Tnat ISTIO_IN_REDIRECT [MProto TCP] (TRedirect (in_port cfg))].

(* handleInboundPortsInclude *)
Definition in_table (cfg : config) := if tproxy cfg then Tmangle else Tnat.
Definition seg_inbound (cfg : config) (fm : fam) : list rule :=
  match in_inc cfg with
  | PNone => []
  | sel =>
    (if tproxy cfg then
       [A Tmangle ISTIO_DIVERT [] (TSetMark (tmark cfg));
        A Tmangle ISTIO_DIVERT [] TAccept;
        A Tmangle ISTIO_TPROXY [MDst true (f_loop fm); MProto TCP] (TTproxy (tmark cfg) (in_port cfg))]
     else []) ++
    [A (in_table cfg) PREROUTING [MProto TCP] (TJump ISTIO_INBOUND)] ++
    match sel with
    | PList l =>
      flat_map (fun p =>
        if tproxy cfg then
          [A Tmangle ISTIO_INBOUND [MProto TCP; MDport false p; MCtEst] (TJump ISTIO_DIVERT);
           A Tmangle ISTIO_INBOUND [MProto TCP; MDport false p] (TJump ISTIO_TPROXY)]
        else [A Tnat ISTIO_INBOUND [MProto TCP; MDport false p] (TJump ISTIO_IN_REDIRECT)]) l
    | _ =>
      map (fun p => A (in_table cfg) ISTIO_INBOUND [MProto TCP; MDport false p] TReturn) (in_exc cfg) ++
      (if tproxy cfg then
         [A Tmangle ISTIO_INBOUND [MProto TCP; MCtEst] (TJump ISTIO_DIVERT);
          A Tmangle ISTIO_INBOUND [MProto TCP] (TJump ISTIO_TPROXY)]
       else [A Tnat ISTIO_INBOUND [MProto TCP] (TJump ISTIO_IN_REDIRECT)])
    end
  end.

Definition seg_outjump : list rule := [A Tnat OUTPUT [] (TJump ISTIO_OUTPUT)].

Definition seg_pexc (cfg : config) : list rule :=
  flat_map (fun p => [A Tnat ISTIO_OUTPUT [MProto TCP; MDport false p] TReturn;
                      A Tnat ISTIO_OUTPUT [MProto UDP; MDport false p] TReturn]) (out_pexc cfg).

Definition seg_pass (fm : fam) : list rule :=
  [A Tnat ISTIO_OUTPUT [MOut lo; MSrc (f_pass fm)] TReturn].

(* the per-uid block *)
Definition uid_block (cfg : config) (fm : fam) (u : N) : list rule :=
  [if rdns cfg then
     A Tnat ISTIO_OUTPUT [MOut lo; MDst true (f_loop fm); MProto TCP; MDports true [53; tunnel_port cfg]; MUid false u]
       (TJump ISTIO_IN_REDIRECT)
   else
     A Tnat ISTIO_OUTPUT [MOut lo; MDst true (f_loop fm); MProto TCP; MDport true (tunnel_port cfg); MUid false u]
       (TJump ISTIO_IN_REDIRECT)] ++
  (if has_lb cfg then [] else
     [if rdns cfg then A Tnat ISTIO_OUTPUT [MOut lo; MProto TCP; MDport true 53; MUid true u] TReturn
      else A Tnat ISTIO_OUTPUT [MOut lo; MUid true u] TReturn]) ++
  [A Tnat ISTIO_OUTPUT [MUid false u] TReturn].

(* the per-gid block (no port-53 carve-out in its first rule) *)
Definition gid_block (cfg : config) (fm : fam) (g : N) : list rule :=
  [A Tnat ISTIO_OUTPUT [MOut lo; MDst true (f_loop fm); MProto TCP; MDport true (tunnel_port cfg); MGid false g]
     (TJump ISTIO_IN_REDIRECT)] ++
  (if has_lb cfg then [] else
     [if rdns cfg then A Tnat ISTIO_OUTPUT [MOut lo; MProto TCP; MDport true 53; MGid true g] TReturn
      else A Tnat ISTIO_OUTPUT [MOut lo; MGid true g] TReturn]) ++
  [A Tnat ISTIO_OUTPUT [MGid false g] TReturn].

(* handleCaptureByOwnerGroup (ParseInterceptFilter) *)
Definition seg_groups (cfg : config) : list rule :=
  if og_star cfg then
    map (fun g => A Tnat ISTIO_OUTPUT [MGid false g] TReturn) (og_exc cfg)
  else
    [A Tnat ISTIO_OUTPUT (map (fun g => MGid true g) (og_inc cfg)) TReturn].

Definition ct_owner (uid : bool) (x : N) : list rule :=
  let o := if uid then MUid false x else MGid false x in
  [A Traw ISTIO_OUTPUT_DNS [MProto UDP; MDport false 53; o] (TCtZone 1);
   A Traw ISTIO_OUTPUT_DNS [MProto UDP; MSport dns_port; o] (TCtZone 2)].

(* SetupDNSRedir + addDNSConntrackZones *)
Definition seg_dns (cfg : config) (fm : fam) : list rule :=
  if rdns cfg then
    [A Traw OUTPUT [] (TJump ISTIO_OUTPUT_DNS)] ++
    (if dns_all cfg || negb (is_nil (f_dns fm)) then [A Tnat ISTIO_OUTPUT [] (TJump ISTIO_OUTPUT_DNS)] else []) ++
    (if dns_all cfg then [A Tnat ISTIO_OUTPUT_DNS [MProto TCP; MDport false 53] (TRedirect dns_port)]
     else map (fun s => A Tnat ISTIO_OUTPUT_DNS [MProto TCP; MDport false 53; MDst false (C s 0)] (TRedirect dns_port)) (f_dns fm)) ++
    (if dns_all cfg then [A Tnat ISTIO_OUTPUT_DNS [MProto UDP; MDport false 53] (TRedirect dns_port)]
     else map (fun s => A Tnat ISTIO_OUTPUT_DNS [MProto UDP; MDport false 53; MDst false (C s 0)] (TRedirect dns_port)) (f_dns fm)) ++
    flat_map (ct_owner true) (uids cfg) ++
    flat_map (ct_owner false) (gids cfg) ++
    (if dns_all cfg then
       [A Traw PREROUTING [] (TJump ISTIO_INBOUND);
        A Traw ISTIO_OUTPUT_DNS [MProto UDP; MDport false 53] (TCtZone 2);
        A Traw ISTIO_INBOUND [MProto UDP; MSport 53] (TCtZone 1)]
     else
       (if is_nil (f_dns fm) then [] else [A Traw PREROUTING [] (TJump ISTIO_INBOUND)]) ++
       flat_map (fun s =>
         [A Traw ISTIO_OUTPUT_DNS [MProto UDP; MDport false 53; MDst false (C s 0)] (TCtZone 2);
          A Traw ISTIO_INBOUND [MProto UDP; MSport 53; MSrc (C s 0)] (TCtZone 1)]) (f_dns fm))
  else [].

Definition seg_loop (fm : fam) : list rule := [A Tnat ISTIO_OUTPUT [MDst false (f_loop fm)] TReturn].
Definition seg_exc (fm : fam) : list rule :=
  map (fun c => A Tnat ISTIO_OUTPUT [MDst false c] TReturn) (f_exc fm).
(* handleOutboundPortsInclude *)
Definition seg_pinc (cfg : config) : list rule :=
  map (fun p => A Tnat ISTIO_OUTPUT [MProto TCP; MDport false p] (TJump ISTIO_REDIRECT)) (out_pinc cfg).
(* handleOutboundIncludeRules for this family *)
Definition seg_inc (cfg : config) (fm : fam) : list rule :=
  if f_inc_star fm then
    [A Tnat ISTIO_OUTPUT [] (TJump ISTIO_REDIRECT)] ++
    map (fun i => I Tnat PREROUTING 1 [MIn i] (TJump ISTIO_REDIRECT)) (virt_ifs cfg)
  else
    flat_map (fun c =>
      map (fun i => I Tnat PREROUTING 1 [MIn i; MDst false c] (TJump ISTIO_REDIRECT)) (virt_ifs cfg) ++
      [A Tnat ISTIO_OUTPUT [MDst false c] (TJump ISTIO_REDIRECT)]) (f_inc fm).

Definition seg_tproxy (cfg : config) (fm : fam) : list rule :=
  if tproxy cfg then
    [A Tmangle PREROUTING [MProto TCP; MMark false (tmark cfg)] TConnSave;
     A Tmangle OUTPUT [MProto TCP; MOut lo; MMark false (tmark cfg)] TReturn] ++
    map (fun u => A Tmangle OUTPUT [MDst true (f_loop fm); MProto TCP; MOut lo; MUid false u] (TSetMark outbound_mark)) (uids cfg) ++
    map (fun g => A Tmangle OUTPUT [MDst true (f_loop fm); MProto TCP; MOut lo; MGid false g] (TSetMark outbound_mark)) (gids cfg) ++
    [A Tmangle OUTPUT [MProto TCP; MConnmark (tmark cfg)] TConnRestore;
     I Tmangle ISTIO_INBOUND 1 [MProto TCP; MMark false (tmark cfg)] TReturn;
     I Tmangle ISTIO_INBOUND 2 [MProto TCP; MSrc (f_pass fm); MIn lo] TReturn;
     I Tmangle ISTIO_INBOUND 3 [MProto TCP; MIn lo; MMark true outbound_mark] TReturn]
  else [].

(* Everything Run appends to one family's rule list, in order. *)
Definition gen (cfg : config) (fm : fam) : list rule :=
  seg_excl cfg ++ seg_virt cfg ++ seg_drop cfg ++ seg_base cfg ++ seg_inbound cfg fm ++
  seg_outjump ++ seg_pexc cfg ++ seg_pass fm ++
  flat_map (uid_block cfg fm) (uids cfg) ++
  flat_map (gid_block cfg fm) (gids cfg) ++
  seg_groups cfg ++ seg_dns cfg fm ++ seg_loop fm ++ seg_exc fm ++ seg_pinc cfg ++
  seg_inc cfg fm ++ seg_tproxy cfg fm.

Definition table_eqb (a b : table) := match a, b with Tnat, Tnat | Tmangle, Tmangle | Traw, Traw | Tfilter, Tfilter => true | _, _ => false end.

(* builder.buildRestore: the restore input lists the tables in sorted order (filter, mangle, nat,
   raw), each with its rules in the order they were appended. *)
Definition of_table (t : table) (l : list rule) := filter (fun r => table_eqb (r_table r) t) l.
Definition restore (l : list rule) : list rule :=
  of_table Tfilter l ++ of_table Tmangle l ++ of_table Tnat l ++ of_table Traw l.

(* Run: error (no rules at all) when OUTBOUND_IP_RANGES_EXCLUDE is "*"; the v6 list stays empty
   unless EnableIPv6. *)
Definition rules (cfg : config) : option (list rule * list rule) :=
  if exc_star cfg then None
  else Some (restore (gen cfg (fam_of cfg false)), if v6 cfg then restore (gen cfg (fam_of cfg true)) else []).

(* ------------------------------------------------------------------ netfilter evaluator *)

Record pkt := {
  k_proto : proto; k_src : N; k_dst : N; k_sport : N; k_dport : N;
  k_in : N; k_out : N; k_uid : N; k_gid : N;
  k_mark : N; k_cmark : N; k_est : bool; k_inv : bool
}.

Definition proto_eqb (a b : proto) := match a, b with TCP, TCP | UDP, UDP | POther, POther => true | _, _ => false end.
Definition is_tcp p := proto_eqb (k_proto p) TCP.
Definition is_udp p := proto_eqb (k_proto p) UDP.
Definition cidr_match (c : cidr) (a : N) : bool := N.shiftr a (c_hb c) =? N.shiftr (c_base c) (c_hb c).

Definition m_ok (p : pkt) (m : mtch) : bool :=
  match m with
  | MProto q => proto_eqb (k_proto p) q
  | MDport neg n => xorb neg (k_dport p =? n)
  | MSport n => k_sport p =? n
  | MDports neg l => xorb neg (mem (k_dport p) l)
  | MSrc c => cidr_match c (k_src p)
  | MDst neg c => xorb neg (cidr_match c (k_dst p))
  | MIn i => k_in p =? i
  | MOut i => k_out p =? i
  | MUid neg u => xorb neg (k_uid p =? u)
  | MGid neg g => xorb neg (k_gid p =? g)
  | MMark neg m => xorb neg (k_mark p =? m)
  | MConnmark m => k_cmark p =? m
  | MCtEst => k_est p
  | MCtInvalid => k_inv p
  end.

Definition set_mark (p : pkt) (m : N) : pkt :=
  {| k_proto := k_proto p; k_src := k_src p; k_dst := k_dst p; k_sport := k_sport p; k_dport := k_dport p;
     k_in := k_in p; k_out := k_out p; k_uid := k_uid p; k_gid := k_gid p;
     k_mark := m; k_cmark := k_cmark p; k_est := k_est p; k_inv := k_inv p |}.
Definition set_cmark (p : pkt) (m : N) : pkt :=
  {| k_proto := k_proto p; k_src := k_src p; k_dst := k_dst p; k_sport := k_sport p; k_dport := k_dport p;
     k_in := k_in p; k_out := k_out p; k_uid := k_uid p; k_gid := k_gid p;
     k_mark := k_mark p; k_cmark := m; k_est := k_est p; k_inv := k_inv p |}.

Inductive verdict := VAccept | VDrop | VRedirect (port : N) | VTproxy (mark port : N) | VFuel.
Inductive res := Term (v : verdict) (p : pkt) | Ret (p : pkt) | Fall (p : pkt) | Fuel.

Definition body : Type := list mtch * target.

(* one chain, first match wins; [call] runs a user chain *)
Fixpoint go (call : chain -> pkt -> res) (rs : list body) (p : pkt) : res :=
  match rs with
  | [] => Fall p
  | (ms, t) :: rs' =>
    if forallb (m_ok p) ms then
      match t with
      | TReturn => Ret p
      | TAccept => Term VAccept p
      | TDrop => Term VDrop p
      | TRedirect n => Term (VRedirect n) p
      | TTproxy m n => Term (VTproxy m n) p
      | TJump c' =>
        match call c' p with
        | Term v p' => Term v p'
        | Fuel => Fuel
        | Ret p' | Fall p' => go call rs' p'
        end
      | TSetMark m => go call rs' (set_mark p m)
      | TConnSave => go call rs' (set_cmark p (k_mark p))
      | TConnRestore => go call rs' (set_mark p (k_cmark p))
      | TCtZone _ => go call rs' p
      end
    else go call rs' p
  end.

Fixpoint run (fuel : nat) (get : chain -> list body) (c : chain) (p : pkt) : res :=
  match fuel with
  | O => Fuel
  | S f => go (run f get) (get c) p
  end.

(* building a chain from the restore commands: -A appends, -I n inserts at position n *)
Definition chain_eqb (a b : chain) :=
  match a, b with
  | PREROUTING, PREROUTING | OUTPUT, OUTPUT | ISTIO_OUTPUT, ISTIO_OUTPUT | ISTIO_OUTPUT_DNS, ISTIO_OUTPUT_DNS
  | ISTIO_INBOUND, ISTIO_INBOUND | ISTIO_DIVERT, ISTIO_DIVERT | ISTIO_TPROXY, ISTIO_TPROXY
  | ISTIO_REDIRECT, ISTIO_REDIRECT | ISTIO_IN_REDIRECT, ISTIO_IN_REDIRECT | ISTIO_DROP, ISTIO_DROP => true
  | COther x, COther y => x =? y
  | _, _ => false
  end.
Definition insert_at {X} (k : nat) (x : X) (l : list X) := firstn k l ++ x :: skipn k l.
Definition step (t : table) (c : chain) (acc : list body) (r : rule) : list body :=
  if table_eqb (r_table r) t && chain_eqb (r_chain r) c then
    match r_pos r with
    | None => acc ++ [(r_m r, r_t r)]
    | Some n => insert_at (N.to_nat (n - 1)) (r_m r, r_t r) acc
    end
  else acc.
Definition chain_of (t : table) (c : chain) (cmds : list rule) : list body := fold_left (step t c) cmds [].

(* verdict of one table at one hook: built-in chains have policy ACCEPT *)
Definition eval (t : table) (cmds : list rule) (hook : chain) (p : pkt) : verdict :=
  match run 8 (fun c => chain_of t c cmds) hook p with
  | Term v _ => v
  | Ret _ | Fall _ => VAccept
  | Fuel => VFuel
  end.
Definition nat_eval := eval Tnat.

(* ------------------------------------------------------------------ specification *)

Definition in_any (a : N) (cs : list cidr) := existsb (fun c => cidr_match c a) cs.

(* what the ISTIO_OUTPUT owner blocks decide for the ids of one kind (uid or gid):
   None = undecided, go on.  condB = "loopback traffic of others is returned here". *)
Definition owner_phase (ids : list N) (id : N) (condB : bool) (self : verdict) : option verdict :=
  if condB then
    match ids with
    | [] => None
    | u :: _ => Some (if id =? u then self else VAccept)
    end
  else if mem id ids then Some self else None.

Definition cond_b (cfg : config) (p : pkt) : bool :=
  negb (has_lb cfg) && (k_out p =? lo) && (if rdns cfg then is_tcp p && negb (k_dport p =? 53) else true).
Definition self_uid (cfg : config) (fm : fam) (p : pkt) : verdict :=
  if (k_out p =? lo) && negb (cidr_match (f_loop fm) (k_dst p)) && is_tcp p &&
     (if rdns cfg then negb (mem (k_dport p) [53; tunnel_port cfg]) else negb (k_dport p =? tunnel_port cfg))
  then VRedirect (in_port cfg) else VAccept.
Definition self_gid (cfg : config) (fm : fam) (p : pkt) : verdict :=
  if (k_out p =? lo) && negb (cidr_match (f_loop fm) (k_dst p)) && is_tcp p && negb (k_dport p =? tunnel_port cfg)
  then VRedirect (in_port cfg) else VAccept.

(* the owner group is NOT subject to capture *)
Definition group_skipped (cfg : config) (p : pkt) : bool :=
  if og_star cfg then mem (k_gid p) (og_exc cfg)
  else forallb (fun g => negb (k_gid p =? g)) (og_inc cfg).

Definition dns_hit (cfg : config) (fm : fam) (p : pkt) : bool :=
  rdns cfg && (dns_all cfg || negb (is_nil (f_dns fm))) && (is_tcp p || is_udp p) && (k_dport p =? 53) &&
  (dns_all cfg || mem (k_dst p) (f_dns fm)).

(* destination/port selection of application traffic *)
Definition dst_selected (cfg : config) (fm : fam) (p : pkt) : bool :=
  negb (cidr_match (f_loop fm) (k_dst p)) && negb (in_any (k_dst p) (f_exc fm)) &&
  is_tcp p && (mem (k_dport p) (out_pinc cfg) || f_inc_star fm || in_any (k_dst p) (f_inc fm)).

(* nat table, OUTPUT hook, any locally generated packet *)
Definition spec_out (cfg : config) (fm : fam) (p : pkt) : verdict :=
  if mem (k_out p) (excl_ifs cfg) then VAccept else
  if (is_tcp p || is_udp p) && mem (k_dport p) (out_pexc cfg) then VAccept else
  if (k_out p =? lo) && cidr_match (f_pass fm) (k_src p) then VAccept else
  match owner_phase (uids cfg) (k_uid p) (cond_b cfg p) (self_uid cfg fm p) with
  | Some v => v
  | None =>
    match owner_phase (gids cfg) (k_gid p) (cond_b cfg p) (self_gid cfg fm p) with
    | Some v => v
    | None =>
      if group_skipped cfg p then VAccept else
      if dns_hit cfg fm p then VRedirect dns_port else
      if dst_selected cfg fm p then VRedirect (proxy_port cfg) else VAccept
    end
  end.

(* inbound selection as the code implements it: the exclude list only applies with "*" *)
Definition in_selected (cfg : config) (p : pkt) : bool :=
  negb (k_dport p =? tunnel_port cfg) &&
  match in_inc cfg with
  | PNone => false
  | PStar => negb (mem (k_dport p) (in_exc cfg))
  | PList l => mem (k_dport p) l
  end.
(* inbound selection as the property states it: included and not excluded *)
Definition in_selected_strict (cfg : config) (p : pkt) : bool :=
  negb (k_dport p =? tunnel_port cfg) && negb (mem (k_dport p) (in_exc cfg)) &&
  match in_inc cfg with
  | PNone => false
  | PStar => true
  | PList l => mem (k_dport p) l
  end.

(* nat table, PREROUTING hook *)
Definition spec_pre_with (sel : config -> pkt -> bool) (cfg : config) (fm : fam) (p : pkt) : verdict :=
  if mem (k_in p) (virt_ifs cfg) then
    (if is_tcp p && (f_inc_star fm || in_any (k_dst p) (f_inc fm)) then VRedirect (proxy_port cfg) else VAccept)
  else if mem (k_in p) (excl_ifs cfg) then VAccept
  else if tproxy cfg then VAccept
  else if is_tcp p && sel cfg p then VRedirect (in_port cfg) else VAccept.
Definition spec_pre := spec_pre_with in_selected.
Definition spec_pre_strict := spec_pre_with in_selected_strict.

(* ------------------------------------------------------------------ the property in its own words *)

(* an application packet: owned by neither a proxy uid nor a proxy gid *)
Definition app_pkt (cfg : config) (p : pkt) : bool :=
  negb (mem (k_uid p) (uids cfg)) && negb (mem (k_gid p) (gids cfg)).
Definition proxy_pkt (cfg : config) (p : pkt) : bool :=
  mem (k_uid p) (uids cfg) || mem (k_gid p) (gids cfg).

(* loopback-interface traffic of the application that the owner blocks leave alone *)
Definition app_lo_return (cfg : config) (p : pkt) : bool :=
  cond_b cfg p && (negb (is_nil (uids cfg)) || negb (is_nil (gids cfg))).

(* application outbound TCP is redirected to the proxy's outbound port iff ... *)
Definition should_redirect_out (cfg : config) (fm : fam) (p : pkt) : bool :=
  negb (mem (k_out p) (excl_ifs cfg)) &&                       (* not an excluded interface *)
  negb (mem (k_dport p) (out_pexc cfg)) &&                     (* not an excluded port *)
  negb ((k_out p =? lo) && cidr_match (f_pass fm) (k_src p)) &&(* not the inbound passthrough bind address *)
  negb (app_lo_return cfg p) &&                                (* not app-to-itself over lo *)
  negb (group_skipped cfg p) &&                                (* owner group is captured *)
  negb (dns_hit cfg fm p) &&                                   (* not DNS taken by the agent *)
  negb (cidr_match (f_loop fm) (k_dst p)) &&                   (* not localhost *)
  negb (in_any (k_dst p) (f_exc fm)) &&                        (* not in an excluded range *)
  (mem (k_dport p) (out_pinc cfg) || f_inc_star fm || in_any (k_dst p) (f_inc fm)). (* included *)

(* v4 and v6 packets that fall in the same classes of the configuration *)
Definition same_class (cfg : config) (p4 p6 : pkt) : Prop :=
  let f4 := fam_of cfg false in
  let f6 := fam_of cfg true in
  k_proto p4 = k_proto p6 /\ k_dport p4 = k_dport p6 /\ k_in p4 = k_in p6 /\ k_out p4 = k_out p6 /\
  k_uid p4 = k_uid p6 /\ k_gid p4 = k_gid p6 /\
  cidr_match (f_pass f4) (k_src p4) = cidr_match (f_pass f6) (k_src p6) /\
  cidr_match (f_loop f4) (k_dst p4) = cidr_match (f_loop f6) (k_dst p6) /\
  in_any (k_dst p4) (f_exc f4) = in_any (k_dst p6) (f_exc f6) /\
  in_any (k_dst p4) (f_inc f4) = in_any (k_dst p6) (f_inc f6) /\
  dns_hit cfg f4 p4 = dns_hit cfg f6 p6.

(* ------------------------------------------------------------------ TPROXY mode: mangle table *)

(* inbound selection in TPROXY mode (the tunnel-port exemption only exists in the nat table) *)
Definition tp_selected (cfg : config) (p : pkt) : bool :=
  match in_inc cfg with
  | PNone => false
  | PStar => negb (mem (k_dport p) (in_exc cfg))
  | PList l => mem (k_dport p) l
  end.

(* mangle table, PREROUTING hook.  VAccept covers "diverted" (marked, accepted) as well. *)
Definition spec_mangle_pre (cfg : config) (fm : fam) (p : pkt) : verdict :=
  if tproxy cfg && mem (k_in p) (excl_ifs cfg) then VAccept else
  if drop_invalid cfg && k_inv p then VDrop else
  if negb (tproxy cfg) then VAccept else
  if negb (is_tcp p) then VAccept else
  if k_mark p =? tmark cfg then VAccept else
  if cidr_match (f_pass fm) (k_src p) && (k_in p =? lo) then VAccept else
  if (k_in p =? lo) && negb (k_mark p =? outbound_mark) then VAccept else
  if tp_selected cfg p && negb (k_est p) && negb (cidr_match (f_loop fm) (k_dst p))
  then VTproxy (tmark cfg) (in_port cfg) else VAccept.
