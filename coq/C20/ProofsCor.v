(* C20 proofs, part 4: the property theorems as corollaries of the two verdict theorems. *)
From Coq Require Import Lia.
From V Require Import lib.Verdict C20.Model C20.Proofs C20.ProofsOut C20.ProofsPre.
Open Scope N_scope.

Lemma owner_phase_cases ids id cb self v :
  owner_phase ids id cb self = Some v -> v = self \/ v = VAccept.
Proof.
  unfold owner_phase. destruct cb.
  - destruct ids as [|u r]; [discriminate|]. destruct (id =? u); intros [= <-]; auto.
  - destruct (mem id ids); [intros [= <-]; auto|discriminate].
Qed.
Lemma owner_phase_member ids id cb self :
  mem id ids = true -> owner_phase ids id cb self <> None.
Proof.
  unfold owner_phase. intros H. destruct cb.
  - destruct ids; [discriminate|discriminate].
  - rewrite H. discriminate.
Qed.
Lemma owner_phase_app ids id cb self :
  mem id ids = false ->
  owner_phase ids id cb self = if cb && negb (is_nil ids) then Some VAccept else None.
Proof.
  unfold owner_phase, mem. intros H. destruct cb; cbn [andb].
  - destruct ids as [|u r]; [reflexivity|]. cbn in *. destruct (id =? u); [discriminate|reflexivity].
  - rewrite H. reflexivity.
Qed.

Lemma self_uid_cases cfg fm p : self_uid cfg fm p = VRedirect (in_port cfg) \/ self_uid cfg fm p = VAccept.
Proof. unfold self_uid. destruct (_ && _); auto. Qed.
Lemma self_gid_cases cfg fm p : self_gid cfg fm p = VRedirect (in_port cfg) \/ self_gid cfg fm p = VAccept.
Proof. unfold self_gid. destruct (_ && _); auto. Qed.

(* the proxy's own traffic never goes back into its outbound port *)
Theorem no_self_loop cfg fm p :
  in_port cfg <> proxy_port cfg -> proxy_pkt cfg p = true ->
  nat_eval (gen cfg fm) OUTPUT p <> VRedirect (proxy_port cfg).
Proof.
  intros Hne Hp. rewrite output_verdict. unfold spec_out, proxy_pkt in *.
  destruct (mem (k_out p) (excl_ifs cfg)); [discriminate|].
  destruct (_ && mem _ _); [discriminate|].
  destruct (_ && cidr_match _ _); [discriminate|].
  destruct (owner_phase (uids cfg) _ _ _) as [v|] eqn:Hu.
  { apply owner_phase_cases in Hu. destruct Hu as [-> | ->]; [|discriminate].
    destruct (self_uid_cases cfg fm p) as [-> | ->]; [|discriminate]. intros [= E]. auto. }
  destruct (owner_phase (gids cfg) _ _ _) as [v|] eqn:Hg.
  { apply owner_phase_cases in Hg. destruct Hg as [-> | ->]; [|discriminate].
    destruct (self_gid_cases cfg fm p) as [-> | ->]; [|discriminate]. intros [= E]. auto. }
  exfalso. apply orb_prop in Hp. destruct Hp as [Hp | Hp].
  - exact (owner_phase_member _ _ _ _ Hp Hu).
  - exact (owner_phase_member _ _ _ _ Hp Hg).
Qed.

(* verdict for application packets, all protocols *)
Lemma app_verdict cfg fm p :
  app_pkt cfg p = true ->
  nat_eval (gen cfg fm) OUTPUT p =
  if mem (k_out p) (excl_ifs cfg) then VAccept else
  if (is_tcp p || is_udp p) && mem (k_dport p) (out_pexc cfg) then VAccept else
  if (k_out p =? lo) && cidr_match (f_pass fm) (k_src p) then VAccept else
  if app_lo_return cfg p then VAccept else
  if group_skipped cfg p then VAccept else
  if dns_hit cfg fm p then VRedirect dns_port else
  if dst_selected cfg fm p then VRedirect (proxy_port cfg) else VAccept.
Proof.
  intros Ha. unfold app_pkt in Ha. apply andb_prop in Ha. destruct Ha as [Hu Hg].
  apply negb_true_iff in Hu. apply negb_true_iff in Hg.
  rewrite output_verdict. unfold spec_out, app_lo_return.
  rewrite (owner_phase_app _ _ _ _ Hu), (owner_phase_app _ _ _ _ Hg).
  destruct (mem (k_out p) (excl_ifs cfg)); [reflexivity|].
  destruct (_ && mem _ _); [reflexivity|].
  destruct (_ && cidr_match _ _); [reflexivity|].
  destruct (cond_b cfg p); cbn [andb]; [|reflexivity].
  destruct (is_nil (uids cfg)); cbn [negb orb]; [|reflexivity].
  destruct (is_nil (gids cfg)); reflexivity.
Qed.

Theorem outbound_iff cfg fm p :
  proxy_port cfg <> dns_port -> app_pkt cfg p = true -> is_tcp p = true ->
  (nat_eval (gen cfg fm) OUTPUT p = VRedirect (proxy_port cfg) <-> should_redirect_out cfg fm p = true).
Proof.
  intros Hne Ha Ht. rewrite (app_verdict cfg fm p Ha). unfold should_redirect_out, dst_selected.
  rewrite Ht. cbn [orb andb].
  destruct (mem (k_out p) (excl_ifs cfg)); cbn [negb andb]; [split; discriminate|].
  destruct (mem (k_dport p) (out_pexc cfg)); cbn [negb andb]; [split; discriminate|].
  destruct (_ && cidr_match _ _); cbn [negb andb]; [split; discriminate|].
  destruct (app_lo_return cfg p); cbn [negb andb]; [split; discriminate|].
  destruct (group_skipped cfg p); cbn [negb andb]; [split; discriminate|].
  destruct (dns_hit cfg fm p); cbn [negb andb].
  { split; [intros [= E]; exfalso; auto | discriminate]. }
  destruct (cidr_match (f_loop fm) (k_dst p)); cbn [negb andb]; [split; discriminate|].
  destruct (in_any (k_dst p) (f_exc fm)); cbn [negb andb]; [split; discriminate|].
  destruct (mem (k_dport p) (out_pinc cfg) || f_inc_star fm || in_any (k_dst p) (f_inc fm));
    split; try discriminate; reflexivity.
Qed.

(* inbound, as implemented *)
Theorem inbound_iff cfg fm p :
  tproxy cfg = false -> is_tcp p = true ->
  mem (k_in p) (virt_ifs cfg) = false -> mem (k_in p) (excl_ifs cfg) = false ->
  (nat_eval (gen cfg fm) PREROUTING p = VRedirect (in_port cfg) <-> in_selected cfg p = true).
Proof.
  intros Hm Ht Hv He. rewrite prerouting_verdict. unfold spec_pre, spec_pre_with.
  rewrite Hv, He, Hm, Ht. cbn [andb].
  destruct (in_selected cfg p); split; try discriminate; reflexivity.
Qed.

Definition inbound_lists_disjoint (cfg : config) : Prop :=
  forall l, in_inc cfg = PList l -> forall x, mem x l = true -> mem x (in_exc cfg) = false.

Lemma strict_eq cfg p : inbound_lists_disjoint cfg -> in_selected_strict cfg p = in_selected cfg p.
Proof.
  unfold inbound_lists_disjoint, in_selected_strict, in_selected. intros H.
  destruct (k_dport p =? tunnel_port cfg); cbn [negb andb]; [reflexivity|].
  destruct (in_inc cfg) as [| |l] eqn:E.
  - rewrite andb_false_r. reflexivity.
  - rewrite andb_true_r. reflexivity.
  - destruct (mem (k_dport p) l) eqn:Hm.
    + rewrite (H l eq_refl _ Hm). reflexivity.
    + rewrite andb_false_r. reflexivity.
Qed.

Theorem inbound_strict_iff cfg fm p :
  inbound_lists_disjoint cfg ->
  tproxy cfg = false -> is_tcp p = true ->
  mem (k_in p) (virt_ifs cfg) = false -> mem (k_in p) (excl_ifs cfg) = false ->
  (nat_eval (gen cfg fm) PREROUTING p = VRedirect (in_port cfg) <-> in_selected_strict cfg p = true).
Proof. intros Hd. rewrite (strict_eq cfg p Hd). apply inbound_iff. Qed.

(* loopback traffic of the application is left alone *)
Theorem loopback_dst_left_alone cfg fm p :
  app_pkt cfg p = true -> cidr_match (f_loop fm) (k_dst p) = true -> dns_hit cfg fm p = false ->
  nat_eval (gen cfg fm) OUTPUT p = VAccept.
Proof.
  intros Ha Hl Hd. rewrite (app_verdict cfg fm p Ha). unfold dst_selected. rewrite Hl, Hd. cbn [negb andb].
  repeat match goal with |- context [if ?b then _ else _] => destruct b end; reflexivity.
Qed.

Theorem loopback_if_left_alone cfg fm p :
  app_pkt cfg p = true -> k_out p = lo -> has_lb cfg = false ->
  (uids cfg <> [] \/ gids cfg <> []) ->
  (rdns cfg = true -> k_dport p <> 53) ->
  nat_eval (gen cfg fm) OUTPUT p = VAccept.
Proof.
  intros Ha Ho Hl Hn Hd. rewrite (app_verdict cfg fm p Ha).
  assert (Hnil : negb (is_nil (uids cfg)) || negb (is_nil (gids cfg)) = true).
  { destruct Hn as [Hn | Hn]; [destruct (uids cfg); [congruence|reflexivity]|].
    destruct (gids cfg); [congruence|]. cbn. apply orb_true_r. }
  assert (Hc : app_lo_return cfg p = true \/ (dns_hit cfg fm p = false /\ dst_selected cfg fm p = false)).
  { unfold app_lo_return, cond_b, dns_hit, dst_selected. rewrite Ho, Hl, Hnil. cbn [negb andb]. rewrite N.eqb_refl.
    cbn [andb]. destruct (rdns cfg) eqn:Hr; [|left; reflexivity].
    assert (H53 : (k_dport p =? 53) = false) by (apply N.eqb_neq; auto). rewrite H53.
    destruct (is_tcp p); [left; reflexivity|right]. rewrite !andb_false_r. cbn. split; reflexivity. }
  destruct Hc as [Hc | [Hc1 Hc2]].
  - rewrite Hc. repeat match goal with |- context [if ?b then _ else _] => destruct b end; reflexivity.
  - rewrite Hc1, Hc2. repeat match goal with |- context [if ?b then _ else _] => destruct b end; reflexivity.
Qed.

(* v4 and v6 express the same policy *)
Lemma fam_star cfg six : f_inc_star (fam_of cfg six) = inc_star cfg.
Proof. reflexivity. Qed.

Theorem v4_v6_same_policy cfg p4 p6 :
  same_class cfg p4 p6 ->
  nat_eval (gen cfg (fam_of cfg false)) OUTPUT p4 = nat_eval (gen cfg (fam_of cfg true)) OUTPUT p6 /\
  nat_eval (gen cfg (fam_of cfg false)) PREROUTING p4 = nat_eval (gen cfg (fam_of cfg true)) PREROUTING p6.
Proof.
  unfold same_class. intros (Hpr & Hdp & Hi & Ho & Hu & Hg & Hpass & Hloop & Hexc & Hinc & Hdns).
  rewrite !output_verdict, !prerouting_verdict. split.
  - unfold spec_out, cond_b, self_uid, self_gid, group_skipped, dst_selected, is_tcp, is_udp.
    rewrite !fam_star. rewrite Hpr, Hdp, Ho, Hu, Hg, Hpass, Hloop, Hexc, Hinc, Hdns. reflexivity.
  - unfold spec_pre, spec_pre_with, in_selected, is_tcp.
    rewrite !fam_star. rewrite Hpr, Hdp, Hi, Hinc. reflexivity.
Qed.

(* ------------------------------------------------------------------ witnesses *)

Definition ex_cfg : config :=
  {| proxy_port := 15001; in_port := 15006; tunnel_port := 15008; uids := [1337]; gids := [1337];
     tproxy := false; tmark := 1337; in_inc := PList [80; 8080]; in_exc := [8080];
     og_star := true; og_inc := []; og_exc := []; out_pinc := []; out_pexc := [];
     inc_star := true; inc := []; exc_star := false; exc := [P false 167772160 8];
     virt_ifs := []; excl_ifs := []; dns := false; dns_all := false; dns4 := []; dns6 := [];
     drop_invalid := false; v6 := true; loop4 := C 2130706433 0 |}.
Definition ex_pkt (dport : N) (dst : N) (uid : N) : pkt :=
  {| k_proto := TCP; k_src := 167772161; k_dst := dst; k_sport := 40000; k_dport := dport;
     k_in := 1; k_out := 1; k_uid := uid; k_gid := uid; k_mark := 0; k_cmark := 0; k_est := false; k_inv := false |}.

(* the literal reading "included and not excluded" fails when the include list is explicit *)
Lemma inbound_strict_refuted :
  exists cfg fm p,
    tproxy cfg = false /\ is_tcp p = true /\
    mem (k_in p) (virt_ifs cfg) = false /\ mem (k_in p) (excl_ifs cfg) = false /\
    in_selected_strict cfg p = false /\
    nat_eval (gen cfg fm) PREROUTING p = VRedirect (in_port cfg).
Proof.
  exists ex_cfg, (fam_of ex_cfg false), (ex_pkt 8080 167772165 0).
  vm_compute. repeat split; reflexivity.
Qed.
