(* C20 proofs, part 1: chain extraction and evaluator lemmas. *)
From Coq Require Import Lia.
From V Require Import lib.Verdict C20.Model.
Open Scope N_scope.

(* ------------------------------------------------------------------ projections of a chain *)

Definition hit (t : table) (c : chain) (r : rule) : bool :=
  table_eqb (r_table r) t && chain_eqb (r_chain r) c.
Definition bd (r : rule) : body := (r_m r, r_t r).
Fixpoint proj (t : table) (c : chain) (l : list rule) : list body :=
  match l with
  | [] => []
  | r :: l => if hit t c r then bd r :: proj t c l else proj t c l
  end.
Definition miss t c (l : list rule) := forallb (fun r => negb (hit t c r)) l.
Definition noins t c (l : list rule) :=
  forallb (fun r => negb (hit t c r) || match r_pos r with None => true | Some _ => false end) l.

Lemma proj_app t c l1 l2 : proj t c (l1 ++ l2) = proj t c l1 ++ proj t c l2.
Proof. induction l1 as [|r l1 IH]; cbn; [reflexivity|]. destruct (hit t c r); cbn; rewrite IH; reflexivity. Qed.

Lemma proj_miss t c l : miss t c l = true -> proj t c l = [].
Proof.
  induction l as [|r l IH]; cbn; [reflexivity|]. intros H. apply andb_prop in H. destruct H as [H1 H2].
  destruct (hit t c r); [discriminate|]. apply IH. exact H2.
Qed.

Lemma miss_app t c l1 l2 : miss t c l1 = true -> miss t c l2 = true -> miss t c (l1 ++ l2) = true.
Proof. unfold miss. intros. rewrite forallb_app. rewrite H, H0. reflexivity. Qed.
Lemma miss_flat_map {X} t c (f : X -> list rule) l :
  (forall x, miss t c (f x) = true) -> miss t c (flat_map f l) = true.
Proof. intros H. induction l; cbn; [reflexivity|]. apply miss_app; auto. Qed.
Lemma miss_map {X} t c (f : X -> rule) l :
  (forall x, hit t c (f x) = false) -> miss t c (map f l) = true.
Proof. intros H. induction l; cbn; [reflexivity|]. rewrite H. cbn. exact IHl. Qed.

Lemma noins_app t c l1 l2 : noins t c l1 = true -> noins t c l2 = true -> noins t c (l1 ++ l2) = true.
Proof. unfold noins. intros. rewrite forallb_app. rewrite H, H0. reflexivity. Qed.
Lemma noins_flat_map {X} t c (f : X -> list rule) l :
  (forall x, noins t c (f x) = true) -> noins t c (flat_map f l) = true.
Proof. intros H. induction l; cbn; [reflexivity|]. apply noins_app; auto. Qed.
Lemma noins_map {X} t c (f : X -> rule) l :
  (forall x, noins t c [f x] = true) -> noins t c (map f l) = true.
Proof.
  intros H. induction l; cbn; [reflexivity|]. specialize (H a). cbn in H. rewrite andb_true_r in H.
  rewrite H. exact IHl.
Qed.

Ltac split_ifs :=
  repeat match goal with
         | |- context [if ?b then _ else _] => destruct b
         | |- context [match in_inc ?c with _ => _ end] => destruct (in_inc c)
         end.

Ltac solve_miss :=
  repeat first
    [ reflexivity
    | apply miss_app
    | apply miss_flat_map; intro
    | apply miss_map; intro
    | progress split_ifs ].
Ltac solve_noins :=
  repeat first
    [ reflexivity
    | apply noins_app
    | apply noins_flat_map; intro
    | apply noins_map; intro
    | progress split_ifs ].

Definition F t c l acc := fold_left (step t c) l acc.
Lemma F_noins t c l : forall acc, noins t c l = true -> F t c l acc = acc ++ proj t c l.
Proof.
  unfold F. induction l as [|r l IH]; intros acc H; cbn.
  - rewrite app_nil_r. reflexivity.
  - cbn in H. apply andb_prop in H. destruct H as [H1 H2]. rewrite IH by exact H2.
    unfold step, hit in *. destruct (table_eqb (r_table r) t && chain_eqb (r_chain r) c); cbn in *.
    + destruct (r_pos r); [discriminate|]. rewrite <- app_assoc. reflexivity.
    + reflexivity.
Qed.
Lemma chain_of_noins t c l : noins t c l = true -> chain_of t c l = proj t c l.
Proof. intros H. unfold chain_of. change (F t c l [] = proj t c l). rewrite F_noins by exact H. reflexivity. Qed.

Lemma F_app t c l1 l2 acc : F t c (l1 ++ l2) acc = F t c l2 (F t c l1 acc).
Proof. unfold F. apply fold_left_app. Qed.
Lemma F_miss t c l acc : miss t c l = true -> F t c l acc = acc.
Proof.
  intros H. rewrite F_noins.
  - rewrite proj_miss by exact H. apply app_nil_r.
  - unfold miss, noins in *. rewrite forallb_forall in *. intros x Hx. rewrite (H x Hx). reflexivity.
Qed.

(* ------------------------------------------------------------------ evaluator lemmas *)

Lemma go_app call l1 : forall l2 p,
  go call (l1 ++ l2) p = match go call l1 p with Fall p' => go call l2 p' | r => r end.
Proof.
  induction l1 as [|[ms t] l1 IH]; intros l2 p; cbn [app go]; [reflexivity|].
  destruct (forallb (m_ok p) ms); [|apply IH].
  destruct t; try reflexivity; try apply IH.
  destruct (call c p); try reflexivity; apply IH.
Qed.

Definition to_res (v : verdict) (p : pkt) : res := match v with VAccept => Ret p | v => Term v p end.
Definition fin (r : res) : verdict := match r with Term v _ => v | Ret _ | Fall _ => VAccept | Fuel => VFuel end.

Lemma proto_eqb_refl q : proto_eqb q q = true.
Proof. destruct q; reflexivity. Qed.

Lemma cidr_host s a : cidr_match (C s 0) a = (a =? s).
Proof. unfold cidr_match. cbn [c_hb c_base]. rewrite !N.shiftr_0_r. reflexivity. Qed.

(* recursive form of the owner blocks' decision *)
Fixpoint owner_rec (ids : list N) (id : N) (condB : bool) (self : verdict) : option verdict :=
  match ids with
  | [] => None
  | u :: rest => if id =? u then Some self else if condB then Some VAccept else owner_rec rest id condB self
  end.
Lemma owner_rec_phase ids id condB self : owner_rec ids id condB self = owner_phase ids id condB self.
Proof.
  unfold owner_phase. destruct condB.
  - destruct ids as [|u rest]; cbn; [reflexivity|]. destruct (id =? u); reflexivity.
  - induction ids as [|u rest IH]; cbn; [reflexivity|]. unfold mem in *. cbn.
    destruct (id =? u); cbn; [reflexivity|]. exact IH.
Qed.
