(* Evaluation of harness cases for C20. *)
From V Require Export lib.Verdict C20.Model.
Open Scope N_scope.

Inductive case :=
(* correspondence: the rules parsed from the iptables-restore / ip6tables-restore input that the
   real IptablesConfigurator.Run handed to the dependencies layer (None = Run returned an error) *)
| Corr (id : N) (cfg : config) (obs : option (list rule * list rule))
(* semantics: the REAL parsed rules of one family (nat table), evaluated at one hook on boundary
   packets derived from the configuration, against the specification *)
| Sem (id : N) (cfg : config) (tbl : table) (six : bool) (hook : chain) (obs : list rule) (pkts : list pkt).

Definition case_id c := match c with Corr id _ _ => id | Sem id _ _ _ _ _ _ => id end.

(* ---- structural equality of rules *)
Definition cidr_eqb (a b : cidr) := (c_base a =? c_base b) && (c_hb a =? c_hb b).
Definition mtch_eqb (a b : mtch) : bool :=
  match a, b with
  | MProto p, MProto q => proto_eqb p q
  | MDport n x, MDport m y => Bool.eqb n m && (x =? y)
  | MSport x, MSport y => x =? y
  | MDports n l, MDports m k => Bool.eqb n m && list_eqb N.eqb l k
  | MSrc c, MSrc d => cidr_eqb c d
  | MDst n c, MDst m d => Bool.eqb n m && cidr_eqb c d
  | MIn x, MIn y | MOut x, MOut y | MConnmark x, MConnmark y => x =? y
  | MUid n x, MUid m y | MGid n x, MGid m y | MMark n x, MMark m y => Bool.eqb n m && (x =? y)
  | MCtEst, MCtEst | MCtInvalid, MCtInvalid => true
  | _, _ => false
  end.
Definition target_eqb (a b : target) : bool :=
  match a, b with
  | TReturn, TReturn | TAccept, TAccept | TDrop, TDrop | TConnSave, TConnSave | TConnRestore, TConnRestore => true
  | TJump c, TJump d => chain_eqb c d
  | TRedirect x, TRedirect y | TSetMark x, TSetMark y | TCtZone x, TCtZone y => x =? y
  | TTproxy m x, TTproxy n y => (m =? n) && (x =? y)
  | _, _ => false
  end.
Definition rule_eqb (a b : rule) : bool :=
  table_eqb (r_table a) (r_table b) && chain_eqb (r_chain a) (r_chain b) &&
  option_eqb N.eqb (r_pos a) (r_pos b) && list_eqb mtch_eqb (r_m a) (r_m b) && target_eqb (r_t a) (r_t b).
Definition verdict_eqb (a b : verdict) : bool :=
  match a, b with
  | VAccept, VAccept | VDrop, VDrop | VFuel, VFuel => true
  | VRedirect x, VRedirect y => x =? y
  | VTproxy m x, VTproxy n y => (m =? n) && (x =? y)
  | _, _ => false
  end.

Definition model_ok (c : case) : bool :=
  match c with
  | Corr _ cfg obs =>
    option_eqb (fun a b => list_eqb rule_eqb (fst a) (fst b) && list_eqb rule_eqb (snd a) (snd b)) (rules cfg) obs
  | Sem _ _ _ _ _ _ _ => true
  end.

(* the specification at a hook (strict inbound reading of the property text) *)
Definition spec_at (cfg : config) (tbl : table) (six : bool) (hook : chain) (p : pkt) : verdict :=
  match tbl, hook with
  | Tnat, OUTPUT => spec_out cfg (fam_of cfg six) p
  | Tnat, _ => spec_pre_strict cfg (fam_of cfg six) p
  | _, _ => spec_mangle_pre cfg (fam_of cfg six) p
  end.

(* packets on which the observed rules disagree with the specification (for diagnosis) *)
Definition failing (c : case) : list pkt :=
  match c with
  | Sem _ cfg tbl six hook obs pkts =>
    filter (fun p => negb (verdict_eqb (eval tbl obs hook p) (spec_at cfg tbl six hook p))) pkts
  | _ => []
  end.

Definition prop_ok (c : case) : bool :=
  match c with
  | Corr _ _ _ => true
  | Sem _ _ _ _ _ _ _ => is_nil (failing c)
  end.

Definition mismatches := check_all case_id model_ok prop_ok.
