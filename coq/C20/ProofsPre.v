(* C20 proofs, part 3: the nat table at the PREROUTING hook (REDIRECT and TPROXY mode; in TPROXY
   mode the nat table only carries the interface short-circuits and the virtual-interface rules). *)
From Coq Require Import Lia.
From V Require Import lib.Verdict C20.Model C20.Proofs C20.ProofsOut.
Open Scope N_scope.

(* appended / inserted rules of a chain, each in command order *)
Definition is_app (r : rule) := match r_pos r with None => true | Some _ => false end.
Fixpoint pa (t : table) (c : chain) (l : list rule) : list body :=
  match l with
  | [] => []
  | r :: l => if hit t c r && is_app r then bd r :: pa t c l else pa t c l
  end.
Fixpoint pi (t : table) (c : chain) (l : list rule) : list body :=
  match l with
  | [] => []
  | r :: l => if hit t c r && negb (is_app r) then bd r :: pi t c l else pi t c l
  end.
(* every insert into the chain is at position 1 *)
Definition ins1 t c (l : list rule) :=
  forallb (fun r => negb (hit t c r) || match r_pos r with None => true | Some n => n =? 1 end) l.

Lemma F_ins1 t c l : forall acc, ins1 t c l = true -> F t c l acc = rev (pi t c l) ++ acc ++ pa t c l.
Proof.
  unfold F. induction l as [|r l IH]; intros acc H; cbn [fold_left pi pa rev].
  - rewrite app_nil_r. reflexivity.
  - cbn in H. apply andb_prop in H. destruct H as [H1 H2]. rewrite IH by exact H2.
    unfold step, hit, is_app in *. destruct (table_eqb (r_table r) t && chain_eqb (r_chain r) c); cbn in *.
    + destruct (r_pos r) as [n|]; cbn.
      * apply N.eqb_eq in H1. subst n. cbn. rewrite <- !app_assoc. reflexivity.
      * rewrite <- !app_assoc. reflexivity.
    + reflexivity.
Qed.

Lemma pa_app t c l1 l2 : pa t c (l1 ++ l2) = pa t c l1 ++ pa t c l2.
Proof. induction l1 as [|r l1 IH]; cbn; [reflexivity|]. destruct (hit t c r && is_app r); cbn; rewrite IH; reflexivity. Qed.
Lemma pi_app t c l1 l2 : pi t c (l1 ++ l2) = pi t c l1 ++ pi t c l2.
Proof. induction l1 as [|r l1 IH]; cbn; [reflexivity|]. destruct (hit t c r && negb (is_app r)); cbn; rewrite IH; reflexivity. Qed.
Lemma pa_miss t c l : miss t c l = true -> pa t c l = [].
Proof.
  induction l as [|r l IH]; cbn; [reflexivity|]. intros H. apply andb_prop in H. destruct H as [H1 H2].
  destruct (hit t c r); [discriminate|]. apply IH. exact H2.
Qed.
Lemma pi_miss t c l : miss t c l = true -> pi t c l = [].
Proof.
  induction l as [|r l IH]; cbn; [reflexivity|]. intros H. apply andb_prop in H. destruct H as [H1 H2].
  destruct (hit t c r); [discriminate|]. apply IH. exact H2.
Qed.

Lemma ins1_app t c l1 l2 : ins1 t c l1 = true -> ins1 t c l2 = true -> ins1 t c (l1 ++ l2) = true.
Proof. unfold ins1. intros. rewrite forallb_app. rewrite H, H0. reflexivity. Qed.
Lemma ins1_flat_map {X} t c (f : X -> list rule) l :
  (forall x, ins1 t c (f x) = true) -> ins1 t c (flat_map f l) = true.
Proof. intros H. induction l; cbn; [reflexivity|]. apply ins1_app; auto. Qed.
Lemma ins1_map {X} t c (f : X -> rule) l :
  (forall x, ins1 t c [f x] = true) -> ins1 t c (map f l) = true.
Proof.
  intros H. induction l; cbn; [reflexivity|]. specialize (H a). cbn in H. rewrite andb_true_r in H.
  rewrite H. exact IHl.
Qed.
Ltac solve_ins1 := unfold_segs; repeat first
    [ reflexivity | apply ins1_app | apply ins1_flat_map; intro; cbv beta | apply ins1_map; intro; cbv beta | progress split_ifs ].

Lemma ins1_PRE cfg fm : ins1 Tnat PREROUTING (gen cfg fm) = true.
Proof. solve_ins1. Qed.

Ltac kill_miss2 :=
  repeat match goal with
         | |- context [pa ?t ?c ?s] => rewrite (pa_miss t c s) by solve_miss'
         | |- context [pi ?t ?c ?s] => rewrite (pi_miss t c s) by solve_miss'
         end.

Notation PRE := PREROUTING.

Lemma pa_ins_map (ms : N -> list mtch) tg l :
  pa Tnat PRE (map (fun i => I Tnat PRE 1 (ms i) tg) l) = [].
Proof. induction l; cbn; auto. Qed.

Lemma pa_PRE cfg fm :
  pa Tnat PRE (gen cfg fm) =
  map (fun i => ([MIn i], TReturn)) (excl_ifs cfg) ++
  match in_inc cfg with PNone => [] | _ => if tproxy cfg then [] else [([MProto TCP], TJump ISTIO_INBOUND)] end.
Proof.
  unfold gen. rewrite !pa_app. kill_miss2. cbn [app].
  assert (Hv : pa Tnat PRE (seg_virt cfg) = []).
  { unfold seg_virt. induction (virt_ifs cfg); cbn; auto. }
  assert (Hi : pa Tnat PRE (seg_inc cfg fm) = []).
  { unfold seg_inc. destruct (f_inc_star fm).
    - cbn. apply pa_ins_map.
    - induction (f_inc fm) as [|a l IH]; cbn [flat_map]; [reflexivity|]. rewrite !pa_app, IH.
      rewrite pa_ins_map. reflexivity. }
  rewrite Hv, Hi. cbn [app]. rewrite ?app_nil_r. f_equal.
  - unfold seg_excl. rewrite pa_app. kill_miss2. rewrite app_nil_r.
    induction (excl_ifs cfg); cbn; [reflexivity|]. f_equal. exact IHl.
  - unfold seg_inbound, in_table. destruct (in_inc cfg); [reflexivity| |]; destruct (tproxy cfg);
      rewrite ?pa_app; kill_miss2; reflexivity.
Qed.

Lemma pi_PRE cfg fm :
  pi Tnat PRE (gen cfg fm) = pi Tnat PRE (seg_virt cfg) ++ pi Tnat PRE (seg_inc cfg fm).
Proof.
  unfold gen. rewrite !pi_app. kill_miss2. cbn [app].
  assert (He : pi Tnat PRE (seg_excl cfg) = []).
  { unfold seg_excl. rewrite pi_app. kill_miss2. rewrite app_nil_r. induction (excl_ifs cfg); cbn; auto. }
  assert (Hi : pi Tnat PRE (seg_inbound cfg fm) = []).
  { unfold seg_inbound, in_table. destruct (in_inc cfg); [reflexivity| |]; destruct (tproxy cfg);
      rewrite ?pi_app; kill_miss2; reflexivity. }
  rewrite He, Hi. cbn [app]. rewrite ?app_nil_r. reflexivity.
Qed.

Lemma pi_ins_map (ms : N -> list mtch) tg l :
  pi Tnat PRE (map (fun i => I Tnat PRE 1 (ms i) tg) l) = map (fun i => (ms i, tg)) l.
Proof. induction l; cbn; [reflexivity|]. unfold bd at 1. cbn. f_equal. exact IHl. Qed.

Definition hits (p : pkt) (L : list body) := existsb (fun b => forallb (m_ok p) (fst b)) L.
Definition all_tg (tg : target) (L : list body) := forall b, In b L -> snd b = tg.

Lemma hits_app p L1 L2 : hits p (L1 ++ L2) = hits p L1 || hits p L2.
Proof. apply existsb_app. Qed.
Lemma hits_rev p L : hits p (rev L) = hits p L.
Proof.
  unfold hits. apply eq_iff_eq_true. rewrite !existsb_exists.
  split; intros [x [Hi Hx]]; exists x; split; auto; [apply in_rev; exact Hi | apply in_rev in Hi; exact Hi].
Qed.
Lemma all_tg_rev tg L : all_tg tg L -> all_tg tg (rev L).
Proof. intros H b Hb. apply H. apply in_rev. exact Hb. Qed.
Lemma all_tg_app tg L1 L2 : all_tg tg L1 -> all_tg tg L2 -> all_tg tg (L1 ++ L2).
Proof. intros H1 H2 b Hb. apply in_app_or in Hb. destruct Hb; auto. Qed.
Lemma all_tg_map {X} tg (ms : X -> list mtch) l : all_tg tg (map (fun i => (ms i, tg)) l).
Proof. intros b Hb. apply in_map_iff in Hb. destruct Hb as [x [<- _]]. reflexivity. Qed.

Section PreGo.
Variable cfg : config.
Variable fm : fam.
Variable call : chain -> pkt -> res.
Hypothesis Hred : forall p, call ISTIO_REDIRECT p = if is_tcp p then Term (VRedirect (proxy_port cfg)) p else Fall p.

Lemma go_redirs L : all_tg (TJump ISTIO_REDIRECT) L -> forall rest p,
  go call (L ++ rest) p = if is_tcp p && hits p L then Term (VRedirect (proxy_port cfg)) p else go call rest p.
Proof.
  induction L as [|[ms t] L IH]; intros H rest p.
  - cbn. rewrite andb_false_r. reflexivity.
  - assert (Ht : t = TJump ISTIO_REDIRECT) by (apply (H (ms, t)); left; reflexivity). subst t.
    assert (HL : all_tg (TJump ISTIO_REDIRECT) L) by (intros b Hb; apply H; right; exact Hb).
    cbn [app go hits existsb fst]. rewrite Hred. unfold hits in *.
    destruct (forallb (m_ok p) ms); destruct (is_tcp p) eqn:Ht; cbn [andb orb]; try reflexivity;
      rewrite (IH HL), Ht; reflexivity.
Qed.

Lemma go_returns L : all_tg TReturn L -> forall rest p,
  go call (L ++ rest) p = if hits p L then Ret p else go call rest p.
Proof.
  induction L as [|[ms t] L IH]; intros H rest p; [reflexivity|].
  assert (Ht : t = TReturn) by (apply (H (ms, t)); left; reflexivity). subst t.
  assert (HL : all_tg TReturn L) by (intros b Hb; apply H; right; exact Hb).
  cbn [app go hits existsb fst]. rewrite (IH HL). unfold hits.
  destruct (forallb (m_ok p) ms); reflexivity.
Qed.
End PreGo.

Lemma hits_in p tg l : hits p (map (fun i => ([MIn i], tg)) l) = mem (k_in p) l.
Proof.
  unfold hits, mem. induction l; cbn; [reflexivity|]. rewrite IHl, andb_true_r. reflexivity.
Qed.
Lemma hits_in_dst p tg c l :
  hits p (map (fun i => ([MIn i; MDst false c], tg)) l) = mem (k_in p) l && cidr_match c (k_dst p).
Proof.
  unfold hits, mem. induction l; cbn; [reflexivity|]. rewrite IHl, andb_true_r.
  destruct (k_in p =? a); destruct (cidr_match c (k_dst p)); cbn; rewrite ?andb_false_r; reflexivity.
Qed.

Definition inc_bodies (cfg : config) (fm : fam) : list body :=
  if f_inc_star fm then map (fun i => ([MIn i], TJump ISTIO_REDIRECT)) (virt_ifs cfg)
  else flat_map (fun c => map (fun i => ([MIn i; MDst false c], TJump ISTIO_REDIRECT)) (virt_ifs cfg)) (f_inc fm).

Lemma pi_inc cfg fm : pi Tnat PRE (seg_inc cfg fm) = inc_bodies cfg fm.
Proof.
  unfold seg_inc, inc_bodies. destruct (f_inc_star fm).
  - rewrite pi_app. cbn [pi hit A r_table r_chain table_eqb chain_eqb andb app].
    apply (pi_ins_map (fun i => [MIn i])).
  - induction (f_inc fm) as [|c l IH]; cbn [flat_map]; [reflexivity|].
    rewrite !pi_app, IH. rewrite (pi_ins_map (fun i => [MIn i; MDst false c])). cbn. rewrite app_nil_r. reflexivity.
Qed.
Lemma all_tg_inc cfg fm : all_tg (TJump ISTIO_REDIRECT) (inc_bodies cfg fm).
Proof.
  unfold inc_bodies. destruct (f_inc_star fm).
  - apply (all_tg_map _ (fun i => [MIn i])).
  - induction (f_inc fm) as [|c l IH]; cbn [flat_map]; [intros b []|].
    apply all_tg_app; [apply (all_tg_map _ (fun i => [MIn i; MDst false c]))|exact IH].
Qed.
Lemma hits_inc cfg fm p :
  hits p (inc_bodies cfg fm) = mem (k_in p) (virt_ifs cfg) && (f_inc_star fm || in_any (k_dst p) (f_inc fm)).
Proof.
  unfold inc_bodies. destruct (f_inc_star fm); cbn [orb].
  - rewrite hits_in, andb_true_r. reflexivity.
  - unfold in_any. induction (f_inc fm) as [|c l IH]; cbn [flat_map existsb].
    + cbn. rewrite andb_false_r. reflexivity.
    + rewrite hits_app, hits_in_dst, IH.
      destruct (mem (k_in p) (virt_ifs cfg)); reflexivity.
Qed.
Lemma pi_virt cfg : pi Tnat PRE (seg_virt cfg) = map (fun i => ([MIn i], TReturn)) (virt_ifs cfg).
Proof. unfold seg_virt. apply (pi_ins_map (fun i => [MIn i])). Qed.

(* the nat ISTIO_INBOUND chain *)
Lemma proj_INB cfg fm :
  proj Tnat ISTIO_INBOUND (gen cfg fm) =
  ([MProto TCP; MDport false (tunnel_port cfg)], TReturn) ::
  if tproxy cfg then [] else
  match in_inc cfg with
  | PNone => []
  | PStar => map (fun p => ([MProto TCP; MDport false p], TReturn)) (in_exc cfg) ++ [([MProto TCP], TJump ISTIO_IN_REDIRECT)]
  | PList l => map (fun p => ([MProto TCP; MDport false p], TJump ISTIO_IN_REDIRECT)) l
  end.
Proof.
  unfold gen. rewrite !proj_app. kill_miss. cbn [app]. rewrite ?app_nil_r.
  unfold seg_base. cbn [proj hit A r_table r_chain table_eqb chain_eqb andb bd r_m r_t app]. f_equal.
  unfold seg_inbound, in_table. destruct (in_inc cfg); destruct (tproxy cfg); try reflexivity;
    rewrite ?proj_app; kill_miss; cbn [app]; rewrite ?app_nil_r.
  - reflexivity.
  - f_equal. induction (in_exc cfg); cbn; [reflexivity|]. f_equal. assumption.
  - reflexivity.
  - induction l; cbn; [reflexivity|]. f_equal. assumption.
Qed.

Lemma go_INB cfg fm call p :
  (forall q, call ISTIO_IN_REDIRECT q = if is_tcp q then Term (VRedirect (in_port cfg)) q else Fall q) ->
  fin (go call (proj Tnat ISTIO_INBOUND (gen cfg fm)) p) =
  if is_tcp p && negb (tproxy cfg) && in_selected cfg p then VRedirect (in_port cfg) else VAccept.
Proof.
  intros Hin. rewrite proj_INB. unfold in_selected, is_tcp.
  cbn [go forallb m_ok xorb].
  destruct (proto_eqb (k_proto p) TCP) eqn:Ht; cbn [andb].
  2: { destruct (tproxy cfg); [reflexivity|]. destruct (in_inc cfg); cbn [go]; try reflexivity.
       - induction (in_exc cfg); cbn [map app go forallb m_ok]; rewrite ?Ht; cbn; auto.
       - induction l; cbn [map app go forallb m_ok]; rewrite ?Ht; cbn; auto. }
  destruct (k_dport p =? tunnel_port cfg); cbn [andb negb]; [rewrite ?andb_false_r; reflexivity|].
  destruct (tproxy cfg); cbn [negb andb]; [reflexivity|].
  destruct (in_inc cfg); [reflexivity| |].
  - unfold mem. induction (in_exc cfg) as [|a l IH]; cbn [map app go forallb m_ok xorb existsb].
    + rewrite Ht, Hin. unfold is_tcp. rewrite Ht. reflexivity.
    + rewrite Ht. cbn [andb]. destruct (k_dport p =? a); cbn; [reflexivity|exact IH].
  - unfold mem. induction l as [|a l IH]; cbn [map go forallb m_ok xorb existsb]; [reflexivity|].
    rewrite Ht. cbn [andb]. destruct (k_dport p =? a); cbn [andb orb].
    + rewrite Hin. unfold is_tcp. rewrite Ht. reflexivity.
    + exact IH.
Qed.

Theorem prerouting_verdict cfg fm p : nat_eval (gen cfg fm) PREROUTING p = spec_pre cfg fm p.
Proof.
  unfold nat_eval, eval.
  set (get := fun c => chain_of Tnat c (gen cfg fm)).
  change (fin (run 8 get PRE p) = spec_pre cfg fm p).
  assert (Hget : forall c, noins Tnat c (gen cfg fm) = true -> get c = proj Tnat c (gen cfg fm))
    by (intros; apply chain_of_noins; assumption).
  assert (Hpre : get PRE = rev (inc_bodies cfg fm) ++ rev (map (fun i => ([MIn i], TReturn)) (virt_ifs cfg)) ++
                 map (fun i => ([MIn i], TReturn)) (excl_ifs cfg) ++
                 match in_inc cfg with PNone => [] | _ => if tproxy cfg then [] else [([MProto TCP], TJump ISTIO_INBOUND)] end).
  { unfold get, chain_of. change (fold_left (step Tnat PRE) (gen cfg fm) []) with (F Tnat PRE (gen cfg fm) []).
    rewrite F_ins1 by apply ins1_PRE. rewrite pi_PRE, pa_PRE, pi_virt, pi_inc, rev_app_distr.
    cbn [app]. rewrite <- app_assoc. reflexivity. }
  clearbody get.
  assert (Hred : forall q, run 7 get ISTIO_REDIRECT q = if is_tcp q then Term (VRedirect (proxy_port cfg)) q else Fall q).
  { intros q. rewrite (run_S 6). rewrite (Hget ISTIO_REDIRECT) by apply noins_RED. rewrite proj_RED.
    cbn [go forallb m_ok]. unfold is_tcp. destruct (proto_eqb (k_proto q) TCP); reflexivity. }
  assert (Hin : forall q, run 6 get ISTIO_IN_REDIRECT q = if is_tcp q then Term (VRedirect (in_port cfg)) q else Fall q).
  { intros q. rewrite (run_S 5). rewrite (Hget ISTIO_IN_REDIRECT) by apply noins_INRED. rewrite proj_INRED.
    cbn [go forallb m_ok]. unfold is_tcp. destruct (proto_eqb (k_proto q) TCP); reflexivity. }
  rewrite (run_S 7), Hpre. unfold spec_pre, spec_pre_with.
  rewrite (go_redirs cfg (run 7 get) Hred) by (apply all_tg_rev, all_tg_inc).
  rewrite hits_rev, hits_inc.
  rewrite (go_returns (run 7 get)) by (apply all_tg_rev, (all_tg_map _ (fun i => [MIn i]))).
  rewrite hits_rev, hits_in.
  destruct (mem (k_in p) (virt_ifs cfg)); cbn [andb].
  { destruct (is_tcp p && _); reflexivity. }
  rewrite andb_false_r.
  rewrite (go_returns (run 7 get)) by (apply (all_tg_map _ (fun i => [MIn i]))).
  rewrite hits_in. destruct (mem (k_in p) (excl_ifs cfg)); [reflexivity|].
  pose proof (go_INB cfg fm (run 6 get) p Hin) as HI.
  destruct (tproxy cfg).
  { destruct (in_inc cfg); reflexivity. }
  cbn [negb andb] in HI. rewrite andb_true_r in HI.
  assert (Hj : fin (go (run 7 get) [([MProto TCP], TJump ISTIO_INBOUND)] p) =
               if is_tcp p && in_selected cfg p then VRedirect (in_port cfg) else VAccept).
  { cbn [go forallb m_ok]. unfold is_tcp in *. destruct (proto_eqb (k_proto p) TCP); cbn [andb]; [|reflexivity].
    rewrite (run_S 6). rewrite (Hget ISTIO_INBOUND) by apply noins_INB.
    cbn [andb] in HI. rewrite <- HI.
    destruct (go (run 6 get) (proj Tnat ISTIO_INBOUND (gen cfg fm)) p); reflexivity. }
  destruct (in_inc cfg) eqn:Hsel; try exact Hj.
  cbn [go fin]. unfold in_selected. rewrite Hsel, !andb_false_r. reflexivity.
Qed.
