(* C20 proofs, part 5: the mangle table at PREROUTING (TPROXY mode and the INVALID drop). *)
From Coq Require Import Lia.
From V Require Import lib.Verdict C20.Model C20.Proofs C20.ProofsOut C20.ProofsPre.
Open Scope N_scope.

Lemma noins_M_PRE cfg fm : noins Tmangle PREROUTING (gen cfg fm) = true.
Proof. solve_noins'. Qed.
Lemma noins_M_DROP cfg fm : noins Tmangle ISTIO_DROP (gen cfg fm) = true.
Proof. solve_noins'. Qed.
Lemma noins_M_DIV cfg fm : noins Tmangle ISTIO_DIVERT (gen cfg fm) = true.
Proof. solve_noins'. Qed.
Lemma noins_M_TP cfg fm : noins Tmangle ISTIO_TPROXY (gen cfg fm) = true.
Proof. solve_noins'. Qed.

Lemma proj_M_DROP cfg fm :
  proj Tmangle ISTIO_DROP (gen cfg fm) = if drop_invalid cfg then [([], TDrop)] else [].
Proof.
  unfold gen. rewrite !proj_app. kill_miss. cbn [app]. rewrite ?app_nil_r.
  unfold seg_drop. destruct (drop_invalid cfg); reflexivity.
Qed.

Definition inb_on (cfg : config) : bool := match in_inc cfg with PNone => false | _ => tproxy cfg end.

Lemma proj_M_DIV cfg fm :
  proj Tmangle ISTIO_DIVERT (gen cfg fm) =
  if inb_on cfg then [([], TSetMark (tmark cfg)); ([], TAccept)] else [].
Proof.
  unfold gen. rewrite !proj_app. kill_miss. cbn [app]. rewrite ?app_nil_r.
  unfold seg_inbound, inb_on, in_table. destruct (in_inc cfg); destruct (tproxy cfg); try reflexivity;
    rewrite ?proj_app; kill_miss; reflexivity.
Qed.
Lemma proj_M_TP cfg fm :
  proj Tmangle ISTIO_TPROXY (gen cfg fm) =
  if inb_on cfg then [([MDst true (f_loop fm); MProto TCP], TTproxy (tmark cfg) (in_port cfg))] else [].
Proof.
  unfold gen. rewrite !proj_app. kill_miss. cbn [app]. rewrite ?app_nil_r.
  unfold seg_inbound, inb_on, in_table. destruct (in_inc cfg); destruct (tproxy cfg); try reflexivity;
    rewrite ?proj_app; kill_miss; reflexivity.
Qed.

Lemma proj_M_PRE cfg fm :
  proj Tmangle PREROUTING (gen cfg fm) =
  (if tproxy cfg then map (fun i => ([MIn i], TReturn)) (excl_ifs cfg) else []) ++
  (if drop_invalid cfg then [([MCtInvalid], TJump ISTIO_DROP)] else []) ++
  (if inb_on cfg then [([MProto TCP], TJump ISTIO_INBOUND)] else []) ++
  (if tproxy cfg then [([MProto TCP; MMark false (tmark cfg)], TConnSave)] else []).
Proof.
  unfold gen. rewrite !proj_app. kill_miss. cbn [app]. rewrite ?app_nil_r.
  f_equal; [|f_equal; [|f_equal]].
  - unfold seg_excl. rewrite proj_app. kill_miss. cbn [app]. destruct (tproxy cfg); [|reflexivity].
    induction (excl_ifs cfg); cbn; [reflexivity|]. f_equal. assumption.
  - unfold seg_drop. destruct (drop_invalid cfg); reflexivity.
  - unfold seg_inbound, inb_on, in_table. destruct (in_inc cfg); destruct (tproxy cfg); try reflexivity;
      rewrite ?proj_app; kill_miss; reflexivity.
  - unfold seg_tproxy. destruct (tproxy cfg); [|reflexivity]. rewrite !proj_app. kill_miss. reflexivity.
Qed.

Definition inb_rules (cfg : config) (fm : fam) : list body :=
  match in_inc cfg with
  | PNone => []
  | PStar =>
    map (fun q => ([MProto TCP; MDport false q], TReturn)) (in_exc cfg) ++
    [([MProto TCP; MCtEst], TJump ISTIO_DIVERT); ([MProto TCP], TJump ISTIO_TPROXY)]
  | PList l =>
    flat_map (fun q => [([MProto TCP; MDport false q; MCtEst], TJump ISTIO_DIVERT);
                        ([MProto TCP; MDport false q], TJump ISTIO_TPROXY)]) l
  end.

Ltac kill_F :=
  repeat match goal with
         | |- context [F ?t ?c ?s ?acc] => rewrite (F_miss t c s acc) by solve_miss'
         end.

Lemma chain_M_INB cfg fm :
  tproxy cfg = true ->
  chain_of Tmangle ISTIO_INBOUND (gen cfg fm) =
  ([MProto TCP; MMark false (tmark cfg)], TReturn) ::
  ([MProto TCP; MSrc (f_pass fm); MIn lo], TReturn) ::
  ([MProto TCP; MIn lo; MMark true outbound_mark], TReturn) :: inb_rules cfg fm.
Proof.
  intros Htp. unfold chain_of. change (fold_left (step Tmangle ISTIO_INBOUND) (gen cfg fm) []) with (F Tmangle ISTIO_INBOUND (gen cfg fm) []).
  unfold gen. rewrite !F_app. kill_F.
  assert (Hi : F Tmangle ISTIO_INBOUND (seg_inbound cfg fm) [] = inb_rules cfg fm).
  { rewrite F_noins by solve_noins'. cbn [app]. unfold seg_inbound, inb_rules, in_table. rewrite Htp.
    destruct (in_inc cfg); [reflexivity| |].
    - rewrite !proj_app. kill_miss. cbn [app]. f_equal.
      induction (in_exc cfg); cbn; [reflexivity|]. f_equal. assumption.
    - rewrite !proj_app. kill_miss. cbn [app].
      induction l; cbn; [reflexivity|]. do 2 f_equal. assumption. }
  rewrite Hi. unfold seg_tproxy. rewrite Htp. rewrite !F_app. kill_F.
  unfold F. cbn. reflexivity.
Qed.

Section MInb.
Variable cfg : config.
Variable fm : fam.
Variable call : chain -> pkt -> res.
Hypothesis Hdiv : forall q, call ISTIO_DIVERT q = Term VAccept (set_mark q (tmark cfg)).
Hypothesis Htpx : forall q, call ISTIO_TPROXY q =
  if negb (cidr_match (f_loop fm) (k_dst q)) && is_tcp q then Term (VTproxy (tmark cfg) (in_port cfg)) q else Fall q.

Definition tp_res (p : pkt) : res :=
  if k_est p then Term VAccept (set_mark p (tmark cfg))
  else if negb (cidr_match (f_loop fm) (k_dst p)) then Term (VTproxy (tmark cfg) (in_port cfg)) p else Fall p.

Lemma go_inb_rules p :
  is_tcp p = true ->
  go call (inb_rules cfg fm) p = if tp_selected cfg p then tp_res p else
                                 match in_inc cfg with PStar => Ret p | _ => Fall p end.
Proof.
  intros Ht. unfold inb_rules, tp_selected, tp_res. unfold is_tcp in Ht. destruct (in_inc cfg); [reflexivity| |].
  - unfold mem. induction (in_exc cfg) as [|a l IH]; cbn [map app go forallb m_ok xorb existsb negb].
    + rewrite Ht, Hdiv, Htpx. unfold is_tcp. rewrite Ht. cbn [andb].
      destruct (k_est p); [reflexivity|]. rewrite andb_true_r.
      destruct (negb (cidr_match (f_loop fm) (k_dst p))); reflexivity.
    + rewrite Ht. cbn [andb]. destruct (k_dport p =? a); cbn [andb orb negb]; [reflexivity|exact IH].
  - unfold mem. induction l as [|a l IH]; cbn [flat_map app go forallb m_ok xorb existsb]; [reflexivity|].
    rewrite Ht, Hdiv, Htpx. unfold is_tcp. rewrite Ht. cbn [andb].
    destruct (k_dport p =? a); cbn [andb orb].
    + destruct (k_est p); [reflexivity|]. rewrite andb_true_r.
      destruct (negb (cidr_match (f_loop fm) (k_dst p))); [reflexivity|].
      cbn [andb]. rewrite IH. destruct (existsb (N.eqb (k_dport p)) l); reflexivity.
    + exact IH.
Qed.

Definition inb_tail (p : pkt) : verdict :=
  if k_mark p =? tmark cfg then VAccept else
  if cidr_match (f_pass fm) (k_src p) && (k_in p =? lo) then VAccept else
  if (k_in p =? lo) && negb (k_mark p =? outbound_mark) then VAccept else
  if tp_selected cfg p && negb (k_est p) && negb (cidr_match (f_loop fm) (k_dst p))
  then VTproxy (tmark cfg) (in_port cfg) else VAccept.

Lemma go_M_INB p :
  is_tcp p = true ->
  fin (go call (([MProto TCP; MMark false (tmark cfg)], TReturn) ::
                ([MProto TCP; MSrc (f_pass fm); MIn lo], TReturn) ::
                ([MProto TCP; MIn lo; MMark true outbound_mark], TReturn) :: inb_rules cfg fm) p) = inb_tail p.
Proof.
  intros Ht. unfold inb_tail. cbn [go forallb m_ok xorb]. rewrite !andb_true_r.
  assert (Ht' := Ht). unfold is_tcp in Ht'. rewrite Ht'. cbn [andb].
  destruct (k_mark p =? tmark cfg); [reflexivity|].
  destruct (cidr_match (f_pass fm) (k_src p)); destruct (k_in p =? lo); destruct (k_mark p =? outbound_mark);
    cbn [andb negb xorb]; try reflexivity.
  all: rewrite go_inb_rules by exact Ht; unfold tp_res; destruct (tp_selected cfg p); cbn [andb];
    [ destruct (k_est p); cbn [negb andb]; [reflexivity|]; destruct (negb (cidr_match (f_loop fm) (k_dst p))); reflexivity
    | destruct (in_inc cfg); reflexivity ].
Qed.
End MInb.

Theorem mangle_prerouting_verdict cfg fm p :
  eval Tmangle (gen cfg fm) PREROUTING p = spec_mangle_pre cfg fm p.
Proof.
  unfold eval.
  set (get := fun c => chain_of Tmangle c (gen cfg fm)).
  change (fin (run 8 get PREROUTING p) = spec_mangle_pre cfg fm p).
  assert (Hget : forall c, noins Tmangle c (gen cfg fm) = true -> get c = proj Tmangle c (gen cfg fm))
    by (intros; apply chain_of_noins; assumption).
  assert (Hinb : tproxy cfg = true -> get ISTIO_INBOUND = _) by (intros H; apply (chain_M_INB cfg fm H)).
  clearbody get.
  rewrite (run_S 7). rewrite (Hget PREROUTING) by apply noins_M_PRE. rewrite proj_M_PRE.
  unfold spec_mangle_pre.
  (* excluded interfaces *)
  assert (He : forall rest, go (run 7 get) ((if tproxy cfg then map (fun i => ([MIn i], TReturn)) (excl_ifs cfg) else []) ++ rest) p =
               if tproxy cfg && mem (k_in p) (excl_ifs cfg) then Ret p else go (run 7 get) rest p).
  { intros rest. destruct (tproxy cfg); [|reflexivity]. cbn [andb].
    rewrite (go_returns (run 7 get)) by (apply (all_tg_map _ (fun i => [MIn i]))). rewrite hits_in. reflexivity. }
  rewrite He. destruct (tproxy cfg && mem (k_in p) (excl_ifs cfg)); [reflexivity|].
  (* invalid drop *)
  assert (Hd : forall rest, go (run 7 get) ((if drop_invalid cfg then [([MCtInvalid], TJump ISTIO_DROP)] else []) ++ rest) p =
               if drop_invalid cfg && k_inv p then Term VDrop p else go (run 7 get) rest p).
  { intros rest. destruct (drop_invalid cfg) eqn:Hdi; [|reflexivity]. cbn [app go forallb m_ok andb].
    destruct (k_inv p); [|reflexivity]. cbn [andb].
    rewrite (run_S 6). rewrite (Hget ISTIO_DROP) by apply noins_M_DROP. rewrite proj_M_DROP, Hdi. reflexivity. }
  rewrite Hd. destruct (drop_invalid cfg && k_inv p); [reflexivity|].
  assert (Hdiv : inb_on cfg = true -> forall q, run 6 get ISTIO_DIVERT q = Term VAccept (set_mark q (tmark cfg))).
  { intros Hon q. rewrite (run_S 5). rewrite (Hget ISTIO_DIVERT) by apply noins_M_DIV. rewrite proj_M_DIV, Hon. reflexivity. }
  assert (Htpx : inb_on cfg = true -> forall q, run 6 get ISTIO_TPROXY q =
              if negb (cidr_match (f_loop fm) (k_dst q)) && is_tcp q then Term (VTproxy (tmark cfg) (in_port cfg)) q else Fall q).
  { intros Hon q. rewrite (run_S 5). rewrite (Hget ISTIO_TPROXY) by apply noins_M_TP. rewrite proj_M_TP, Hon.
    cbn [go forallb m_ok xorb]. unfold is_tcp. rewrite andb_true_r. destruct (_ && _); reflexivity. }
  unfold inb_on in *. destruct (tproxy cfg) eqn:Htp; cbn [negb].
  2: { destruct (in_inc cfg); reflexivity. }
  assert (Hsave : forall q, fin (go (run 7 get) [([MProto TCP; MMark false (tmark cfg)], TConnSave)] q) = VAccept).
  { intros q. cbn [go]. destruct (forallb (m_ok q) _); reflexivity. }
  destruct (is_tcp p) eqn:Ht; cbn [negb].
  2: { unfold is_tcp in Ht. destruct (in_inc cfg); cbn [app go forallb m_ok]; rewrite Ht; reflexivity. }
  assert (Ht' := Ht). unfold is_tcp in Ht'.
  destruct (in_inc cfg) eqn:Hsel.
  { cbn [app]. rewrite Hsave. unfold tp_selected. rewrite Hsel. cbn [andb].
    repeat match goal with |- context [if ?b then _ else _] => destruct b end; reflexivity. }
  - cbn [app go forallb m_ok]. rewrite Ht'. cbn [andb]. rewrite (run_S 6), (Hinb eq_refl).
    pose proof (go_M_INB cfg fm (run 6 get) (Hdiv eq_refl) (Htpx eq_refl) p Ht) as HI. unfold inb_tail in HI. rewrite <- HI.
    match goal with |- context [go (run 6 get) ?L p] => destruct (go (run 6 get) L p) end; try reflexivity; apply Hsave.
  - cbn [app go forallb m_ok]. rewrite Ht'. cbn [andb]. rewrite (run_S 6), (Hinb eq_refl).
    pose proof (go_M_INB cfg fm (run 6 get) (Hdiv eq_refl) (Htpx eq_refl) p Ht) as HI. unfold inb_tail in HI. rewrite <- HI.
    match goal with |- context [go (run 6 get) ?L p] => destruct (go (run 6 get) L p) end; try reflexivity; apply Hsave.
Qed.

(* TPROXY mode: a new inbound TCP connection arriving on a non-loopback, non-excluded interface is
   handed to the proxy iff its port is selected *)
Theorem inbound_tproxy_iff cfg fm p :
  tproxy cfg = true -> is_tcp p = true ->
  mem (k_in p) (excl_ifs cfg) = false -> k_inv p = false ->
  (k_in p =? lo) = false -> (k_mark p =? tmark cfg) = false ->
  k_est p = false -> cidr_match (f_loop fm) (k_dst p) = false ->
  (eval Tmangle (gen cfg fm) PREROUTING p = VTproxy (tmark cfg) (in_port cfg) <-> tp_selected cfg p = true).
Proof.
  intros Htp Ht He Hi Hlo Hm Hest Hl. rewrite mangle_prerouting_verdict. unfold spec_mangle_pre.
  rewrite Htp, Ht, He, Hi, Hlo, Hm, Hest, Hl. rewrite !andb_false_r. cbn [negb andb].
  rewrite !andb_true_r. destruct (tp_selected cfg p); split; try discriminate; reflexivity.
Qed.
