From V Require Import lib.Verdict C20.Model C20.Proofs.
