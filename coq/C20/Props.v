(* C20 property theorems only.  [gen cfg fm] is the rule list IptablesConfigurator.Run appends for one
   address family ([fam_of cfg false] = IPv4, [fam_of cfg true] = IPv6; the theorems hold for every
   family record), [nat_eval rules hook p] the verdict of the reference netfilter evaluator for the
   nat table.  All statements are for every configuration and every packet. *)
From V Require Import lib.Verdict C20.Model C20.Proofs C20.ProofsOut C20.ProofsPre C20.ProofsCor C20.ProofsMangle.
Open Scope N_scope.

(* Full verdict of the generated nat rules at the OUTPUT hook, for every locally generated packet
   (application or proxy owned, any protocol). *)
Theorem C20_output_verdict : forall cfg fm p, nat_eval (gen cfg fm) OUTPUT p = spec_out cfg fm p.
Proof. exact output_verdict. Qed.
Print Assumptions C20_output_verdict.

(* Full verdict at the PREROUTING hook (REDIRECT and TPROXY mode; nat table). *)
Theorem C20_prerouting_verdict : forall cfg fm p, nat_eval (gen cfg fm) PREROUTING p = spec_pre cfg fm p.
Proof. exact prerouting_verdict. Qed.
Print Assumptions C20_prerouting_verdict.

(* The proxy's own outbound traffic is never redirected into the proxy's outbound port. *)
Theorem C20_no_self_loop : forall cfg fm p,
  in_port cfg <> proxy_port cfg -> proxy_pkt cfg p = true ->
  nat_eval (gen cfg fm) OUTPUT p <> VRedirect (proxy_port cfg).
Proof. exact no_self_loop. Qed.
Print Assumptions C20_no_self_loop.

(* Application outbound TCP is redirected iff included and not excluded (range, port, interface,
   owner group, DNS, loopback). *)
Theorem C20_outbound : forall cfg fm p,
  proxy_port cfg <> dns_port -> app_pkt cfg p = true -> is_tcp p = true ->
  (nat_eval (gen cfg fm) OUTPUT p = VRedirect (proxy_port cfg) <-> should_redirect_out cfg fm p = true).
Proof. exact outbound_iff. Qed.
Print Assumptions C20_outbound.

(* Inbound TCP: the statement "redirected iff port included and not excluded" is FALSE of the code
   when the include list is explicit (the exclude list is then ignored) ... *)
Theorem C20_inbound_refuted :
  exists cfg fm p,
    tproxy cfg = false /\ is_tcp p = true /\
    mem (k_in p) (virt_ifs cfg) = false /\ mem (k_in p) (excl_ifs cfg) = false /\
    in_selected_strict cfg p = false /\
    nat_eval (gen cfg fm) PREROUTING p = VRedirect (in_port cfg).
Proof. exact inbound_strict_refuted. Qed.
Print Assumptions C20_inbound_refuted.

(* ... it holds when the include list is "*" or disjoint from the exclude list ... *)
Theorem C20_inbound_partial : forall cfg fm p,
  inbound_lists_disjoint cfg ->
  tproxy cfg = false -> is_tcp p = true ->
  mem (k_in p) (virt_ifs cfg) = false -> mem (k_in p) (excl_ifs cfg) = false ->
  (nat_eval (gen cfg fm) PREROUTING p = VRedirect (in_port cfg) <-> in_selected_strict cfg p = true).
Proof. exact inbound_strict_iff. Qed.
Print Assumptions C20_inbound_partial.

(* ... and unconditionally for the selection the code implements (exclusions apply with "*" only). *)
Theorem C20_inbound_as_implemented : forall cfg fm p,
  tproxy cfg = false -> is_tcp p = true ->
  mem (k_in p) (virt_ifs cfg) = false -> mem (k_in p) (excl_ifs cfg) = false ->
  (nat_eval (gen cfg fm) PREROUTING p = VRedirect (in_port cfg) <-> in_selected cfg p = true).
Proof. exact inbound_iff. Qed.
Print Assumptions C20_inbound_as_implemented.

(* Loopback traffic between the application and itself is left alone: by destination ... *)
Theorem C20_loopback_left_alone : forall cfg fm p,
  app_pkt cfg p = true -> cidr_match (f_loop fm) (k_dst p) = true -> dns_hit cfg fm p = false ->
  nat_eval (gen cfg fm) OUTPUT p = VAccept.
Proof. exact loopback_dst_left_alone. Qed.
Print Assumptions C20_loopback_left_alone.

(* ... and by interface (app -> own pod IP over lo), unless a loopback range was explicitly included. *)
Theorem C20_loopback_interface_left_alone : forall cfg fm p,
  app_pkt cfg p = true -> k_out p = lo -> has_lb cfg = false ->
  (uids cfg <> [] \/ gids cfg <> []) ->
  (rdns cfg = true -> k_dport p <> 53) ->
  nat_eval (gen cfg fm) OUTPUT p = VAccept.
Proof. exact loopback_if_left_alone. Qed.
Print Assumptions C20_loopback_interface_left_alone.

(* IPv4 and IPv6 rules express the same policy: packets of the two families that fall in the same
   classes of the configuration get the same verdict at both hooks. *)
Theorem C20_v4_v6_same_policy : forall cfg p4 p6,
  same_class cfg p4 p6 ->
  nat_eval (gen cfg (fam_of cfg false)) OUTPUT p4 = nat_eval (gen cfg (fam_of cfg true)) OUTPUT p6 /\
  nat_eval (gen cfg (fam_of cfg false)) PREROUTING p4 = nat_eval (gen cfg (fam_of cfg true)) PREROUTING p6.
Proof. exact v4_v6_same_policy. Qed.
Print Assumptions C20_v4_v6_same_policy.

(* TPROXY mode / INVALID drop: full verdict of the mangle table at PREROUTING (conntrack state and
   packet mark are inputs). *)
Theorem C20_mangle_prerouting_verdict : forall cfg fm p,
  eval Tmangle (gen cfg fm) PREROUTING p = spec_mangle_pre cfg fm p.
Proof. exact mangle_prerouting_verdict. Qed.
Print Assumptions C20_mangle_prerouting_verdict.

(* TPROXY mode: a new inbound TCP connection on a non-loopback, non-excluded interface is handed to
   the proxy iff its port is selected. *)
Theorem C20_inbound_tproxy : forall cfg fm p,
  tproxy cfg = true -> is_tcp p = true ->
  mem (k_in p) (excl_ifs cfg) = false -> k_inv p = false ->
  (k_in p =? lo) = false -> (k_mark p =? tmark cfg) = false ->
  k_est p = false -> cidr_match (f_loop fm) (k_dst p) = false ->
  (eval Tmangle (gen cfg fm) PREROUTING p = VTproxy (tmark cfg) (in_port cfg) <-> tp_selected cfg p = true).
Proof. exact inbound_tproxy_iff. Qed.
Print Assumptions C20_inbound_tproxy.

(* non-vacuity: with the example configuration (include "*", exclude 10.0.0.0/8) an application packet
   to 11.0.0.1:80 is redirected, one to 10.0.0.5:80 is not, the proxy's own packet is not, and the
   hypotheses of C20_outbound / C20_no_self_loop / C20_inbound_partial are satisfiable. *)
Example C20_nonvacuous :
  nat_eval (gen ex_cfg (fam_of ex_cfg false)) OUTPUT (ex_pkt 80 184549377 1000) = VRedirect 15001 /\
  nat_eval (gen ex_cfg (fam_of ex_cfg false)) OUTPUT (ex_pkt 80 167772165 1000) = VAccept /\
  nat_eval (gen ex_cfg (fam_of ex_cfg false)) OUTPUT (ex_pkt 80 184549377 1337) = VAccept /\
  app_pkt ex_cfg (ex_pkt 80 184549377 1000) = true /\ proxy_pkt ex_cfg (ex_pkt 80 184549377 1337) = true /\
  should_redirect_out ex_cfg (fam_of ex_cfg false) (ex_pkt 80 184549377 1000) = true /\
  nat_eval (gen ex_cfg (fam_of ex_cfg false)) PREROUTING (ex_pkt 80 167772165 0) = VRedirect 15006 /\
  nat_eval (gen ex_cfg (fam_of ex_cfg false)) PREROUTING (ex_pkt 81 167772165 0) = VAccept.
Proof. vm_compute. repeat split; reflexivity. Qed.

Example C20_same_class_satisfiable :
  same_class ex_cfg (ex_pkt 80 184549377 1000)
    {| k_proto := TCP; k_src := 5; k_dst := 42540766411282592856903984951653826561; k_sport := 40000; k_dport := 80;
       k_in := 1; k_out := 1; k_uid := 1000; k_gid := 1000; k_mark := 0; k_cmark := 0; k_est := false; k_inv := false |}.
Proof. vm_compute. repeat split; reflexivity. Qed.
