(* C20 proofs, part 2: the nat table at the OUTPUT hook. *)
From Coq Require Import Lia.
From V Require Import lib.Verdict C20.Model C20.Proofs.
Open Scope N_scope.

Ltac unfold_segs :=
  unfold gen, seg_excl, seg_virt, seg_drop, seg_base, seg_inbound, seg_outjump, seg_pexc, seg_pass,
    uid_block, gid_block, seg_groups, seg_dns, ct_owner, seg_loop, seg_exc, seg_pinc, seg_inc, seg_tproxy, in_table.

Ltac solve_miss' := unfold_segs; repeat first
    [ reflexivity | apply miss_app | apply miss_flat_map; intro; cbv beta | apply miss_map; intro; cbv beta | progress split_ifs ].
Ltac solve_noins' := unfold_segs; repeat first
    [ reflexivity | apply noins_app | apply noins_flat_map; intro; cbv beta | apply noins_map; intro; cbv beta | progress split_ifs ].

Lemma noins_OUTPUT cfg fm : noins Tnat OUTPUT (gen cfg fm) = true.
Proof. solve_noins'. Qed.
Lemma noins_ISTIO_OUTPUT cfg fm : noins Tnat ISTIO_OUTPUT (gen cfg fm) = true.
Proof. solve_noins'. Qed.
Lemma noins_DNS cfg fm : noins Tnat ISTIO_OUTPUT_DNS (gen cfg fm) = true.
Proof. solve_noins'. Qed.
Lemma noins_RED cfg fm : noins Tnat ISTIO_REDIRECT (gen cfg fm) = true.
Proof. solve_noins'. Qed.
Lemma noins_INRED cfg fm : noins Tnat ISTIO_IN_REDIRECT (gen cfg fm) = true.
Proof. solve_noins'. Qed.
Lemma noins_INB cfg fm : noins Tnat ISTIO_INBOUND (gen cfg fm) = true.
Proof. solve_noins'. Qed.

Ltac kill_miss :=
  repeat match goal with
         | |- context [proj ?t ?c ?s] => rewrite (proj_miss t c s) by solve_miss'
         end.

Lemma proj_RED cfg fm : proj Tnat ISTIO_REDIRECT (gen cfg fm) = [([MProto TCP], TRedirect (proxy_port cfg))].
Proof. unfold gen. rewrite !proj_app. kill_miss. reflexivity. Qed.
Lemma proj_INRED cfg fm : proj Tnat ISTIO_IN_REDIRECT (gen cfg fm) = [([MProto TCP], TRedirect (in_port cfg))].
Proof. unfold gen. rewrite !proj_app. kill_miss. reflexivity. Qed.

Definition dns_rules (cfg : config) (fm : fam) : list rule :=
  (if dns_all cfg then [A Tnat ISTIO_OUTPUT_DNS [MProto TCP; MDport false 53] (TRedirect dns_port)]
   else map (fun s => A Tnat ISTIO_OUTPUT_DNS [MProto TCP; MDport false 53; MDst false (C s 0)] (TRedirect dns_port)) (f_dns fm)) ++
  (if dns_all cfg then [A Tnat ISTIO_OUTPUT_DNS [MProto UDP; MDport false 53] (TRedirect dns_port)]
   else map (fun s => A Tnat ISTIO_OUTPUT_DNS [MProto UDP; MDport false 53; MDst false (C s 0)] (TRedirect dns_port)) (f_dns fm)).

Lemma proj_DNS cfg fm :
  proj Tnat ISTIO_OUTPUT_DNS (gen cfg fm) =
  if rdns cfg then proj Tnat ISTIO_OUTPUT_DNS (dns_rules cfg fm) else [].
Proof.
  unfold gen. rewrite !proj_app. kill_miss. cbn [app]. rewrite !app_nil_r.
  unfold seg_dns, dns_rules. destruct (rdns cfg); [|reflexivity].
  rewrite !proj_app. kill_miss. cbn [app]. rewrite !app_nil_r. reflexivity.
Qed.

Lemma proj_OUT cfg fm :
  proj Tnat OUTPUT (gen cfg fm) =
  map (fun i => ([MOut i], TReturn)) (excl_ifs cfg) ++ [([], TJump ISTIO_OUTPUT)].
Proof.
  unfold gen. rewrite !proj_app. kill_miss. cbn [app]. rewrite !app_nil_r.
  f_equal. unfold seg_excl. rewrite proj_app. kill_miss. rewrite app_nil_r.
  induction (excl_ifs cfg); cbn; [reflexivity|]. f_equal. exact IHl.
Qed.

Notation PIO := (proj Tnat ISTIO_OUTPUT).

Lemma proj_IO cfg fm :
  PIO (gen cfg fm) =
  PIO (seg_pexc cfg) ++ PIO (seg_pass fm) ++ PIO (flat_map (uid_block cfg fm) (uids cfg)) ++
  PIO (flat_map (gid_block cfg fm) (gids cfg)) ++ PIO (seg_groups cfg) ++ PIO (seg_dns cfg fm) ++
  PIO (seg_loop fm) ++ PIO (seg_exc fm) ++ PIO (seg_pinc cfg) ++ PIO (seg_inc cfg fm).
Proof.
  unfold gen. rewrite !proj_app. kill_miss. cbn [app]. rewrite ?app_nil_r. reflexivity.
Qed.

Section IO.
Variable cfg : config.
Variable fm : fam.
Variable call : chain -> pkt -> res.
Hypothesis Hred : forall p, call ISTIO_REDIRECT p = if is_tcp p then Term (VRedirect (proxy_port cfg)) p else Fall p.
Hypothesis Hin : forall p, call ISTIO_IN_REDIRECT p = if is_tcp p then Term (VRedirect (in_port cfg)) p else Fall p.
Definition dns_inner (p : pkt) : bool :=
  rdns cfg && (is_tcp p || is_udp p) && (k_dport p =? 53) && (dns_all cfg || mem (k_dst p) (f_dns fm)).
Hypothesis Hdns : forall p, call ISTIO_OUTPUT_DNS p = if dns_inner p then Term (VRedirect dns_port) p else Fall p.

Lemma go_pexc p :
  go call (PIO (seg_pexc cfg)) p =
  if (is_tcp p || is_udp p) && mem (k_dport p) (out_pexc cfg) then Ret p else Fall p.
Proof.
  unfold seg_pexc. induction (out_pexc cfg) as [|a l IH].
  - cbn. rewrite andb_false_r. reflexivity.
  - cbn [flat_map app proj hit A r_table r_chain table_eqb chain_eqb andb bd r_m r_t go forallb m_ok].
    unfold is_tcp, is_udp, mem in *. cbn [existsb].
    destruct (k_proto p); destruct (k_dport p =? a); cbn in *; try reflexivity; exact IH.
Qed.

Lemma go_pass p :
  go call (PIO (seg_pass fm)) p =
  if (k_out p =? lo) && cidr_match (f_pass fm) (k_src p) then Ret p else Fall p.
Proof.
  unfold seg_pass. cbn. rewrite andb_true_r. destruct ((k_out p =? lo) && cidr_match (f_pass fm) (k_src p)); reflexivity.
Qed.

Lemma to_res_pass v p (k : pkt -> res) :
  match to_res v p with Fall p' => k p' | r => r end = to_res v p.
Proof. destruct v; reflexivity. Qed.

Lemma go_uid_block p u :
  go call (PIO (uid_block cfg fm u)) p =
  if k_uid p =? u then to_res (self_uid cfg fm p) p else if cond_b cfg p then Ret p else Fall p.
Proof.
  unfold uid_block, cond_b, self_uid, mem, is_tcp. cbn [existsb].
  destruct (rdns cfg); destruct (has_lb cfg);
  cbn [flat_map app proj hit A r_table r_chain table_eqb chain_eqb andb bd r_m r_t go forallb m_ok negb];
  rewrite ?Hin; unfold is_tcp, mem; cbn [existsb];
  destruct (k_uid p =? u); destruct (k_out p =? lo); destruct (cidr_match (f_loop fm) (k_dst p));
  destruct (proto_eqb (k_proto p) TCP); destruct (k_dport p =? 53); destruct (k_dport p =? tunnel_port cfg);
  cbn; reflexivity.
Qed.

Lemma go_gid_block p u :
  go call (PIO (gid_block cfg fm u)) p =
  if k_gid p =? u then to_res (self_gid cfg fm p) p else if cond_b cfg p then Ret p else Fall p.
Proof.
  unfold gid_block, cond_b, self_gid, is_tcp.
  destruct (rdns cfg); destruct (has_lb cfg);
  cbn [flat_map app proj hit A r_table r_chain table_eqb chain_eqb andb bd r_m r_t go forallb m_ok negb];
  rewrite ?Hin; unfold is_tcp;
  destruct (k_gid p =? u); destruct (k_out p =? lo); destruct (cidr_match (f_loop fm) (k_dst p));
  destruct (proto_eqb (k_proto p) TCP); destruct (k_dport p =? 53); destruct (k_dport p =? tunnel_port cfg);
  cbn; reflexivity.
Qed.

Lemma go_uids ids : forall p,
  go call (PIO (flat_map (uid_block cfg fm) ids)) p =
  match owner_rec ids (k_uid p) (cond_b cfg p) (self_uid cfg fm p) with
  | Some v => to_res v p
  | None => Fall p
  end.
Proof.
  induction ids as [|u rest IH]; intros p; [reflexivity|].
  cbn [flat_map owner_rec]. rewrite proj_app, go_app, go_uid_block.
  destruct (k_uid p =? u); [apply to_res_pass|].
  destruct (cond_b cfg p) eqn:Hcb; [reflexivity|]. rewrite IH, Hcb. reflexivity.
Qed.

Lemma go_gids ids : forall p,
  go call (PIO (flat_map (gid_block cfg fm) ids)) p =
  match owner_rec ids (k_gid p) (cond_b cfg p) (self_gid cfg fm p) with
  | Some v => to_res v p
  | None => Fall p
  end.
Proof.
  induction ids as [|u rest IH]; intros p; [reflexivity|].
  cbn [flat_map owner_rec]. rewrite proj_app, go_app, go_gid_block.
  destruct (k_gid p =? u); [apply to_res_pass|].
  destruct (cond_b cfg p) eqn:Hcb; [reflexivity|]. rewrite IH, Hcb. reflexivity.
Qed.

Lemma forallb_gid_neg p l :
  forallb (m_ok p) (map (fun g => MGid true g) l) = forallb (fun g => negb (k_gid p =? g)) l.
Proof. induction l; cbn; [reflexivity|]. rewrite IHl. reflexivity. Qed.

Lemma go_groups p :
  go call (PIO (seg_groups cfg)) p = if group_skipped cfg p then Ret p else Fall p.
Proof.
  unfold seg_groups, group_skipped. destruct (og_star cfg).
  - induction (og_exc cfg) as [|a l IH]; [reflexivity|].
    cbn [map proj hit A r_table r_chain table_eqb chain_eqb andb bd r_m r_t go forallb m_ok xorb].
    unfold mem in *. cbn [existsb]. destruct (k_gid p =? a); cbn; [reflexivity|exact IH].
  - cbn [proj hit A r_table r_chain table_eqb chain_eqb andb bd r_m r_t go].
    rewrite forallb_gid_neg. destruct (forallb _ (og_inc cfg)); reflexivity.
Qed.

Lemma go_dnsjump p :
  go call (PIO (seg_dns cfg fm)) p = if dns_hit cfg fm p then Term (VRedirect dns_port) p else Fall p.
Proof.
  unfold seg_dns, dns_hit. generalize (Hdns p). unfold dns_inner. destruct (rdns cfg); [|reflexivity].
  intros Hd. rewrite !proj_app. kill_miss. cbn [app]. rewrite ?app_nil_r.
  destruct (dns_all cfg || negb (is_nil (f_dns fm))).
  - cbn. rewrite Hd. cbn. destruct (_ && _); reflexivity.
  - reflexivity.
Qed.

Lemma go_loop p :
  go call (PIO (seg_loop fm)) p = if cidr_match (f_loop fm) (k_dst p) then Ret p else Fall p.
Proof. unfold seg_loop. cbn. rewrite andb_true_r. destruct (cidr_match _ _); reflexivity. Qed.

Lemma go_exc p :
  go call (PIO (seg_exc fm)) p = if in_any (k_dst p) (f_exc fm) then Ret p else Fall p.
Proof.
  unfold seg_exc, in_any. induction (f_exc fm) as [|a l IH]; [reflexivity|].
  cbn. destruct (cidr_match a (k_dst p)); cbn; [reflexivity|exact IH].
Qed.

Lemma go_pinc p :
  go call (PIO (seg_pinc cfg)) p =
  if is_tcp p && mem (k_dport p) (out_pinc cfg) then Term (VRedirect (proxy_port cfg)) p else Fall p.
Proof.
  unfold seg_pinc. induction (out_pinc cfg) as [|a l IH].
  - cbn. rewrite andb_false_r. reflexivity.
  - cbn [map proj hit A r_table r_chain table_eqb chain_eqb andb bd r_m r_t go forallb m_ok xorb].
    rewrite Hred. unfold is_tcp, mem in *. cbn [existsb].
    destruct (proto_eqb (k_proto p) TCP); destruct (k_dport p =? a); cbn in *; try reflexivity; exact IH.
Qed.

Lemma go_inc p :
  go call (PIO (seg_inc cfg fm)) p =
  if is_tcp p && (f_inc_star fm || in_any (k_dst p) (f_inc fm)) then Term (VRedirect (proxy_port cfg)) p else Fall p.
Proof.
  unfold seg_inc. destruct (f_inc_star fm).
  - rewrite proj_app. kill_miss. rewrite app_nil_r. cbn. rewrite Hred, andb_true_r. destruct (is_tcp p); reflexivity.
  - cbn [orb]. unfold in_any. induction (f_inc fm) as [|a l IH].
    + cbn. rewrite andb_false_r. reflexivity.
    + cbn [flat_map existsb]. rewrite !proj_app. kill_miss. cbn [app].
      rewrite go_app.
      cbn [proj hit A r_table r_chain table_eqb chain_eqb andb bd r_m r_t go forallb m_ok xorb].
      rewrite Hred. destruct (cidr_match a (k_dst p)); destruct (is_tcp p) eqn:Ht; cbn in *; try reflexivity; rewrite IH; reflexivity.
Qed.

Lemma fin_to_res v p : fin (to_res v p) = v.
Proof. destruct v; reflexivity. Qed.

(* the ISTIO_OUTPUT chain *)
Definition spec_out_tail (p : pkt) : verdict :=
  if (is_tcp p || is_udp p) && mem (k_dport p) (out_pexc cfg) then VAccept else
  if (k_out p =? lo) && cidr_match (f_pass fm) (k_src p) then VAccept else
  match owner_phase (uids cfg) (k_uid p) (cond_b cfg p) (self_uid cfg fm p) with
  | Some v => v
  | None =>
    match owner_phase (gids cfg) (k_gid p) (cond_b cfg p) (self_gid cfg fm p) with
    | Some v => v
    | None =>
      if group_skipped cfg p then VAccept else
      if dns_hit cfg fm p then VRedirect dns_port else
      if dst_selected cfg fm p then VRedirect (proxy_port cfg) else VAccept
    end
  end.

Lemma go_IO p : fin (go call (PIO (gen cfg fm)) p) = spec_out_tail p.
Proof.
  rewrite proj_IO. unfold spec_out_tail.
  rewrite go_app, go_pexc. destruct (_ && mem _ _); [reflexivity|].
  rewrite go_app, go_pass. destruct (_ && cidr_match _ _); [reflexivity|].
  rewrite go_app, go_uids, owner_rec_phase.
  destruct (owner_phase (uids cfg) _ _ _) as [v|]; [rewrite to_res_pass; apply fin_to_res|].
  rewrite go_app, go_gids, owner_rec_phase.
  destruct (owner_phase (gids cfg) _ _ _) as [v|]; [rewrite to_res_pass; apply fin_to_res|].
  rewrite go_app, go_groups. destruct (group_skipped cfg p); [reflexivity|].
  rewrite go_app, go_dnsjump. destruct (dns_hit cfg fm p); [reflexivity|].
  unfold dst_selected.
  rewrite go_app, go_loop. destruct (cidr_match (f_loop fm) (k_dst p)); [reflexivity|].
  rewrite go_app, go_exc. destruct (in_any (k_dst p) (f_exc fm)); [reflexivity|].
  rewrite go_app, go_pinc. cbn [negb andb].
  destruct (is_tcp p) eqn:Ht; cbn [andb].
  2: { rewrite go_inc, Ht. reflexivity. }
  destruct (mem (k_dport p) (out_pinc cfg)); cbn [orb]; [reflexivity|].
  rewrite go_inc, Ht. cbn [andb].
  destruct (f_inc_star fm || in_any (k_dst p) (f_inc fm)); reflexivity.
Qed.
End IO.

Lemma go_dns_map call q l p :
  go call (proj Tnat ISTIO_OUTPUT_DNS
     (map (fun s => A Tnat ISTIO_OUTPUT_DNS [MProto q; MDport false 53; MDst false (C s 0)] (TRedirect dns_port)) l)) p =
  if proto_eqb (k_proto p) q && (k_dport p =? 53) && mem (k_dst p) l then Term (VRedirect dns_port) p else Fall p.
Proof.
  induction l as [|a l IH].
  - cbn. rewrite andb_false_r. reflexivity.
  - cbn [map proj hit A r_table r_chain table_eqb chain_eqb andb bd r_m r_t go forallb m_ok xorb].
    rewrite cidr_host. unfold mem in *. cbn [existsb].
    destruct (proto_eqb (k_proto p) q); destruct (k_dport p =? 53); destruct (k_dst p =? a); cbn in *; try reflexivity; exact IH.
Qed.

Lemma go_dns_rules call cfg fm p :
  go call (proj Tnat ISTIO_OUTPUT_DNS (dns_rules cfg fm)) p =
  if (is_tcp p || is_udp p) && (k_dport p =? 53) && (dns_all cfg || mem (k_dst p) (f_dns fm))
  then Term (VRedirect dns_port) p else Fall p.
Proof.
  unfold dns_rules, is_tcp, is_udp. destruct (dns_all cfg).
  - cbn. destruct (k_proto p); destruct (k_dport p =? 53); reflexivity.
  - rewrite proj_app, go_app, go_dns_map. cbn [orb].
    destruct (k_proto p) eqn:Hp; destruct (k_dport p =? 53) eqn:Hd; destruct (mem (k_dst p) (f_dns fm)) eqn:Hm;
      cbn; rewrite ?go_dns_map, ?Hp, ?Hd, ?Hm; reflexivity.
Qed.

Lemma go_out_excl call l rest p :
  go call (map (fun i => ([MOut i], TReturn)) l ++ rest) p = if mem (k_out p) l then Ret p else go call rest p.
Proof.
  induction l as [|a l IH]; [reflexivity|]. cbn. unfold mem in *. cbn.
  destruct (k_out p =? a); cbn; [reflexivity|exact IH].
Qed.

Lemma run_S f get c p : run (S f) get c p = go (run f get) (get c) p.
Proof. reflexivity. Qed.

Theorem output_verdict cfg fm p : nat_eval (gen cfg fm) OUTPUT p = spec_out cfg fm p.
Proof.
  unfold nat_eval, eval.
  set (get := fun c => chain_of Tnat c (gen cfg fm)).
  change (fin (run 8 get OUTPUT p) = spec_out cfg fm p).
  assert (Hget : forall c, noins Tnat c (gen cfg fm) = true -> get c = proj Tnat c (gen cfg fm))
    by (intros; apply chain_of_noins; assumption).
  clearbody get.
  assert (Hred : forall q, run 6 get ISTIO_REDIRECT q = if is_tcp q then Term (VRedirect (proxy_port cfg)) q else Fall q).
  { intros q. rewrite (run_S 5). rewrite (Hget ISTIO_REDIRECT) by apply noins_RED. rewrite proj_RED.
    cbn [go forallb m_ok]. unfold is_tcp. destruct (proto_eqb (k_proto q) TCP); reflexivity. }
  assert (Hin : forall q, run 6 get ISTIO_IN_REDIRECT q = if is_tcp q then Term (VRedirect (in_port cfg)) q else Fall q).
  { intros q. rewrite (run_S 5). rewrite (Hget ISTIO_IN_REDIRECT) by apply noins_INRED. rewrite proj_INRED.
    cbn [go forallb m_ok]. unfold is_tcp. destruct (proto_eqb (k_proto q) TCP); reflexivity. }
  assert (Hdns : forall q, run 6 get ISTIO_OUTPUT_DNS q = if dns_inner cfg fm q then Term (VRedirect dns_port) q else Fall q).
  { intros q. rewrite (run_S 5). rewrite (Hget ISTIO_OUTPUT_DNS) by apply noins_DNS. rewrite proj_DNS.
    unfold dns_inner. destruct (rdns cfg); [|reflexivity]. rewrite go_dns_rules. cbn [andb]. reflexivity. }
  rewrite (run_S 7). rewrite (Hget OUTPUT) by apply noins_OUTPUT. rewrite proj_OUT.
  rewrite go_out_excl. unfold spec_out. destruct (mem (k_out p) (excl_ifs cfg)); [reflexivity|].
  cbn [go forallb]. rewrite (run_S 6). rewrite (Hget ISTIO_OUTPUT) by apply noins_ISTIO_OUTPUT.
  pose proof (go_IO cfg fm (run 6 get) Hred Hin Hdns p) as H. unfold spec_out_tail in H. rewrite <- H.
  destruct (go (run 6 get) (PIO (gen cfg fm)) p); reflexivity.
Qed.
