(* Shared vocabulary of the correspondence checks: every [Cxx/Run.v] exports
   [mismatches : list case -> list (N * verdict)].  [ModelDiffers] = the model does not
   predict what the implementation was observed to do (correspondence broken);
   [PropertyFails] = the property's own oracle, evaluated on the observed behaviour,
   is false (a concrete failing input). *)
From Coq Require Export List NArith ZArith Bool String Ascii.
Export ListNotations.

Inductive verdict := ModelDiffers | PropertyFails.

Definition check_one {C : Type} (id_of : C -> N) (model_ok prop_ok : C -> bool) (c : C)
  : list (N * verdict) :=
  (if model_ok c then [] else [(id_of c, ModelDiffers)]) ++
  (if prop_ok c then [] else [(id_of c, PropertyFails)]).

Definition check_all {C : Type} (id_of : C -> N) (model_ok prop_ok : C -> bool)
  (cs : list C) : list (N * verdict) :=
  flat_map (check_one id_of model_ok prop_ok) cs.

Lemma check_all_nil_iff {C} (id_of : C -> N) model_ok prop_ok cs :
  check_all id_of model_ok prop_ok cs = [] <->
  forall c, In c cs -> model_ok c = true /\ prop_ok c = true.
Proof.
  unfold check_all. induction cs as [|c cs IH]; cbn [flat_map].
  - split; [intros _ c []|reflexivity].
  - split.
    + intros H. apply app_eq_nil in H. destruct H as [H1 H2].
      intros c' [->|Hin]; [|apply IH; assumption].
      unfold check_one in H1. apply app_eq_nil in H1. destruct H1 as [Ha Hb].
      destruct (model_ok c'), (prop_ok c'); try discriminate; auto.
    + intros H. destruct (H c (or_introl eq_refl)) as [Ha Hb].
      unfold check_one. rewrite Ha, Hb. cbn. apply IH.
      intros c' Hin. apply H. right. exact Hin.
Qed.

(* list equality up to order for small canonical comparisons *)
Fixpoint list_eqb {A} (eqb : A -> A -> bool) (l1 l2 : list A) : bool :=
  match l1, l2 with
  | [], [] => true
  | x :: l1, y :: l2 => eqb x y && list_eqb eqb l1 l2
  | _, _ => false
  end.

Definition option_eqb {A} (eqb : A -> A -> bool) (o1 o2 : option A) : bool :=
  match o1, o2 with
  | None, None => true
  | Some x, Some y => eqb x y
  | _, _ => false
  end.
