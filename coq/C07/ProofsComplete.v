(* C07 proofs, part 5: completeness - a visible service imported by a port-unrestricted egress
   listener is delivered (some service with its hostname is in the scope). *)
From Coq Require Import List NArith Bool String Ascii.
From V Require Import lib.Verdict C07.Model C07.Proofs C07.ProofsScope.
Import ListNotations.
Open Scope string_scope.
Open Scope list_scope.

Lemma assoc_set_same : forall {A} k (v : A) m, assoc k (assoc_set k v m) = Some v.
Proof.
  induction m as [|[k' v'] r IH]; cbn; [rewrite String.eqb_refl; reflexivity|].
  destruct (String.eqb_spec k k') as [E|E]; cbn.
  - rewrite String.eqb_refl. reflexivity.
  - destruct (String.eqb_spec k k'); [contradiction | exact IH].
Qed.

Lemma assoc_set_other : forall {A} k k' (v : A) m, k <> k' -> assoc k' (assoc_set k v m) = assoc k' m.
Proof.
  induction m as [|[k2 v2] r IH]; intros N; cbn.
  - destruct (String.eqb_spec k' k); [subst; contradiction | reflexivity].
  - destruct (String.eqb_spec k k2) as [E|E]; cbn.
    + subst k2. destruct (String.eqb_spec k' k); [subst; contradiction | reflexivity].
    + destruct (String.eqb_spec k' k2); [reflexivity | apply IH; exact N].
Qed.

(* validServices: every imported hostname gets an entry, and the entry names the namespace of an
   imported service with that hostname *)
Definition vm_inv (vm : list (string * (string * bool))) (seen : list service) : Prop :=
  (forall h n k, assoc h vm = Some (n, k) -> exists y, In y seen /\ s_host y = h /\ s_ns y = n) /\
  (forall y, In y seen -> assoc (s_host y) vm <> None).

Lemma valid_step_inv : forall u cfg vm seen s, vm_inv vm seen -> vm_inv (valid_step u cfg vm s) (seen ++ [s]).
Proof.
  intros u cfg vm seen s [I1 I2].
  assert (SET : vm_inv (assoc_set (s_host s) (s_ns s, is_kube s) vm) (seen ++ [s])).
  { split.
    - intros h n k H. destruct (String.eqb_spec (s_host s) h) as [E|E].
      + subst h. rewrite assoc_set_same in H. injection H as <- <-. exists s. split; [apply in_or_app; right; left; reflexivity | auto].
      + rewrite assoc_set_other in H by exact E. destruct (I1 _ _ _ H) as [y [A B]]. exists y. split; [apply in_or_app; left; exact A | exact B].
    - intros y Hy. apply in_app_or in Hy. destruct (String.eqb_spec (s_host s) (s_host y)) as [E|E].
      + rewrite <- E. rewrite assoc_set_same. discriminate.
      + rewrite assoc_set_other by exact E. destruct Hy as [Hy|[<-|[]]]; [apply I2; exact Hy | contradiction]. }
  assert (KEEP : assoc (s_host s) vm <> None -> vm_inv vm (seen ++ [s])).
  { intros NN. split.
    - intros h n k H. destruct (I1 _ _ _ H) as [y [A B]]. exists y. split; [apply in_or_app; left; exact A | exact B].
    - intros y Hy. apply in_app_or in Hy. destruct Hy as [Hy|[<-|[]]]; [apply I2; exact Hy | exact NN]. }
  unfold valid_step. destruct (assoc (s_host s) vm) as [ex|] eqn:E; [|exact SET].
  destruct (s_ns s =? cfg)%string; [exact SET|].
  destruct (u && _); [exact SET|]. apply KEEP. discriminate.
Qed.

Lemma valid_fold_inv : forall u cfg l vm seen, vm_inv vm seen ->
  vm_inv (fold_left (valid_step u cfg) l vm) (seen ++ l).
Proof.
  induction l as [|x r IH]; intros vm seen I; cbn [fold_left].
  - rewrite app_nil_r. exact I.
  - replace (seen ++ x :: r) with ((seen ++ [x]) ++ r) by (rewrite <- app_assoc; reflexivity).
    apply IH. apply valid_step_inv. exact I.
Qed.

Lemma select_keeps_host : forall m cands cfg hb l x,
  In x (filter_map (import_one hb l) cands) ->
  exists y, In y (select_services m cands cfg hb l) /\ s_host y = s_host x.
Proof.
  intros m cands cfg hb l x Hx. unfold select_services.
  set (imported := filter_map (import_one hb l) cands) in *.
  pose proof (valid_fold_inv (f_unified m) cfg imported [] []) as I. cbn [app] in I.
  destruct I as [I1 I2]. { split; [intros h n k H; discriminate | intros y []]. }
  set (vm := fold_left (valid_step (f_unified m) cfg) imported []) in *.
  destruct (assoc (s_host x) vm) as [[n k]|] eqn:E; [|exfalso; eapply I2; eauto].
  destruct (I1 _ _ _ E) as [y [A [B C]]]. exists y. split; [|exact B].
  apply filter_In. split; [exact A|]. rewrite B, E. subst n. apply String.eqb_refl.
Qed.

(* appendSidecarServices never drops a hostname *)
Lemma append_svc_hosts : forall acc s h,
  In h (map s_host acc) \/ h = s_host s -> In h (map s_host (append_svc acc s)).
Proof.
  induction acc as [|ex r IH]; intros s h H; cbn [append_svc].
  - destruct H as [H|H]; [destruct H | subst h; left; reflexivity].
  - destruct (String.eqb_spec (s_host ex) (s_host s)) as [E|E].
    + assert (G : In h (s_host ex :: map s_host r)).
      { destruct H as [H| ->]; [exact H | left; exact E]. }
      destruct (is_kube ex && negb (is_kube s)); [exact G|].
      destruct (negb (is_kube ex) && is_kube s); [cbn; rewrite <- E; exact G|].
      destruct (ports_eqb _ _); [exact G|]. destruct (negb (can_merge ex s)); exact G.
    + cbn [map]. destruct H as [[H|H]|H].
      * left. exact H.
      * right. apply IH. left. exact H.
      * right. apply IH. right. exact H.
Qed.

Lemma fold_append_hosts : forall l acc h,
  In h (map s_host acc) \/ In h (map s_host l) -> In h (map s_host (fold_left append_svc l acc)).
Proof.
  induction l as [|x r IH]; intros acc h H; cbn [fold_left].
  - destruct H as [H|[]]. exact H.
  - apply IH. destruct H as [H|[H|H]].
    + left. apply append_svc_hosts. left. exact H.
    + left. apply append_svc_hosts. right. symmetry. exact H.
    + right. exact H.
Qed.

Lemma collect_vs_hosts : forall m sorted cfg hint l v acc h,
  In h (map s_host acc) -> In h (map s_host (collect_vs m sorted cfg hint l acc v)).
Proof.
  intros m sorted cfg hint l v acc h. unfold collect_vs. revert acc.
  induction (vs_destinations cfg v) as [|[d ports] r IH]; intros acc H; cbn [fold_left]; [exact H|].
  apply IH. destruct (resolve_dest m sorted cfg hint d); [|exact H].
  destruct (svc_matching_port l s ports); [|exact H]. apply append_svc_hosts. left. exact H.
Qed.

Lemma fold_collect_vs_hosts : forall m sorted cfg hint l vs acc h,
  In h (map s_host acc) -> In h (map s_host (fold_left (collect_vs m sorted cfg hint l) vs acc)).
Proof.
  induction vs as [|v r IH]; intros acc h H; cbn [fold_left]; [exact H|].
  apply IH. apply collect_vs_hosts. exact H.
Qed.

Lemma collect_imported_hosts : forall m sorted cfg hint ws w y,
  In w ws -> In y (w_services w) -> In (s_host y) (map s_host (collect_imported m sorted cfg hint ws)).
Proof.
  intros m sorted cfg hint ws w y Hw Hy. unfold collect_imported.
  set (step := fun acc w0 => let acc1 := fold_left append_svc (w_services w0) acc in
                             fold_left (collect_vs m sorted cfg hint (w_l w0)) (w_vs w0) acc1).
  assert (KEEP : forall l acc h, In h (map s_host acc) -> In h (map s_host (fold_left step l acc))).
  { induction l as [|x r IH]; intros acc h H; cbn [fold_left]; [exact H|].
    apply IH. unfold step. apply fold_collect_vs_hosts. apply fold_append_hosts. left. exact H. }
  assert (G : forall l acc, In w l -> In (s_host y) (map s_host (fold_left step l acc))).
  { induction l as [|x r IH]; intros acc H; [destruct H|]. cbn [fold_left]. destruct H as [->|H].
    - apply KEEP. unfold step. apply fold_collect_vs_hosts. apply fold_append_hosts. right. apply in_map. exact Hy.
    - apply IH. exact H. }
  apply G. exact Hw.
Qed.

(* scan path (some host of the listener is a wildcard or names the wildcard namespace) *)
Theorem complete_scan : forall m svcs vss cfg ls hint l s0,
  In l (egress_or_default ls) -> snd (parse_hosts cfg (l_hosts l)) = false ->
  In s0 svcs -> is_visible m s0 cfg = true -> wf_service m s0 = true -> real_ns cfg = true ->
  import_one (fst (parse_hosts cfg (l_hosts l))) l s0 <> None ->
  exists s, In s (sidecar_scope m svcs vss cfg ls hint) /\ s_host s = s_host s0.
Proof.
  intros m svcs vss cfg ls hint l s0 Hl SC Hs V WF RN IMP.
  destruct (import_one (fst (parse_hosts cfg (l_hosts l))) l s0) as [x|] eqn:E; [|contradiction].
  set (w := listener_wrap m (sort_services svcs) (sort_vs vss) cfg l).
  assert (Hw : In w (scope_wrappers m svcs vss cfg ls)).
  { unfold scope_wrappers. apply in_map. exact Hl. }
  assert (Hy : exists y, In y (w_services w) /\ s_host y = s_host s0).
  { unfold w, listener_wrap. destruct (parse_hosts cfg (l_hosts l)) as [hb allx] eqn:PH. cbn [fst snd] in *.
    subst allx. cbn [w_services].
    destruct (select_keeps_host m (services_exported_to_ns m (sort_services svcs) cfg) cfg hb l x) as [y [A B]].
    - apply filter_map_In. exists s0. split; [|exact E]. apply exported_complete; auto.
      apply (proj2 (sort_services_In _ _)). exact Hs.
    - exists y. split; [exact A|]. rewrite B. apply import_one_core in E.
      unfold core, with_ports in E. injection E. auto. }
  destruct Hy as [y [A B]].
  pose proof (collect_imported_hosts m (sort_services svcs) cfg hint _ w y Hw A) as G.
  apply in_map_iff in G. destruct G as [s [S1 S2]]. exists s. split; [exact S2 | congruence].
Qed.

(* on the exact-host fast path delivery additionally needs the service to be the index entry of its
   (hostname, namespace); otherwise: *)
Definition cf_svcs :=
  [ mkSvc "a.com" "ns1" Ext ["~"] VPublic [80%N] 1 "s00" 0;
    mkSvc "a.com" "ns1" Ext ["*"] VPublic [80%N] 2 "s01" 0 ].
Theorem complete_fast_refuted :
  let m := mkMesh None None None false "rootns" true true in
  let l := mkL ["ns1/a.com"] 0 false in
  let s0 := mkSvc "a.com" "ns1" Ext ["*"] VPublic [80%N] 2 "s01" 0 in
  In s0 cf_svcs /\ is_visible m s0 "ns3" = true /\ forallb (wf_service m) cf_svcs = true /\
  import_one (fst (parse_hosts "ns3" (l_hosts l))) l s0 <> None /\
  sidecar_scope m cf_svcs [] "ns3" [l] [] = [] /\
  map s_name (sidecar_scope m cf_svcs [] "ns3" [mkL ["ns1/a.com"; "zz-none/*"] 0 false] []) = ["s01"].
Proof. vm_compute. repeat split; try discriminate. right. left. reflexivity. Qed.
