(* C07 proofs, part 2: what can be in a scope (no leak). *)
From Coq Require Import List NArith Bool String Ascii Lia Arith.
From V Require Import lib.Verdict C07.Model C07.Proofs.
Import ListNotations.
Open Scope string_scope.
Open Scope list_scope.

Definition core (s : service) : service := with_ports s [].

Lemma core_with_ports : forall s p, core (with_ports s p) = core s.
Proof. intros. reflexivity. Qed.

Lemma visible_core : forall m a b n, core a = core b -> is_visible m a n = is_visible m b n.
Proof.
  intros m a b n H. unfold core, with_ports in H. injection H as H1 H2 H3 H4 H5 H6 H7 H8.
  unfold is_visible, service_export_to. rewrite H2, H4, H5. reflexivity.
Qed.

Lemma filter_map_In : forall {A B} (f : A -> option B) l y,
  In y (filter_map f l) <-> exists x, In x l /\ f x = Some y.
Proof.
  induction l as [|a r IH]; intros y; cbn.
  - split; [tauto | intros [x [[] _]]].
  - destruct (f a) eqn:E; cbn; rewrite IH; split.
    + intros [<-|[x [H1 H2]]]; [exists a; auto | exists x; auto].
    + intros [x [[<-|H1] H2]]; [left; congruence | right; exists x; auto].
    + intros [x [H1 H2]]; exists x; auto.
    + intros [x [[<-|H1] H2]]; [congruence | exists x; auto].
Qed.

Section Scope.
  Variable m : mesh.
  Variable svcs : list service.
  Variable cfg : string.
  (* what is known of the registry service a scope entry stems from *)
  Variable P : service -> Prop.
  Hypothesis P_visible : forall s0, In s0 svcs -> is_visible m s0 cfg = true -> P s0.

  Definition From (s : service) : Prop := exists s0, In s0 svcs /\ core s = core s0 /\ P s0.

  Lemma from_with_ports : forall s p, From s -> From (with_ports s p).
  Proof. intros s p [s0 [H1 [H2 H3]]]. exists s0. rewrite core_with_ports. auto. Qed.

  Lemma from_visible : forall s, In s (sort_services svcs) -> is_visible m s cfg = true -> From s.
  Proof. intros s H V. apply (proj1 (sort_services_In _ _)) in H. exists s. split; [exact H|]. split; [reflexivity|]. apply P_visible; assumption. Qed.

  (* ---- selectServices *)
  Lemma svc_listener_port_core : forall s p x, svc_listener_port s p = Some x -> core x = core s.
  Proof. intros s p x H. unfold svc_listener_port in H. destruct (existsb _ _); [|discriminate]. injection H as <-. reflexivity. Qed.

  Lemma matching_service_core : forall c s l x, matching_service c s l = Some x -> core x = core s.
  Proof.
    intros c s l x H. unfold matching_service in H. destruct (hc_matches c (s_host s)); [|discriminate].
    destruct (match_port l); [eapply svc_listener_port_core; eauto | injection H as <-; reflexivity].
  Qed.

  Lemma import_one_core : forall hb l s x, import_one hb l s = Some x -> core x = core s.
  Proof.
    intros hb l s x H. unfold import_one in H.
    destruct (opt_excluded _ _ || opt_excluded _ _); [discriminate|].
    destruct (hbn_get (s_ns s) hb) as [c|].
    - destruct (matching_service c s l) eqn:E.
      + injection H as <-. eapply matching_service_core; eauto.
      + destruct (hbn_get "*" hb) as [c'|]; [eapply matching_service_core; eauto | discriminate].
    - destruct (hbn_get "*" hb) as [c'|]; [eapply matching_service_core; eauto | discriminate].
  Qed.

  Lemma select_services_from : forall cands hb l,
    (forall x, In x cands -> From x) -> forall s, In s (select_services m cands cfg hb l) -> From s.
  Proof.
    intros cands hb l Hc s H. unfold select_services in H. apply filter_In in H. destruct H as [H _].
    apply filter_map_In in H. destruct H as [x [Hx E]]. apply import_one_core in E.
    destruct (Hc x Hx) as [s0 [A [B C]]]. exists s0. split; [exact A|]. split; [congruence | exact C].
  Qed.

  (* ---- candidates *)
  Lemma exact_candidates_sound : forall hb s, In s (exact_candidates m (sort_services svcs) cfg hb) ->
    In s (sort_services svcs) /\ is_visible m s cfg = true.
  Proof.
    intros hb s H. unfold exact_candidates in H. apply (proj1 (sort_services_In _ _)) in H.
    apply in_flat_map in H. destruct H as [[ns c] [_ H]]. apply filter_map_In in H.
    destruct H as [h [_ E]]. destruct (hn_lookup (sort_services svcs) h ns) as [x|] eqn:L; [|discriminate].
    destruct (is_visible m x cfg) eqn:V; [|discriminate]. injection E as <-.
    apply hn_lookup_sound in L. tauto.
  Qed.

  Lemma wrapper_services_from : forall vss l s,
    In s (w_services (listener_wrap m (sort_services svcs) vss cfg l)) -> From s.
  Proof.
    intros vss l s H. unfold listener_wrap in H. destruct (parse_hosts cfg (l_hosts l)) as [hb allx].
    cbn [w_services] in H. eapply select_services_from; [|exact H].
    intros x Hx. destruct allx.
    - apply exact_candidates_sound in Hx. apply from_visible; tauto.
    - apply exported_sound in Hx. apply from_visible; tauto.
  Qed.

  (* ---- appendSidecarServices *)
  Lemma append_svc_from : forall acc s, Forall From acc -> From s -> Forall From (append_svc acc s).
  Proof.
    induction acc as [|ex r IH]; intros s Ha Hs; cbn [append_svc].
    - constructor; [exact Hs | constructor].
    - inversion Ha as [|? ? Hex Hr]; subst.
      destruct (s_host ex =? s_host s)%string.
      + destruct (is_kube ex && negb (is_kube s)); [exact Ha|].
        destruct (negb (is_kube ex) && is_kube s); [constructor; assumption|].
        destruct (ports_eqb (s_ports ex) (s_ports s)); [exact Ha|].
        destruct (negb (can_merge ex s)); [exact Ha|].
        constructor; [apply from_with_ports; exact Hex | exact Hr].
      + constructor; [exact Hex | apply IH; assumption].
  Qed.

  Lemma fold_append_from : forall l acc, Forall From acc -> (forall x, In x l -> From x) ->
    Forall From (fold_left append_svc l acc).
  Proof.
    induction l as [|x r IH]; intros acc Ha Hl; cbn [fold_left]; [exact Ha|].
    apply IH; [apply append_svc_from; [exact Ha | apply Hl; left; reflexivity] | intros y Hy; apply Hl; right; exact Hy].
  Qed.

  (* ---- VirtualService destinations *)
  Lemma visible_in_sound : forall h s, In s (visible_in m (sort_services svcs) cfg h) ->
    In s (sort_services svcs) /\ is_visible m s cfg = true /\ hn_lookup (sort_services svcs) h (s_ns s) = Some s.
  Proof.
    intros h s H. unfold visible_in in H. apply filter_map_In in H. destruct H as [n [_ E]].
    destruct (hn_lookup (sort_services svcs) h n) as [x|] eqn:L; [|discriminate].
    destruct (is_visible m x cfg) eqn:V; [|discriminate]. injection E as <-.
    pose proof (hn_lookup_sound _ _ _ _ L) as [A [B C]]. subst n. auto.
  Qed.

  Lemma min_string_In : forall l x, min_string l = Some x -> In x l.
  Proof.
    induction l as [|y r IH]; intros x H; cbn in H; [discriminate|].
    destruct (min_string r) as [z|] eqn:E.
    - destruct (String.leb y z); injection H as <-; [left; reflexivity | right; apply IH; reflexivity].
    - injection H as <-. left. reflexivity.
  Qed.

  Lemma pick_ns_sound : forall h n, (forall x, In x (map s_ns (visible_in m (sort_services svcs) cfg h)) -> True) ->
    In n (map s_ns (visible_in m (sort_services svcs) cfg h)) ->
    exists s, hn_lookup (sort_services svcs) h n = Some s /\ In s (sort_services svcs) /\ is_visible m s cfg = true.
  Proof.
    intros h n _ H. apply in_map_iff in H. destruct H as [s [E Hs]]. apply visible_in_sound in Hs.
    destruct Hs as [A [B C]]. subst n. exists s. auto.
  Qed.

  Lemma pick_best_adm_sub : forall h n, In n (pick_best_admissible m (sort_services svcs) cfg h) ->
    In n (map s_ns (visible_in m (sort_services svcs) cfg h)).
  Proof.
    intros h n H. unfold pick_best_admissible in H.
    set (vis := visible_in m (sort_services svcs) cfg h) in *.
    destruct (filter is_kube vis) as [|k ks] eqn:F.
    - destruct (min_string _) as [n0|] eqn:MS; [|destruct H]. destruct H as [<-|[]].
      apply min_string_In in MS.
      apply in_map_iff in MS. destruct MS as [s [E Hs]]. apply filter_In in Hs. apply in_map_iff. exists s. tauto.
    - apply in_map_iff in H. destruct H as [s [E Hs]]. rewrite <- F in Hs. apply filter_In in Hs.
      apply in_map_iff. exists s. tauto.
  Qed.

  Lemma pick_best_sound : forall h hint n, pick_best m (sort_services svcs) cfg h hint = Some n ->
    In n (map s_ns (visible_in m (sort_services svcs) cfg h)).
  Proof.
    intros h hint n H. unfold pick_best in H. apply pick_best_adm_sub.
    set (adm := pick_best_admissible m (sort_services svcs) cfg h) in *.
    destruct (filter _ adm) as [|a r] eqn:F.
    - destruct adm as [|a r]; [discriminate|]. injection H as <-. left. reflexivity.
    - injection H as <-. assert (I : In a (a :: r)) by (left; reflexivity). rewrite <- F in I.
      apply filter_In in I. tauto.
  Qed.

  Lemma resolve_dest_from : forall hint h s, resolve_dest m (sort_services svcs) cfg hint h = Some s -> From s.
  Proof.
    intros hint h s H. unfold resolve_dest in H.
    assert (O : forall x,
      match (if f_pick_best m then pick_best m (sort_services svcs) cfg h hint
             else pick_first m (sort_services svcs) cfg h) with
      | Some n => hn_lookup (sort_services svcs) h n | None => None end = Some x -> From x).
    { intros x Hx. destruct (f_pick_best m).
      - destruct (pick_best m (sort_services svcs) cfg h hint) as [n|] eqn:E; [|discriminate].
        apply pick_best_sound in E. apply pick_ns_sound in E; [|auto]. destruct E as [s' [L [A B]]].
        rewrite L in Hx. injection Hx as <-. apply from_visible; assumption.
      - destruct (pick_first m (sort_services svcs) cfg h) as [n|] eqn:E; [|discriminate].
        unfold pick_first in E. apply min_string_In in E. apply pick_ns_sound in E; [|auto].
        destruct E as [s' [L [A B]]]. rewrite L in Hx. injection Hx as <-. apply from_visible; assumption. }
    destruct (hn_lookup (sort_services svcs) h cfg) as [x|] eqn:L; [|apply O; exact H].
    destruct (is_visible m x cfg) eqn:V; [|apply O; exact H].
    injection H as <-. apply hn_lookup_sound in L. apply from_visible; tauto.
  Qed.

  Lemma svc_vs_ports_core : forall s ports x, svc_vs_ports s ports = Some x -> core x = core s.
  Proof.
    intros s ports x H. unfold svc_vs_ports in H. destruct ports; [injection H as <-; reflexivity|].
    destruct (existsb _ _); [injection H as <-; reflexivity|].
    destruct (Nat.eqb _ _); [injection H as <-; reflexivity|].
    destruct (filter _ (s_ports s)); [discriminate | injection H as <-; reflexivity].
  Qed.

  Lemma svc_matching_port_from : forall l s ports x, From s -> svc_matching_port l s ports = Some x -> From x.
  Proof.
    intros l s ports x [s0 [A [B C]]] H. unfold svc_matching_port in H.
    assert (E : core x = core s).
    { destruct (match_port l); [eapply svc_listener_port_core | eapply svc_vs_ports_core]; eauto. }
    exists s0. split; [exact A|]. split; [congruence | exact C].
  Qed.

  Lemma collect_vs_from : forall hint l acc v, Forall From acc ->
    Forall From (collect_vs m (sort_services svcs) cfg hint l acc v).
  Proof.
    intros hint l acc v Ha. unfold collect_vs. generalize dependent acc.
    induction (vs_destinations cfg v) as [|[h ports] r IH]; intros acc Ha; cbn [fold_left]; [exact Ha|].
    apply IH. destruct (resolve_dest m (sort_services svcs) cfg hint h) as [s|] eqn:R; [|exact Ha].
    destruct (svc_matching_port l s ports) as [ms|] eqn:M; [|exact Ha].
    apply append_svc_from; [exact Ha|]. eapply svc_matching_port_from; [eapply resolve_dest_from; eauto | eauto].
  Qed.

  Lemma fold_collect_vs_from : forall hint l vs acc, Forall From acc ->
    Forall From (fold_left (collect_vs m (sort_services svcs) cfg hint l) vs acc).
  Proof.
    induction vs as [|v r IH]; intros acc Ha; cbn [fold_left]; [exact Ha|].
    apply IH. apply collect_vs_from. exact Ha.
  Qed.

  Lemma collect_imported_from : forall hint ws,
    (forall w, In w ws -> forall s, In s (w_services w) -> From s) ->
    Forall From (collect_imported m (sort_services svcs) cfg hint ws).
  Proof.
    intros hint ws Hw. unfold collect_imported.
    assert (G : forall l acc, (forall w, In w l -> forall s, In s (w_services w) -> From s) -> Forall From acc ->
      Forall From (fold_left (fun acc w =>
        let acc1 := fold_left append_svc (w_services w) acc in
        fold_left (collect_vs m (sort_services svcs) cfg hint (w_l w)) (w_vs w) acc1) l acc)).
    { induction l as [|w r IH]; intros acc Hl Ha; cbn [fold_left]; [exact Ha|].
      apply IH; [intros w' Hw'; apply Hl; right; exact Hw'|].
      apply fold_collect_vs_from. apply fold_append_from; [exact Ha|]. apply Hl. left. reflexivity. }
    apply G; [exact Hw | constructor].
  Qed.

  Lemma sidecar_scope_from : forall vss ls hint s, In s (sidecar_scope m svcs vss cfg ls hint) -> From s.
  Proof.
    intros vss ls hint s H. unfold sidecar_scope in H.
    pose proof (collect_imported_from hint (scope_wrappers m svcs vss cfg ls)) as G.
    rewrite Forall_forall in G. apply G; [|exact H].
    intros w Hw x Hx. unfold scope_wrappers in Hw. apply in_map_iff in Hw. destruct Hw as [l [<- _]].
    eapply wrapper_services_from; eauto.
  Qed.

  Lemma gateway_scope_from : forall s, In s (gateway_scope m svcs cfg) -> From s.
  Proof.
    intros s H. unfold gateway_scope in H.
    pose proof (fold_append_from (services_exported_to_ns m (sort_services svcs) cfg) [] (Forall_nil _)) as G.
    rewrite Forall_forall in G. apply G; [|exact H].
    intros x Hx. apply exported_sound in Hx. apply from_visible; tauto.
  Qed.
End Scope.

(* ------------------------------------------------------------------ the statements *)
Definition StemsFromVisible (m : mesh) (svcs : list service) (cfg : string) (s : service) : Prop :=
  exists s0, In s0 svcs /\ core s = core s0 /\ is_visible m s0 cfg = true.

Theorem no_leak : forall m svcs vss cfg ls hint s,
  In s (sidecar_scope m svcs vss cfg ls hint) -> StemsFromVisible m svcs cfg s.
Proof.
  intros m svcs vss cfg ls hint s H.
  apply (sidecar_scope_from m svcs cfg (fun s0 => is_visible m s0 cfg = true)) in H; auto.
Qed.

Theorem gateway_no_leak : forall m svcs cfg s,
  In s (gateway_scope m svcs cfg) -> StemsFromVisible m svcs cfg s.
Proof.
  intros m svcs cfg s H.
  apply (gateway_scope_from m svcs cfg (fun s0 => is_visible m s0 cfg = true)) in H; auto.
Qed.

Theorem proxy_no_leak : forall m svcs vss scs cfg labels hint s,
  In s (proxy_scope m svcs vss scs cfg labels hint) -> StemsFromVisible m svcs cfg s.
Proof. intros. unfold proxy_scope in *. eapply no_leak; eauto. Qed.

(* regression input of K3 (repaired in /repo cba5e9c): two ns1 services not exported to ns1 and an
   ns1 VirtualService routing to them *)
Definition k3_mesh := mkMesh None None None false "rootns" true true.
Definition k3_svcs :=
  [ mkSvc "a.com" "ns1" Ext ["ns2"] VPublic [80%N] 1 "s00" 0;
    mkSvc "c.org" "ns1" Ext ["~"] VPublic [80%N] 2 "s01" 0 ].
Definition k3_vss :=
  [ mkVs 1 "ns1" ["d.io"] [] false true [mkRoute true [] [("a.com", 0%N); ("c.org", 0%N)]] 0 ].
