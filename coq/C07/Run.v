(* Evaluation of harness cases for C07. *)
From V Require Export lib.Verdict C07.Model.
Open Scope string_scope.
Open Scope list_scope.

(* what the harness records of a *model.Service in a scope *)
Record osvc := mkO { o_host : string; o_ns : string; o_name : string; o_ports : list N }.

(* one egress listener wrapper: its services (in order) and its VirtualServices (namespace, name) in order *)
Definition olistener := (list osvc * list (string * N))%type.

Inductive case :=
(* host.Name.Matches / SubsetOf *)
| HostAlg (id : N) (a b : string) (obs_matches obs_subset : bool)
(* IsServiceVisible(s, n) and membership of s in servicesExportedToNamespace(n) (one-service registry) *)
| Vis (id : N) (m : mesh) (s : service) (n : string) (obs_visible obs_indexed : bool)
(* index build: servicesExportedToNamespace(n) as names in order; HostnameAndNamespace[h][ns] winners *)
| Index (id : N) (m : mesh) (svcs : list service) (n : string) (obs_exported : list string)
        (lookups : list (string * string * option string))
(* a proxy's scope: which Sidecar was chosen (name, 0 = none/default), its wrappers, its services
   (sorted by hostname, ports sorted) *)
| Scope (id : N) (m : mesh) (svcs : list service) (vss : list vsvc) (scs : list sidecar)
        (cfg : string) (labels : list string) (gateway : bool)
        (obs_sidecar : N) (obs_ls : list olistener) (obs_scope : list osvc)
(* the same Sidecar with all-exact hosts (fast path) and with a dead wildcard host added to every
   listener (scan path) *)
| Paths (id : N) (m : mesh) (svcs : list service) (vss : list vsvc) (cfg : string)
        (ls_fast ls_scan : list listener)
        (obs_fast obs_scan : list olistener * list osvc)
(* PushContext.destinationRule(proxy namespace, service): the "from" names of every consolidated rule returned *)
(* ... with the subset names (subset "sub<n>" belongs to rule n) and the owner of the top-level traffic
   policy (0 = none) of the merged rule that is handed to the proxy *)
| DRule (id : N) (m : mesh) (drs : list drule) (proxy_ns svc_ns svc_host : string)
        (obs : list (list (string * N) * list N * N)).

Definition case_id c :=
  match c with
  | HostAlg id _ _ _ _ => id | Vis id _ _ _ _ _ => id | Index id _ _ _ _ _ => id
  | Scope id _ _ _ _ _ _ _ _ _ _ => id | Paths id _ _ _ _ _ _ _ _ => id | DRule id _ _ _ _ _ _ => id
  end.

(* ---------------------------------------------------------------- canonical forms *)
Fixpoint insert_n (x : N) (l : list N) : list N :=
  match l with [] => [x] | y :: r => if N.leb x y then x :: y :: r else y :: insert_n x r end.
Definition sort_n (l : list N) : list N := fold_right insert_n [] l.

Definition o_of (s : service) : osvc := mkO (s_host s) (s_ns s) (s_name s) (s_ports s).
Definition o_canon (o : osvc) : osvc := mkO (o_host o) (o_ns o) (o_name o) (sort_n (o_ports o)).
Fixpoint insert_o (x : osvc) (l : list osvc) : list osvc :=
  match l with [] => [x] | y :: r => if String.leb (o_host x) (o_host y) then x :: y :: r else y :: insert_o x r end.
Definition sort_o (l : list osvc) : list osvc := fold_right insert_o [] l.

Definition o_eqb (a b : osvc) : bool :=
  String.eqb (o_host a) (o_host b) && String.eqb (o_ns a) (o_ns b) && String.eqb (o_name a) (o_name b) &&
  ports_eqb (o_ports a) (o_ports b).
Definition vsid_eqb (a b : string * N) : bool := String.eqb (fst a) (fst b) && N.eqb (snd a) (snd b).
Definition ol_eqb (a b : olistener) : bool :=
  list_eqb o_eqb (fst a) (fst b) && list_eqb vsid_eqb (snd a) (snd b).

Definition w_obs (w : wrapper) : olistener :=
  (map o_of (w_services w), map (fun v => (v_ns v, v_name v)) (w_vs w)).

Definition scope_canon (l : list service) : list osvc := sort_o (map (fun s => o_canon (o_of s)) l).
Definition hint_of (obs : list osvc) : list (string * string) := map (fun o => (o_host o, o_ns o)) obs.

(* model prediction for explicit listeners *)
Definition listeners_ok (m : mesh) svcs vss cfg (ls : list listener) (obs_ls : list olistener) (obs_scope : list osvc) : bool :=
  let ws := scope_wrappers m svcs vss cfg ls in
  list_eqb ol_eqb (map w_obs ws) obs_ls &&
  list_eqb o_eqb (scope_canon (collect_imported m (sort_services svcs) cfg (hint_of obs_scope) ws)) obs_scope.

(* the merged rule: subsets in merge order (one per contributing rule), traffic policy of the first
   contributing rule that has one (mergeDestinationRule: first wins) *)
Definition dr_by_id (drs : list drule) (id : string * N) : option drule :=
  find (fun d => vsid_eqb id (d_ns d, d_name d)) drs.
Definition mdr_obs (drs : list drule) (x : mdr) : list (string * N) * list N * N :=
  (md_from x, map snd (md_from x),
   match find (fun id => match dr_by_id drs id with Some d => d_tp d | None => false end) (md_from x) with
   | Some id => snd id | None => 0%N end).

Definition model_ok (c : case) : bool :=
  match c with
  | HostAlg _ a b om os => Bool.eqb (matches a b) om && Bool.eqb (subset_of a b) os
  | Vis _ m s n ov oi =>
      Bool.eqb (is_visible m s n) ov &&
      Bool.eqb (existsb (fun x => String.eqb (s_name x) (s_name s)) (services_exported_to_ns m [s] n)) oi
  | Index _ m svcs n oe lk =>
      let sorted := sort_services svcs in
      list_eqb String.eqb (map s_name (services_exported_to_ns m sorted n)) oe &&
      forallb (fun '(h, ns, o) => option_eqb String.eqb (option_map s_name (hn_lookup sorted h ns)) o) lk
  | Scope _ m svcs vss scs cfg labels gw osc ols oscope =>
      if gw then
        list_eqb o_eqb (scope_canon (gateway_scope m svcs cfg)) oscope
      else
        let pick := pick_sidecar m scs cfg labels in
        N.eqb (match pick with Some s => sc_name s | None => 0%N end) osc &&
        listeners_ok m svcs vss cfg (match pick with Some s => sc_egress s | None => [] end) ols oscope
  | Paths _ m svcs vss cfg lf ls of_ os_ =>
      listeners_ok m svcs vss cfg lf (fst of_) (snd of_) &&
      listeners_ok m svcs vss cfg ls (fst os_) (snd os_)
  | DRule _ m drs p sn sh obs =>
      list_eqb (fun a b => list_eqb vsid_eqb (fst (fst a)) (fst (fst b)) &&
                           list_eqb N.eqb (snd (fst a)) (snd (fst b)) && N.eqb (snd a) (snd b))
               (map (mdr_obs drs) (destination_rule m drs p sn sh)) obs
  end.

(* ---------------------------------------------------------------- property oracle on observed outputs *)
Definition origin (svcs : list service) (o : osvc) : list service :=
  filter (fun s => String.eqb (s_host s) (o_host o) && String.eqb (s_ns s) (o_ns o)) svcs.

(* o is an instance of a declared service visible to cfg, with no invented port *)
Definition o_visible (m : mesh) (svcs : list service) (cfg : string) (o : osvc) : bool :=
  existsb (fun s => String.eqb (s_name s) (o_name o) && visible_spec m s cfg) (origin svcs o) &&
  forallb (fun p => existsb (fun s => existsb (N.eqb p) (s_ports s)) (origin svcs o)) (o_ports o).

Definition vs_dest_hosts (v : vsvc) : list string := flat_map (fun r => map fst (r_dests r)) (v_routes v).

(* o is imported: by a host entry of some listener, or as the destination of a VirtualService exported to cfg *)
Definition o_imported (m : mesh) (vss : list vsvc) (cfg : string) (ls : list listener) (o : osvc) : bool :=
  existsb (fun l => host_imports cfg (l_hosts l) (o_host o) (o_ns o)) ls ||
  existsb (fun v => vs_visible_spec m cfg v && mem (o_host o) (vs_dest_hosts v)) vss.

Definition no_leak_obs (m : mesh) svcs vss cfg (ls : list listener) (obs : list osvc) : bool :=
  forallb (fun o => o_visible m svcs cfg o && o_imported m vss cfg ls o) obs.

(* every visible service matched by a port-unrestricted, non-excluded egress host is delivered
   (some service with that hostname is in the scope) *)
Definition complete_obs (m : mesh) (svcs : list service) cfg (ls : list listener) (obs : list osvc) : bool :=
  forallb (fun s =>
    negb (visible_spec m s cfg &&
          existsb (fun l => negb (match_port l) && host_imports cfg (l_hosts l) (s_host s) (s_ns s)) ls) ||
    existsb (fun o => String.eqb (o_host o) (s_host s)) obs) svcs.

(* per-listener lists only contain visible services imported by that listener's hosts *)
Definition listeners_obs (m : mesh) svcs (vss : list vsvc) cfg (ls : list listener) (ols : list olistener) : bool :=
  Nat.eqb (List.length ls) (List.length ols) &&
  forallb (fun '(l, ol) => forallb (fun o => o_visible m svcs cfg o &&
                                             host_imports cfg (l_hosts l) (o_host o) (o_ns o)) (fst ol) &&
                           (* only VirtualServices exported to cfg are attached *)
                           forallb (fun id => existsb (fun v => vsid_eqb id (v_ns v, v_name v) &&
                                                                  vs_visible_spec m cfg v) vss) (snd ol))
          (combine ls ols).

Definition same_set (a b : list osvc) : bool :=
  forallb (fun x => existsb (o_eqb (o_canon x)) (map o_canon b)) a &&
  forallb (fun x => existsb (o_eqb (o_canon x)) (map o_canon a)) b.

Definition prop_ok (c : case) : bool :=
  match c with
  | HostAlg _ a b om os =>
      (* subset implies overlap; overlap is symmetric in the sense checked by a second case;
         exact names relate only to themselves *)
      (negb os || om) &&
      (is_wild a || is_wild b || Bool.eqb om (String.eqb a b)) &&
      (is_wild a || is_wild b || Bool.eqb os (String.eqb a b))
  | Vis _ m s n ov oi =>
      negb (real_ns n && wf_service m s) || (Bool.eqb ov (visible_spec m s n) && Bool.eqb oi ov)
  | Index _ m svcs n oe lk =>
      (* the scan list holds exactly the visible services *)
      negb (real_ns n && forallb (wf_service m) svcs) ||
      (forallb (fun nm => existsb (fun s => String.eqb (s_name s) nm && visible_spec m s n) svcs) oe &&
       forallb (fun s => negb (visible_spec m s n) || mem (s_name s) oe) svcs)
  | Scope _ m svcs vss scs cfg labels gw osc ols oscope =>
      if gw then
        negb (real_ns cfg && forallb (wf_service m) svcs) ||
        forallb (o_visible m svcs cfg) oscope &&
        forallb (fun s => negb (visible_spec m s cfg) || existsb (fun o => String.eqb (o_host o) (s_host s)) oscope) svcs
      else
        let ls := egress_or_default
                    (match find (fun s => N.eqb (sc_name s) osc) scs with Some s => sc_egress s | None => [] end) in
        negb (real_ns cfg && forallb (wf_service m) svcs) ||
        no_leak_obs m svcs vss cfg ls oscope && complete_obs m svcs cfg ls oscope &&
        listeners_obs m svcs vss cfg ls ols
  | Paths _ m svcs vss cfg lf ls of_ os_ =>
      (negb (real_ns cfg && forallb (wf_service m) svcs) ||
       (no_leak_obs m svcs vss cfg lf (snd of_) && no_leak_obs m svcs vss cfg ls (snd os_))) &&
      Nat.eqb (List.length (fst of_)) (List.length (fst os_)) &&
      forallb (fun '(a, b) => same_set (fst a) (fst b)) (combine (fst of_) (fst os_)) &&
      list_eqb o_eqb (snd of_) (snd os_)
  | DRule _ m drs p sn sh obs =>
      (* every rule that shapes the result is exported to the proxy namespace and covers the hostname *)
      (* ... be it through the "from" list, a subset or the traffic policy (rule names are unique) *)
      negb (real_ns p) ||
      let ok_name n := existsb (fun d => N.eqb n (d_name d) && dr_visible_spec m d p && subset_of sh (d_host d)) drs in
      forallb (fun o =>
        forallb (fun id => existsb (fun d => vsid_eqb id (d_ns d, d_name d) &&
                                             dr_visible_spec m d p && subset_of sh (d_host d)) drs) (fst (fst o)) &&
        forallb ok_name (snd (fst o)) && (N.eqb (snd o) 0 || ok_name (snd o))) obs
  end.

Definition mismatches := check_all case_id model_ok prop_ok.
