(* C07 — a proxy only receives services visible to and imported by its namespace.
   Executable model of /repo/pilot/pkg/model/{sidecar.go,push_context.go,virtualservice.go},
   /repo/pkg/config/host/name.go and /repo/pkg/config/visibility.  Definitions only.
   Every definition names the Go function it follows.  Hostnames, namespaces and exportTo
   entries are real strings (same bytes as the code sees). *)
From Coq Require Import List NArith Bool String Ascii.
Import ListNotations.
Open Scope string_scope.
Open Scope list_scope.

(* ------------------------------------------------------------------ small helpers *)
Fixpoint mem (x : string) (l : list string) : bool :=
  match l with [] => false | y :: r => String.eqb x y || mem x r end.

(* sets.Set semantics for lists coming from Go sets: keep the last occurrence *)
Fixpoint dedup (l : list string) : list string :=
  match l with [] => [] | x :: r => if mem x r then dedup r else x :: dedup r end.

Fixpoint filter_map {A B} (f : A -> option B) (l : list A) : list B :=
  match l with
  | [] => []
  | x :: r => match f x with Some y => y :: filter_map f r | None => filter_map f r end
  end.

Definition tl1 (h : string) : string :=
  match h with String _ t => t | EmptyString => EmptyString end.

(* ------------------------------------------------------------------ pkg/config/host/name.go *)
(* Name.IsWildCarded *)
Definition is_wild (h : string) : bool :=
  match h with String c _ => Ascii.eqb c "*"%char | EmptyString => false end.

(* strings.HasSuffix *)
Fixpoint has_suffix (s suf : string) : bool :=
  String.eqb s suf || match s with String _ t => has_suffix t suf | EmptyString => false end.

(* Name.Matches *)
Definition matches (n o : string) : bool :=
  if is_wild n then
    if is_wild o then
      if Nat.ltb (String.length n) (String.length o)
      then has_suffix (tl1 o) (tl1 n) else has_suffix (tl1 n) (tl1 o)
    else has_suffix o (tl1 n)
  else if is_wild o then has_suffix n (tl1 o)
  else String.eqb n o.

(* Name.SubsetOf *)
Definition subset_of (n o : string) : bool :=
  if is_wild n then
    if is_wild o then
      if Nat.ltb (String.length n) (String.length o) then false
      else has_suffix (tl1 n) (tl1 o)
    else false
  else if is_wild o then has_suffix n (tl1 o)
  else String.eqb n o.

(* ------------------------------------------------------------------ services and mesh settings *)
Inductive registry := Kube | Ext.            (* provider.Kubernetes / anything else *)
Inductive svis := VPublic | VNamespace | VNone. (* ServiceVisibility (serviceentry_visibility.go) *)

Record service := mkSvc {
  s_host : string;          (* Hostname *)
  s_ns : string;            (* Attributes.Namespace *)
  s_reg : registry;         (* Attributes.ServiceRegistry *)
  s_export : list string;   (* Attributes.ExportTo (set) *)
  s_vis : svis;             (* Attributes.Visibility *)
  s_ports : list N;         (* Ports (numbers; names/protocols are functions of the number in the harness) *)
  s_ctime : N;              (* CreationTime *)
  s_name : string;          (* Attributes.Name *)
  s_mkey : N                (* Resolution, Labels, LabelSelectors interned (canMergeServices) *)
}.

Definition is_kube (s : service) : bool := match s_reg s with Kube => true | Ext => false end.
Definition with_ports (s : service) (ps : list N) : service :=
  mkSvc (s_host s) (s_ns s) (s_reg s) (s_export s) (s_vis s) ps (s_ctime s) (s_name s) (s_mkey s).

Record mesh := mkMesh {
  m_svc_default : option (list string); (* MeshConfig.DefaultServiceExportTo (None = nil) *)
  m_vs_default : option (list string);  (* MeshConfig.DefaultVirtualServiceExportTo *)
  m_dr_default : option (list string);  (* MeshConfig.DefaultDestinationRuleExportTo *)
  m_apply_sidecars : bool;              (* serviceEntryVisibility.applyToSidecars *)
  m_root : string;                      (* RootNamespace *)
  f_unified : bool;                     (* features.UnifiedSidecarScoping *)
  f_pick_best : bool                    (* features.SidecarPickBestServiceNamespace *)
}.

(* initDefaultExportMaps *)
Definition default_of (o : option (list string)) : list string :=
  match o with Some l => l | None => ["*"] end.

(* PushContext.serviceExportTo *)
Definition service_export_to (m : mesh) (s : service) : list string :=
  let e := match s_export s with [] => default_of (m_svc_default m) | _ => s_export s end in
  if Nat.eqb (List.length (dedup e)) 1 && mem "~" e then e
  else if m_apply_sidecars m then
    match s_vis s with
    | VNamespace => if mem "*" e || mem "." e || mem (s_ns s) e then ["."] else ["~"]
    | VNone => ["~"]
    | VPublic => e
    end
  else e.

(* PushContext.IsServiceVisible *)
Definition is_visible (m : mesh) (s : service) (n : string) : bool :=
  let e := service_export_to m s in
  mem "*" e || (mem "." e && String.eqb (s_ns s) n) || mem n e.

(* ------------------------------------------------------------------ SortServicesByCreationTime *)
Definition svc_le (a b : service) : bool :=
  match N.compare (s_ctime a) (s_ctime b) with
  | Lt => true | Gt => false
  | Eq => match String.compare (s_name a) (s_name b) with
          | Lt => true | Gt => false
          | Eq => match String.compare (s_ns a) (s_ns b) with
                  | Lt => true | Gt => false
                  (* /repo 2ebf73e: then K8sAttributes.ObjectName (empty for every modelled service), then hostname *)
                  | Eq => match String.compare (s_host a) (s_host b) with Gt => false | _ => true end
                  end
          end
  end.

Fixpoint insert_svc (s : service) (l : list service) : list service :=
  match l with
  | [] => [s]
  | x :: r => if svc_le s x then s :: x :: r else x :: insert_svc s r
  end.
(* stable *)
Definition sort_services (l : list service) : list service := fold_right insert_svc [] l.

(* ------------------------------------------------------------------ initServiceRegistry *)
(* [sorted] is the creation-ordered service list; the three indexes are functions of it. *)
Definition in_public (m : mesh) (s : service) : bool := mem "*" (service_export_to m s).

Definition exported_key (s : service) (k : string) : string :=
  if String.eqb k "." then s_ns s else k.

Definition in_exported (m : mesh) (n : string) (s : service) : bool :=
  let e := service_export_to m s in
  negb (mem "*" e) && negb (mem "~" e) && existsb (fun k => String.eqb (exported_key s k) n) e.

(* PushContext.servicesExportedToNamespace *)
Definition services_exported_to_ns (m : mesh) (sorted : list service) (n : string) : list service :=
  filter (in_exported m n) sorted ++ filter (in_public m) sorted.

(* ServiceIndex.HostnameAndNamespace[h][n]: first (oldest) wins, Kubernetes replaces non-Kubernetes *)
Definition hn_step (h n : string) (acc : option service) (s : service) : option service :=
  if String.eqb (s_host s) h && String.eqb (s_ns s) n then
    match acc with
    | Some ex => if negb (is_kube ex) && is_kube s then Some s else Some ex
    | None => Some s
    end
  else acc.
Definition hn_lookup (sorted : list service) (h n : string) : option service :=
  fold_left (hn_step h n) sorted None.
(* keys of HostnameAndNamespace[h] *)
Definition hn_namespaces (sorted : list service) (h : string) : list string :=
  dedup (map s_ns (filter (fun s => String.eqb (s_host s) h) sorted)).

(* ------------------------------------------------------------------ egress hosts (convertIstioListenerToWrapper) *)
Record hc := mkHc { hc_exact : list string; hc_all : list string; hc_excl : list string }. (* hostClassification *)
Definition empty_hc := mkHc [] [] [].

Fixpoint count_slash (s : string) : nat :=
  match s with
  | EmptyString => 0
  | String c t => (if Ascii.eqb c "/"%char then 1 else 0) + count_slash t
  end.
(* strings.Cut(h, "/") *)
Fixpoint cut_slash (s : string) : string * string :=
  match s with
  | EmptyString => (EmptyString, EmptyString)
  | String c t => if Ascii.eqb c "/"%char then (EmptyString, t)
                  else let '(a, b) := cut_slash t in (String c a, b)
  end.
Definition has_tilde (s : string) : bool :=
  match s with String c _ => Ascii.eqb c "~"%char | EmptyString => false end.

Definition hbn := list (string * hc). (* hostsByNamespace *)
Fixpoint hbn_get (k : string) (m : hbn) : option hc :=
  match m with [] => None | (k', v) :: r => if String.eqb k k' then Some v else hbn_get k r end.
Fixpoint hbn_set (k : string) (v : hc) (m : hbn) : hbn :=
  match m with
  | [] => [(k, v)]
  | (k', v') :: r => if String.eqb k k' then (k, v) :: r else (k', v') :: hbn_set k v r
  end.

Definition parse_step (cfg : string) (st : hbn * bool) (h : string) : hbn * bool :=
  let '(m, allx) := st in
  if negb (Nat.eqb (count_slash h) 1) then st else
  let '(ns0, name) := cut_slash h in
  let excluded := has_tilde ns0 in
  let ns1 := if excluded then (let t := tl1 ns0 in if String.eqb t "" then "*" else t) else ns0 in
  let ns := if String.eqb ns1 "." then cfg else ns1 in
  let cur := match hbn_get ns m with Some c => c | None => empty_hc end in
  if excluded then
    (hbn_set ns (mkHc (hc_exact cur) (hc_all cur) (hc_excl cur ++ [name])) m, allx)
  else
    let exact' := if is_wild name then hc_exact cur
                  else if mem name (hc_exact cur) then hc_exact cur else hc_exact cur ++ [name] in
    let allx' := allx && negb (is_wild name) && negb (String.eqb ns "*") in
    (hbn_set ns (mkHc exact' (hc_all cur ++ [name]) (hc_excl cur)) m, allx').
(* returns hostsByNamespace and allExactHosts *)
Definition parse_hosts (cfg : string) (hosts : list string) : hbn * bool :=
  fold_left (parse_step cfg) hosts ([], true).

(* hostClassification.Excluded / Matches / VSMatches *)
Definition hc_excluded (c : hc) (h : string) : bool := existsb (fun e => subset_of h e) (hc_excl c).
Definition hc_matches (c : hc) (h : string) : bool :=
  mem h (hc_exact c) ||
  existsb (fun ih => (is_wild h || is_wild ih) && subset_of h ih) (hc_all c).
Definition hc_vs_matches (c : hc) (vh : string) (gw : bool) : bool :=
  mem vh (hc_exact c) ||
  existsb (fun ih => (is_wild vh || is_wild ih) && (if gw then subset_of vh ih else matches vh ih)) (hc_all c).

Record listener := mkL {
  l_hosts : list string;   (* IstioEgressListener.Hosts *)
  l_port : N;              (* Port.Number, 0 = no port *)
  l_http_proxy : bool      (* Port.Protocol parses to HTTP_PROXY *)
}.
(* needsPortMatch *)
Definition match_port (l : listener) : bool := negb (N.eqb (l_port l) 0) && negb (l_http_proxy l).

(* serviceMatchingListenerPort *)
Definition svc_listener_port (s : service) (p : N) : option service :=
  if existsb (N.eqb p) (s_ports s) then Some (with_ports s [p]) else None.

(* matchingService (matchingAliasService is the identity: services without aliases) *)
Definition matching_service (c : hc) (s : service) (l : listener) : option service :=
  if hc_matches c (s_host s) then
    if match_port l then svc_listener_port s (l_port l) else Some s
  else None.

Definition opt_excluded (o : option hc) (h : string) : bool :=
  match o with Some c => hc_excluded c h | None => false end.

(* selectServices, first loop: one service *)
Definition import_one (hb : hbn) (l : listener) (s : service) : option service :=
  let nsh := hbn_get (s_ns s) hb in
  let wh := hbn_get "*" hb in
  if opt_excluded nsh (s_host s) || opt_excluded wh (s_host s) then None else
  match (match nsh with Some c => matching_service c s l | None => None end) with
  | Some x => Some x
  | None => match wh with Some c => matching_service c s l | None => None end
  end.

Fixpoint assoc {A} (k : string) (m : list (string * A)) : option A :=
  match m with [] => None | (k', v) :: r => if String.eqb k k' then Some v else assoc k r end.
Fixpoint assoc_set {A} (k : string) (v : A) (m : list (string * A)) : list (string * A) :=
  match m with
  | [] => [(k, v)]
  | (k', v') :: r => if String.eqb k k' then (k, v) :: r else (k', v') :: assoc_set k v r
  end.

(* selectServices, validServices loop: unified and legacy *)
Definition valid_step (unified : bool) (cfg : string) (vm : list (string * (string * bool))) (s : service) :=
  let np := (s_ns s, is_kube s) in
  match assoc (s_host s) vm with
  | None => assoc_set (s_host s) np vm
  | Some ex =>
    if String.eqb (s_ns s) cfg then assoc_set (s_host s) np vm
    else if unified && (negb (snd ex) && is_kube s &&
                        (String.eqb (s_ns s) cfg || negb (String.eqb (fst ex) cfg)))
         then assoc_set (s_host s) np vm
    else vm
  end.

(* IstioEgressListenerWrapper.selectServices *)
Definition select_services (m : mesh) (svcs : list service) (cfg : string) (hb : hbn) (l : listener)
  : list service :=
  let imported := filter_map (import_one hb l) svcs in
  let vm := fold_left (valid_step (f_unified m) cfg) imported [] in
  filter (fun s => match assoc (s_host s) vm with
                   | Some (n, _) => String.eqb n (s_ns s) | None => false end) imported.

(* PushContext.servicesForExactHosts *)
Definition exact_candidates (m : mesh) (sorted : list service) (cfg : string) (hb : hbn) : list service :=
  sort_services
    (flat_map (fun '(ns, c) =>
       filter_map (fun h => match hn_lookup sorted h ns with
                            | Some s => if is_visible m s cfg then Some s else None
                            | None => None end) (hc_exact c)) hb).

(* ------------------------------------------------------------------ VirtualServices *)
Record route := mkRoute {
  r_http : bool;                 (* HTTP route (sourceNamespace filtering applies) or TCP/TLS *)
  r_src : list string;           (* match[i].sourceNamespace, "" = unset *)
  r_dests : list (string * N)    (* destination host, port number (0 = no port) *)
}.
Record vsvc := mkVs {
  v_name : N; v_ns : string;
  v_hosts : list string;
  v_export : list string;        (* spec.exportTo *)
  v_gw : bool;                   (* UseGatewaySemantics *)
  v_mesh : bool;                 (* bound to the mesh gateway (getGatewayNames contains "mesh") *)
  v_routes : list route;
  v_ctime : N
}.

(* convertExportToSet / copyDefaultExportToSet + initVirtualServices default *)
Definition vs_export_set (m : mesh) (v : vsvc) : list string :=
  let conv := map (fun k => if String.eqb k "." then v_ns v else k) in
  match v_export v with [] => conv (default_of (m_vs_default m)) | e => conv e end.

(* initVirtualServices: membership in publicByGateway[mesh] / privateByNamespaceAndGateway / exportedToNamespaceByGateway *)
Definition vs_public (m : mesh) (v : vsvc) : bool := v_mesh v && mem "*" (vs_export_set m v).
Definition vs_private (m : mesh) (cfg : string) (v : vsvc) : bool :=
  let e := vs_export_set m v in
  v_mesh v && negb (mem "*" e) && negb (mem "~" e) && mem cfg e && String.eqb (v_ns v) cfg.
Definition vs_exported (m : mesh) (cfg : string) (v : vsvc) : bool :=
  let e := vs_export_set m v in
  v_mesh v && negb (mem "*" e) && negb (mem "~" e) && mem cfg e && negb (String.eqb (v_ns v) cfg).

Fixpoint insert_vs (v : vsvc) (l : list vsvc) : list vsvc :=
  match l with
  | [] => [v]
  | x :: r => if N.leb (v_ctime v) (v_ctime x) then v :: x :: r else x :: insert_vs v r
  end.
(* sortMergedVirtualServicesByCreationTime (creation times are unique in the harness) *)
Definition sort_vs (l : list vsvc) : list vsvc := fold_right insert_vs [] l.

Definition vs_same (a b : vsvc) : bool := N.eqb (v_name a) (v_name b) && String.eqb (v_ns a) (v_ns b).

(* SelectVirtualServices.addVirtualService *)
Definition add_vs (hb : hbn) (acc : list vsvc) (v : vsvc) (c : hc) : list vsvc :=
  if existsb (vs_same v) acc then acc else
  if existsb (fun vh => hc_vs_matches c vh (v_gw v) &&
                        negb (opt_excluded (hbn_get (v_ns v) hb) vh || opt_excluded (hbn_get "*" hb) vh))
             (v_hosts v)
  then acc ++ [v] else acc.

Definition add_vs_both (hb : hbn) (acc : list vsvc) (v : vsvc) : list vsvc :=
  let acc1 := match hbn_get (v_ns v) hb with Some c => add_vs hb acc v c | None => acc end in
  match hbn_get "*" hb with Some c => add_vs hb acc1 v c | None => acc1 end.

(* SelectVirtualServices.loopAndAdd *)
Definition loop_and_add (unified : bool) (cfg : string) (hb : hbn) (acc : list vsvc) (vses : list vsvc) :=
  if unified then
    let gw_exact v := v_gw v && String.eqb (v_ns v) cfg in
    let acc1 := fold_left (fun a v => if gw_exact v then add_vs_both hb a v else a) vses acc in
    fold_left (fun a v => if gw_exact v then a else add_vs_both hb a v) vses acc1
  else fold_left (add_vs_both hb) vses acc.

(* SelectVirtualServices; [vss] sorted by creation time *)
Definition select_virtual_services (m : mesh) (cfg : string) (hb : hbn) (vss : list vsvc) : list vsvc :=
  let a1 := loop_and_add (f_unified m) cfg hb [] (filter (vs_private m cfg) vss) in
  let a2 := loop_and_add (f_unified m) cfg hb a1 (filter (vs_exported m cfg) vss) in
  loop_and_add (f_unified m) cfg hb a2 (filter (vs_public m) vss).

(* virtualServiceDestinationsFilteredBySourceNamespace: namespaceMatched *)
Definition ns_matched (cfg : string) (srcs : list string) : bool :=
  existsb (String.eqb cfg) srcs || forallb (String.eqb "") srcs.

Fixpoint add_dest (h : string) (p : N) (m : list (string * list N)) : list (string * list N) :=
  match m with
  | [] => [(h, [p])]
  | (h', ps) :: r => if String.eqb h h' then (h', if existsb (N.eqb p) ps then ps else ps ++ [p]) :: r
                     else (h', ps) :: add_dest h p r
  end.
(* host -> set of ports (0 = every port) *)
Definition vs_destinations (cfg : string) (v : vsvc) : list (string * list N) :=
  fold_left (fun acc r =>
    if r_http r && negb (ns_matched cfg (r_src r)) then acc
    else fold_left (fun a '(h, p) => add_dest h p a) (r_dests r) acc) (v_routes v) [].

(* serviceMatchingVirtualServicePorts *)
Definition svc_vs_ports (s : service) (ports : list N) : option service :=
  match ports with
  | [] => Some s
  | _ => if existsb (N.eqb 0) ports then Some s else
         let found := filter (fun p => existsb (N.eqb p) ports) (s_ports s) in
         if Nat.eqb (List.length found) (List.length (s_ports s)) then Some s
         else match found with [] => None | _ => Some (with_ports s found) end
  end.

(* ------------------------------------------------------------------ collectImportedServices *)
Definition visible_in (m : mesh) (sorted : list service) (cfg h : string) : list service :=
  filter_map (fun n => match hn_lookup sorted h n with
                       | Some s => if is_visible m s cfg then Some s else None
                       | None => None end) (hn_namespaces sorted h).

Fixpoint min_string (l : list string) : option string :=
  match l with
  | [] => None
  | x :: r => match min_string r with
              | Some y => if String.leb x y then Some x else Some y
              | None => Some x end
  end.
(* pickFirstVisibleNamespace *)
Definition pick_first (m : mesh) (sorted : list service) (cfg h : string) : option string :=
  min_string (map s_ns (visible_in m sorted cfg h)).

(* pickBestVisibleNamespace ranges over a Go map: when several namespaces hold a visible Kubernetes
   service (or several oldest non-Kubernetes ones) the result depends on iteration order.  The model
   returns the set of admissible answers; [hint] (namespaces observed for this hostname) resolves the
   choice, theorems quantify over every hint. *)
Definition pick_best_admissible (m : mesh) (sorted : list service) (cfg h : string) : list string :=
  let vis := visible_in m sorted cfg h in
  match filter is_kube vis with
  | (_ :: _) as ks => map s_ns ks
  | [] => let mn := fold_right (fun s a => N.min (s_ctime s) a) (match vis with s :: _ => s_ctime s | [] => 0%N end) vis in
          (* /repo 2ebf73e: equally old services tie-break on the smaller namespace *)
          match min_string (map s_ns (filter (fun s => N.eqb (s_ctime s) mn) vis)) with
          | Some n => [n] | None => [] end
  end.
Definition pick_best (m : mesh) (sorted : list service) (cfg h : string) (hint : list (string * string))
  : option string :=
  let adm := pick_best_admissible m sorted cfg h in
  match filter (fun n => existsb (fun '(h', n') => String.eqb h h' && String.eqb n n') hint) adm with
  | n :: _ => Some n
  | [] => match adm with n :: _ => Some n | [] => None end
  end.

(* which service a VirtualService destination host resolves to for [cfg] *)
Definition resolve_dest (m : mesh) (sorted : list service) (cfg : string) (hint : list (string * string))
  (h : string) : option service :=
  let pick_other :=
    match (if f_pick_best m then pick_best m sorted cfg h hint else pick_first m sorted cfg h) with
    | Some n => hn_lookup sorted h n
    | None => None
    end in
  match hn_lookup sorted h cfg with
  | Some s => if is_visible m s cfg then Some s else pick_other  (* /repo cba5e9c: K3 repaired *)
  | None => pick_other
  end.

Definition eq_set (a b : list string) : bool :=
  forallb (fun x => mem x b) a && forallb (fun x => mem x a) b.
Fixpoint ports_eqb (a b : list N) : bool :=
  match a, b with
  | [], [] => true
  | x :: a', y :: b' => N.eqb x y && ports_eqb a' b'
  | _, _ => false
  end.
Definition reg_eqb (a b : registry) : bool :=
  match a, b with Kube, Kube => true | Ext, Ext => true | _, _ => false end.
(* canMergeServices *)
Definition can_merge (a b : service) : bool :=
  String.eqb (s_ns a) (s_ns b) && N.eqb (s_mkey a) (s_mkey b) && reg_eqb (s_reg a) (s_reg b) &&
  eq_set (s_export a) (s_export b).

(* SidecarScope.appendSidecarServices; the scope's service list is keyed by hostname and keeps
   first-insertion positions.  (The pointer-equality early return is subsumed: equal services have
   equal registries and ports, so the "same ports" branch returns unchanged as well.) *)
Fixpoint append_svc (acc : list service) (s : service) : list service :=
  match acc with
  | [] => [s]
  | ex :: r =>
    if String.eqb (s_host ex) (s_host s) then
      if is_kube ex && negb (is_kube s) then ex :: r
      else if negb (is_kube ex) && is_kube s then s :: r
      else if ports_eqb (s_ports ex) (s_ports s) then ex :: r
      else if negb (can_merge ex s) then ex :: r
      else with_ports ex (s_ports ex ++ filter (fun p => negb (existsb (N.eqb p) (s_ports ex))) (s_ports s)) :: r
    else ex :: append_svc r s
  end.

(* collectImportedServices.serviceMatchingPort *)
Definition svc_matching_port (l : listener) (s : service) (ports : list N) : option service :=
  if match_port l then svc_listener_port s (l_port l) else svc_vs_ports s ports.

Record wrapper := mkW { w_l : listener; w_services : list service; w_vs : list vsvc }. (* IstioEgressListenerWrapper *)

(* convertIstioListenerToWrapper *)
Definition listener_wrap (m : mesh) (sorted : list service) (vss : list vsvc) (cfg : string) (l : listener)
  : wrapper :=
  let '(hb, allx) := parse_hosts cfg (l_hosts l) in
  let cands := if allx then exact_candidates m sorted cfg hb else services_exported_to_ns m sorted cfg in
  mkW l (select_services m cands cfg hb l) (select_virtual_services m cfg hb vss).

Definition collect_vs (m : mesh) (sorted : list service) (cfg : string) (hint : list (string * string))
  (l : listener) (acc : list service) (v : vsvc) : list service :=
  fold_left (fun a '(h, ports) =>
    match resolve_dest m sorted cfg hint h with
    | Some s => match svc_matching_port l s ports with Some ms => append_svc a ms | None => a end
    | None => a
    end) (vs_destinations cfg v) acc.

(* collectImportedServices *)
Definition collect_imported (m : mesh) (sorted : list service) (cfg : string) (hint : list (string * string))
  (ws : list wrapper) : list service :=
  fold_left (fun acc w =>
    let acc1 := fold_left append_svc (w_services w) acc in
    fold_left (collect_vs m sorted cfg hint (w_l w)) (w_vs w) acc1) ws [].

(* initSidecarScopeInternalIndexes: default listener when egress is empty *)
Definition egress_or_default (ls : list listener) : list listener :=
  match ls with [] => [mkL ["*/*"] 0 false] | _ => ls end.

Definition scope_wrappers (m : mesh) (svcs : list service) (vss : list vsvc) (cfg : string) (ls : list listener)
  : list wrapper :=
  map (listener_wrap m (sort_services svcs) (sort_vs vss) cfg) (egress_or_default ls).

(* convertToSidecarScope: SidecarScope.services *)
Definition sidecar_scope (m : mesh) (svcs : list service) (vss : list vsvc) (cfg : string) (ls : list listener)
  (hint : list (string * string)) : list service :=
  collect_imported m (sort_services svcs) cfg hint (scope_wrappers m svcs vss cfg ls).

(* DefaultSidecarScopeForGateway: services *)
Definition gateway_scope (m : mesh) (svcs : list service) (cfg : string) : list service :=
  fold_left append_svc (services_exported_to_ns m (sort_services svcs) cfg) [].

(* ------------------------------------------------------------------ which Sidecar applies (initSidecarScopes + doGetSidecarScope) *)
Record sidecar := mkSc {
  sc_name : N; sc_ns : string; sc_ctime : N;
  sc_selector : option (list string);  (* workloadSelector labels "k=v"; None = no selector *)
  sc_egress : list listener
}.
Fixpoint insert_sc (v : sidecar) (l : list sidecar) : list sidecar :=
  match l with
  | [] => [v]
  | x :: r => if N.leb (sc_ctime v) (sc_ctime x) then v :: x :: r else x :: insert_sc v r
  end.
Definition has_sel (s : sidecar) : bool := match sc_selector s with Some _ => true | None => false end.
(* initSidecarScopes ordering: with selector first, each group by creation time *)
Definition order_sidecars (l : list sidecar) : list sidecar :=
  let sorted := fold_right insert_sc [] l in
  filter has_sel sorted ++ filter (fun s => negb (has_sel s)) sorted.

(* result: the egress listeners to convert for [cfg]; None = no Sidecar (default scope) *)
Definition pick_sidecar (m : mesh) (scs : list sidecar) (cfg : string) (labels : list string)
  : option sidecar :=
  let ordered := order_sidecars scs in
  match find (fun s => String.eqb (sc_ns s) cfg &&
                       match sc_selector s with
                       | Some sel => forallb (fun kv => mem kv labels) sel
                       | None => true end) ordered with
  | Some s => Some s
  | None => find (fun s => String.eqb (sc_ns s) (m_root m) && negb (has_sel s)) ordered
  end.

Definition proxy_scope (m : mesh) (svcs : list service) (vss : list vsvc) (scs : list sidecar)
  (cfg : string) (labels : list string) (hint : list (string * string)) : list service :=
  sidecar_scope m svcs vss cfg
    (match pick_sidecar m scs cfg labels with Some s => sc_egress s | None => [] end) hint.

(* ------------------------------------------------------------------ declarative specification *)
(* effective exportTo, stated from the documentation: the declared list (mesh default when empty),
   narrowed by the ServiceEntry visibility when it applies to sidecars. *)
Definition declared_export (m : mesh) (s : service) : list string :=
  match s_export s with [] => default_of (m_svc_default m) | e => e end.

Definition ExportedTo (e : list string) (owner n : string) : Prop :=
  ~ In "~" e /\ (In "*" e \/ (In "." e /\ owner = n) \/ In n e).

Definition Visible (m : mesh) (s : service) (n : string) : Prop :=
  ExportedTo (declared_export m s) (s_ns s) n /\
  (m_apply_sidecars m = true -> match s_vis s with
                                | VPublic => True | VNamespace => s_ns s = n | VNone => False end).

(* boolean version of the specification, used as the oracle on observed outputs *)
Definition exported_to_b (e : list string) (owner n : string) : bool :=
  negb (mem "~" e) && (mem "*" e || (mem "." e && String.eqb owner n) || mem n e).
Definition visible_spec (m : mesh) (s : service) (n : string) : bool :=
  exported_to_b (declared_export m s) (s_ns s) n &&
  (negb (m_apply_sidecars m) ||
   match s_vis s with VPublic => true | VNamespace => String.eqb (s_ns s) n | VNone => false end).

(* exportTo lists the documentation allows: "~" stands alone *)
Definition wf_export (e : list string) : bool := negb (mem "~" e) || Nat.eqb (List.length (dedup e)) 1.
Definition wf_service (m : mesh) (s : service) : bool := wf_export (declared_export m s).
(* namespaces proxies live in are real names *)
Definition real_ns (n : string) : bool :=
  negb (String.eqb n "*") && negb (String.eqb n ".") && negb (String.eqb n "~") && negb (String.eqb n "").

(* one parsed egress host entry *)
Record entry := mkE { e_excl : bool; e_ns : string; e_name : string }.
Definition parse_entry (cfg h : string) : option entry :=
  if negb (Nat.eqb (count_slash h) 1) then None else
  let '(ns0, name) := cut_slash h in
  let excluded := has_tilde ns0 in
  let ns1 := if excluded then (let t := tl1 ns0 in if String.eqb t "" then "*" else t) else ns0 in
  Some (mkE excluded (if String.eqb ns1 "." then cfg else ns1) name).
Definition entries (cfg : string) (hosts : list string) : list entry := filter_map (parse_entry cfg) hosts.

Definition ns_covers (en sn : string) : bool := String.eqb en sn || String.eqb en "*".
(* the host list imports (host h of namespace sn): some positive entry covers it, no ~entry does *)
Definition host_imports (cfg : string) (hosts : list string) (h sn : string) : bool :=
  let es := entries cfg hosts in
  existsb (fun e => negb (e_excl e) && ns_covers (e_ns e) sn && subset_of h (e_name e)) es &&
  negb (existsb (fun e => e_excl e && ns_covers (e_ns e) sn && subset_of h (e_name e)) es).

(* a VirtualService is exported to [cfg] *)
Definition vs_visible_spec (m : mesh) (cfg : string) (v : vsvc) : bool :=
  let e := match v_export v with [] => default_of (m_vs_default m) | e => e end in
  v_mesh v && (mem "*" e || (negb (mem "~" e) && ((mem "." e && String.eqb (v_ns v) cfg) || mem cfg e))).

(* ------------------------------------------------------------------ DestinationRules (push_context.go setDestinationRules,
   destination_rule.go mergeDestinationRule with EnableEnhancedDestinationRuleMerge, PushContext.destinationRule).
   Rules without workloadSelector; only names (the "from" lists) and exportTo are modelled, not rule contents. *)
Record drule := mkDr { d_name : N; d_ns : string; d_host : string; d_export : list string; d_ctime : N;
                       d_tp : bool (* has a top-level trafficPolicy; every rule has one subset named after it *) }.
(* ConsolidatedDestRule: exportTo of the first rule, names of every rule merged into it *)
Record mdr := mkMdr { md_export : list string; md_from : list (string * N) }.

Fixpoint insert_dr (v : drule) (l : list drule) : list drule :=
  match l with
  | [] => [v]
  | x :: r => if N.leb (d_ctime v) (d_ctime x) then v :: x :: r else x :: insert_dr v r
  end.
(* sortConfigBySelectorAndCreationTime (creation times unique in the harness) *)
Definition sort_drs (l : list drule) : list drule := fold_right insert_dr [] l.

Definition dr_eset (d : drule) : list string := dedup (d_export d).

(* mergeDestinationRule, the loop over the consolidated rules of one host; returns the updated list
   and appendSeparately *)
Fixpoint merge_loop (d : drule) (l : list mdr) (sep : bool) : list mdr * bool :=
  match l with
  | [] => ([], sep)
  | x :: r =>
    let e := dr_eset d in
    let eq := eq_set e (md_export x) in
    let sup := match md_export x with [] => false | _ => forallb (fun k => mem k e) (md_export x) end in
    if eq || sup then
      (* merged; both rules are without selector: appendSeparately := false *)
      let '(r', s') := merge_loop d r false in
      (mkMdr (md_export x) (md_from x ++ [(d_ns d, d_name d)]) :: r', s')
    else
      let '(r', s') := merge_loop d r true in (x :: r', s')
  end.
Definition merge_dr (l : list mdr) (d : drule) : list mdr :=
  match l with
  | [] => [mkMdr (dr_eset d) [(d_ns d, d_name d)]]
  | _ => let '(l', sep) := merge_loop d l true in
         if sep then l' ++ [mkMdr (dr_eset d) [(d_ns d, d_name d)]] else l'
  end.

(* setDestinationRules: which index a rule goes to *)
Definition dr_local (d : drule) : bool :=
  let e := dr_eset d in
  match e with [] => true | _ => mem "*" e || mem "." e || mem (d_ns d) e end.
Definition dr_private_only (m : mesh) (d : drule) : bool :=
  let e := dr_eset d in
  match e with
  | [] => mem "." (default_of (m_dr_default m))
  | [k] => String.eqb k "." || String.eqb k (d_ns d)
  | _ => false
  end.
Definition dr_exported (m : mesh) (d : drule) : bool := negb (dr_private_only m d).
Definition dr_root_local (m : mesh) (d : drule) : bool :=
  dr_private_only m d && String.eqb (d_ns d) (m_root m).

(* one index (selected by [pred]) restricted to namespace [ns]: its hosts and the consolidated list of a host *)
Definition idx_rules (pred : drule -> bool) (drs : list drule) (ns : string) : list drule :=
  filter (fun d => pred d && String.eqb (d_ns d) ns) (sort_drs drs).
Definition idx_list (pred : drule -> bool) (drs : list drule) (ns h : string) : list mdr :=
  fold_left merge_dr (filter (fun d => String.eqb (d_host d) h) (idx_rules pred drs ns)) [].

(* MostSpecificHostMatch over the hosts of an index *)
Definition longest_wild (needle_tail : string) (hosts : list string) : option string :=
  fold_left (fun best h =>
    if is_wild h && has_suffix needle_tail (tl1 h) then
      match best with
      | Some b => if Nat.ltb (String.length b) (String.length h) then Some h else Some b
      | None => Some h
      end
    else best) hosts None.
Definition most_specific (needle : string) (hosts : list string) : option string :=
  if mem needle hosts then Some needle
  else longest_wild (if is_wild needle then tl1 needle else needle) hosts.

Definition idx_match (pred : drule -> bool) (drs : list drule) (ns needle : string) : option (list mdr) :=
  match most_specific needle (map d_host (idx_rules pred drs ns)) with
  | Some h => Some (idx_list pred drs ns h)
  | None => None
  end.

(* getExportedDestinationRuleFromNamespace *)
Definition exported_from (m : mesh) (drs : list drule) (owner needle client : string) : list mdr :=
  match idx_match (dr_exported m) drs owner needle with
  | Some l => filter (fun x => match md_export x with [] => true | e => mem "*" e || mem client e end) l
  | None => []
  end.

(* PushContext.destinationRule (service with a namespace) *)
Definition destination_rule (m : mesh) (drs : list drule) (proxy_ns svc_ns svc_host : string) : list mdr :=
  let tier34 :=
    match exported_from m drs svc_ns svc_host proxy_ns with
    | (_ :: _) as l => l
    | [] => exported_from m drs (m_root m) svc_host proxy_ns
    end in
  if negb (String.eqb proxy_ns (m_root m)) then
    match idx_match dr_local drs proxy_ns svc_host with
    | Some l => l
    | None => tier34
    end
  else
    match idx_match (dr_root_local m) drs (m_root m) svc_host with
    | Some l => l
    | None => tier34
    end.

(* specification: a DestinationRule is exported to the client namespace *)
Definition dr_visible_spec (m : mesh) (d : drule) (client : string) : bool :=
  let e := match d_export d with [] => default_of (m_dr_default m) | e => e end in
  mem "*" e || (mem "." e && String.eqb (d_ns d) client) || mem client e.
