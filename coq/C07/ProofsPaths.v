(* C07 proofs, part 3: exact-host fast path versus scan path; malformed exportTo. *)
From Coq Require Import List NArith Bool String Ascii.
From V Require Import lib.Verdict C07.Model C07.Proofs C07.ProofsScope.
Import ListNotations.
Open Scope string_scope.
Open Scope list_scope.

Definition fast_result (m : mesh) (svcs : list service) (cfg : string) (l : listener) : list service :=
  let hb := fst (parse_hosts cfg (l_hosts l)) in
  select_services m (exact_candidates m (sort_services svcs) cfg hb) cfg hb l.
Definition scan_result (m : mesh) (svcs : list service) (cfg : string) (l : listener) : list service :=
  let hb := fst (parse_hosts cfg (l_hosts l)) in
  select_services m (services_exported_to_ns m (sort_services svcs) cfg) cfg hb l.

Definition pm := mkMesh None None None false "rootns" true true.

(* (a) the namespace tie-break follows candidate order: creation order on the fast path,
   exported-before-public on the scan path *)
Definition pa_svcs :=
  [ mkSvc "a.com" "ns1" Ext ["*"] VPublic [80%N] 1 "s00" 0;
    mkSvc "a.com" "ns2" Ext ["ns3"] VPublic [80%N] 2 "s01" 0 ].
Definition pa_l := mkL ["ns1/a.com"; "ns2/a.com"] 0 false.
(* (b) two services for one hostname in one namespace: the index keeps the oldest only *)
Definition pb_svcs :=
  [ mkSvc "a.com" "ns1" Ext [] VPublic [80%N] 1 "s00" 0;
    mkSvc "a.com" "ns1" Ext [] VPublic [443%N] 2 "s01" 0 ].
Definition pb_l := mkL ["ns1/a.com"] 0 false.

Theorem paths_agree_refuted :
  (snd (parse_hosts "ns3" (l_hosts pa_l)) = true /\
   exists s, In s (fast_result pm pa_svcs "ns3" pa_l) /\ ~ In s (scan_result pm pa_svcs "ns3" pa_l)) /\
  (snd (parse_hosts "ns3" (l_hosts pb_l)) = true /\
   exists s, In s (scan_result pm pb_svcs "ns3" pb_l) /\ ~ In s (fast_result pm pb_svcs "ns3" pb_l)).
Proof.
  split; (split; [reflexivity|]).
  - exists (mkSvc "a.com" "ns1" Ext ["*"] VPublic [80%N] 1 "s00" 0). split; [vm_compute; left; reflexivity|].
    vm_compute. intros [H|[]]. discriminate.
  - exists (mkSvc "a.com" "ns1" Ext [] VPublic [443%N] 2 "s01" 0). split; [vm_compute; right; left; reflexivity|].
    vm_compute. intros [H|[]]. discriminate.
Qed.

(* what does hold for every input: fast-path candidates are scan-path candidates *)
Theorem fast_candidates_in_scan : forall m svcs cfg hb s,
  forallb (wf_service m) svcs = true -> real_ns cfg = true ->
  In s (exact_candidates m (sort_services svcs) cfg hb) ->
  In s (services_exported_to_ns m (sort_services svcs) cfg).
Proof.
  intros m svcs cfg hb s WF RN H. apply exact_candidates_sound in H. destruct H as [A B].
  apply exported_complete; auto.
  rewrite forallb_forall in WF. apply WF. apply (proj1 (sort_services_In _ _)). exact A.
Qed.

(* malformed exportTo ("~" next to other entries): IsServiceVisible and the index disagree *)
Theorem index_visible_refuted :
  exists m s n, real_ns n = true /\ is_visible m s n = true /\ ~ In s (services_exported_to_ns m [s] n).
Proof.
  exists pm, (mkSvc "a.com" "ns1" Ext ["."; "~"] VPublic [80%N] 1 "s00" 0), "ns1".
  split; [reflexivity|]. split; [reflexivity|]. vm_compute. tauto.
Qed.
