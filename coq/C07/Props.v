(* C07 property theorems only. *)
From Coq Require Import List NArith Bool String Ascii.
From V Require Import lib.Verdict C07.Model C07.Proofs C07.ProofsScope C07.ProofsPaths C07.ProofsVS C07.ProofsComplete C07.ProofsDR.
Import ListNotations.
Open Scope string_scope.
Open Scope list_scope.

(* ---- no leak.  Every service of every computed scope - any Sidecar (selector, root-namespace
   default, none), listener, host list, VirtualService set, feature-flag setting and tie-break choice -
   is a (port-trimmed or port-merged) copy of a registry service that IsServiceVisible to the proxy
   namespace.  (Holds since the K3 repair, /repo cba5e9c.) *)
Theorem C07_no_leak : forall m svcs vss scs cfg labels hint s,
  In s (proxy_scope m svcs vss scs cfg labels hint) ->
  exists s0, In s0 svcs /\ core s = core s0 /\ is_visible m s0 cfg = true.
Proof. exact proxy_no_leak. Qed.
Print Assumptions C07_no_leak.

(* Gateways / waypoints (DefaultSidecarScopeForGateway): visible services only. *)
Theorem C07_gateway_no_leak : forall m svcs cfg s,
  In s (gateway_scope m svcs cfg) ->
  exists s0, In s0 svcs /\ core s = core s0 /\ is_visible m s0 cfg = true.
Proof. exact gateway_no_leak. Qed.
Print Assumptions C07_gateway_no_leak.

(* ---- visibility.  IsServiceVisible decides the declarative definition (exportTo, mesh default,
   ServiceEntry visibility cap) for well-formed exportTo lists and real namespace names. *)
Theorem C07_visible_is_spec : forall m s n, wf_service m s = true -> real_ns n = true ->
  (is_visible m s n = true <-> Visible m s n).
Proof.
  intros m s n WF RN. rewrite (is_visible_spec m s n WF RN). apply visible_spec_Visible.
Qed.
Print Assumptions C07_visible_is_spec.

(* The index (scan-path candidates) holds exactly the visible services. *)
Theorem C07_index_sound : forall m svcs n s,
  In s (services_exported_to_ns m (sort_services svcs) n) -> In s svcs /\ is_visible m s n = true.
Proof.
  intros m svcs n s H. apply exported_sound in H. destruct H as [A B]. split; [|exact B].
  apply (proj1 (sort_services_In _ _)). exact A.
Qed.
Print Assumptions C07_index_sound.

Theorem C07_index_complete : forall m svcs n s, wf_service m s = true -> real_ns n = true ->
  In s svcs -> is_visible m s n = true -> In s (services_exported_to_ns m (sort_services svcs) n).
Proof.
  intros m svcs n s WF RN H V. apply exported_complete; auto. apply (proj2 (sort_services_In _ _)). exact H.
Qed.
Print Assumptions C07_index_complete.

(* Without well-formedness the two notions of visibility in the code disagree ("~" next to "."). *)
Theorem C07_index_complete_refuted :
  exists m s n, real_ns n = true /\ is_visible m s n = true /\ ~ In s (services_exported_to_ns m [s] n).
Proof. exact index_visible_refuted. Qed.
Print Assumptions C07_index_complete_refuted.

(* HostnameAndNamespace entries are registry services with that hostname and namespace. *)
Theorem C07_hostname_index_sound : forall svcs h n s, hn_lookup (sort_services svcs) h n = Some s ->
  In s svcs /\ s_host s = h /\ s_ns s = n.
Proof.
  intros svcs h n s H. apply hn_lookup_sound in H. destruct H as [A B]. split; [|exact B].
  apply (proj1 (sort_services_In _ _)). exact A.
Qed.
Print Assumptions C07_hostname_index_sound.

(* ---- completeness.  "A visible service matched by a port-unrestricted, non-excluded egress host is
   delivered (some service with its hostname is in the scope)".  False at full strength on the
   exact-host fast path when an older, invisible service holds the (hostname, namespace) index entry;
   proved for every listener that takes the scan path. *)
Theorem C07_complete_refuted :
  let m := mkMesh None None None false "rootns" true true in
  let l := mkL ["ns1/a.com"] 0 false in
  let s0 := mkSvc "a.com" "ns1" Ext ["*"] VPublic [80%N] 2 "s01" 0 in
  In s0 cf_svcs /\ is_visible m s0 "ns3" = true /\ forallb (wf_service m) cf_svcs = true /\
  import_one (fst (parse_hosts "ns3" (l_hosts l))) l s0 <> None /\
  sidecar_scope m cf_svcs [] "ns3" [l] [] = [] /\
  map s_name (sidecar_scope m cf_svcs [] "ns3" [mkL ["ns1/a.com"; "zz-none/*"] 0 false] []) = ["s01"].
Proof. exact complete_fast_refuted. Qed.
Print Assumptions C07_complete_refuted.

Theorem C07_complete_partial : forall m svcs vss cfg ls hint l s0,
  In l (egress_or_default ls) -> snd (parse_hosts cfg (l_hosts l)) = false ->
  In s0 svcs -> is_visible m s0 cfg = true -> wf_service m s0 = true -> real_ns cfg = true ->
  import_one (fst (parse_hosts cfg (l_hosts l))) l s0 <> None ->
  exists s, In s (sidecar_scope m svcs vss cfg ls hint) /\ s_host s = s_host s0.
Proof. exact complete_scan. Qed.
Print Assumptions C07_complete_partial.

(* ---- fast path versus scan path.  Refuted at full strength (two witnesses, both run against the
   real code by the harness); what holds for all inputs: fast-path candidates are scan-path candidates. *)
Theorem C07_paths_agree_refuted :
  (snd (parse_hosts "ns3" (l_hosts pa_l)) = true /\
   exists s, In s (fast_result pm pa_svcs "ns3" pa_l) /\ ~ In s (scan_result pm pa_svcs "ns3" pa_l)) /\
  (snd (parse_hosts "ns3" (l_hosts pb_l)) = true /\
   exists s, In s (scan_result pm pb_svcs "ns3" pb_l) /\ ~ In s (fast_result pm pb_svcs "ns3" pb_l)).
Proof. exact paths_agree_refuted. Qed.
Print Assumptions C07_paths_agree_refuted.

Theorem C07_paths_agree_partial : forall m svcs cfg hb s,
  forallb (wf_service m) svcs = true -> real_ns cfg = true ->
  In s (exact_candidates m (sort_services svcs) cfg hb) ->
  In s (services_exported_to_ns m (sort_services svcs) cfg).
Proof. exact fast_candidates_in_scan. Qed.
Print Assumptions C07_paths_agree_partial.

(* ---- rule visibility (VirtualService part): every VirtualService attached to any egress listener of
   any scope is exported to the proxy namespace (exportTo with "." resolved, mesh default, "~", mesh gateway). *)
Theorem C07_vs_rule_visibility : forall m svcs vss cfg ls w v,
  real_ns cfg = true -> forallb (fun v => real_ns (v_ns v)) vss = true ->
  In w (scope_wrappers m svcs vss cfg ls) -> In v (w_vs w) ->
  In v vss /\ vs_visible_spec m cfg v = true.
Proof. exact vs_rule_visibility. Qed.
Print Assumptions C07_vs_rule_visibility.

(* ---- rule visibility (DestinationRule part): every DestinationRule merged into any consolidated rule
   that PushContext.destinationRule returns for (proxy namespace, service) is exported to the proxy
   namespace - through the proxy-namespace, service-namespace and root-namespace tiers and through
   exportTo-aware merging.  The mesh default is unset, "*" or "." (the only values the code honours). *)
Theorem C07_dr_rule_visibility : forall m,
  mem "*" (default_of (m_dr_default m)) || mem "." (default_of (m_dr_default m)) = true ->
  forall drs p sn sh x nm,
  In x (destination_rule m drs p sn sh) -> In nm (md_from x) ->
  exists d, In d drs /\ nm_of d = nm /\ dr_visible_spec m d p = true.
Proof. exact dr_rule_visibility. Qed.
Print Assumptions C07_dr_rule_visibility.

(* ---- hostname algebra (host.Name.SubsetOf / Matches on real strings) *)
Theorem C07_subset_refl : forall h, subset_of h h = true.
Proof. exact subset_refl. Qed.
Print Assumptions C07_subset_refl.

Theorem C07_subset_trans : forall a b c, subset_of a b = true -> subset_of b c = true -> subset_of a c = true.
Proof. exact subset_trans. Qed.
Print Assumptions C07_subset_trans.

Theorem C07_subset_implies_matches : forall a b, subset_of a b = true -> matches a b = true.
Proof. exact subset_matches. Qed.
Print Assumptions C07_subset_implies_matches.

Theorem C07_matches_symmetric : forall a b, matches a b = matches b a.
Proof. exact matches_sym. Qed.
Print Assumptions C07_matches_symmetric.

Theorem C07_exact_names : forall a b, is_wild a = false -> is_wild b = false ->
  subset_of a b = String.eqb a b /\ matches a b = String.eqb a b.
Proof. exact exact_subset. Qed.
Print Assumptions C07_exact_names.

(* non-vacuity: the hypotheses are satisfiable and scopes are not empty *)
Example C07_nonvacuous :
  let m := mkMesh None None None false "rootns" true true in
  let svcs := [mkSvc "a.com" "ns2" Ext ["ns1"] VPublic [80%N] 1 "s00" 0;
               mkSvc "b.a.com" "ns2" Ext ["."] VPublic [80%N] 2 "s01" 0] in
  map s_name (proxy_scope m svcs [] [] "ns1" [] []) = ["s00"] /\
  forallb (wf_service m) svcs = true /\ real_ns "ns1" = true.
Proof. vm_compute. repeat split. Qed.

Example C07_k3_regression :
  sidecar_scope k3_mesh k3_svcs k3_vss "ns1" [] [] = [].
Proof. vm_compute. reflexivity. Qed.
