(* C07 proofs, part 1: hostname algebra, visibility, the index. *)
From Coq Require Import List NArith Bool String Ascii Lia Arith.
From V Require Import lib.Verdict C07.Model.
Import ListNotations.
Open Scope string_scope.
Open Scope list_scope.

(* ------------------------------------------------------------------ strings *)
Lemma app_assoc_s : forall a b c : string, ((a ++ b) ++ c = a ++ (b ++ c))%string.
Proof. induction a; intros; cbn; [reflexivity | rewrite IHa; reflexivity]. Qed.

Lemma length_app_s : forall a b : string, String.length (a ++ b)%string = String.length a + String.length b.
Proof. induction a; intros; cbn; [reflexivity | rewrite IHa; reflexivity]. Qed.

Lemma has_suffix_spec : forall s suf, has_suffix s suf = true <-> exists p, s = (p ++ suf)%string.
Proof.
  induction s as [|c t IH]; intros suf; cbn [has_suffix].
  - rewrite orb_false_r. split.
    + intros H. apply String.eqb_eq in H. exists EmptyString. subst. reflexivity.
    + intros [p H]. destruct p; cbn in H; [subst; apply String.eqb_refl | discriminate].
  - split.
    + intros H. apply orb_true_iff in H. destruct H as [H|H].
      * apply String.eqb_eq in H. exists EmptyString. subst. reflexivity.
      * apply IH in H. destruct H as [p Hp]. exists (String c p). cbn. rewrite Hp. reflexivity.
    + intros [p H]. destruct p as [|c' p']; cbn in H.
      * subst suf. rewrite String.eqb_refl. reflexivity.
      * injection H as Hc Ht. apply orb_true_iff. right. apply IH. exists p'. exact Ht.
Qed.

Lemma has_suffix_refl : forall s, has_suffix s s = true.
Proof. intros. apply has_suffix_spec. exists EmptyString. reflexivity. Qed.

Lemma has_suffix_trans : forall a b c, has_suffix a b = true -> has_suffix b c = true -> has_suffix a c = true.
Proof.
  intros a b c H1 H2. apply has_suffix_spec in H1. apply has_suffix_spec in H2.
  destruct H1 as [p ->]. destruct H2 as [q ->]. apply has_suffix_spec.
  exists (p ++ q)%string. symmetry. apply app_assoc_s.
Qed.

Lemma has_suffix_length : forall a b, has_suffix a b = true -> String.length b <= String.length a.
Proof. intros a b H. apply has_suffix_spec in H. destruct H as [p ->]. rewrite length_app_s. lia. Qed.

Lemma has_suffix_same_length : forall a b, has_suffix a b = true -> String.length a = String.length b -> a = b.
Proof.
  intros a b H L. apply has_suffix_spec in H. destruct H as [p ->]. rewrite length_app_s in L.
  destruct p; [reflexivity | cbn in L; lia].
Qed.

Lemma wild_length : forall h, is_wild h = true -> String.length h = S (String.length (tl1 h)).
Proof. destruct h; cbn; [discriminate | reflexivity]. Qed.

(* ------------------------------------------------------------------ host.Name algebra *)
Lemma subset_refl : forall h, subset_of h h = true.
Proof.
  intros h. unfold subset_of. destruct (is_wild h).
  - rewrite Nat.ltb_irrefl. apply has_suffix_refl.
  - apply String.eqb_refl.
Qed.

Lemma subset_trans : forall a b c, subset_of a b = true -> subset_of b c = true -> subset_of a c = true.
Proof.
  intros a b c. unfold subset_of.
  destruct (is_wild a) eqn:Wa, (is_wild b) eqn:Wb, (is_wild c) eqn:Wc; try discriminate; intros H1 H2.
  - destruct (Nat.ltb (String.length a) (String.length b)) eqn:L1; [discriminate|].
    destruct (Nat.ltb (String.length b) (String.length c)) eqn:L2; [discriminate|].
    apply Nat.ltb_ge in L1. apply Nat.ltb_ge in L2.
    replace (Nat.ltb (String.length a) (String.length c)) with false by (symmetry; apply Nat.ltb_ge; lia).
    eapply has_suffix_trans; eassumption.
  - eapply has_suffix_trans; [exact H1|].
    destruct (Nat.ltb (String.length b) (String.length c)); [discriminate | exact H2].
  - apply String.eqb_eq in H1. subst b. exact H2.
  - apply String.eqb_eq in H1. subst b. exact H2.
Qed.

Lemma subset_matches : forall a b, subset_of a b = true -> matches a b = true.
Proof.
  intros a b. unfold subset_of, matches.
  destruct (is_wild a), (is_wild b); try discriminate; auto.
  destruct (Nat.ltb (String.length a) (String.length b)); [discriminate | auto].
Qed.

Lemma matches_sym : forall a b, matches a b = matches b a.
Proof.
  intros a b. unfold matches.
  destruct (is_wild a) eqn:Wa, (is_wild b) eqn:Wb; try reflexivity.
  - destruct (Nat.ltb (String.length a) (String.length b)) eqn:L1, (Nat.ltb (String.length b) (String.length a)) eqn:L2; try reflexivity.
    + apply Nat.ltb_lt in L1. apply Nat.ltb_lt in L2. lia.
    + apply Nat.ltb_ge in L1. apply Nat.ltb_ge in L2.
      assert (E : String.length (tl1 a) = String.length (tl1 b)).
      { pose proof (wild_length a Wa). pose proof (wild_length b Wb). lia. }
      destruct (has_suffix (tl1 a) (tl1 b)) eqn:H1.
      * apply has_suffix_same_length in H1; [|exact E]. rewrite H1. symmetry. apply has_suffix_refl.
      * destruct (has_suffix (tl1 b) (tl1 a)) eqn:H2; [|reflexivity].
        apply has_suffix_same_length in H2; [|symmetry; exact E].
        rewrite H2 in H1. rewrite has_suffix_refl in H1. discriminate.
  - apply String.eqb_sym.
Qed.

Lemma exact_subset : forall a b, is_wild a = false -> is_wild b = false ->
  subset_of a b = String.eqb a b /\ matches a b = String.eqb a b.
Proof. intros a b Ha Hb. unfold subset_of, matches. rewrite Ha, Hb. split; reflexivity. Qed.

(* a wildcard name is never covered by an exact one *)
Lemma wild_not_subset_exact : forall a b, is_wild a = true -> is_wild b = false -> subset_of a b = false.
Proof. intros a b Ha Hb. unfold subset_of. rewrite Ha, Hb. reflexivity. Qed.

(* ------------------------------------------------------------------ mem *)
Lemma mem_In : forall x l, mem x l = true <-> In x l.
Proof.
  induction l as [|y r IH]; cbn; [split; [discriminate | tauto]|].
  rewrite orb_true_iff, IH, String.eqb_eq. split; intros [H|H]; auto.
Qed.

Lemma mem_false_In : forall x l, mem x l = false <-> ~ In x l.
Proof.
  intros. rewrite <- mem_In. destruct (mem x l); split; intros; try discriminate; try reflexivity.
  exfalso. apply H. reflexivity.
Qed.

Lemma dedup_In : forall x l, In x (dedup l) <-> In x l.
Proof.
  induction l as [|y r IH]; cbn; [tauto|].
  destruct (mem y r) eqn:M.
  - rewrite IH. apply mem_In in M. split; [auto|]. intros [->|H]; auto.
  - cbn. rewrite IH. tauto.
Qed.

Lemma dedup_single : forall l x, List.length (dedup l) = 1%nat -> In x l -> forall y, In y l -> y = x.
Proof.
  intros l x L Hx y Hy. apply dedup_In in Hx. apply dedup_In in Hy.
  destruct (dedup l) as [|a [|b r]]; cbn in L; try discriminate.
  destruct Hx as [<-|[]]. destruct Hy as [<-|[]]. reflexivity.
Qed.

(* ------------------------------------------------------------------ visibility = specification *)
Lemma declared_eq : forall m s,
  match s_export s with [] => default_of (m_svc_default m) | _ :: _ => s_export s end = declared_export m s.
Proof. intros. unfold declared_export. destruct (s_export s); reflexivity. Qed.

Lemma real_ns_neq : forall n, real_ns n = true -> n <> "*" /\ n <> "." /\ n <> "~" /\ n <> "".
Proof.
  intros n H. unfold real_ns in H. repeat rewrite andb_true_iff in H. destruct H as [[[A B] C] D].
  repeat split; intros ->; cbn in *; discriminate.
Qed.

(* IsServiceVisible decides the declarative visibility, for well-formed exportTo and real namespaces *)
Lemma is_visible_spec : forall m s n, wf_service m s = true -> real_ns n = true ->
  is_visible m s n = visible_spec m s n.
Proof.
  intros m s n WF RN. unfold is_visible, visible_spec, service_export_to, wf_service, wf_export in *.
  rewrite declared_eq. set (e := declared_export m s) in *.
  destruct (real_ns_neq n RN) as [N1 [N2 [N3 N4]]].
  assert (TN : forall l, l = ["~"] -> mem "*" l || mem "." l && (s_ns s =? n)%string || mem n l = false).
  { intros l ->. cbn.
    destruct (String.eqb_spec n "~"); [contradiction | reflexivity]. }
  assert (PN : mem "*" ["."] || mem "." ["."] && (s_ns s =? n)%string || mem n ["."] = (s_ns s =? n)%string).
  { cbn. destruct (String.eqb_spec n "."); [contradiction|]. rewrite orb_false_r. reflexivity. }
  unfold exported_to_b.
  destruct (mem "~" e) eqn:MT.
  - (* "~" present: by wf it stands alone *)
    cbn in WF. rewrite WF. cbn [andb negb].
    assert (A : forall y, In y e -> y = "~").
    { intros y Hy. apply Nat.eqb_eq in WF. eapply dedup_single; [exact WF | apply mem_In; exact MT | exact Hy]. }
    assert (M1 : mem "*" e = false). { apply mem_false_In. intros H. apply A in H. discriminate. }
    assert (M2 : mem "." e = false). { apply mem_false_In. intros H. apply A in H. discriminate. }
    assert (M3 : mem n e = false). { apply mem_false_In. intros H. apply A in H. contradiction. }
    rewrite M1, M2, M3. reflexivity.
  - cbn [negb andb]. rewrite andb_false_r. cbn [andb].
    destruct (m_apply_sidecars m); cbn [negb orb].
    + destruct (s_vis s).
      * rewrite andb_true_r. reflexivity.
      * destruct (mem "*" e || mem "." e || mem (s_ns s) e) eqn:C.
        -- rewrite PN. destruct (String.eqb_spec (s_ns s) n) as [E|E]; [|rewrite andb_false_r; reflexivity].
           rewrite andb_true_r. subst n.
           destruct (mem "*" e); [reflexivity|]. destruct (mem "." e); cbn in *; [reflexivity | symmetry; exact C].
        -- rewrite TN by reflexivity.
           apply orb_false_iff in C. destruct C as [C C3]. apply orb_false_iff in C. destruct C as [C1 C2].
           rewrite C1, C2. cbn.
           destruct (String.eqb_spec (s_ns s) n) as [E|E]; [subst n; rewrite C3; reflexivity | rewrite andb_false_r; reflexivity].
      * rewrite TN by reflexivity. rewrite andb_false_r. reflexivity.
    + rewrite andb_true_r. reflexivity.
Qed.

Lemma visible_spec_Visible : forall m s n, visible_spec m s n = true <-> Visible m s n.
Proof.
  intros m s n. unfold visible_spec, Visible, exported_to_b, ExportedTo.
  split.
  - intros H. apply andb_true_iff in H. destruct H as [A C].
    apply andb_true_iff in A. destruct A as [A B]. apply negb_true_iff in A. apply mem_false_In in A.
    split.
    + split; [exact A|]. apply orb_true_iff in B. destruct B as [B|B].
      * apply orb_true_iff in B. destruct B as [B|B].
        -- left. apply mem_In. exact B.
        -- right. left. apply andb_true_iff in B. destruct B as [B1 B2].
           split; [apply mem_In; exact B1 | apply String.eqb_eq; exact B2].
      * right. right. apply mem_In. exact B.
    + intros AS. rewrite AS in C. cbn in C.
      destruct (s_vis s); [exact I | apply String.eqb_eq; exact C | discriminate].
  - intros [[A B] C]. apply andb_true_iff. split.
    + apply andb_true_iff. split; [apply negb_true_iff; apply mem_false_In; exact A|].
      destruct B as [B|[[B1 B2]|B]].
      * apply mem_In in B. rewrite B. reflexivity.
      * apply mem_In in B1. rewrite B1. subst n. rewrite String.eqb_refl. cbn. rewrite orb_true_r. reflexivity.
      * apply mem_In in B. rewrite B. apply orb_true_r.
    + destruct (m_apply_sidecars m); [|reflexivity]. cbn.
      specialize (C eq_refl). destruct (s_vis s); [reflexivity | apply String.eqb_eq; exact C | contradiction].
Qed.

(* ------------------------------------------------------------------ sort *)
Lemma insert_svc_In : forall x s l, In x (insert_svc s l) <-> x = s \/ In x l.
Proof.
  induction l as [|y r IH]; cbn; [intuition|].
  destruct (svc_le s y); cbn; [intuition|]. rewrite IH. intuition.
Qed.

Lemma sort_services_In : forall x l, In x (sort_services l) <-> In x l.
Proof.
  induction l as [|y r IH]; cbn; [tauto|]. rewrite insert_svc_In, IH. intuition.
Qed.

(* ------------------------------------------------------------------ index *)
Lemma in_exported_visible : forall m n s, in_exported m n s = true -> is_visible m s n = true.
Proof.
  intros m n s H. unfold in_exported in H. unfold is_visible.
  apply andb_true_iff in H. destruct H as [_ H]. apply existsb_exists in H. destruct H as [k [Hk E]].
  apply String.eqb_eq in E. unfold exported_key in E. apply mem_In in Hk.
  destruct (String.eqb_spec k ".") as [K|K].
  - subst k. rewrite Hk. subst n. rewrite String.eqb_refl. cbn. rewrite orb_true_r. reflexivity.
  - subst k. rewrite Hk. apply orb_true_r.
Qed.

Lemma in_public_visible : forall m n s, in_public m s = true -> is_visible m s n = true.
Proof. intros m n s H. unfold in_public in H. unfold is_visible. rewrite H. reflexivity. Qed.

(* every service of the scan-path candidate list is a visible service of the registry *)
Lemma exported_sound : forall m sorted n s,
  In s (services_exported_to_ns m sorted n) -> In s sorted /\ is_visible m s n = true.
Proof.
  intros m sorted n s H. unfold services_exported_to_ns in H. apply in_app_or in H.
  destruct H as [H|H]; apply filter_In in H; destruct H as [H1 H2]; split; auto.
  - eapply in_exported_visible; eauto.
  - eapply in_public_visible; eauto.
Qed.

(* ... and for well-formed exportTo the list is complete *)
Lemma exported_complete : forall m sorted n s, wf_service m s = true -> real_ns n = true ->
  In s sorted -> is_visible m s n = true -> In s (services_exported_to_ns m sorted n).
Proof.
  intros m sorted n s WF RN Hin V. unfold services_exported_to_ns. apply in_or_app.
  destruct (in_public m s) eqn:P; [right; apply filter_In; auto|].
  left. apply filter_In. split; [exact Hin|].
  unfold in_exported. unfold in_public in P. rewrite P. cbn [negb andb].
  pose proof (is_visible_spec m s n WF RN) as SP. rewrite V in SP. symmetry in SP.
  unfold is_visible in V. rewrite P in V. cbn [orb] in V.
  set (e := service_export_to m s) in *.
  assert (NT : mem "~" e = false).
  { destruct (mem "~" e) eqn:MT; [|reflexivity]. exfalso.
    (* "~" in the effective set: the declared set was "~" alone or capped to "~": not visible *)
    unfold e, service_export_to in MT, V. rewrite declared_eq in MT, V.
    destruct (real_ns_neq n RN) as [N1 [N2 [N3 N4]]].
    destruct ((List.length (dedup (declared_export m s)) =? 1)%nat && mem "~" (declared_export m s)) eqn:C.
    - apply andb_true_iff in C. destruct C as [C1 C2]. apply Nat.eqb_eq in C1.
      apply orb_true_iff in V. destruct V as [V|V].
      + apply andb_true_iff in V. destruct V as [V _]. apply mem_In in V. apply mem_In in C2.
        pose proof (dedup_single _ _ C1 C2 _ V). discriminate.
      + apply mem_In in V. apply mem_In in C2. pose proof (dedup_single _ _ C1 C2 _ V). contradiction.
    - destruct (m_apply_sidecars m).
      + destruct (s_vis s).
        * unfold wf_service, wf_export in WF. rewrite MT in WF. cbn in WF. rewrite WF, MT in C. discriminate.
        * destruct (mem "*" (declared_export m s) || mem "." (declared_export m s) || mem (s_ns s) (declared_export m s)).
          -- cbn in MT. discriminate.
          -- cbn in V. destruct (String.eqb_spec n "~"); [contradiction | discriminate].
        * cbn in V. destruct (String.eqb_spec n "~"); [contradiction | discriminate].
      + unfold wf_service, wf_export in WF. rewrite MT in WF. cbn in WF. rewrite WF, MT in C. discriminate. }
  rewrite NT. cbn [negb andb]. apply existsb_exists.
  apply orb_true_iff in V. destruct V as [V|V].
  - apply andb_true_iff in V. destruct V as [V1 V2]. exists ".". split; [apply mem_In; exact V1|].
    unfold exported_key. cbn. exact V2.
  - exists n. split; [apply mem_In; exact V|]. unfold exported_key.
    destruct (real_ns_neq n RN) as [N1 [N2 [N3 N4]]].
    destruct (String.eqb_spec n "."); [contradiction | apply String.eqb_refl].
Qed.

(* HostnameAndNamespace entries are registry services with that hostname and namespace *)
Lemma hn_lookup_sound : forall sorted h n s, hn_lookup sorted h n = Some s ->
  In s sorted /\ s_host s = h /\ s_ns s = n.
Proof.
  intros sorted h n. unfold hn_lookup.
  assert (G : forall l acc s, (forall x, acc = Some x -> In x sorted /\ s_host x = h /\ s_ns x = n) ->
              (forall x, In x l -> In x sorted) ->
              fold_left (hn_step h n) l acc = Some s -> In s sorted /\ s_host s = h /\ s_ns s = n).
  { induction l as [|y r IH]; intros acc s Hacc Hl; cbn [fold_left].
    - intros H. apply Hacc. exact H.
    - apply IH.
      + intros x. unfold hn_step.
        destruct ((s_host y =? h)%string && (s_ns y =? n)%string) eqn:E.
        * apply andb_true_iff in E. destruct E as [E1 E2]. apply String.eqb_eq in E1. apply String.eqb_eq in E2.
          destruct acc as [ex|].
          -- destruct (negb (is_kube ex) && is_kube y); intros Hx; injection Hx as <-.
             ++ split; [apply Hl; left; reflexivity | auto].
             ++ apply Hacc. reflexivity.
          -- intros Hx. injection Hx as <-. split; [apply Hl; left; reflexivity | auto].
        * apply Hacc.
      + intros x Hx. apply Hl. right. exact Hx. }
  intros s H. eapply G; [| |exact H]; [discriminate | auto].
Qed.
