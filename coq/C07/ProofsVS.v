(* C07 proofs, part 4: only VirtualServices exported to the proxy namespace are selected. *)
From Coq Require Import List NArith Bool String Ascii.
From V Require Import lib.Verdict C07.Model C07.Proofs.
Import ListNotations.
Open Scope string_scope.
Open Scope list_scope.

Lemma add_vs_sub : forall hb acc v c x, In x (add_vs hb acc v c) -> In x acc \/ x = v.
Proof.
  intros hb acc v c x H. unfold add_vs in H. destruct (existsb (vs_same v) acc); [left; exact H|].
  destruct (existsb _ (v_hosts v)); [|left; exact H].
  apply in_app_or in H. destruct H as [H|[H|[]]]; auto.
Qed.

Lemma add_vs_both_sub : forall hb acc v x, In x (add_vs_both hb acc v) -> In x acc \/ x = v.
Proof.
  intros hb acc v x H. unfold add_vs_both in H.
  destruct (hbn_get "*" hb) as [c|].
  - apply add_vs_sub in H. destruct H as [H|H]; [|auto].
    destruct (hbn_get (v_ns v) hb); [apply add_vs_sub in H; exact H | auto].
  - destruct (hbn_get (v_ns v) hb); [apply add_vs_sub in H; exact H | auto].
Qed.

Lemma fold_add_sub : forall hb (f : vsvc -> bool) (g : bool) vses acc x,
  In x (fold_left (fun a v => if Bool.eqb (f v) g then add_vs_both hb a v else a) vses acc) ->
  In x acc \/ In x vses.
Proof.
  induction vses as [|v r IH]; intros acc x H; cbn [fold_left] in H; [auto|].
  apply IH in H. destruct H as [H|H]; [|right; right; exact H].
  destruct (Bool.eqb (f v) g); [|auto]. apply add_vs_both_sub in H. destruct H as [H|H]; [auto | right; left; auto].
Qed.

Lemma loop_and_add_sub : forall u cfg hb acc vses x,
  In x (loop_and_add u cfg hb acc vses) -> In x acc \/ In x vses.
Proof.
  intros u cfg hb acc vses x H. unfold loop_and_add in H. destruct u.
  - set (f := fun v => v_gw v && (v_ns v =? cfg)%string) in *.
    assert (E1 : forall a l, fold_left (fun a v => if f v then add_vs_both hb a v else a) l a =
                            fold_left (fun a v => if Bool.eqb (f v) true then add_vs_both hb a v else a) l a).
    { intros a l. revert a. induction l as [|y r IH]; intros a; cbn [fold_left]; [reflexivity|].
      rewrite IH. destruct (f y); reflexivity. }
    assert (E2 : forall a l, fold_left (fun a v => if f v then a else add_vs_both hb a v) l a =
                            fold_left (fun a v => if Bool.eqb (f v) false then add_vs_both hb a v else a) l a).
    { intros a l. revert a. induction l as [|y r IH]; intros a; cbn [fold_left]; [reflexivity|].
      rewrite IH. destruct (f y); reflexivity. }
    rewrite E2, E1 in H. apply fold_add_sub in H. destruct H as [H|H]; [|auto].
    apply fold_add_sub in H. exact H.
  - assert (E : forall a l, fold_left (add_vs_both hb) l a =
                            fold_left (fun a v => if Bool.eqb true true then add_vs_both hb a v else a) l a).
    { intros a l. reflexivity. }
    rewrite E in H. apply (fold_add_sub hb (fun _ => true) true) in H. exact H.
Qed.

Definition vs_indexed (m : mesh) (cfg : string) (v : vsvc) : bool :=
  vs_private m cfg v || vs_exported m cfg v || vs_public m v.

Lemma select_vs_indexed : forall m cfg hb vss v,
  In v (select_virtual_services m cfg hb vss) -> In v vss /\ vs_indexed m cfg v = true.
Proof.
  intros m cfg hb vss v H. unfold select_virtual_services in H. unfold vs_indexed.
  apply loop_and_add_sub in H. destruct H as [H|H].
  - apply loop_and_add_sub in H. destruct H as [H|H].
    + apply loop_and_add_sub in H. destruct H as [[]|H].
      apply filter_In in H. destruct H as [A B]. rewrite B. auto.
    + apply filter_In in H. destruct H as [A B]. rewrite B. rewrite orb_true_r. auto.
  - apply filter_In in H. destruct H as [A B]. rewrite B. rewrite orb_true_r. auto.
Qed.

Lemma mem_conv : forall ns x e, x <> "." ->
  mem x (map (fun k => if (k =? ".")%string then ns else k) e) = mem x e || (mem "." e && (ns =? x)%string).
Proof.
  intros ns x e Hx. induction e as [|k r IH]; cbn [map mem]; [reflexivity|].
  rewrite IH. destruct (String.eqb_spec k ".") as [->|K].
  - destruct (String.eqb_spec x ".") as [E|E]; [contradiction|]. cbn [orb].
    rewrite (String.eqb_sym x ns). destruct (ns =? x)%string; cbn.
    + rewrite orb_true_r. reflexivity.
    + rewrite andb_false_r, orb_false_r. cbn. destruct (mem x r); reflexivity.
  - destruct (String.eqb_spec "." k) as [E|E]; [symmetry in E; contradiction|].
    destruct (x =? k)%string; cbn; [reflexivity|]. reflexivity.
Qed.

(* the three VirtualService indexes hold exactly the VirtualServices exported to cfg *)
Lemma vs_indexed_spec : forall m cfg v, real_ns cfg = true -> real_ns (v_ns v) = true ->
  vs_indexed m cfg v = vs_visible_spec m cfg v.
Proof.
  intros m cfg v RC RV.
  destruct (real_ns_neq cfg RC) as [C1 [C2 [C3 C4]]]. destruct (real_ns_neq (v_ns v) RV) as [V1 [V2 [V3 V4]]].
  unfold vs_indexed, vs_private, vs_exported, vs_public, vs_visible_spec, vs_export_set.
  destruct (v_export v) as [|a r]; [set (e := default_of (m_vs_default m)) | set (e := a :: r)];
  ( rewrite (mem_conv (v_ns v) "*" e) by discriminate;
    rewrite (mem_conv (v_ns v) "~" e) by discriminate;
    rewrite (mem_conv (v_ns v) cfg e) by exact C2;
    destruct (String.eqb_spec (v_ns v) "*") as [E|_]; [contradiction|];
    destruct (String.eqb_spec (v_ns v) "~") as [E|_]; [contradiction|];
    rewrite !andb_false_r, !orb_false_r;
    destruct (v_mesh v); cbn [andb]; [|reflexivity];
    destruct (mem "*" e); cbn [negb andb orb]; [reflexivity|];
    destruct (mem "~" e); cbn [negb andb orb]; [reflexivity|];
    destruct (mem cfg e), (mem "." e), (v_ns v =? cfg)%string; reflexivity ).
Qed.

Lemma insert_vs_In : forall x z l, In x (insert_vs z l) -> x = z \/ In x l.
Proof.
  induction l as [|q t IH]; cbn; [intuition|]. destruct (N.leb _ _); cbn; [intuition|].
  intros [->|H1]; [auto|]. apply IH in H1. intuition.
Qed.

Lemma sort_vs_In : forall x l, In x (sort_vs l) -> In x l.
Proof.
  unfold sort_vs. induction l as [|y r IH]; cbn [fold_right]; [auto|].
  intros H. apply insert_vs_In in H. destruct H as [->|H]; [left; reflexivity | right; apply IH; exact H].
Qed.

Theorem vs_rule_visibility : forall m svcs vss cfg ls w v,
  real_ns cfg = true -> forallb (fun v => real_ns (v_ns v)) vss = true ->
  In w (scope_wrappers m svcs vss cfg ls) -> In v (w_vs w) ->
  In v vss /\ vs_visible_spec m cfg v = true.
Proof.
  intros m svcs vss cfg ls w v RC RV Hw Hv. unfold scope_wrappers in Hw. apply in_map_iff in Hw.
  destruct Hw as [l [<- _]]. unfold listener_wrap in Hv. destruct (parse_hosts cfg (l_hosts l)) as [hb allx].
  cbn [w_vs] in Hv. apply select_vs_indexed in Hv. destruct Hv as [A B].
  assert (A' : In v vss) by (apply sort_vs_In; exact A).
  split; [exact A'|]. rewrite <- vs_indexed_spec; [exact B | exact RC|].
  rewrite forallb_forall in RV. apply RV. exact A'.
Qed.
