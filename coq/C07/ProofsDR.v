(* C07 proofs, part 6: only DestinationRules exported to the proxy namespace shape its configuration. *)
From Coq Require Import List NArith Bool String Ascii.
From V Require Import lib.Verdict C07.Model C07.Proofs.
Import ListNotations.
Open Scope string_scope.
Open Scope list_scope.

(* every entry of the consolidated exportTo is in the rule's exportTo *)
Definition covers (e me : list string) : bool := forallb (fun k => mem k e) me.

Lemma eq_set_covers : forall e me, eq_set e me = true -> covers e me = true.
Proof. intros e me H. unfold eq_set in H. apply andb_true_iff in H. destruct H as [_ H]. exact H. Qed.

Lemma covers_refl : forall e, covers e e = true.
Proof. intros e. unfold covers. apply forallb_forall. intros x Hx. apply mem_In. exact Hx. Qed.

Lemma eq_set_nil : forall e, eq_set e [] = true -> e = [].
Proof. intros e H. unfold eq_set in H. destruct e; [reflexivity | cbn in H; discriminate]. Qed.

Definition nm_of (d : drule) : string * N := (d_ns d, d_name d).

(* what is known of a consolidated rule built from the rules [l] *)
Definition mdr_ok (l : list drule) (x : mdr) : Prop :=
  forall nm, In nm (md_from x) ->
    exists d, In d l /\ nm_of d = nm /\ covers (dr_eset d) (md_export x) = true /\
              (md_export x = [] -> dr_eset d = []).

Lemma mdr_ok_mono : forall l l' x, (forall d, In d l -> In d l') -> mdr_ok l x -> mdr_ok l' x.
Proof. intros l l' x S H nm Hn. destruct (H nm Hn) as [d [A B]]. exists d. split; [apply S; exact A | exact B]. Qed.

Lemma merge_loop_ok : forall l d rules sep, In d l -> Forall (mdr_ok l) rules ->
  Forall (mdr_ok l) (fst (merge_loop d rules sep)).
Proof.
  intros l d rules. induction rules as [|x r IH]; intros sep Hd Hr; cbn [merge_loop]; [constructor|].
  inversion Hr as [|? ? Hx Hr']; subst.
  destruct (eq_set (dr_eset d) (md_export x) ||
            match md_export x with [] => false | _ :: _ => forallb (fun k => mem k (dr_eset d)) (md_export x) end) eqn:C.
  - destruct (merge_loop d r false) as [r' s'] eqn:E. cbn [fst]. constructor.
    + intros nm Hn. cbn [md_from md_export] in *. apply in_app_or in Hn. destruct Hn as [Hn|[<-|[]]].
      * exact (Hx nm Hn).
      * exists d. split; [exact Hd|]. split; [reflexivity|]. apply orb_true_iff in C. destruct C as [C|C].
        -- split; [apply eq_set_covers; exact C|]. intros N0. rewrite N0 in C. apply eq_set_nil. exact C.
        -- destruct (md_export x) eqn:M; [discriminate|]. split; [exact C | discriminate].
    + specialize (IH false Hd Hr'). rewrite E in IH. exact IH.
  - destruct (merge_loop d r true) as [r' s'] eqn:E. cbn [fst]. constructor; [exact Hx|].
    specialize (IH true Hd Hr'). rewrite E in IH. exact IH.
Qed.

Lemma new_mdr_ok : forall l d, In d l -> mdr_ok l (mkMdr (dr_eset d) [nm_of d]).
Proof.
  intros l d Hd nm Hn. cbn in Hn. destruct Hn as [<-|[]]. exists d. split; [exact Hd|]. split; [reflexivity|].
  cbn [md_export]. split; [apply covers_refl | auto].
Qed.

Lemma merge_dr_ok : forall l rules d, In d l -> Forall (mdr_ok l) rules -> Forall (mdr_ok l) (merge_dr rules d).
Proof.
  intros l rules d Hd Hr. unfold merge_dr. destruct rules as [|x r].
  - constructor; [apply new_mdr_ok; exact Hd | constructor].
  - pose proof (merge_loop_ok l d (x :: r) true Hd Hr) as G.
    destruct (merge_loop d (x :: r) true) as [l' sep]. cbn [fst] in G. destruct sep; [|exact G].
    apply Forall_app. split; [exact G|]. constructor; [apply new_mdr_ok; exact Hd | constructor].
Qed.

Lemma fold_merge_ok : forall l rs acc, (forall d, In d rs -> In d l) -> Forall (mdr_ok l) acc ->
  Forall (mdr_ok l) (fold_left merge_dr rs acc).
Proof.
  intros l rs. induction rs as [|d r IH]; intros acc S Ha; cbn [fold_left]; [exact Ha|].
  apply IH; [intros d' H'; apply S; right; exact H'|]. apply merge_dr_ok; [apply S; left; reflexivity | exact Ha].
Qed.

Lemma insert_dr_In : forall x z l, In x (insert_dr z l) -> x = z \/ In x l.
Proof.
  induction l as [|q t IH]; cbn; [intuition|]. destruct (N.leb _ _); cbn; [intuition|].
  intros [->|H1]; [auto|]. apply IH in H1. intuition.
Qed.
Lemma sort_drs_In : forall x l, In x (sort_drs l) -> In x l.
Proof.
  unfold sort_drs. induction l as [|y r IH]; cbn [fold_right]; [auto|].
  intros H. apply insert_dr_In in H. destruct H as [->|H]; [left; reflexivity | right; apply IH; exact H].
Qed.

(* the consolidated rules of an index: every merged name is a rule of that index and namespace *)
Lemma idx_list_ok : forall pred drs ns h x nm, In x (idx_list pred drs ns h) -> In nm (md_from x) ->
  exists d, In d drs /\ pred d = true /\ d_ns d = ns /\ nm_of d = nm /\
            covers (dr_eset d) (md_export x) = true /\ (md_export x = [] -> dr_eset d = []).
Proof.
  intros pred drs ns h x nm Hx Hn. unfold idx_list in Hx.
  pose proof (fold_merge_ok (idx_rules pred drs ns)
                (filter (fun d => (d_host d =? h)%string) (idx_rules pred drs ns)) []) as G.
  assert (F : Forall (mdr_ok (idx_rules pred drs ns))
                (fold_left merge_dr (filter (fun d => (d_host d =? h)%string) (idx_rules pred drs ns)) [])).
  { apply G; [intros d Hd; apply filter_In in Hd; tauto | constructor]. }
  rewrite Forall_forall in F. destruct (F x Hx nm Hn) as [d [A [B [C D]]]].
  unfold idx_rules in A. apply filter_In in A. destruct A as [A1 A2]. apply andb_true_iff in A2.
  destruct A2 as [P E]. apply String.eqb_eq in E. exists d. split; [apply sort_drs_In; exact A1|]. auto.
Qed.

Lemma idx_match_ok : forall pred drs ns needle l x nm, idx_match pred drs ns needle = Some l -> In x l ->
  In nm (md_from x) ->
  exists d, In d drs /\ pred d = true /\ d_ns d = ns /\ nm_of d = nm /\
            covers (dr_eset d) (md_export x) = true /\ (md_export x = [] -> dr_eset d = []).
Proof.
  intros pred drs ns needle l x nm H Hx Hn. unfold idx_match in H.
  destruct (most_specific needle _) as [h|]; [|discriminate]. injection H as <-. eapply idx_list_ok; eauto.
Qed.

Lemma mem_dedup : forall x l, mem x (dedup l) = mem x l.
Proof.
  intros x l. destruct (mem x l) eqn:M.
  - apply (proj2 (mem_In _ _)). apply (proj2 (dedup_In _ _)). apply (proj1 (mem_In _ _)). exact M.
  - apply (proj2 (mem_false_In _ _)). intros H. apply (proj1 (dedup_In _ _)) in H. apply (proj2 (mem_In _ _)) in H. congruence.
Qed.

Lemma dedup_nil : forall l, dedup l = [] -> l = [].
Proof.
  intros l H. destruct l as [|a r]; [reflexivity|]. exfalso.
  assert (I : In a (dedup (a :: r))) by (apply (proj2 (dedup_In _ _)); left; reflexivity). rewrite H in I. destruct I.
Qed.

Lemma covers_mem : forall e me k, covers e me = true -> mem k me = true -> mem k e = true.
Proof.
  intros e me k C M. unfold covers in C. rewrite forallb_forall in C. apply C. apply mem_In. exact M.
Qed.

Section DR.
  Variable m : mesh.
  (* MeshConfig.defaultDestinationRuleExportTo is unset, "*" or "." (the code honours only these) *)
  Hypothesis default_ok : mem "*" (default_of (m_dr_default m)) || mem "." (default_of (m_dr_default m)) = true.

  Lemma local_visible : forall d, dr_local d = true -> dr_visible_spec m d (d_ns d) = true.
  Proof.
    intros d H. unfold dr_local, dr_eset in H. unfold dr_visible_spec. rewrite String.eqb_refl, andb_true_r.
    destruct (d_export d) as [|a r] eqn:E.
    - rewrite default_ok. reflexivity.
    - destruct (dedup (a :: r)) eqn:DD; [apply dedup_nil in DD; discriminate|].
      rewrite <- DD, !mem_dedup in H. exact H.
  Qed.

  Lemma private_visible : forall d, dr_private_only m d = true -> dr_visible_spec m d (d_ns d) = true.
  Proof.
    intros d H. unfold dr_private_only, dr_eset in H. unfold dr_visible_spec. rewrite String.eqb_refl, andb_true_r.
    destruct (d_export d) as [|a r] eqn:E.
    - cbn in H. rewrite H. rewrite orb_true_r. reflexivity.
    - destruct (dedup (a :: r)) as [|k [|k2 t]] eqn:DD; [apply dedup_nil in DD; discriminate | | discriminate].
      assert (M : mem k (a :: r) = true).
      { rewrite <- mem_dedup, DD. cbn. rewrite String.eqb_refl. reflexivity. }
      apply orb_true_iff in H. destruct H as [H|H]; apply String.eqb_eq in H; subst k; rewrite M.
      + rewrite orb_true_r. reflexivity.
      + apply orb_true_r.
  Qed.

  Lemma exported_visible : forall drs owner needle client x nm,
    In x (exported_from m drs owner needle client) -> In nm (md_from x) ->
    exists d, In d drs /\ nm_of d = nm /\ dr_visible_spec m d client = true.
  Proof.
    intros drs owner needle client x nm Hx Hn. unfold exported_from in Hx.
    destruct (idx_match (dr_exported m) drs owner needle) as [l|] eqn:E; [|destruct Hx].
    apply filter_In in Hx. destruct Hx as [Hx F].
    destruct (idx_match_ok _ _ _ _ _ _ _ E Hx Hn) as [d [A [B [C [D [G N0]]]]]].
    exists d. split; [exact A|]. split; [exact D|]. unfold dr_visible_spec.
    destruct (md_export x) as [|k t] eqn:ME.
    - specialize (N0 eq_refl). unfold dr_eset in N0. apply dedup_nil in N0. rewrite N0.
      unfold dr_exported, dr_private_only, dr_eset in B. rewrite N0 in B. cbn in B. apply negb_true_iff in B.
      rewrite B in default_ok. rewrite orb_false_r in default_ok. rewrite default_ok. reflexivity.
    - assert (NE : d_export d <> []).
      { intros Z. unfold covers, dr_eset in G. rewrite Z in G. cbn in G. discriminate. }
      destruct (d_export d) as [|a r] eqn:DE; [contradiction|]. rewrite <- DE.
      apply orb_true_iff in F. destruct F as [F|F].
      + pose proof (covers_mem _ _ _ G F) as M. unfold dr_eset in M. rewrite mem_dedup in M. rewrite M. reflexivity.
      + pose proof (covers_mem _ _ _ G F) as M. unfold dr_eset in M. rewrite mem_dedup in M. rewrite M. apply orb_true_r.
  Qed.

  Theorem dr_rule_visibility : forall drs p sn sh x nm,
    In x (destination_rule m drs p sn sh) -> In nm (md_from x) ->
    exists d, In d drs /\ nm_of d = nm /\ dr_visible_spec m d p = true.
  Proof.
    intros drs p sn sh x nm Hx Hn. unfold destination_rule in Hx.
    assert (T : In x (match exported_from m drs sn sh p with
                      | [] => exported_from m drs (m_root m) sh p | (_ :: _) as l => l end) ->
                exists d, In d drs /\ nm_of d = nm /\ dr_visible_spec m d p = true).
    { intros H. destruct (exported_from m drs sn sh p) eqn:E.
      - eapply exported_visible; eauto.
      - rewrite <- E in H. eapply exported_visible; eauto. }
    destruct (negb (p =? m_root m)%string) eqn:R.
    - destruct (idx_match dr_local drs p sh) as [l|] eqn:E; [|apply T; exact Hx].
      destruct (idx_match_ok _ _ _ _ _ _ _ E Hx Hn) as [d [A [B [C [D _]]]]].
      exists d. split; [exact A|]. split; [exact D|]. rewrite <- C. apply local_visible. exact B.
    - apply negb_false_iff in R. apply String.eqb_eq in R.
      destruct (idx_match (dr_root_local m) drs (m_root m) sh) as [l|] eqn:E; [|apply T; exact Hx].
      destruct (idx_match_ok _ _ _ _ _ _ _ E Hx Hn) as [d [A [B [C [D _]]]]].
      exists d. split; [exact A|]. split; [exact D|]. rewrite R, <- C. apply private_visible.
      unfold dr_root_local in B. apply andb_true_iff in B. tauto.
  Qed.
End DR.
