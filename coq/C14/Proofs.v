(* C14 proofs, part 1: checker soundness/completeness, dedupeDomains, mergeAllVirtualHosts,
   normalizeClusters, answer. *)
From Coq Require Import List NArith Bool String Ascii Lia Arith.
From V Require Import C14.Model.
Import ListNotations.
Open Scope N_scope.

(* ------------------------------------------------------------------ generic helpers *)

Section GenericFacts.
  Context {A : Type} (eqb : A -> A -> bool).
  Hypothesis eqb_spec : forall x y, eqb x y = true <-> x = y.

  Lemma memb_In x l : memb eqb x l = true <-> In x l.
  Proof.
    unfold memb. rewrite existsb_exists. split.
    - intros [y [Hy He]]. apply eqb_spec in He. subst. exact Hy.
    - intros H. exists x. split; [exact H|]. apply eqb_spec. reflexivity.
  Qed.

  Lemma memb_false x l : memb eqb x l = false <-> ~ In x l.
  Proof.
    rewrite <- memb_In. destruct (memb eqb x l); split; intros H; try reflexivity; try discriminate.
    exfalso. apply H. reflexivity.
  Qed.

  Lemma dedupb_In x l : In x (dedupb eqb l) <-> In x l.
  Proof.
    induction l as [|y r IH]; cbn [dedupb]; [tauto|].
    destruct (memb eqb y r) eqn:E.
    - rewrite IH. split; [intros H; right; exact H|]. intros [->|H]; [|exact H].
      apply memb_In. exact E.
    - cbn [In]. rewrite IH. tauto.
  Qed.

  Lemma dedupb_NoDup l : NoDup (dedupb eqb l).
  Proof.
    induction l as [|y r IH]; cbn [dedupb]; [constructor|].
    destruct (memb eqb y r) eqn:E; [exact IH|].
    constructor; [|exact IH]. rewrite dedupb_In. apply memb_false. exact E.
  Qed.

  Lemma set_equalsb_intro a b :
    NoDup a -> NoDup b -> (forall x, In x a <-> In x b) -> set_equalsb eqb a b = true.
  Proof.
    intros Na Nb H. unfold set_equalsb. apply andb_true_iff. split.
    - apply Nat.eqb_eq. apply Nat.le_antisymm; apply NoDup_incl_length; try assumption;
        intros x Hx; apply H; exact Hx.
    - apply forallb_forall. intros x Hx. apply memb_In. apply H. exact Hx.
  Qed.

  Lemma countb_pos x l : In x l -> (0 < countb eqb x l)%nat.
  Proof.
    unfold countb. induction l as [|y r IH]; cbn [filter In]; [tauto|].
    intros [->|H].
    - assert (E : eqb x x = true) by (apply eqb_spec; reflexivity). rewrite E. cbn. lia.
    - destruct (eqb x y); cbn [List.length]; [lia|]. apply IH. exact H.
  Qed.

  Lemma countb_In x l : (0 < countb eqb x l)%nat -> In x l.
  Proof.
    unfold countb. induction l as [|y r IH]; cbn [filter]; [cbn; lia|].
    destruct (eqb x y) eqn:E.
    - intros _. left. symmetry. apply eqb_spec. exact E.
    - intros H. right. apply IH. exact H.
  Qed.

  Lemma permb_In a b : permb eqb a b = true -> forall x, In x a <-> In x b.
  Proof.
    unfold permb. rewrite andb_true_iff. intros [Ha Hb] x.
    rewrite forallb_forall in Ha. rewrite forallb_forall in Hb. split; intros H.
    - apply countb_In. specialize (Ha x H). apply Nat.eqb_eq in Ha. rewrite <- Ha. apply countb_pos. exact H.
    - apply countb_In. specialize (Hb x H). apply Nat.eqb_eq in Hb. rewrite Hb. apply countb_pos. exact H.
  Qed.
End GenericFacts.

Lemma pair_eqb_spec (x y : N * N) : pair_eqb x y = true <-> x = y.
Proof.
  unfold pair_eqb. destruct x as [a b], y as [c d]. cbn [fst snd].
  rewrite andb_true_iff, !N.eqb_eq. split; [intros [-> ->]; reflexivity|intros H; inversion H; auto].
Qed.

Lemma memN_In x l : memN x l = true <-> In x l.
Proof. apply memb_In. exact N.eqb_eq. Qed.

Lemma memN_false x l : memN x l = false <-> ~ In x l.
Proof. apply memb_false. exact N.eqb_eq. Qed.

Lemma nodupN_NoDup l : nodupN l = true <-> NoDup l.
Proof.
  induction l as [|x r IH]; cbn [nodupN].
  - split; [constructor|reflexivity].
  - rewrite andb_true_iff, negb_true_iff, memN_false, IH. split.
    + intros [H1 H2]. constructor; assumption.
    + intros H. inversion H; subst. split; assumption.
Qed.

Lemma subsetN_spec a b : subsetN a b = true <-> forall x, In x a -> In x b.
Proof.
  unfold subsetN. rewrite forallb_forall. split; intros H x Hx.
  - apply memN_In. apply H. exact Hx.
  - apply memN_In. apply H. exact Hx.
Qed.

Lemma eds_refs_In cs n : In n (eds_refs cs) <-> exists c, In c cs /\ cl_eds c = Some n.
Proof.
  unfold eds_refs. rewrite in_flat_map. split.
  - intros [c [Hc Hn]]. exists c. split; [exact Hc|]. destruct (cl_eds c); cbn in Hn; [|tauto].
    destruct Hn as [->|[]]. reflexivity.
  - intros [c [Hc He]]. exists c. split; [exact Hc|]. rewrite He. left. reflexivity.
Qed.

(* ------------------------------------------------------------------ (a) checker *)

Lemma weight_ok_spec w : weight_ok w = true <-> (w_lo w <= w_val w /\ w_val w <= w_hi w)%N.
Proof. unfold weight_ok. rewrite andb_true_iff, !N.leb_le. tauto. Qed.

Lemma wf_snapshot_sound s : wf_snapshot s = true -> WF s.
Proof.
  unfold wf_snapshot. rewrite !andb_true_iff.
  intros [[[[[[[[[[H1 H2] H3] H4] H5] H6] H7] H8] H9] H10] H11].
  constructor.
  - apply nodupN_NoDup. exact H1.
  - apply nodupN_NoDup. exact H2.
  - apply nodupN_NoDup. exact H3.
  - apply nodupN_NoDup. exact H4.
  - intros l r Hl Hr. rewrite forallb_forall in H5. specialize (H5 l Hl).
    rewrite subsetN_spec in H5. apply H5. exact Hr.
  - intros c n Hc Hn. rewrite subsetN_spec in H6. apply H6. apply eds_refs_In. exists c. auto.
  - rewrite subsetN_spec in H7. exact H7.
  - rewrite subsetN_spec in H8. exact H8.
  - intros r Hr. rewrite forallb_forall in H9. specialize (H9 r Hr).
    rewrite andb_true_iff, !nodupN_NoDup in H9. exact H9.
  - intros l Hl. rewrite forallb_forall in H10. apply nodupN_NoDup. apply H10. exact Hl.
  - intros w Hw. rewrite forallb_forall in H11. apply weight_ok_spec. apply H11. exact Hw.
Qed.

Lemma wf_snapshot_complete s : WF s -> wf_snapshot s = true.
Proof.
  intros [H1 H2 H3 H4 H5 H6 H7 H8 H9 H10 H11].
  unfold wf_snapshot. rewrite !andb_true_iff. repeat split.
  - apply nodupN_NoDup. exact H1.
  - apply nodupN_NoDup. exact H2.
  - apply nodupN_NoDup. exact H3.
  - apply nodupN_NoDup. exact H4.
  - apply forallb_forall. intros l Hl. apply subsetN_spec. intros r Hr. apply (H5 l r Hl Hr).
  - apply subsetN_spec. intros n Hn. apply eds_refs_In in Hn. destruct Hn as [c [Hc He]]. apply (H6 c n Hc He).
  - apply subsetN_spec. exact H7.
  - apply subsetN_spec. exact H8.
  - apply forallb_forall. intros r Hr. rewrite andb_true_iff, !nodupN_NoDup. apply H9. exact Hr.
  - apply forallb_forall. intros l Hl. apply nodupN_NoDup. apply H10. exact Hl.
  - apply forallb_forall. intros w Hw. apply weight_ok_spec. apply H11. exact Hw.
Qed.

(* ------------------------------------------------------------------ NoDup helpers *)

Lemma NoDup_app_intro {A} (l1 l2 : list A) :
  NoDup l1 -> NoDup l2 -> (forall x, In x l1 -> ~ In x l2) -> NoDup (l1 ++ l2).
Proof.
  induction l1 as [|x r IH]; cbn [app]; intros N1 N2 D; [exact N2|].
  inversion N1; subst. constructor.
  - rewrite in_app_iff. intros [H|H]; [contradiction|]. apply (D x); [left; reflexivity|exact H].
  - apply IH; try assumption. intros y Hy. apply D. right. exact Hy.
Qed.

Inductive subseq {A} : list A -> list A -> Prop :=
| sub_nil : subseq [] []
| sub_skip x l1 l2 : subseq l1 l2 -> subseq l1 (x :: l2)
| sub_keep x l1 l2 : subseq l1 l2 -> subseq (x :: l1) (x :: l2).

Lemma subseq_refl {A} (l : list A) : subseq l l.
Proof. induction l; constructor; assumption. Qed.

Lemma subseq_nil_l {A} (l : list A) : subseq [] l.
Proof. induction l; constructor; assumption. Qed.

Lemma subseq_In {A} (l1 l2 : list A) : subseq l1 l2 -> forall x, In x l1 -> In x l2.
Proof.
  induction 1; intros y Hy; [exact Hy| right; apply IHsubseq; exact Hy|].
  destruct Hy as [->|Hy]; [left; reflexivity|right; apply IHsubseq; exact Hy].
Qed.

Lemma subseq_NoDup {A} (l1 l2 : list A) : subseq l1 l2 -> NoDup l2 -> NoDup l1.
Proof.
  induction 1; intros N2; [constructor| inversion N2; subst; apply IHsubseq; assumption|].
  inversion N2; subst. constructor; [|apply IHsubseq; assumption].
  intros Hx. apply H2. apply (subseq_In _ _ H). exact Hx.
Qed.

Lemma subseq_app {A} (a a' b b' : list A) : subseq a a' -> subseq b b' -> subseq (a ++ b) (a' ++ b').
Proof.
  induction 1; intros Hb; cbn [app]; [exact Hb| |]; constructor; apply IHsubseq; exact Hb.
Qed.

Lemma subseq_filter {A} (f : A -> bool) (l : list A) : subseq (filter f l) l.
Proof.
  induction l as [|x r IH]; cbn [filter]; [constructor|].
  destruct (f x); [apply sub_keep|apply sub_skip]; exact IH.
Qed.

(* ------------------------------------------------------------------ (b1) dedupeDomains *)

Lemma mem_str_In s l : mem_str s l = true <-> In s l.
Proof.
  unfold mem_str. rewrite existsb_exists. split.
  - intros [y [Hy He]]. apply String.eqb_eq in He. subst. exact Hy.
  - intros H. exists s. split; [exact H|apply String.eqb_eq; reflexivity].
Qed.

Lemma mem_str_false s l : mem_str s l = false <-> ~ In s l.
Proof.
  rewrite <- mem_str_In. destruct (mem_str s l); split; intros H; try reflexivity; try discriminate.
  exfalso. apply H. reflexivity.
Qed.

Lemma dedupe_domains_spec ds : forall vh ex kn out vh',
  dedupe_domains ds vh ex kn = (out, vh') ->
  NoDup (map lower out) /\
  (forall d, In d out -> ~ In (lower d) vh) /\
  (forall x, In x vh' <-> In x vh \/ In x (map lower out)) /\
  subseq out ds.
Proof.
  induction ds as [|d r IH]; intros vh ex kn out vh' H; cbn [dedupe_domains] in H.
  - inversion H; subst. cbn. repeat split; try constructor; try tauto.
  - destruct (mem_str (lower d) vh) eqn:E1.
    { destruct (IH _ _ _ _ _ H) as [A [B [C D]]]. repeat split; try assumption; try apply C.
      apply sub_skip. exact D. }
    destruct (mem_str d ex && mem_str d kn) eqn:E2.
    { destruct (IH _ _ _ _ _ H) as [A [B [C D]]]. repeat split; try assumption; try apply C.
      apply sub_skip. exact D. }
    destruct (dedupe_domains r (lower d :: vh) ex kn) as [out1 vh1] eqn:E3.
    inversion H; subst. destruct (IH _ _ _ _ _ E3) as [A [B [C D]]].
    apply mem_str_false in E1. repeat split.
    + cbn [map]. constructor; [|exact A]. intros Hin. apply in_map_iff in Hin.
      destruct Hin as [y [Hy Hyin]]. apply (B y Hyin). left. symmetry. exact Hy.
    + intros y [<-|Hy]; [exact E1|]. intros Hin. apply (B y Hy). right. exact Hin.
    + intros Hx. apply C in Hx. cbn [map In] in *. tauto.
    + intros Hx. apply C. cbn [map In] in *. tauto.
    + apply sub_keep. exact D.
Qed.

Lemma dedupe_calls_spec calls : forall vh kn outs vh',
  dedupe_calls calls vh kn = (outs, vh') ->
  NoDup (map lower (List.concat outs)) /\
  (forall d, In d (List.concat outs) -> ~ In (lower d) vh) /\
  (forall x, In x vh' <-> In x vh \/ In x (map lower (List.concat outs))).
Proof.
  induction calls as [|[ds ex] r IH]; intros vh kn outs vh' H; cbn [dedupe_calls] in H.
  - inversion H; subst. cbn. repeat split; try constructor; tauto.
  - destruct (dedupe_domains ds vh ex kn) as [out vh1] eqn:E1.
    destruct (dedupe_calls r vh1 kn) as [outs1 vh2] eqn:E2.
    inversion H; subst.
    destruct (dedupe_domains_spec _ _ _ _ _ _ E1) as [A [B [C _]]].
    destruct (IH _ _ _ _ E2) as [A' [B' C']].
    cbn [List.concat]. rewrite map_app. repeat split.
    + apply NoDup_app_intro; try assumption.
      intros x Hx Hx'. apply in_map_iff in Hx'. destruct Hx' as [y [Hy Hyin]].
      apply (B' y Hyin). apply C. right. rewrite Hy. exact Hx.
    + intros d Hd. apply in_app_iff in Hd. destruct Hd as [Hd|Hd]; [apply B; exact Hd|].
      intros Hin. apply (B' d Hd). apply C. left. exact Hin.
    + intros Hx. apply C' in Hx. rewrite in_app_iff. destruct Hx as [Hx|Hx]; [|tauto].
      apply C in Hx. tauto.
    + intros Hx. apply C'. rewrite in_app_iff in Hx. destruct Hx as [Hx|[Hx|Hx]]; [left; apply C; tauto|left; apply C; tauto|tauto].
Qed.

Lemma dedupe_calls_nodup calls kn outs vh' :
  dedupe_calls calls [] kn = (outs, vh') -> NoDup (map lower (List.concat outs)).
Proof. intros H. apply (dedupe_calls_spec _ _ _ _ _ H). Qed.

(* every kept domain is an input domain of the same call, in order *)
Lemma dedupe_domains_subseq ds vh ex kn out vh' :
  dedupe_domains ds vh ex kn = (out, vh') -> subseq out ds.
Proof. intros H. apply (dedupe_domains_spec _ _ _ _ _ _ H). Qed.

(* ------------------------------------------------------------------ (b2) mergeAllVirtualHosts *)

Lemma merge_port_subseq p vhs : subseq (vh_domains (merge_port p vhs)) (vh_domains vhs).
Proof.
  unfold merge_port. destruct (p =? 80); [apply subseq_refl|].
  unfold vh_domains. induction vhs as [|v r IH]; cbn [flat_map]; [constructor|].
  rewrite flat_map_app. apply subseq_app; [|exact IH].
  destruct (filter has_colon (snd v)) as [|x xs] eqn:E.
  - cbn. apply subseq_nil_l.
  - cbn [flat_map snd app]. rewrite app_nil_r. rewrite <- E. apply subseq_filter.
Qed.

Lemma merge_all_subseq m : subseq (vh_domains (merge_all_virtual_hosts m)) (map_domains m).
Proof.
  unfold merge_all_virtual_hosts, map_domains, vh_domains.
  induction m as [|[p vhs] r IH]; cbn [flat_map]; [constructor|].
  rewrite flat_map_app. apply subseq_app; [|exact IH]. apply merge_port_subseq.
Qed.

Lemma merge_all_nodup m : NoDup (map_domains m) -> NoDup (vh_domains (merge_all_virtual_hosts m)).
Proof. apply subseq_NoDup. apply merge_all_subseq. Qed.

(* no virtual host with an empty domain list is produced from non-empty ones *)
Lemma merge_all_nonempty m :
  (forall p vhs v, In (p, vhs) m -> In v vhs -> snd v <> []) ->
  forall v, In v (merge_all_virtual_hosts m) -> snd v <> [].
Proof.
  intros H v Hv. unfold merge_all_virtual_hosts in Hv. apply in_flat_map in Hv.
  destruct Hv as [[p vhs] [Hin Hv]]. cbn [fst snd] in Hv. unfold merge_port in Hv.
  destruct (p =? 80).
  - apply (H p vhs v Hin Hv).
  - apply in_flat_map in Hv. destruct Hv as [w [Hw Hv]].
    destruct (filter has_colon (snd w)) eqn:E; cbn in Hv; [tauto|].
    destruct Hv as [<-|[]]. cbn. discriminate.
Qed.

(* ------------------------------------------------------------------ (b3) normalizeClusters *)

Lemma normalize_from_spec names : forall have,
  NoDup (normalize_from have names) /\
  (forall x, In x (normalize_from have names) <-> In x names /\ ~ In x have).
Proof.
  induction names as [|c r IH]; intros have; cbn [normalize_from].
  - split; [constructor|]. intros x. cbn. tauto.
  - destruct (memN c have) eqn:E.
    + destruct (IH have) as [A B]. split; [exact A|]. intros x. rewrite B. cbn [In].
      apply memN_In in E. split; [tauto|]. intros [[->|H] Hn]; [contradiction|tauto].
    + apply memN_false in E. destruct (IH (c :: have)) as [A B]. split.
      * constructor; [|exact A]. rewrite B. cbn [In]. tauto.
      * intros x. cbn [In]. rewrite B. cbn [In]. split.
        -- intros [<-|[H1 H2]]; [tauto|]. split; [tauto|]. intros H3. apply H2. right. exact H3.
        -- intros [[->|H1] H2]; [left; reflexivity|].
           destruct (N.eq_dec c x) as [->|Hne]; [left; reflexivity|]. right. split; [exact H1|].
           intros [H3|H3]; [contradiction|contradiction].
Qed.

Lemma normalize_clusters_nodup names : NoDup (normalize_clusters names).
Proof. apply normalize_from_spec. Qed.

Lemma normalize_clusters_same names x : In x (normalize_clusters names) <-> In x names.
Proof. unfold normalize_clusters. rewrite (proj2 (normalize_from_spec names [])). cbn. tauto. Qed.

(* the first occurrence wins: the output is a subsequence of the input *)
Lemma normalize_from_subseq names : forall have, subseq (normalize_from have names) names.
Proof.
  induction names as [|c r IH]; intros have; cbn [normalize_from]; [constructor|].
  destruct (memN c have); [apply sub_skip|apply sub_keep]; apply IH.
Qed.

(* ------------------------------------------------------------------ (b6) answer *)

Section AnswerFacts.
  Context {R : Type} (gen : N -> option R) (empty : N -> R) (name : R -> N).
  Hypothesis gen_name : forall n r, gen n = Some r -> name r = n.
  Hypothesis empty_name : forall n, name (empty n) = n.

  Lemma answer_names names : map name (answer gen empty names) = names.
  Proof.
    unfold answer. induction names as [|n r IH]; cbn [map]; [reflexivity|].
    rewrite IH. f_equal. destruct (gen n) eqn:E; [apply gen_name; exact E|apply empty_name].
  Qed.
End AnswerFacts.
