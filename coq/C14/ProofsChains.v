(* C14 proofs, part 2: filter-chain conflict detection vs. emitted filter_chain_match,
   mergeTCPFilterChains, outbound listener conflict map. *)
From Coq Require Import List NArith Bool String Ascii Lia Arith.
From V Require Import C14.Model C14.Proofs.
Import ListNotations.
Open Scope N_scope.

Lemma list_eqbN_eq a : forall b, list_eqbN a b = true <-> a = b.
Proof.
  induction a as [|x r IH]; intros [|y s]; cbn [list_eqbN]; try (split; [discriminate|discriminate]); [tauto|].
  rewrite andb_true_iff, N.eqb_eq, IH. split; [intros [-> ->]; reflexivity|intros H; inversion H; auto].
Qed.

Lemma memN0_all_zero l : forallb (fun s => s =? 0) l = true -> filter (fun s => negb (s =? 0)) l = [].
Proof.
  induction l as [|x r IH]; cbn [forallb filter]; [reflexivity|].
  rewrite andb_true_iff. intros [Hx Hr]. rewrite Hx. cbn. apply IH. exact Hr.
Qed.

Lemma filter_nz_id l : memN 0 l = false -> filter (fun s => negb (s =? 0)) l = l.
Proof.
  induction l as [|x r IH]; cbn [filter]; [reflexivity|].
  intros H. apply memN_false in H.
  destruct (x =? 0) eqn:E.
  - exfalso. apply H. left. apply N.eqb_eq in E. exact E.
  - cbn. f_equal. apply IH. apply memN_false. intros Hin. apply H. right. exact Hin.
Qed.

(* the SNI set conflictsWith sees equals the SNI set of what toFilterChainMatch emits (when sni_ok) *)
Definition emitted_sni (c : chain) : list N := if memN 0 (c_sni c) then [] else c_sni c.

Lemma sni_set_emitted c : sni_ok c = true -> sni_set (c_sni c) = dedupN (emitted_sni c).
Proof.
  unfold sni_ok, emitted_sni, sni_set. destruct (memN 0 (c_sni c)) eqn:E; intros H.
  - rewrite (memN0_all_zero _ H). reflexivity.
  - rewrite (filter_nz_id _ E). reflexivity.
Qed.

Lemma dedup_set_equalsN a b : (forall x, In x a <-> In x b) -> set_equalsN (dedupN a) (dedupN b) = true.
Proof.
  intros H. apply (set_equalsb_intro N.eqb N.eqb_eq); try apply (dedupb_NoDup N.eqb N.eqb_eq).
  intros x. unfold dedupN. rewrite !(dedupb_In N.eqb N.eqb_eq). apply H.
Qed.

Lemma dedup_set_equalsP a b : (forall x, In x a <-> In x b) -> set_equalsP (dedupP a) (dedupP b) = true.
Proof.
  intros H. apply (set_equalsb_intro pair_eqb pair_eqb_spec); try apply (dedupb_NoDup pair_eqb pair_eqb_spec).
  intros x. unfold dedupP. rewrite !(dedupb_In pair_eqb pair_eqb_spec). apply H.
Qed.

Lemma map_In_equiv {A B} (f : A -> B) a b : (forall x, In x a <-> In x b) -> forall y, In y (map f a) <-> In y (map f b).
Proof.
  intros H y. rewrite !in_map_iff. split; intros [x [Hx Hin]]; exists x; (split; [exact Hx|apply H; exact Hin]).
Qed.

(* equal emitted matches => conflictsWith reports a conflict (for sni_ok chains) *)
Lemma fcm_eq_conflicts a b :
  sni_ok a = true -> sni_ok b = true ->
  fcm_eqb (to_fcm a) (to_fcm b) = true -> conflicts_with a b = true.
Proof.
  intros Ha Hb. unfold to_fcm, conflicts_with.
  destruct (is_match_all a) eqn:Ma, (is_match_all b) eqn:Mb; cbn [fcm_eqb]; try discriminate.
  - (* both match everything: emitted match is nil for both *)
    intros _. unfold is_match_all in Ma, Mb.
    rewrite !andb_true_iff in Ma, Mb.
    destruct Ma as [[[Sa Aa] Ta] Ca], Mb as [[[Sb Ab] Tb] Cb].
    apply N.eqb_eq in Ta, Tb. rewrite Ta, Tb. cbn [N.eqb negb].
    destruct (c_alpn a); [|discriminate]. destruct (c_alpn b); [|discriminate]. cbn [list_eqbN negb].
    destruct (c_cidr a); [|discriminate]. destruct (c_cidr b); [|discriminate].
    rewrite (sni_set_emitted a Ha), (sni_set_emitted b Hb). unfold emitted_sni.
    assert (Ea : (if memN 0 (c_sni a) then [] else c_sni a) = []).
    { destruct (c_sni a); [destruct (memN 0 []); reflexivity|rewrite Sa; reflexivity]. }
    assert (Eb : (if memN 0 (c_sni b) then [] else c_sni b) = []).
    { destruct (c_sni b); [destruct (memN 0 []); reflexivity|rewrite Sb; reflexivity]. }
    rewrite Ea, Eb. reflexivity.
  - cbn [f_transport f_alpn f_sni f_cidr]. rewrite !andb_true_iff. intros [[[Ht Hal] Hs] Hc].
    rewrite Ht. cbn [negb]. rewrite Hal. cbn [negb].
    rewrite (sni_set_emitted a Ha), (sni_set_emitted b Hb). unfold emitted_sni.
    rewrite (dedup_set_equalsN _ _ (permb_In N.eqb N.eqb_eq _ _ Hs)). cbn [negb].
    unfold cidr_set. apply dedup_set_equalsP. apply map_In_equiv.
    apply (permb_In pair_eqb pair_eqb_spec). exact Hc.
Qed.

Lemma conflicts_free_fcm_distinct a b :
  sni_ok a = true -> sni_ok b = true ->
  conflicts_with a b = false -> fcm_eqb (to_fcm a) (to_fcm b) = false.
Proof.
  intros Ha Hb Hc. destruct (fcm_eqb (to_fcm a) (to_fcm b)) eqn:E; [|reflexivity].
  rewrite (fcm_eq_conflicts a b Ha Hb E) in Hc. discriminate.
Qed.

(* the refutation witness: SNI ["*"; a] against an empty SNI list, same destination *)
Definition wit_a : chain := Ch 0 [] [0; 7] [(16909060, 32)].
Definition wit_b : chain := Ch 0 [] [] [(16909060, 32)].

Lemma fcm_distinct_refuted :
  exists a b, conflicts_with a b = false /\ fcm_eqb (to_fcm a) (to_fcm b) = true.
Proof. exists wit_a, wit_b. split; vm_compute; reflexivity. Qed.

(* ------------------------------------------------------------------ pairwise freedom *)

Lemma pw_free_fcm_distinct l :
  forallb sni_ok l = true -> pw_free l = true -> fcm_distinct l = true.
Proof.
  induction l as [|c r IH]; cbn [forallb pw_free fcm_distinct]; [reflexivity|].
  rewrite !andb_true_iff, !negb_true_iff. intros [Hc Hr] [Hx Hp]. split; [|apply IH; assumption].
  destruct (existsb (fun e => fcm_eqb (to_fcm c) (to_fcm e)) r) eqn:E; [|reflexivity].
  apply existsb_exists in E. destruct E as [e [He Hf]].
  rewrite forallb_forall in Hr.
  assert (Hcf : conflicts_with c e = true) by (apply fcm_eq_conflicts; auto).
  assert (Hex : existsb (fun e0 => conflicts_with c e0) r = true) by (apply existsb_exists; exists e; auto).
  rewrite Hex in Hx. discriminate.
Qed.

Lemma pw_free_snoc l c :
  pw_free (l ++ [c]) = pw_free l && negb (existsb (fun e => conflicts_with e c) l).
Proof.
  induction l as [|x r IH]; cbn [app pw_free existsb]; [reflexivity|].
  rewrite IH, existsb_app. cbn [existsb]. rewrite orb_false_r, !negb_orb.
  destruct (existsb (fun e => conflicts_with x e) r), (conflicts_with x c), (pw_free r),
    (existsb (fun e => conflicts_with e c) r); reflexivity.
Qed.

Lemma merge_chains_pw_free inc : forall cur, pw_free cur = true -> pw_free (merge_chains cur inc) = true.
Proof.
  induction inc as [|c r IH]; intros cur H; cbn [merge_chains]; [exact H|].
  destruct (existsb (fun e => conflicts_with e c) cur) eqn:E; [apply IH; exact H|].
  apply IH. rewrite pw_free_snoc, H, E. reflexivity.
Qed.

(* merge keeps every current chain, in order, as a prefix *)
Lemma merge_chains_prefix inc : forall cur, exists extra, merge_chains cur inc = cur ++ extra.
Proof.
  induction inc as [|c r IH]; intros cur; cbn [merge_chains]; [exists []; rewrite app_nil_r; reflexivity|].
  destruct (existsb (fun e => conflicts_with e c) cur); [apply IH|].
  destruct (IH (cur ++ [c])) as [ex Hex]. exists (c :: ex). rewrite Hex, <- app_assoc. reflexivity.
Qed.

Lemma pw_free_app_l l1 l2 : pw_free (l1 ++ l2) = true -> pw_free l1 = true.
Proof.
  induction l1 as [|x r IH]; cbn [app pw_free]; [reflexivity|].
  rewrite !andb_true_iff, !negb_true_iff, existsb_app. intros [Hx Hr]. split; [|apply IH; exact Hr].
  apply orb_false_iff in Hx. tauto.
Qed.

Lemma pw_free_removelast l : pw_free l = true -> pw_free (removelast l) = true.
Proof.
  intros H. destruct l as [|x r]; [reflexivity|].
  assert (Hne : x :: r <> []) by discriminate.
  rewrite (app_removelast_last x Hne) in H. apply pw_free_app_l in H. exact H.
Qed.

(* ------------------------------------------------------------------ conflict map *)

Definition inv (m : lmap) : Prop :=
  NoDup (map fst m) /\ forall k e, In (k, e) m -> pw_free (e_chains e) = true.

Lemma lookup_In k m e : lookup k m = Some e -> In (k, e) m.
Proof.
  induction m as [|[k' e'] r IH]; cbn [lookup]; [discriminate|].
  destruct (pair_eqb k k') eqn:E.
  - intros H. inversion H; subst. apply pair_eqb_spec in E. subst. left. reflexivity.
  - intros H. right. apply IH. exact H.
Qed.

Lemma lookup_None k m : lookup k m = None -> ~ In k (map fst m).
Proof.
  induction m as [|[k' e'] r IH]; cbn [lookup map fst In]; [tauto|].
  destruct (pair_eqb k k') eqn:E; [discriminate|].
  intros H [Hk|Hk]; [|apply (IH H Hk)].
  subst. assert (pair_eqb k k = true) by (apply pair_eqb_spec; reflexivity). congruence.
Qed.

Lemma set_entry_keys k e m :
  map fst (set_entry k e m) = if memP k (map fst m) then map fst m else map fst m ++ [k].
Proof.
  induction m as [|[k' e'] r IH]; cbn [set_entry map fst]; [reflexivity|].
  unfold memP, memb in *. cbn [existsb].
  destruct (pair_eqb k k') eqn:E.
  - cbn [map fst orb]. apply pair_eqb_spec in E. subst. reflexivity.
  - cbn [map fst orb app]. rewrite IH. destruct (existsb (pair_eqb k) (map fst r)); reflexivity.
Qed.

Lemma set_entry_In k e m k' e' : In (k', e') (set_entry k e m) -> (k' = k /\ e' = e) \/ In (k', e') m.
Proof.
  induction m as [|[k2 e2] r IH]; cbn [set_entry In].
  - intros [H|[]]. inversion H; auto.
  - destruct (pair_eqb k k2).
    + cbn [In]. intros [H|H]; [inversion H; auto|tauto].
    + cbn [In]. intros [H|H]; [tauto|]. destruct (IH H); tauto.
Qed.

Lemma set_entry_inv k e m : inv m -> pw_free (e_chains e) = true -> inv (set_entry k e m).
Proof.
  intros [Hk Hc] He. split.
  - rewrite set_entry_keys. destruct (memP k (map fst m)) eqn:E; [exact Hk|].
    apply (memb_false pair_eqb pair_eqb_spec) in E.
    apply NoDup_app_intro; [exact Hk|constructor; [intros []|constructor]|].
    intros x Hx [<-|[]]. contradiction.
  - intros k' e' Hin. apply set_entry_In in Hin. destruct Hin as [[-> ->]|Hin]; [exact He|].
    apply (Hc k' e' Hin).
Qed.

Lemma step_call_inv pp k sp chs m : inv m -> pw_free chs = true -> inv (step_call pp k sp chs m).
Proof.
  intros Hi Hc. unfold step_call.
  destruct (lookup k m) as [cur|] eqn:L; [|apply set_entry_inv; assumption].
  destruct (e_locked cur); [exact Hi|].
  destruct (proto_eqb pp PHTTP_PROXY); [apply set_entry_inv; assumption|].
  assert (Hcur : pw_free (e_chains cur) = true) by (apply (proj2 Hi k cur); apply lookup_In; exact L).
  assert (Hrl : pw_free (removelast chs) = true) by (apply pw_free_removelast; exact Hc).
  destruct (lclass_of pp); destruct (is_http (e_proto cur)); destruct (is_tcp (e_proto cur));
    cbn match; try exact Hi;
    match goal with
    | |- context [well_known_ok ?a ?b ?c] => destruct (well_known_ok a b c)
    end; cbn [negb]; try exact Hi;
    apply set_entry_inv; try assumption; cbn [e_chains];
    try (apply merge_chains_pw_free; assumption).
Qed.

Lemma do_step_inv m s : inv m -> step_ok s = true -> inv (do_step m s).
Proof.
  intros Hi Hs. destruct s as [|pp [[[k sp] chs]|]]; cbn [do_step]; [| |exact Hi].
  - destruct Hi as [Hk Hc]. split.
    + rewrite map_map. cbn [fst]. exact Hk.
    + intros k e Hin. apply in_map_iff in Hin. destruct Hin as [[k0 e0] [Heq Hin]].
      cbn [fst snd] in Heq. injection Heq as Hk' He'. rewrite <- He'. cbn [e_chains]. apply (Hc k0 e0 Hin).
  - apply step_call_inv; [exact Hi|exact Hs].
Qed.

Lemma fold_steps_inv ss : forall m, inv m -> forallb step_ok ss = true -> inv (fold_left do_step ss m).
Proof.
  induction ss as [|s r IH]; intros m Hi Hs; cbn [fold_left]; [exact Hi|].
  cbn [forallb] in Hs. apply andb_true_iff in Hs. destruct Hs as [H1 H2].
  apply IH; [apply do_step_inv; assumption|exact H2].
Qed.

Lemma inv_nil : inv [].
Proof. split; [constructor|intros k e []]. Qed.

(* keys stay unique without any hypothesis on the chains *)
Definition keys_ok (m : lmap) : Prop := NoDup (map fst m).

Lemma step_call_keys pp k sp chs m : keys_ok m -> keys_ok (step_call pp k sp chs m).
Proof.
  intros Hk. unfold step_call.
  assert (S : forall e, keys_ok (set_entry k e m)).
  { intros e. unfold keys_ok. rewrite set_entry_keys. destruct (memP k (map fst m)) eqn:E; [exact Hk|].
    apply (memb_false pair_eqb pair_eqb_spec) in E.
    apply NoDup_app_intro; [exact Hk|constructor; [intros []|constructor]|].
    intros x Hx [<-|[]]. contradiction. }
  destruct (lookup k m) as [cur|]; [|apply S].
  destruct (e_locked cur); [exact Hk|].
  destruct (proto_eqb pp PHTTP_PROXY); [apply S|].
  destruct (lclass_of pp); destruct (is_http (e_proto cur)); destruct (is_tcp (e_proto cur));
    cbn match; try exact Hk;
    match goal with
    | |- context [well_known_ok ?a ?b ?c] => destruct (well_known_ok a b c)
    end; cbn [negb]; try exact Hk; apply S.
Qed.

Lemma run_steps_keys ss : keys_ok (run_steps ss).
Proof.
  unfold run_steps. assert (G : forall m, keys_ok m -> keys_ok (fold_left do_step ss m)).
  { induction ss as [|s r IH]; intros m Hm; cbn [fold_left]; [exact Hm|]. apply IH.
    destruct s as [|pp [[[k sp] chs]|]]; cbn [do_step]; [| |exact Hm].
    - unfold keys_ok. rewrite map_map. cbn [fst]. exact Hm.
    - apply step_call_keys. exact Hm. }
  apply G. constructor.
Qed.

Lemma run_steps_chains ss :
  forallb step_ok ss = true -> forall k e, In (k, e) (run_steps ss) -> pw_free (e_chains e) = true.
Proof. intros H. apply (fold_steps_inv ss [] inv_nil H). Qed.

Lemma run_steps_fcm_distinct ss :
  forallb step_ok ss = true ->
  forall k e, In (k, e) (run_steps ss) -> forallb sni_ok (e_chains e) = true -> fcm_distinct (e_chains e) = true.
Proof.
  intros H k e Hin Hs. apply pw_free_fcm_distinct; [exact Hs|]. apply (run_steps_chains ss H k e Hin).
Qed.
