(* C14 — every xDS snapshot sent to a proxy is closed and well-formed.
   Definitions only.  Two layers:
   (a) an abstract snapshot of one full push (CDS+EDS+LDS+RDS of one proxy) with an executable
       well-formedness checker [wf_snapshot] and its declarative meaning [WF];
   (b) executable models of the de-duplication / conflict-resolution helpers of
       pilot/pkg/networking/core that are meant to establish parts of WF:
       dedupeDomains, mergeAllVirtualHosts (httproute.go), ClusterBuilder.normalizeClusters
       (cluster_builder.go), filterChainOpts.{isMatchAll,conflictsWith,toFilterChainMatch},
       mergeTCPFilterChains and the conflict switch of buildSidecarOutboundListener (listener.go),
       and the "one answer per requested name" loops of BuildHTTPRoutes / EdsGenerator.buildEndpoints. *)
From Coq Require Import List NArith Bool String Ascii.
Import ListNotations.
Open Scope N_scope.

(* ------------------------------------------------------------------ small list utilities *)

(* generic executable set/multiset helpers over a boolean equality *)
Section Generic.
  Context {A : Type} (eqb : A -> A -> bool).
  Definition memb (x : A) (l : list A) : bool := existsb (eqb x) l.
  Fixpoint dedupb (l : list A) : list A :=
    match l with [] => [] | x :: r => if memb x r then dedupb r else x :: dedupb r end.
  (* sets.Equals: same length and every key of the first is in the second *)
  Definition set_equalsb (a b : list A) : bool :=
    Nat.eqb (List.length a) (List.length b) && forallb (fun x => memb x b) a.
  Definition countb (x : A) (l : list A) : nat := List.length (filter (eqb x) l).
  Definition permb (a b : list A) : bool :=
    forallb (fun x => Nat.eqb (countb x a) (countb x b)) a && forallb (fun x => Nat.eqb (countb x a) (countb x b)) b.
End Generic.

Definition memN (x : N) (l : list N) : bool := memb N.eqb x l.

Fixpoint nodupN (l : list N) : bool :=
  match l with
  | [] => true
  | x :: r => negb (memN x r) && nodupN r
  end.

Definition subsetN (a b : list N) : bool := forallb (fun x => memN x b) a.

(* ------------------------------------------------------------------ (a) snapshot + checker *)

(* Names, domains and filter-chain-match renderings are interned to N by the harness
   (domains after lower-casing: Envoy compares virtual-host domains case-insensitively). *)
Record routecfg := RC { rc_name : N; rc_vhosts : list (N * list N) (* vhost name, domains *) }.
Record lsn := LS { ls_name : N; ls_chains : list N (* filter_chain_match keys *); ls_rds : list N (* RDS names used *) }.
Record clu := CL { cl_name : N; cl_eds : option N (* EDS resource name when type = EDS *) }.
Record weight := W { w_val : N; w_lo : N; w_hi : N }.

Record snapshot := Snap {
  s_listeners : list lsn;
  s_clusters : list clu;
  s_routes : list routecfg;        (* RDS answer *)
  s_endpoints : list N;            (* cluster names of the EDS answer *)
  s_rds_req : list N;              (* RDS names requested *)
  s_eds_req : list N;              (* EDS names requested *)
  s_weights : list weight }.

Definition rc_domains (r : routecfg) : list N := List.concat (map snd (rc_vhosts r)).
Definition eds_refs (cs : list clu) : list N :=
  flat_map (fun c => match cl_eds c with Some n => [n] | None => [] end) cs.
Definition weight_ok (w : weight) : bool := (w_lo w <=? w_val w) && (w_val w <=? w_hi w).

Definition wf_snapshot (s : snapshot) : bool :=
  nodupN (map ls_name (s_listeners s)) &&
  nodupN (map cl_name (s_clusters s)) &&
  nodupN (map rc_name (s_routes s)) &&
  nodupN (s_endpoints s) &&
  forallb (fun l => subsetN (ls_rds l) (map rc_name (s_routes s))) (s_listeners s) &&
  subsetN (eds_refs (s_clusters s)) (s_endpoints s) &&
  subsetN (s_rds_req s) (map rc_name (s_routes s)) &&
  subsetN (s_eds_req s) (s_endpoints s) &&
  forallb (fun r => nodupN (map fst (rc_vhosts r)) && nodupN (rc_domains r)) (s_routes s) &&
  forallb (fun l => nodupN (ls_chains l)) (s_listeners s) &&
  forallb weight_ok (s_weights s).

Record WF (s : snapshot) : Prop := mkWF {
  wf_listener_names : NoDup (map ls_name (s_listeners s));
  wf_cluster_names : NoDup (map cl_name (s_clusters s));
  wf_route_names : NoDup (map rc_name (s_routes s));
  wf_endpoint_names : NoDup (s_endpoints s);
  wf_rds_closed : forall l r, In l (s_listeners s) -> In r (ls_rds l) -> In r (map rc_name (s_routes s));
  wf_eds_closed : forall c n, In c (s_clusters s) -> cl_eds c = Some n -> In n (s_endpoints s);
  wf_rds_answered : forall n, In n (s_rds_req s) -> In n (map rc_name (s_routes s));
  wf_eds_answered : forall n, In n (s_eds_req s) -> In n (s_endpoints s);
  wf_vhosts : forall r, In r (s_routes s) -> NoDup (map fst (rc_vhosts r)) /\ NoDup (rc_domains r);
  wf_chains : forall l, In l (s_listeners s) -> NoDup (ls_chains l);
  wf_weights : forall w, In w (s_weights s) -> (w_lo w <= w_val w /\ w_val w <= w_hi w)%N }.

(* ------------------------------------------------------------------ (b1) dedupeDomains *)

Definition lower_ascii (c : ascii) : ascii :=
  let n := N_of_ascii c in
  if (65 <=? n) && (n <=? 90) then ascii_of_N (n + 32) else c.

Fixpoint lower (s : string) : string :=
  match s with
  | EmptyString => EmptyString
  | String c r => String (lower_ascii c) (lower r)
  end.

Definition mem_str (s : string) (l : list string) : bool := existsb (String.eqb s) l.

(* dedupeDomains(domains, vhdomains, expandedHosts, knownFQDNs): returns the kept domains and the
   updated vhdomains set (a list here; only membership is used). *)
Fixpoint dedupe_domains (domains vh expanded known : list string) : list string * list string :=
  match domains with
  | [] => ([], vh)
  | d :: ds =>
    if mem_str (lower d) vh then dedupe_domains ds vh expanded known
    else if mem_str d expanded && mem_str d known then dedupe_domains ds vh expanded known
    else let '(out, vh') := dedupe_domains ds (lower d :: vh) expanded known in (d :: out, vh')
  end.

(* the sequence of buildVirtualHost calls of one BuildSidecarOutboundVirtualHosts run: each call
   has its own (domains, expandedHosts); vhdomains and knownFQDNs are shared *)
Fixpoint dedupe_calls (calls : list (list string * list string)) (vh known : list string)
  : list (list string) * list string :=
  match calls with
  | [] => ([], vh)
  | (ds, ex) :: r =>
    let '(out, vh1) := dedupe_domains ds vh ex known in
    let '(outs, vh2) := dedupe_calls r vh1 known in
    (out :: outs, vh2)
  end.

(* ------------------------------------------------------------------ (b2) mergeAllVirtualHosts *)

Fixpoint has_colon (s : string) : bool :=
  match s with
  | EmptyString => false
  | String c r => (N_of_ascii c =? 58) || has_colon r
  end.

Definition vhost := (N * list string)%type.   (* name id, domains *)

Definition merge_port (p : N) (vhs : list vhost) : list vhost :=
  if p =? 80 then vhs
  else flat_map (fun v : vhost =>
                   let ds := filter has_colon (snd v) in
                   match ds with [] => [] | _ => [(fst v, ds)] end) vhs.

(* the argument lists the map entries in the order the Go range visited them *)
Definition merge_all_virtual_hosts (m : list (N * list vhost)) : list vhost :=
  flat_map (fun pv => merge_port (fst pv) (snd pv)) m.

Definition vh_domains (vhs : list vhost) : list string := flat_map snd vhs.
Definition map_domains (m : list (N * list vhost)) : list string := flat_map (fun pv => vh_domains (snd pv)) m.

(* ------------------------------------------------------------------ (b3) normalizeClusters *)

Fixpoint normalize_from (have : list N) (names : list N) : list N :=
  match names with
  | [] => []
  | c :: r => if memN c have then normalize_from have r else c :: normalize_from (c :: have) r
  end.
Definition normalize_clusters (names : list N) : list N := normalize_from [] names.

(* ------------------------------------------------------------------ (b4) filter chain matches *)

(* sni: 0 = "*", other names interned; cidr: IPv4 (address, prefix length) *)
Record chain := Ch { c_transport : N; c_alpn : list N; c_sni : list N; c_cidr : list (N * N) }.

Definition pair_eqb (a b : N * N) : bool := (fst a =? fst b) && (snd a =? snd b).
Definition memP (x : N * N) (l : list (N * N)) : bool := memb pair_eqb x l.

Fixpoint list_eqbN (a b : list N) : bool :=
  match a, b with
  | [], [] => true
  | x :: a', y :: b' => (x =? y) && list_eqbN a' b'
  | _, _ => false
  end.

(* isMatchAll *)
Definition is_match_all (c : chain) : bool :=
  (match c_sni c with [] => true | _ => memN 0 (c_sni c) end) &&
  (match c_alpn c with [] => true | _ => false end) &&
  (c_transport c =? 0) &&
  (match c_cidr c with [] => true | _ => false end).

(* Go sets built by the closures of conflictsWith *)
Definition dedupN := dedupb N.eqb.
Definition dedupP := dedupb pair_eqb.

Definition sni_set (sni : list N) : list N := dedupN (filter (fun s => negb (s =? 0)) sni).

Definition masked (p : N * N) : N * N :=
  let sh := 32 - snd p in (N.shiftl (N.shiftr (fst p) sh) sh, snd p).
Definition cidr_set (cs : list (N * N)) : list (N * N) :=
  dedupP (map masked (filter (fun p => negb (fst p =? 0)) cs)).

Definition set_equalsN := set_equalsb N.eqb.
Definition set_equalsP := set_equalsb pair_eqb.

(* conflictsWith *)
Definition conflicts_with (a b : chain) : bool :=
  if negb (c_transport a =? c_transport b) then false
  else if negb (list_eqbN (c_alpn a) (c_alpn b)) then false
  else if negb (set_equalsN (sni_set (c_sni a)) (sni_set (c_sni b))) then false
  else set_equalsP (cidr_set (c_cidr a)) (cidr_set (c_cidr b)).

(* toFilterChainMatch; server names and prefix ranges are sorted by the Go code with a deterministic
   string order, so two results are equal protos iff they are equal as multisets: the model keeps
   the unsorted lists and [fcm_eqb] compares up to permutation. *)
Record fcm := FCM { f_transport : N; f_alpn : list N; f_sni : list N; f_cidr : list (N * N) }.

Definition to_fcm (c : chain) : option fcm :=
  if is_match_all c then None
  else Some (FCM (c_transport c) (c_alpn c)
                 (if memN 0 (c_sni c) then [] else c_sni c)
                 (filter (fun p => negb (fst p =? 0)) (c_cidr c))).

Definition permN := permb N.eqb.
Definition permP := permb pair_eqb.

Definition fcm_eqb (x y : option fcm) : bool :=
  match x, y with
  | None, None => true
  | Some a, Some b =>
    (f_transport a =? f_transport b) && list_eqbN (f_alpn a) (f_alpn b) &&
    permN (f_sni a) (f_sni b) && permP (f_cidr a) (f_cidr b)
  | _, _ => false
  end.

(* a chain whose SNI list contains "*" contains nothing else (what the callers are expected to pass) *)
Definition sni_ok (c : chain) : bool :=
  if memN 0 (c_sni c) then forallb (fun s => s =? 0) (c_sni c) else true.

(* the emitted matches of a chain list are pairwise distinct (what Envoy requires of a listener) *)
Fixpoint fcm_distinct (l : list chain) : bool :=
  match l with
  | [] => true
  | c :: r => negb (existsb (fun e => fcm_eqb (to_fcm c) (to_fcm e)) r) && fcm_distinct r
  end.

(* mergeTCPFilterChains: every incoming chain is compared with everything merged so far *)
Fixpoint merge_chains (merged incoming : list chain) : list chain :=
  match incoming with
  | [] => merged
  | c :: r => if existsb (fun e => conflicts_with e c) merged then merge_chains merged r
              else merge_chains (merged ++ [c]) r
  end.

(* pairwise (ordered) non-conflict, executable *)
Fixpoint pw_free (l : list chain) : bool :=
  match l with
  | [] => true
  | c :: r => negb (existsb (fun e => conflicts_with c e) r) && pw_free r
  end.

(* ------------------------------------------------------------------ (b5) outbound listener conflict resolution *)

Inductive proto := PHTTP | PHTTP2 | PGRPC | PGRPCWeb | PHTTP_PROXY | PTCP | PHTTPS | PTLS | PMongo | PRedis | PMySQL | PUDP | PUnsupported.

Definition proto_code (p : proto) : N :=
  match p with PHTTP => 0 | PHTTP2 => 1 | PGRPC => 2 | PGRPCWeb => 3 | PHTTP_PROXY => 4 | PTCP => 5 | PHTTPS => 6
             | PTLS => 7 | PMongo => 8 | PRedis => 9 | PMySQL => 10 | PUDP => 11 | PUnsupported => 12 end.
Definition proto_eqb (a b : proto) : bool := proto_code a =? proto_code b.

Definition is_http (p : proto) : bool :=
  match p with PHTTP | PHTTP2 | PHTTP_PROXY | PGRPC | PGRPCWeb => true | _ => false end.
Definition is_tcp (p : proto) : bool :=
  match p with PTCP | PHTTPS | PTLS | PMongo | PRedis | PMySQL => true | _ => false end.

Inductive lclass := LHTTP | LTCP | LAuto | LUnknown.
(* ModelProtocolToListenerProtocol *)
Definition lclass_of (p : proto) : lclass :=
  if is_http p then LHTTP else if is_tcp p then LTCP else
  match p with PUDP => LUnknown | _ => LAuto end.

Definition lkey := (N * N)%type.   (* bind id, port *)
Record entry := E { e_locked : bool; e_proto : proto; e_chains : list chain }.
Definition lmap := list (lkey * entry).

Fixpoint lookup (k : lkey) (m : lmap) : option entry :=
  match m with
  | [] => None
  | (k', e) :: r => if pair_eqb k k' then Some e else lookup k r
  end.
Fixpoint set_entry (k : lkey) (e : entry) (m : lmap) : lmap :=
  match m with
  | [] => [(k, e)]
  | (k', e') :: r => if pair_eqb k k' then (k, e) :: r else (k', e') :: set_entry k e r
  end.

Inductive conflict := NoConflict | HTTPOverTCP | TCPOverHTTP | TCPOverTCP | TCPOverAuto | AutoOverHTTP | AutoOverTCP.

(* isConflictWithWellKnownPort: true = may proceed *)
Definition well_known_ok (incoming existing : proto) (c : conflict) : bool :=
  match c with
  | NoConflict => true
  | _ =>
    let wk p := match p with PMongo | PMySQL => true | _ => false end in
    if (wk incoming || wk existing) && negb (proto_eqb incoming existing) then false else true
  end.

(* One call of buildSidecarOutboundListener.  [pp] is the port protocol of the call; [solo] is what
   the same call leaves in an EMPTY conflict map (None: nothing — Alias service, UDP): the map key
   (resolved bind, port), the entry protocol and the filter chains built for the call (the chain
   builders buildSidecarOutbound{TCP,HTTP}ListenerOpts are not modelled, their output is an input). *)
Inductive step :=
| SLock                                    (* the catch-all egress listener starts: lock everything *)
| SCall (pp : proto) (solo : option (lkey * proto * list chain)).

Definition step_call (pp : proto) (k : lkey) (sp : proto) (chs : list chain) (m : lmap) : lmap :=
  match lookup k m with
  | None => set_entry k (E false sp chs) m
  | Some cur =>
    if e_locked cur then m
    else if proto_eqb pp PHTTP_PROXY then set_entry k (E false sp chs) m
    else
      let decided : option (conflict * list chain) :=
        match lclass_of pp with
        | LHTTP => if is_tcp (e_proto cur) then Some (HTTPOverTCP, chs) else None
        | LTCP => Some (if is_http (e_proto cur) then TCPOverHTTP
                        else if is_tcp (e_proto cur) then TCPOverTCP else TCPOverAuto, chs)
        | LAuto => if is_http (e_proto cur) then Some (AutoOverHTTP, chs)
                   else if is_tcp (e_proto cur) then Some (AutoOverTCP, chs)
                   else Some (TCPOverAuto, removelast chs)
        | LUnknown => None
        end in
      match decided with
      | None => m
      | Some (c, opts) =>
        if negb (well_known_ok pp (e_proto cur) c) then m
        else match c with
             | NoConflict | AutoOverHTTP => set_entry k (E false sp opts) m
             | HTTPOverTCP | TCPOverHTTP | AutoOverTCP =>
               set_entry k (E (e_locked cur) PUnsupported (merge_chains (e_chains cur) opts)) m
             | TCPOverTCP | TCPOverAuto =>
               set_entry k (E (e_locked cur) (e_proto cur) (merge_chains (e_chains cur) opts)) m
             end
      end
  end.

Definition do_step (m : lmap) (s : step) : lmap :=
  match s with
  | SLock => map (fun ke => (fst ke, E true (e_proto (snd ke)) (e_chains (snd ke)))) m
  | SCall _ None => m
  | SCall pp (Some (k, sp, chs)) => step_call pp k sp chs m
  end.

Definition run_steps (ss : list step) : lmap := fold_left do_step ss [].

(* hypothesis (H) of the chain theorem: every call's own chains are conflict-free *)
Definition step_ok (s : step) : bool :=
  match s with SCall _ (Some (_, _, chs)) => pw_free chs | _ => true end.

(* ------------------------------------------------------------------ (b6) one answer per requested name *)

(* BuildHTTPRoutes (sidecar/waypoint branch: nil -> empty RouteConfiguration named routeName; router
   branch: buildGatewayHTTPRouteConfig never returns nil) and EdsGenerator.buildEndpoints on a full
   push: exactly one resource per requested name, generated ([gen n = Some r]) or empty. *)
Section Answer.
  Context {R : Type} (gen : N -> option R) (empty : N -> R).
  Definition answer (names : list N) : list R :=
    map (fun n => match gen n with Some r => r | None => empty n end) names.
End Answer.
