(* C14 — property theorems only. *)
From Coq Require Import List NArith Bool String.
From V Require Import C14.Model C14.Proofs C14.ProofsChains.
Import ListNotations.
Open Scope N_scope.

(* (a) the checker that is run on every observed full push decides the declarative WF *)
Theorem C14_checker_sound : forall s, wf_snapshot s = true -> WF s.
Proof. exact wf_snapshot_sound. Qed.
Print Assumptions C14_checker_sound.

Theorem C14_checker_complete : forall s, WF s -> wf_snapshot s = true.
Proof. exact wf_snapshot_complete. Qed.
Print Assumptions C14_checker_complete.

(* (b1) dedupeDomains over all buildVirtualHost calls of one route configuration: the domains kept
   are pairwise distinct up to case (Envoy compares them case-insensitively) *)
Theorem C14_domains_disjoint : forall calls known outs vh',
  dedupe_calls calls [] known = (outs, vh') -> NoDup (map lower (List.concat outs)).
Proof. exact dedupe_calls_nodup. Qed.
Print Assumptions C14_domains_disjoint.

(* (b2) mergeAllVirtualHosts, for every visiting order of the port map: distinct in, distinct out *)
Theorem C14_merge_vhosts_domains_disjoint : forall m,
  NoDup (map_domains m) -> NoDup (vh_domains (merge_all_virtual_hosts m)).
Proof. exact merge_all_nodup. Qed.
Print Assumptions C14_merge_vhosts_domains_disjoint.

Theorem C14_merge_vhosts_no_empty_domains : forall m,
  (forall p vhs v, In (p, vhs) m -> In v vhs -> snd v <> []) ->
  forall v, In v (merge_all_virtual_hosts m) -> snd v <> [].
Proof. exact merge_all_nonempty. Qed.
Print Assumptions C14_merge_vhosts_no_empty_domains.

(* (b3) normalizeClusters: unique names, nothing lost *)
Theorem C14_cluster_names_unique : forall names,
  NoDup (normalize_clusters names) /\ forall x, In x (normalize_clusters names) <-> In x names.
Proof. intros names. split; [apply normalize_clusters_nodup|apply normalize_clusters_same]. Qed.
Print Assumptions C14_cluster_names_unique.

(* (b4) mergeTCPFilterChains keeps a conflict-free chain list conflict-free *)
Theorem C14_merge_chains_conflict_free : forall cur inc,
  pw_free cur = true -> pw_free (merge_chains cur inc) = true.
Proof. intros cur inc. apply merge_chains_pw_free. Qed.
Print Assumptions C14_merge_chains_conflict_free.

(* (b5) outbound listener conflict map, all call sequences: one entry (= one listener name) per
   bind+port ... *)
Theorem C14_listener_names_unique : forall ss, NoDup (map fst (run_steps ss)).
Proof. exact run_steps_keys. Qed.
Print Assumptions C14_listener_names_unique.

(* ... and, if every single call builds conflict-free chains (hypothesis validated by the harness),
   every listener's chains are pairwise conflict-free *)
Theorem C14_listener_chains_conflict_free : forall ss,
  forallb step_ok ss = true -> forall k e, In (k, e) (run_steps ss) -> pw_free (e_chains e) = true.
Proof. exact run_steps_chains. Qed.
Print Assumptions C14_listener_chains_conflict_free.

(* "conflict-free" is meant to imply "distinct filter_chain_match".  Full statement is false of the
   faithful model: conflictsWith drops "*" from the SNI set while toFilterChainMatch drops the whole
   SNI list when it contains "*". *)
Theorem C14_chain_match_distinct_refuted :
  exists a b, conflicts_with a b = false /\ fcm_eqb (to_fcm a) (to_fcm b) = true.
Proof. exact fcm_distinct_refuted. Qed.
Print Assumptions C14_chain_match_distinct_refuted.

Theorem C14_chain_match_distinct_partial : forall a b,
  sni_ok a = true -> sni_ok b = true ->
  conflicts_with a b = false -> fcm_eqb (to_fcm a) (to_fcm b) = false.
Proof. exact conflicts_free_fcm_distinct. Qed.
Print Assumptions C14_chain_match_distinct_partial.

Theorem C14_listener_matches_distinct_partial : forall ss,
  forallb step_ok ss = true ->
  forall k e, In (k, e) (run_steps ss) -> forallb sni_ok (e_chains e) = true -> fcm_distinct (e_chains e) = true.
Proof. exact run_steps_fcm_distinct. Qed.
Print Assumptions C14_listener_matches_distinct_partial.

(* (b6) one answer per requested name, under its own name (RDS: BuildHTTPRoutes, EDS: buildEndpoints) *)
Theorem C14_requested_answered : forall (R : Type) (gen : N -> option R) (empty : N -> R) (name : R -> N),
  (forall n r, gen n = Some r -> name r = n) -> (forall n, name (empty n) = n) ->
  forall names, map name (answer gen empty names) = names.
Proof. intros R gen empty name H1 H2 names. apply answer_names; assumption. Qed.
Print Assumptions C14_requested_answered.

(* hypotheses are satisfiable / definitions are not vacuous *)
Example C14_ex_wf : wf_snapshot (Snap [LS 1 [10; 11] [5]] [CL 2 (Some 2); CL 3 None] [RC 5 [(1, [20; 21]); (2, [22])]] [2] [5] [2] [W 1 1 100]) = true.
Proof. vm_compute. reflexivity. Qed.
Example C14_ex_not_wf : wf_snapshot (Snap [LS 1 [10; 10] []] [] [] [] [] [] []) = false.
Proof. vm_compute. reflexivity. Qed.
Example C14_ex_steps :
  forallb step_ok [SCall PTCP (Some ((1, 80), PTCP, [Ch 0 [] [] [(16909060, 32)]])); SCall PHTTP (Some ((1, 80), PUnsupported, [Ch 1 [3] [] []]))] = true
  /\ List.length (run_steps [SCall PTCP (Some ((1, 80), PTCP, [Ch 0 [] [] [(16909060, 32)]])); SCall PHTTP (Some ((1, 80), PUnsupported, [Ch 1 [3] [] []]))]) = 1%nat.
Proof. vm_compute. split; reflexivity. Qed.
Example C14_ex_dedupe :
  dedupe_calls [(["Foo.com"; "foo.com"; "bar"]%string, []); (["BAR"; "baz"]%string, [])] [] [] =
  ([["Foo.com"; "bar"]%string; ["baz"%string]], ["baz"; "bar"; "foo.com"]%string).
Proof. vm_compute. reflexivity. Qed.
