(* Evaluation of harness cases for C14. *)
From V Require Export lib.Verdict C14.Model.
Open Scope N_scope.

Definition obs_entry := (lkey * (bool * N * list chain))%type.   (* key, (locked, protocol code, chains) *)

Inductive case :=
(* one REAL full push (CDS+EDS+LDS+RDS of one proxy from the fake discovery server), projected *)
| Push (id : N) (s : snapshot)
(* one RDS/EDS request that includes unknown names: requested vs answered resource names *)
| Req (id : N) (requested answered : list N)
| Dedupe (id : N) (calls : list (list string * list string)) (known : list string) (obs : list (list string))
| MergeVH (id : N) (m : list (N * list vhost)) (obs : list vhost)
| Norm (id : N) (names obs : list N)
| Conf (id : N) (a b : chain) (obs_conf : bool) (fa fb : option fcm)
| Merge (id : N) (cur inc obs : list chain)
| Seq (id : N) (ss : list step) (obs : list obs_entry).

Definition case_id c :=
  match c with
  | Push id _ | Req id _ _ | Dedupe id _ _ _ | MergeVH id _ _ | Norm id _ _ | Conf id _ _ _ _ _
  | Merge id _ _ _ | Seq id _ _ => id
  end.

Fixpoint list_eqbP (a b : list (N * N)) : bool :=
  match a, b with
  | [], [] => true
  | x :: a', y :: b' => pair_eqb x y && list_eqbP a' b'
  | _, _ => false
  end.

Definition chain_eqb (a b : chain) : bool :=
  (c_transport a =? c_transport b) && list_eqbN (c_alpn a) (c_alpn b) &&
  list_eqbN (c_sni a) (c_sni b) && list_eqbP (c_cidr a) (c_cidr b).

Fixpoint nodup_str (l : list string) : bool :=
  match l with [] => true | x :: r => negb (mem_str x r) && nodup_str r end.

Definition vhost_eqb (a b : vhost) : bool := (fst a =? fst b) && list_eqb String.eqb (snd a) (snd b).

Definition entry_eqb (e : entry) (o : bool * N * list chain) : bool :=
  Bool.eqb (e_locked e) (fst (fst o)) && (proto_code (e_proto e) =? snd (fst o)) &&
  list_eqb chain_eqb (e_chains e) (snd o).

Fixpoint lookup_obs (k : lkey) (m : list obs_entry) : option (bool * N * list chain) :=
  match m with
  | [] => None
  | (k', e) :: r => if pair_eqb k k' then Some e else lookup_obs k r
  end.

Definition all_chains (ss : list step) : list chain :=
  flat_map (fun s => match s with SCall _ (Some (_, _, chs)) => chs | _ => [] end) ss.

Definition model_ok (c : case) : bool :=
  match c with
  | Push _ _ => true
  | Req _ req ans => permN req ans
  | Dedupe _ calls known obs =>
    list_eqb (list_eqb String.eqb) (fst (dedupe_calls calls [] known)) obs
  | MergeVH _ m obs =>
    let md := merge_all_virtual_hosts m in
    Nat.eqb (List.length md) (List.length obs) && forallb (fun v => existsb (vhost_eqb v) obs) md
  | Norm _ names obs => list_eqbN (normalize_clusters names) obs
  | Conf _ a b oc fa fb =>
    Bool.eqb (conflicts_with a b) oc && fcm_eqb (to_fcm a) fa && fcm_eqb (to_fcm b) fb
  | Merge _ cur inc obs => list_eqb chain_eqb (merge_chains cur inc) obs
  | Seq _ ss obs =>
    let m := run_steps ss in
    Nat.eqb (List.length m) (List.length obs) &&
    forallb (fun ke => match lookup_obs (fst ke) obs with
                       | Some o => entry_eqb (snd ke) o
                       | None => false
                       end) m
  end.

(* property oracle on the observed behaviour *)
Definition prop_ok (c : case) : bool :=
  match c with
  | Push _ s => wf_snapshot s
  | Req _ req ans => subsetN req ans && nodupN ans
  | Dedupe _ _ _ obs => nodup_str (map lower (List.concat obs))
  | MergeVH _ m obs =>
    (if nodup_str (map_domains m) then nodup_str (vh_domains obs) else true) &&
    (let nonempty := forallb (fun v : vhost => match snd v with [] => false | _ => true end) in
     if forallb (fun pv : N * list vhost => nonempty (snd pv)) m then nonempty obs else true)
  | Norm _ names obs => nodupN obs && subsetN names obs && subsetN obs names
  | Conf _ _ _ oc fa fb => if fcm_eqb fa fb then oc else true
  | Merge _ cur inc obs =>
    if pw_free cur && forallb sni_ok (cur ++ inc) then fcm_distinct obs else true
  | Seq _ ss obs =>
    nodupN (map (fun ke : obs_entry => fst (fst ke) * 100000 + snd (fst ke)) obs) &&
    (if forallb step_ok ss && forallb sni_ok (all_chains ss)
     then forallb (fun ke : obs_entry => fcm_distinct (snd (snd ke))) obs else true)
  end.

Definition mismatches := check_all case_id model_ok prop_ok.
