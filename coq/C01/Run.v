From V Require Export lib.Verdict gen.Tables C01.Model C01.Spec.

Record obs := { o_cds_keys : list key; o_cds : bool; o_eds : bool; o_lds : bool; o_rds : bool; o_nds : bool; o_partial : bool }.

(* (H) validation against the REAL generators on a live fake discovery server with long-lived connected clients.
   XO = what was observed for ONE xDS type of ONE proxy after ONE push:
     decided  = the real x-NeedsPush verdict on the real (proxy-filtered) push request (false if the proxy filter dropped it)
     sent     = a response of type x was observed on the stream
     equal    = x's resources from a forced push before and after the change are byte-identical
     narrow   = every resource of x that was NOT resent in this push is byte-identical before and after (resource granularity:
                partial EDS pushes resend only some ClusterLoadAssignments)
     held     = what the long-lived client holds for x equals what a forced push generates now, per resource name
     ctx      = x generated (no cache) from the live, partially updated PushContext equals x from a from-scratch PushContext
     heldfull = what the client holds equals the latter
     cache    = x generated for a new proxy through the XDS cache of the server equals x generated without the cache *)
(* short constructors for harness-printed terms (plain applications elaborate much faster than record notation) *)
Definition ky (k : kind) (ns nm : N) : key := {| kk := k; kns := ns; kname := nm |}.
Definition ev (ks : list key) (r : reason) : event := {| ev_keys := ks; ev_reason := r |}.
Definition px (t : node_type) (ns : N) (gw : bool) : proxy := {| ptype := t; cfg_ns := ns; is_ew := false; gw_changed := gw |}.
Definition pxe (t : node_type) (ns : N) (ew gw : bool) : proxy := {| ptype := t; cfg_ns := ns; is_ew := ew; gw_changed := gw |}.

Inductive xo := XO (x : xds) (decided sent equal narrow held ctx heldfull cache : bool).
Inductive cv := CV (x : xds) (equal new_equal : bool).

Inductive case :=
(* a batch of events merged by the REAL PushRequest.Merge, then the five real decision functions *)
| NeedsPush (id : N) (scoped jwks : bool) (root : N) (is_forced wp : bool) (evs : list event) (p : proxy) (o : obs)
(* run-time content of a skip table vs what tabgen translated from the source *)
| Table (id : N) (scoped jwks : bool) (name : string) (nt : option node_type) (observed : list kind)
(* DefaultProxyNeedsPush *)
| ProxyNeeds (id : N) (scoped jwks : bool) (root : N) (r : req) (p : proxy) (d : pdeps) (okeys : list key) (o : bool)
(* ONE config change of kind k pushed alone: evs = the push request(s) the real controllers emitted for it, filtered by
   the real DefaultProxyNeedsPush for this proxy (pneeds = its verdict) *)
| HStep (id : N) (scoped jwks : bool) (root : N) (k : kind) (evs : list event) (p : proxy) (pneeds : bool) (os : list xo)
(* several changes merged into one or two pushes (no single kind; decided is not recorded) *)
| HBatch (id : N) (nt : node_type) (nops : N) (os : list xo)
(* end-to-end, per xDS type: equal = what the long-lived client holds after nchanges changes equals what a FRESH control
   plane built from the final state serves to the same proxy; new_equal = so does what a NEW client gets from the live one *)
| Converge (id : N) (nt : node_type) (nchanges : N) (os : list cv).

Definition case_id c := match c with NeedsPush id _ _ _ _ _ _ _ _ => id | Table id _ _ _ _ _ => id
                                  | ProxyNeeds id _ _ _ _ _ _ _ _ => id
                                  | HStep id _ _ _ _ _ _ _ _ => id | HBatch id _ _ _ => id | Converge id _ _ _ => id end.

Definition subset_keys (a b : list key) := forallb (fun c => existsb (key_eqb c) b) a.
Definition same_keys (a b : list key) := subset_keys a b && subset_keys b a.
Definition same_kinds (a b : list kind) := forallb (fun k => kmem k b) a && forallb (fun k => kmem k a) b.

Definition table_by_name (e : env) (name : string) (nt : option node_type) : option (list kind) :=
  match nt with
  | None =>
      if String.eqb name "skippedCdsConfigs" then Some (skippedCdsConfigs (fl e))
      else if String.eqb name "pushCdsGatewayConfig" then Some (pushCdsGatewayConfig (fl e))
      else if String.eqb name "skippedRdsConfigs" then Some (skippedRdsConfigs (fl e))
      else if String.eqb name "skippedEdsConfigs" then Some (skippedEdsConfigs (fl e))
      else if String.eqb name "deltaAwareEdsConfigs" then Some (deltaAwareEdsConfigs (fl e))
      else if String.eqb name "skippedNdsConfigs" then Some (skippedNdsConfigs (fl e))
      else None
  | Some t =>
      if String.eqb name "skippedLdsConfigs" then Some (skippedLdsConfigs (fl e) t)
      else if String.eqb name "UnAffectedConfigKinds" then Some (UnAffectedConfigKinds (fl e) t)
      else None
  end.

Definition model_ok (c : case) : bool :=
  match c with
  | NeedsPush _ sc jw root f wp evs p o =>
      let e := mk_env sc jw root in
      let r := merge_events f wp evs in
      let '(ck, cb) := cds_needs_push e r p in
      same_keys ck (o_cds_keys o) && Bool.eqb cb (o_cds o) &&
      Bool.eqb (eds_needs_push e r p) (o_eds o) && Bool.eqb (lds_needs_push e r p) (o_lds o) &&
      Bool.eqb (rds_needs_push e r p) (o_rds o) && Bool.eqb (nds_needs_push e r p) (o_nds o) &&
      Bool.eqb (can_send_partial e r) (o_partial o)
  | Table _ sc jw name nt observed =>
      match table_by_name (mk_env sc jw 0) name nt with
      | Some t => same_kinds t observed
      | None => false
      end
  | ProxyNeeds _ sc jw root r p d okeys o =>
      let '(ks, b) := default_proxy_needs_push (mk_env sc jw root) r p d in
      same_keys ks okeys && Bool.eqb b o
  | HStep _ sc jw root _ evs p pneeds os =>
      let e := mk_env sc jw root in
      let r := merge_events false false evs in
      forallb (fun o => match o with XO x decided _ _ _ _ _ _ _ =>
                 if pneeds then Bool.eqb (needs_push x e r p) decided else negb decided end) os
  | HBatch _ _ _ _ => true
  | Converge _ _ _ _ => true
  end.

(* property oracle: an OBSERVED skip must be justified by the declared dependencies of the generator;
   an observed run-time table must not skip a kind its generator is declared to read *)
Definition prop_ok (c : case) : bool :=
  match c with
  | NeedsPush _ sc jw root f wp evs p o =>
      let e := mk_env sc jw root in
      (o_cds o || skip_justified e CDS p wp evs) && (o_eds o || skip_justified e EDS p wp evs) &&
      (o_lds o || skip_justified e LDS p wp evs) && (o_rds o || skip_justified e RDS p wp evs) &&
      (o_nds o || skip_justified e NDS p wp evs)
  | Table _ sc jw name nt observed =>
      let e := mk_env sc jw 0 in
      let chk x t := forallb (fun k => negb (dep_real e x t k)) observed in
      if String.eqb name "skippedCdsConfigs" then chk CDS NT_SidecarProxy && chk CDS NT_Waypoint
      else if String.eqb name "skippedRdsConfigs" then chk RDS NT_SidecarProxy
      else if String.eqb name "skippedEdsConfigs" then forallb (chk EDS) [NT_SidecarProxy; NT_Router; NT_Waypoint]
      else if String.eqb name "skippedNdsConfigs" then forallb (chk NDS) [NT_SidecarProxy; NT_Router; NT_Waypoint]
      else if String.eqb name "skippedLdsConfigs" then match nt with Some t => chk LDS t | None => true end
      else true
  | ProxyNeeds _ _ _ _ _ _ _ _ _ => true
  (* "whenever the control plane decides that a change does not concern a proxy or an xDS type and skips or narrows the
     push, the resources it did not resend are identical before and after the change" + the client is converged *)
  | HStep _ _ _ _ _ _ _ _ os =>
      forallb (fun o => match o with XO _ decided sent equal narrow held ctx heldfull cache =>
                 (decided || equal) && (sent || equal) && narrow && held && ctx && heldfull && cache end) os
  | HBatch _ _ _ os =>
      forallb (fun o => match o with XO _ _ sent equal narrow held ctx heldfull cache =>
                 (sent || equal) && narrow && held && ctx && heldfull && cache end) os
  | Converge _ _ _ os => forallb (fun o => match o with CV _ equal new_equal => equal && new_equal end) os
  end.

Definition mismatches := check_all case_id model_ok prop_ok.
