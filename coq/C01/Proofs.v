From V Require Import C01.Model C01.Spec.
From Coq Require Import Lia.

(* ------------------------------------------------------------------ basics *)
Lemma kind_eqb_eq a b : kind_eqb a b = true -> a = b.
Proof. destruct a, b; intros H; try reflexivity; vm_compute in H; discriminate H. Qed.

Lemma kind_eqb_refl a : kind_eqb a a = true.
Proof. unfold kind_eqb. apply N.eqb_refl. Qed.

Lemma key_eqb_eq a b : key_eqb a b = true -> a = b.
Proof.
  destruct a as [ak an am], b as [bk bn bm]. unfold key_eqb; cbn.
  intros H. apply andb_prop in H. destruct H as [H H3]. apply andb_prop in H. destruct H as [H1 H2].
  apply kind_eqb_eq in H1. apply N.eqb_eq in H2. apply N.eqb_eq in H3. subst. reflexivity.
Qed.

Lemma key_eqb_refl a : key_eqb a a = true.
Proof. unfold key_eqb. rewrite kind_eqb_refl, !N.eqb_refl. reflexivity. Qed.

Lemma existsb_key_In c ks : existsb (key_eqb c) ks = true <-> In c ks.
Proof.
  rewrite existsb_exists. split.
  - intros [x [Hin Heq]]. apply key_eqb_eq in Heq. subst. exact Hin.
  - intros Hin. exists c. split; [exact Hin | apply key_eqb_refl].
Qed.

Lemma kmem_In k l : kmem k l = true <-> In k l.
Proof.
  unfold kmem. rewrite existsb_exists. split.
  - intros [x [Hin Heq]]. apply kind_eqb_eq in Heq. subst. exact Hin.
  - intros Hin. exists k. split; [exact Hin | apply kind_eqb_refl].
Qed.

(* ------------------------------------------------------------------ merged keys contain every event key *)
Lemma add_key_In c d ks : In c (add_key d ks) <-> c = d \/ In c ks.
Proof.
  unfold add_key. destruct (existsb (key_eqb d) ks) eqn:E.
  - apply existsb_key_In in E. split; [auto | intros [->|H]; auto].
  - rewrite in_app_iff. cbn. split; [intros [H|[H|[]]]; auto | intros [->|H]; auto].
Qed.

Lemma union_keys_In c a b : In c (union_keys a b) <-> In c a \/ In c b.
Proof.
  unfold union_keys. revert a. induction b as [|d b IH]; intros a; cbn.
  - tauto.
  - rewrite IH, add_key_In. split; [intros [[->|H]|H]; auto | intros [H|[->|H]]; auto].
Qed.

Lemma merged_keys_In c evs acc :
  In c (fold_left (fun acc ev => union_keys acc (ev_keys ev)) evs acc) <->
  In c acc \/ exists ev, In ev evs /\ In c (ev_keys ev).
Proof.
  revert acc. induction evs as [|ev evs IH]; intros acc; cbn.
  - split; [auto | intros [H|[ev [[] _]]]; exact H].
  - rewrite IH, union_keys_In. split.
    + intros [[H|H]|[ev' [H1 H2]]]; [auto | right; exists ev; auto | right; exists ev'; auto].
    + intros [H|[ev' [[->|H1] H2]]]; [auto | auto | right; exists ev'; auto].
Qed.

Lemma merge_keys_In f wp evs c :
  In c (keys (merge_events f wp evs)) <-> exists ev, In ev evs /\ In c (ev_keys ev).
Proof. unfold merge_events; cbn [keys]. rewrite merged_keys_In. split; [intros [[]|H]; exact H | auto]. Qed.

(* reasons of the merged request *)
Lemma merge_headless_only f wp evs :
  headless_reason (merge_events f wp evs) = true ->
  forall ev, In ev evs -> ev_reason ev = RHeadless.
Proof.
  unfold headless_reason, merge_events; cbn. intros H ev Hin.
  apply andb_prop in H. destruct H as [H Ho]. apply andb_prop in H. destruct H as [_ Hs].
  apply Bool.negb_true_iff in Ho. apply Bool.negb_true_iff in Hs.
  destruct (ev_reason ev) eqn:E; [reflexivity | |].
  - assert (existsb (fun ev => match ev_reason ev with RServiceUpdate => true | _ => false end) evs = true) as X.
    { apply existsb_exists. exists ev. rewrite E. auto. }
    congruence.
  - assert (existsb (fun ev => match ev_reason ev with ROther => true | _ => false end) evs = true) as X.
    { apply existsb_exists. exists ev. rewrite E. auto. }
    congruence.
Qed.

(* ------------------------------------------------------------------ regenerated table obligations
   (finite: 2 flags x 5 xDS types x 5 node types x all kinds) *)
Definition tables_skip_sound_b : bool :=
  forallb (fun sc => forallb (fun jw => forallb (fun x => forallb (fun t =>
    forallb (fun k => negb (dep_real (mk_env sc jw 0) x t k)) (skip_table (mk_env sc jw 0) x t))
  all_node_types) all_xds) [true; false]) [true; false].

Lemma tables_skip_sound_check : tables_skip_sound_b = true.
Proof. vm_compute. reflexivity. Qed.

Lemma all_xds_complete x : In x all_xds.  Proof. destruct x; cbn; tauto. Qed.
Lemma all_nt_complete t : In t all_node_types.  Proof. destruct t; cbn; tauto. Qed.
Lemma all_bool_complete (b : bool) : In b [true; false].  Proof. destruct b; cbn; tauto. Qed.

(* dep_real / skip_table do not read root_ns *)
Lemma dep_real_root sc jw root x t k : dep_real (mk_env sc jw root) x t k = dep_real (mk_env sc jw 0) x t k.
Proof. reflexivity. Qed.
Lemma skip_table_root sc jw root x t : skip_table (mk_env sc jw root) x t = skip_table (mk_env sc jw 0) x t.
Proof. reflexivity. Qed.

Lemma tables_skip_sound sc jw root x t k :
  In k (skip_table (mk_env sc jw root) x t) -> dep_real (mk_env sc jw root) x t k = false.
Proof.
  rewrite skip_table_root, dep_real_root. intros Hin.
  pose proof tables_skip_sound_check as H. unfold tables_skip_sound_b in H.
  rewrite forallb_forall in H. specialize (H sc (all_bool_complete sc)).
  rewrite forallb_forall in H. specialize (H jw (all_bool_complete jw)).
  rewrite forallb_forall in H. specialize (H x (all_xds_complete x)).
  rewrite forallb_forall in H. specialize (H t (all_nt_complete t)).
  rewrite forallb_forall in H. specialize (H k Hin).
  apply Bool.negb_true_iff in H. exact H.
Qed.

(* ServiceEntry is never skipped by LDS / RDS / EDS / NDS / CDS: the deferred-ServiceEntry logic of the loops relies on it *)
Definition se_not_skipped_b : bool :=
  forallb (fun sc => forallb (fun jw => forallb (fun x => forallb (fun t =>
    negb (kmem K_ServiceEntry (skip_table (mk_env sc jw 0) x t))) all_node_types) all_xds) [true; false]) [true; false].
Lemma se_not_skipped_check : se_not_skipped_b = true.
Proof. vm_compute. reflexivity. Qed.

Lemma se_not_skipped sc jw root x t : kmem K_ServiceEntry (skip_table (mk_env sc jw root) x t) = false.
Proof.
  rewrite skip_table_root.
  pose proof se_not_skipped_check as H. unfold se_not_skipped_b in H.
  rewrite forallb_forall in H. specialize (H sc (all_bool_complete sc)).
  rewrite forallb_forall in H. specialize (H jw (all_bool_complete jw)).
  rewrite forallb_forall in H. specialize (H x (all_xds_complete x)).
  rewrite forallb_forall in H. specialize (H t (all_nt_complete t)).
  apply Bool.negb_true_iff in H. exact H.
Qed.

(* push order: CDS before EDS, LDS before RDS, no duplicates *)
Fixpoint index_of (s : string) (l : list string) : option nat :=
  match l with [] => None | x :: l => if String.eqb s x then Some 0 else option_map S (index_of s l) end.
Definition before (a b : string) (l : list string) : bool :=
  match index_of a l, index_of b l with Some i, Some j => Nat.ltb i j | _, _ => false end.
Fixpoint nodup_s (l : list string) : bool :=
  match l with [] => true | x :: l => negb (existsb (String.eqb x) l) && nodup_s l end.
Lemma push_order_ok :
  before "ClusterType" "EndpointType" push_order = true /\ before "ListenerType" "RouteType" push_order = true /\
  nodup_s push_order = true.
Proof. vm_compute. auto. Qed.

(* updateContext: every PushContext index is rebuilt when a kind it is declared to read changes.
   Declared inputs per init function (from reading push_context.go): *)
Definition ctx_field_deps : list (string * list kind) :=
  [ ("initServiceRegistry", [K_ServiceEntry; K_DNSName]);
    ("initKubernetesGateways", [K_ServiceEntry; K_DNSName]);
    ("initVirtualServices", [K_VirtualService]);
    ("initDestinationRules", [K_DestinationRule]);
    ("initAuthnPolicies", [K_RequestAuthentication; K_PeerAuthentication]);
    ("initAuthorizationPolicies", [K_AuthorizationPolicy]);
    ("initTelemetry", [K_Telemetry; K_ServiceEntry; K_DNSName]);
    ("initProxyConfigs", [K_ProxyConfig]);
    ("initTrafficExtensions", [K_TrafficExtension]);
    ("initEnvoyFilters", [K_EnvoyFilter]);
    ("initGateways", [K_Gateway]);
    ("initSidecarScopes", [K_ServiceEntry; K_DNSName; K_VirtualService; K_DestinationRule; K_Sidecar; K_PeerAuthentication; K_RequestAuthentication]) ].

Definition rebuilt_on (init : string) (k : kind) : bool :=
  existsb (String.eqb init) ctx_always ||
  existsb (fun row => String.eqb (fst row) init &&
                      existsb (fun f => existsb (String.eqb f) (ctx_flags_of_kind k)) (snd row)) ctx_ladder.

Definition ctx_ladder_sound_b : bool :=
  forallb (fun row => forallb (fun k => rebuilt_on (fst row) k) (snd row)) ctx_field_deps.
Lemma ctx_ladder_sound_check : ctx_ladder_sound_b = true.
Proof. vm_compute. reflexivity. Qed.

(* computeProxyState: whenever updateContext rebuilds the sidecar scopes because a kind that can change a
   scope's content changed, the proxy's own SidecarScope is recomputed too *)
Definition scope_content_kinds := [K_ServiceEntry; K_VirtualService; K_DestinationRule; K_Sidecar; K_PeerAuthentication].
Lemma scope_reset_sound_check :
  forallb (fun k => implb (rebuilt_on "initSidecarScopes" k) (kmem k resets_scope_kinds)) scope_content_kinds = true /\
  kmem K_Gateway resets_gateway_kinds = true.
Proof. vm_compute. auto. Qed.
