From V Require Import C01.Model C01.Spec C01.Proofs C01.Proofs2.

Section Main.
  Variables (sc jw : bool) (root : N).
  Let e := mk_env sc jw root.
  Variables (f wp : bool) (evs : list event) (p : proxy).
  Let r := merge_events f wp evs.

  Lemma se_trigger_lds c : kk c = K_ServiceEntry -> lds_trigger e p c = true.
  Proof.
    intros Hk. unfold lds_trigger. rewrite Hk.
    pose proof (se_not_skipped sc jw root LDS (ptype p)) as H. cbn [skip_table] in H. fold e in H. rewrite H.
    reflexivity.
  Qed.
  Lemma se_trigger_rds c : kk c = K_ServiceEntry -> rds_trigger e p c = true.
  Proof.
    intros Hk. unfold rds_trigger. rewrite Hk.
    pose proof (se_not_skipped sc jw root RDS (ptype p)) as H. cbn [skip_table] in H. fold e in H. rewrite H.
    reflexivity.
  Qed.

  Lemma ekind_cases ev c :
    (ekind_of ev c = HeadlessMarker /\ kk c = K_ServiceEntry /\ ev_reason ev = RHeadless) \/
    ekind_of ev c = Real (kk c).
  Proof.
    unfold ekind_of. destruct (ev_reason ev); auto.
    destruct (kind_eqb (kk c) K_ServiceEntry) eqn:E; auto. apply kind_eqb_eq in E. auto.
  Qed.

  Theorem skip_justified_thm x :
    needs_push x e r p = false -> skip_justified e x p wp evs = true.
  Proof.
    intros H. unfold skip_justified. apply forallb_forall. intros ev Hev. apply forallb_forall. intros c Hc.
    apply Bool.negb_true_iff.
    assert (Hin : In c (keys r)). { apply merge_keys_In. exists ev. auto. }
    destruct (nt_eqb (ptype p) NT_Ztunnel) eqn:Ez.
    { apply ztunnel_dep_false. destruct (ptype p); try discriminate Ez. reflexivity. }
    assert (Hz : ptype p <> NT_Ztunnel). { intros X. rewrite X in Ez. discriminate Ez. }
    pose proof (not_ztunnel_not_forced sc jw root f wp evs p x H Hz) as Hx. fold e r in Hx.
    destruct x; cbn [needs_push] in H.
    - (* CDS *)
      unfold cds_needs_push in H. rewrite Hx in H.
      destruct (waypoint_gate e r p) eqn:Eg; [discriminate H|].
      destruct (headless_reason r && forallb (fun c => kind_eqb (kk c) K_ServiceEntry) (keys r)) eqn:Eh.
      + apply andb_prop in Eh. destruct Eh as [Eh1 Eh2].
        pose proof (merge_headless_only f wp evs Eh1 ev Hev) as Hr.
        rewrite forallb_forall in Eh2. specialize (Eh2 c Hin).
        unfold ekind_of. rewrite Hr, Eh2. unfold dep_key. destruct (ptype p); reflexivity.
      + cbn [snd] in H. apply Bool.orb_false_iff in H. destruct H as [_ H].
        apply Bool.negb_false_iff in H.
        assert (Hrel : cds_relevant e p c = false).
        { destruct (cds_relevant e p c) eqn:Er; [|reflexivity].
          assert (In c (filter (cds_relevant e p) (keys r))) as X by (apply filter_In; auto).
          destruct (filter (cds_relevant e p) (keys r)); [destruct X | discriminate H]. }
        destruct (ekind_cases ev c) as [[-> _]| ->].
        * unfold dep_key. destruct (ptype p); reflexivity.
        * apply (real_skipped_dep_false sc jw root f wp evs p CDS c Hz (fun _ => Eg) Hin).
          left. cbn [skip_table]. apply filter_In. unfold cds_relevant in Hrel.
          apply Bool.orb_false_iff in Hrel. destruct Hrel as [H1 H2].
          apply Bool.negb_false_iff in H2. apply kmem_In in H2. split; [exact H2|]. cbv beta. fold e. rewrite H1. reflexivity.
    - (* EDS *)
      unfold eds_needs_push in H. rewrite Hx in H.
      destruct (waypoint_gate e r p) eqn:Eg; [discriminate H|].
      assert (Hsk : kmem (kk c) (skippedEdsConfigs (fl e)) = true).
      { destruct (kmem (kk c) (skippedEdsConfigs (fl e))) eqn:Ek; [reflexivity|].
        assert (existsb (fun c => negb (kmem (kk c) (skippedEdsConfigs (fl e)))) (keys r) = true) as X.
        { apply existsb_exists. exists c. rewrite Ek. auto. }
        congruence. }
      destruct (ekind_cases ev c) as [[_ [Hk _]]| ->].
      + pose proof (se_not_skipped sc jw root EDS (ptype p)) as X. cbn [skip_table] in X. fold e in X.
        rewrite Hk in Hsk. congruence.
      + apply (real_skipped_dep_false sc jw root f wp evs p EDS c Hz (fun _ => Eg) Hin).
        left. cbn [skip_table]. apply kmem_In. exact Hsk.
    - (* LDS *)
      unfold lds_needs_push in H. rewrite Hx in H.
      destruct (waypoint_gate e r p) eqn:Eg; [discriminate H|].
      apply (loop_false (lds_step e r p) (lds_trigger e p)) in H; [|intros; apply lds_step_spec].
      destruct H as [[Hh Hall]|Hall].
      + apply andb_prop in Hh. destruct Hh as [Hrt Hh].
        pose proof (merge_headless_only f wp evs Hh ev Hev) as Hr.
        rewrite forallb_forall in Hall. specialize (Hall c Hin). unfold is_se in Hall.
        unfold ekind_of. rewrite Hr, Hall. unfold dep_key.
        destruct (ptype p); try discriminate Hrt. reflexivity.
      + rewrite forallb_forall in Hall. specialize (Hall c Hin). apply Bool.negb_true_iff in Hall.
        destruct (ekind_cases ev c) as [[_ [Hk _]]| ->].
        * rewrite (se_trigger_lds c Hk) in Hall. discriminate Hall.
        * apply (real_skipped_dep_false sc jw root f wp evs p LDS c Hz (fun _ => Eg) Hin).
          unfold lds_trigger in Hall. apply Bool.andb_false_iff in Hall. destruct Hall as [Hs|Hpa].
          -- left. apply Bool.negb_false_iff in Hs. cbn [skip_table]. apply kmem_In. exact Hs.
          -- right. left. apply Bool.negb_false_iff in Hpa.
             apply andb_prop in Hpa. destruct Hpa as [Hpa H3]. apply andb_prop in Hpa. destruct Hpa as [H1 H2].
             apply kind_eqb_eq in H1. apply Bool.negb_true_iff in H2. apply Bool.negb_true_iff in H3. auto.
    - (* RDS *)
      unfold rds_needs_push in H. rewrite Hx in H.
      destruct (waypoint_gate e r p) eqn:Eg; [discriminate H|].
      apply (loop_false (rds_step e r p) (rds_trigger e p)) in H; [|intros; apply rds_step_spec].
      destruct H as [[Hh Hall]|Hall].
      + pose proof (merge_headless_only f wp evs Hh ev Hev) as Hr.
        rewrite forallb_forall in Hall. specialize (Hall c Hin). unfold is_se in Hall.
        unfold ekind_of. rewrite Hr, Hall. unfold dep_key.
        destruct (ptype p); reflexivity.
      + rewrite forallb_forall in Hall. specialize (Hall c Hin). apply Bool.negb_true_iff in Hall.
        destruct (ekind_cases ev c) as [[_ [Hk _]]| ->].
        * rewrite (se_trigger_rds c Hk) in Hall. discriminate Hall.
        * apply (real_skipped_dep_false sc jw root f wp evs p RDS c Hz (fun _ => Eg) Hin).
          unfold rds_trigger in Hall. apply Bool.andb_false_iff in Hall. destruct Hall as [Hs|Hg].
          -- left. apply Bool.negb_false_iff in Hs. cbn [skip_table]. apply kmem_In. exact Hs.
          -- right. right. apply Bool.orb_false_iff in Hg. destruct Hg as [Hg H3].
             apply Bool.orb_false_iff in Hg. destruct Hg as [H1 H2].
             apply Bool.negb_false_iff in H1. apply kind_eqb_eq in H1. auto.
    - (* NDS *)
      unfold nds_needs_push in H. rewrite Hx in H.
      assert (Hsk : kmem (kk c) (skippedNdsConfigs (fl e)) = true).
      { destruct (kmem (kk c) (skippedNdsConfigs (fl e))) eqn:Ek; [reflexivity|].
        assert (existsb (fun c => negb (kmem (kk c) (skippedNdsConfigs (fl e)))) (keys r) = true) as X.
        { apply existsb_exists. exists c. rewrite Ek. auto. }
        congruence. }
      destruct (ekind_cases ev c) as [[_ [Hk _]]| ->].
      + pose proof (se_not_skipped sc jw root NDS (ptype p)) as X. cbn [skip_table] in X. fold e in X.
        rewrite Hk in Hsk. congruence.
      + apply (real_skipped_dep_false sc jw root f wp evs p NDS c Hz (fun X => False_ind _ (X eq_refl)) Hin).
        left. cbn [skip_table]. apply kmem_In. exact Hsk.
  Qed.
End Main.
