(* C01 — push scoping decisions.  Model of pilot/pkg/xds/{xdsgen,cds,lds,rds,eds,nds,proxy_dependencies}.go
   (xdsNeedsPush, waypointNeedsPush, cdsNeedsPush, ldsNeedsPush, rdsNeedsPush, edsNeedsPush, ndsNeedsPush,
   canSendPartialFullPushes, DefaultProxyNeedsPush/filterRelevantUpdates/proxyDependentOnConfig) and of
   PushContext.updateContext / computeProxyState, over the tables REGENERATED from the source by tools/tabgen
   (gen/Tables.v).  Definitions only. *)
From V Require Export lib.Verdict gen.Tables.

Definition kmem (k : kind) (l : list kind) : bool := existsb (kind_eqb k) l.

Inductive xds := CDS | EDS | LDS | RDS | NDS.
Definition all_xds := [CDS; EDS; LDS; RDS; NDS].

Record key := { kk : kind; kns : N; kname : N }.
Definition key_eqb (a b : key) : bool :=
  kind_eqb (kk a) (kk b) && N.eqb (kns a) (kns b) && N.eqb (kname a) (kname b).

(* what the decision functions read of a PushRequest *)
Record req := {
  forced : bool;
  keys : list key;                (* ConfigsUpdated, in the iteration order the loop happens to see *)
  r_headless : bool;              (* Reason.Has(HeadlessEndpointUpdate) *)
  r_service_update : bool;        (* Reason.Has(ServiceUpdate) *)
  r_other : bool;                 (* some reason other than those two is present *)
  wp_match : bool                 (* some WaypointsUpdated reference matches this proxy *)
}.

(* what they read of a proxy *)
Record proxy := {
  ptype : node_type;
  cfg_ns : N;                     (* proxy.ConfigNamespace *)
  is_ew : bool;                   (* IsAmbientEastWestGateway *)
  gw_changed : bool               (* router: auto-passthrough mode/hosts or gateway names differ from previous *)
}.

Record env := { fl : flag -> bool; root_ns : N }.

Definition nt_eqb (a b : node_type) : bool :=
  match a, b with
  | NT_SidecarProxy, NT_SidecarProxy | NT_Router, NT_Router | NT_Waypoint, NT_Waypoint
  | NT_Ztunnel, NT_Ztunnel | NT_Agentgateway, NT_Agentgateway => true
  | _, _ => false
  end.

(* xdsNeedsPush: Some b = definitive *)
Definition xds_needs_push (r : req) (p : proxy) : option bool :=
  if nt_eqb (ptype p) NT_Ztunnel then Some false
  else if forced r then Some true else None.

Definition has_kind (k : kind) (ks : list key) : bool := existsb (fun c => kind_eqb (kk c) k) ks.

(* waypointNeedsPush *)
Definition waypoint_needs_push (e : env) (r : req) (p : proxy) : bool :=
  if negb (has_kind K_Address (keys r)) then false
  else if is_ew p then true
  else if negb (fl e F_features_ScopedAddressPushes) then true
  else wp_match r.

Definition waypoint_gate (e : env) (r : req) (p : proxy) : bool :=
  nt_eqb (ptype p) NT_Waypoint && waypoint_needs_push e r p.

(* headlessEndpointUpdateOnly: every merged trigger is a headless endpoint update *)
Definition headless_reason (r : req) : bool := r_headless r && negb (r_service_update r) && negb (r_other r).

(* cdsNeedsPush: (filtered ConfigsUpdated, needsPush) *)
Definition cds_relevant (e : env) (p : proxy) (c : key) : bool :=
  (nt_eqb (ptype p) NT_Router && kmem (kk c) (pushCdsGatewayConfig (fl e)))
  || negb (kmem (kk c) (skippedCdsConfigs (fl e))).

Definition cds_needs_push (e : env) (r : req) (p : proxy) : list key * bool :=
  match xds_needs_push r p with
  | Some b => (keys r, b)
  | None =>
    if waypoint_gate e r p then (keys r, true) else
    let headless_only := headless_reason r && forallb (fun c => kind_eqb (kk c) K_ServiceEntry) (keys r) in
    let relevant := filter (cds_relevant e p) (keys r) in
    let check_gateway := nt_eqb (ptype p) NT_Router && has_kind K_Gateway (keys r) in
    if headless_only then (keys r, false) else
    let needs := check_gateway && gw_changed p in
    (relevant, needs || negb (match relevant with [] => true | _ => false end))
  end.

(* The loops of ldsNeedsPush / rdsNeedsPush, statement for statement.
   state = (headlessOnly, sawServiceEntry); result Some b = early return *)
Definition lds_step (e : env) (r : req) (p : proxy) (st : bool * bool) (c : key) : (bool * bool) * option bool :=
  let '(ho, saw) := st in
  if ho && kind_eqb (kk c) K_ServiceEntry then ((ho, true), None) else
  let ho' := false in
  if negb (kmem (kk c) (skippedLdsConfigs (fl e) (ptype p))) then
    if kind_eqb (kk c) K_PeerAuthentication && negb (N.eqb (kns c) (cfg_ns p)) && negb (N.eqb (kns c) (root_ns e))
    then ((ho', saw), None)
    else ((ho', saw), Some true)
  else ((ho', saw), None).

Fixpoint run_loop {S} (step : S -> key -> S * option bool) (st : S) (ks : list key) : S * option bool :=
  match ks with
  | [] => (st, None)
  | c :: ks => match step st c with
               | (st', Some b) => (st', Some b)
               | (st', None) => run_loop step st' ks
               end
  end.

Definition lds_needs_push (e : env) (r : req) (p : proxy) : bool :=
  match xds_needs_push r p with
  | Some b => b
  | None =>
    if waypoint_gate e r p then true else
    let ho0 := nt_eqb (ptype p) NT_Router && headless_reason r in
    match run_loop (lds_step e r p) (ho0, false) (keys r) with
    | (_, Some b) => b
    | ((ho, saw), None) => saw && negb ho
    end
  end.

Definition rds_step (e : env) (r : req) (p : proxy) (st : bool * bool) (c : key) : (bool * bool) * option bool :=
  let '(ho, saw) := st in
  if ho && kind_eqb (kk c) K_ServiceEntry then ((ho, true), None) else
  let ho' := false in
  if negb (kmem (kk c) (skippedRdsConfigs (fl e))) then
    if kind_eqb (kk c) K_Gateway then
      if nt_eqb (ptype p) NT_Router || is_ew p then ((ho', saw), Some true) else ((ho', saw), None)
    else ((ho', saw), Some true)
  else ((ho', saw), None).

Definition rds_needs_push (e : env) (r : req) (p : proxy) : bool :=
  match xds_needs_push r p with
  | Some b => b
  | None =>
    if waypoint_gate e r p then true else
    match run_loop (rds_step e r p) (headless_reason r, false) (keys r) with
    | (_, Some b) => b
    | ((ho, saw), None) => saw && negb ho
    end
  end.

Definition eds_needs_push (e : env) (r : req) (p : proxy) : bool :=
  match xds_needs_push r p with
  | Some b => b
  | None =>
    if waypoint_gate e r p then true else
    existsb (fun c => negb (kmem (kk c) (skippedEdsConfigs (fl e)))) (keys r)
  end.

Definition nds_needs_push (e : env) (r : req) (p : proxy) : bool :=
  match xds_needs_push r p with
  | Some b => b
  | None => existsb (fun c => negb (kmem (kk c) (skippedNdsConfigs (fl e)))) (keys r)
  end.

Definition needs_push (x : xds) (e : env) (r : req) (p : proxy) : bool :=
  match x with
  | CDS => snd (cds_needs_push e r p)
  | EDS => eds_needs_push e r p
  | LDS => lds_needs_push e r p
  | RDS => rds_needs_push e r p
  | NDS => nds_needs_push e r p
  end.

(* canSendPartialFullPushes *)
Definition can_send_partial (e : env) (r : req) : bool :=
  if forced r then false else
  forallb (fun c => kmem (kk c) (deltaAwareEdsConfigs (fl e)) &&
                    negb (kind_eqb (kk c) K_PeerAuthentication && N.eqb (kns c) (root_ns e))) (keys r).

(* ---- DefaultProxyNeedsPush --------------------------------------------------------------------
   SidecarScope.DependsOnConfig over the regenerated sidecar.go tables; a scope is (namespace, tracked keys). *)
Record scope := { sc_ns : N; sc_deps : list key }.

Definition depends_on_config (e : env) (sc : option scope) (c : key) : bool :=
  match sc with
  | None => true
  | Some s =>
    if kmem (kk c) (clusterScopedKnownConfigTypes (fl e)) then N.eqb (kns c) (root_ns e) || N.eqb (kns c) (sc_ns s)
    else if negb (kmem (kk c) (sidecarScopedKnownConfigTypes (fl e))) then true
    else existsb (key_eqb c) (sc_deps s)
  end.

(* what DefaultProxyNeedsPush reads of the proxy beyond [proxy] *)
Record pdeps := {
  cur_scope : option scope;          (* proxy.SidecarScope *)
  prev_scope : option scope;         (* proxy.PrevSidecarScope; None = nil *)
  watches_address : bool;            (* GetWatchedResource(AddressType) != nil *)
  svc_targets : list key;            (* ServiceEntry keys of the proxy's own ServiceTargets *)
  gw_visible : list key              (* router: ServiceEntry keys whose host is in (prev) scope; attachment filter is off *)
}.

Definition proxy_dependent (e : env) (p : proxy) (d : pdeps) (c : key) : bool :=
  if kmem (kk c) (UnAffectedConfigKinds (fl e) (ptype p)) then false
  else if fl e F_features_ScopedAddressPushes && kind_eqb (kk c) K_Address then watches_address d
  else match ptype p with
       | NT_SidecarProxy =>
           depends_on_config e (cur_scope d) c ||
           match prev_scope d with None => false | Some s => depends_on_config e (Some s) c end
       | NT_Router => if kind_eqb (kk c) K_ServiceEntry then existsb (key_eqb c) (gw_visible d) else true
       | _ => true
       end.

Definition relevant_updates (e : env) (p : proxy) (d : pdeps) (ks : list key) : list key :=
  filter (fun c => proxy_dependent e p d c || existsb (key_eqb c) (svc_targets d)) ks.

Definition is_nil {A} (l : list A) : bool := match l with [] => true | _ => false end.

Definition default_proxy_needs_push (e : env) (r : req) (p : proxy) (d : pdeps) : list key * bool :=
  if forced r then (keys r, true)
  else match ptype p with
       | NT_Waypoint | NT_Ztunnel | NT_Agentgateway => (keys r, true)
       | _ => let rel := relevant_updates e p d (keys r) in (rel, negb (is_nil rel))
       end.
