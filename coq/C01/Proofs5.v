From V Require Import C01.Model C01.Spec C01.Proofs.

(* DefaultProxyNeedsPush / filterRelevantUpdates never drops a key the proxy depends on *)
Lemma proxy_filter_keeps e r p d c :
  In c (keys r) -> proxy_dependent e p d c = true -> In c (fst (default_proxy_needs_push e r p d)).
Proof.
  intros Hin Hd. unfold default_proxy_needs_push.
  destruct (forced r); [exact Hin|].
  destruct (ptype p); try exact Hin; cbn [fst]; unfold relevant_updates; apply filter_In; rewrite Hd; auto.
Qed.

Lemma proxy_filter_skip_sound e r p d :
  snd (default_proxy_needs_push e r p d) = false ->
  forall c, In c (keys r) -> proxy_dependent e p d c = false /\ existsb (key_eqb c) (svc_targets d) = false.
Proof.
  unfold default_proxy_needs_push. destruct (forced r); [discriminate|].
  destruct (ptype p); try discriminate; cbn [snd]; intros H c Hin;
    apply Bool.negb_false_iff in H; unfold is_nil in H;
    destruct (relevant_updates e p d (keys r)) eqn:E; try discriminate H;
    unfold relevant_updates in E;
    destruct (proxy_dependent e p d c || existsb (key_eqb c) (svc_targets d)) eqn:X;
    try (apply Bool.orb_false_iff in X; exact X);
    (assert (In c (filter (fun c => proxy_dependent e p d c || existsb (key_eqb c) (svc_targets d)) (keys r))) as Y
       by (apply filter_In; auto)); rewrite E in Y; destruct Y.
Qed.

(* the per-type filter of cdsNeedsPush keeps every key CDS depends on *)
Lemma cds_filter_keeps sc jw root r p c :
  let e := mk_env sc jw root in
  In c (keys r) -> dep_real e CDS (ptype p) (kk c) = true -> In c (fst (cds_needs_push e r p)).
Proof.
  intros e Hin Hd. unfold cds_needs_push.
  destruct (xds_needs_push r p); [exact Hin|].
  destruct (waypoint_gate e r p); [exact Hin|].
  destruct (headless_reason r && forallb (fun c => kind_eqb (kk c) K_ServiceEntry) (keys r)); [exact Hin|].
  cbn [fst]. apply filter_In. split; [exact Hin|].
  unfold cds_relevant.
  destruct (nt_eqb (ptype p) NT_Router && kmem (kk c) (pushCdsGatewayConfig (fl e))) eqn:E1; [reflexivity|].
  cbn [orb]. apply Bool.negb_true_iff.
  destruct (kmem (kk c) (skippedCdsConfigs (fl e))) eqn:E2; [|reflexivity].
  assert (In (kk c) (skip_table e CDS (ptype p))) as X.
  { cbn [skip_table]. apply filter_In. split; [apply kmem_In; exact E2|]. rewrite E1. reflexivity. }
  apply (tables_skip_sound sc jw root) in X. fold e in X. congruence.
Qed.
