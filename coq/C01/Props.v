(* C01 property theorems only.  Hypotheses about the (unmodelled) generators are explicit premises. *)
From V Require Import C01.Model C01.Spec C01.Proofs C01.Proofs2 C01.Proofs3 C01.Proofs4 C01.Proofs5.

(* Regenerated obligation: no skip table (as translated from the CURRENT source) lists a kind its generator
   is declared to read — all flags, xDS types, node types, kinds. *)
Theorem C01_tables_skip_sound : forall sc jw root x t k,
  In k (skip_table (mk_env sc jw root) x t) -> dep_real (mk_env sc jw root) x t k = false.
Proof. exact tables_skip_sound. Qed.
Print Assumptions C01_tables_skip_sound.

(* Regenerated obligation: ServiceEntry is in no skip table (the deferred-ServiceEntry loops rely on it). *)
Theorem C01_service_entry_never_skipped : forall sc jw root x t,
  kmem K_ServiceEntry (skip_table (mk_env sc jw root) x t) = false.
Proof. exact se_not_skipped. Qed.
Print Assumptions C01_service_entry_never_skipped.

(* Regenerated obligation: push order has CDS before EDS and LDS before RDS, no duplicates. *)
Theorem C01_push_order :
  before "ClusterType" "EndpointType" push_order = true /\ before "ListenerType" "RouteType" push_order = true /\
  nodup_s push_order = true.
Proof. exact push_order_ok. Qed.
Print Assumptions C01_push_order.

(* Regenerated obligation: updateContext rebuilds every index whose declared inputs changed. *)
Theorem C01_context_ladder_sound : ctx_ladder_sound_b = true.
Proof. exact ctx_ladder_sound_check. Qed.
Print Assumptions C01_context_ladder_sound.

(* Regenerated obligation: computeProxyState recomputes the proxy's scope/gateways for every kind that
   can change their content. *)
Theorem C01_proxy_state_reset_sound :
  forallb (fun k => implb (rebuilt_on "initSidecarScopes" k) (kmem k resets_scope_kinds)) scope_content_kinds = true /\
  kmem K_Gateway resets_gateway_kinds = true.
Proof. exact scope_reset_sound_check. Qed.
Print Assumptions C01_proxy_state_reset_sound.

(* Every skip decision of every xDS type, for every merged batch of events and every proxy, is justified:
   no updated object is one the generator is declared to read. *)
Theorem C01_skip_justified : forall sc jw root f wp evs p x,
  needs_push x (mk_env sc jw root) (merge_events f wp evs) p = false ->
  skip_justified (mk_env sc jw root) x p wp evs = true.
Proof. exact skip_justified_thm. Qed.
Print Assumptions C01_skip_justified.

(* Second sentence of the property: what is not resent is identical before and after the change
   (premises: H_dep on the generators, the batch explains the world change, waypoint attachment is reported). *)
Theorem C01_skipped_unchanged :
  forall sc jw root (Res : Type) (G : xds -> proxy -> world -> Res) attached,
  (forall x p (W W' : world),
     (forall ek c, W ek c <> W' ek c -> dep_key (mk_env sc jw root) x p (attached p W W' c) ek c = false) ->
     G x p W = G x p W') ->
  forall x p f wp evs W W',
  needs_push x (mk_env sc jw root) (merge_events f wp evs) p = false ->
  explains evs W W' -> wp_reported attached p wp W W' ->
  G x p W = G x p W'.
Proof. exact skipped_unchanged. Qed.
Print Assumptions C01_skipped_unchanged.

(* First sentence: after any history, batched by the debouncer in ANY way, the client holds exactly what a
   fresh control plane would generate from the final state. *)
Theorem C01_convergence_any_batching :
  forall sc jw root (Res : Type) (G : xds -> proxy -> world -> Res) attached,
  (forall x p (W W' : world),
     (forall ek c, W ek c <> W' ek c -> dep_key (mk_env sc jw root) x p (attached p W W' c) ek c = false) ->
     G x p W = G x p W') ->
  (forall p W0 W1 W2 c, attached p W0 W2 c = true -> attached p W0 W1 c = true \/ attached p W1 W2 c = true) ->
  (forall p W c, attached p W W c = false) ->
  forall p (gs : list (list (change))) W0 cl,
  (forall x, cl x = G x p W0) -> valid_changes attached p W0 (List.concat gs) ->
  forall x, fold_left (server_step sc jw root Res G p) (batches_of W0 gs) cl x = G x p (last_world W0 (List.concat gs)).
Proof. exact convergence_any_batching. Qed.
Print Assumptions C01_convergence_any_batching.

(* Per-proxy filtering never drops an update the proxy depends on; a skipped proxy depends on none. *)
Theorem C01_proxy_filter_keeps : forall e r p d c,
  In c (keys r) -> proxy_dependent e p d c = true -> In c (fst (default_proxy_needs_push e r p d)).
Proof. exact proxy_filter_keeps. Qed.
Print Assumptions C01_proxy_filter_keeps.

Theorem C01_proxy_filter_skip_sound : forall e r p d,
  snd (default_proxy_needs_push e r p d) = false ->
  forall c, In c (keys r) -> proxy_dependent e p d c = false /\ existsb (key_eqb c) (svc_targets d) = false.
Proof. exact proxy_filter_skip_sound. Qed.
Print Assumptions C01_proxy_filter_skip_sound.

Theorem C01_cds_filter_keeps : forall sc jw root r p c,
  let e := mk_env sc jw root in
  In c (keys r) -> dep_real e CDS (ptype p) (kk c) = true -> In c (fst (cds_needs_push e r p)).
Proof. exact cds_filter_keeps. Qed.
Print Assumptions C01_cds_filter_keeps.

(* non-vacuity: a skip really happens (sidecar, an AuthorizationPolicy change: CDS skipped, LDS pushed) *)
Example C01_nonvacuous :
  let e := mk_env true false 0 in
  let p := {| ptype := NT_SidecarProxy; cfg_ns := 1; is_ew := false; gw_changed := false |} in
  let evs := [ {| ev_keys := [ {| kk := K_AuthorizationPolicy; kns := 1; kname := 0 |} ]; ev_reason := ROther |} ] in
  needs_push CDS e (merge_events false false evs) p = false /\
  needs_push LDS e (merge_events false false evs) p = true.
Proof. vm_compute. auto. Qed.
