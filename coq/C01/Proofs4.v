(* Abstract generators: skipped pushes leave the client's resources correct; convergence for every
   history and every batching of it. *)
From V Require Import C01.Model C01.Spec C01.Proofs C01.Proofs2 C01.Proofs3.

Definition world := ekind -> key -> N.     (* version of each object (0 = absent), per effective kind *)

Definition explains (evs : list event) (W W' : world) : Prop :=
  forall ek c, W ek c <> W' ek c -> exists ev, In ev evs /\ In c (ev_keys ev) /\ ekind_of ev c = ek.

Lemma explains_refl W : explains [] W W.
Proof. intros ek c H. congruence. Qed.

Lemma explains_app evs1 evs2 W0 W1 W2 :
  explains evs1 W0 W1 -> explains evs2 W1 W2 -> explains (evs1 ++ evs2) W0 W2.
Proof.
  intros H1 H2 ek c Hne.
  destruct (N.eq_dec (W0 ek c) (W1 ek c)) as [E|E].
  - destruct (H2 ek c) as [ev [Hin H]]; [congruence|]. exists ev. split; [apply in_or_app; auto | exact H].
  - destruct (H1 ek c E) as [ev [Hin H]]. exists ev. split; [apply in_or_app; auto | exact H].
Qed.

Lemma dep_key_att_mono e x p ek c : dep_key e x p false ek c = true -> dep_key e x p true ek c = true.
Proof.
  unfold dep_key. destruct ek as [k|]; [|auto].
  destruct (kind_eqb k K_Address); [|auto].
  destruct (ptype p), x; auto; rewrite !Bool.orb_false_r, Bool.orb_true_r; auto.
Qed.

Section Generators.
  Variables (sc jw : bool) (root : N).
  Let e := mk_env sc jw root.
  Variable Res : Type.
  Variable G : xds -> proxy -> world -> Res.
  (* attached p W W' c: the Address object c is attached to waypoint p in W or in W' *)
  Variable attached : proxy -> world -> world -> key -> bool.

  (* H_dep — the generators read only what Spec.dep_key declares (validated by sampling, not proved) *)
  Hypothesis H_dep : forall x p (W W' : world),
    (forall ek c, W ek c <> W' ek c -> dep_key e x p (attached p W W' c) ek c = false) ->
    G x p W = G x p W'.

  (* H_wp — the request reports every waypoint the changed objects are/were attached to (ambient index) *)
  Definition wp_reported (p : proxy) (wp : bool) (W W' : world) : Prop :=
    forall c, attached p W W' c = true -> wp = true.

  Theorem skipped_unchanged x p f wp evs W W' :
    needs_push x e (merge_events f wp evs) p = false ->
    explains evs W W' -> wp_reported p wp W W' ->
    G x p W = G x p W'.
  Proof.
    intros Hskip Hex Hwp. apply H_dep. intros ek c Hne.
    destruct (Hex ek c Hne) as [ev [Hev [Hc Hek]]].
    pose proof (skip_justified_thm sc jw root f wp evs p x Hskip) as Hj. fold e in Hj.
    unfold skip_justified in Hj. rewrite forallb_forall in Hj. specialize (Hj ev Hev).
    rewrite forallb_forall in Hj. specialize (Hj c Hc). apply Bool.negb_true_iff in Hj. rewrite Hek in Hj.
    destruct (attached p W W' c) eqn:Ea.
    - rewrite (Hwp c Ea) in Hj. exact Hj.
    - destruct wp; [|exact Hj].
      destruct (dep_key e x p false ek c) eqn:Ed; [|reflexivity].
      apply dep_key_att_mono in Ed. congruence.
  Qed.

  (* ---- convergence over histories *)
  Record batch := { b_evs : list event; b_forced : bool; b_wp : bool; b_world : world }.

  Definition server_step (p : proxy) (cl : xds -> Res) (b : batch) : xds -> Res :=
    fun x => if needs_push x e (merge_events (b_forced b) (b_wp b) (b_evs b)) p
             then G x p (b_world b) else cl x.

  Fixpoint valid_batches (p : proxy) (W0 : world) (bs : list batch) : Prop :=
    match bs with
    | [] => True
    | b :: bs => explains (b_evs b) W0 (b_world b) /\ wp_reported p (b_wp b) W0 (b_world b) /\
                 valid_batches p (b_world b) bs
    end.

  Definition final_world (W0 : world) (bs : list batch) : world :=
    fold_left (fun _ b => b_world b) bs W0.

  Theorem convergence p : forall bs W0 cl,
    (forall x, cl x = G x p W0) -> valid_batches p W0 bs ->
    forall x, fold_left (server_step p) bs cl x = G x p (final_world W0 bs).
  Proof.
    induction bs as [|b bs IH]; intros W0 cl Hcl Hv x; cbn [fold_left final_world].
    - apply Hcl.
    - destruct Hv as [Hex [Hwp Hv]]. apply (IH (b_world b)); [|exact Hv].
      intros y. unfold server_step.
      destruct (needs_push y e (merge_events (b_forced b) (b_wp b) (b_evs b)) p) eqn:En; [reflexivity|].
      rewrite Hcl. apply (skipped_unchanged y p (b_forced b) (b_wp b) (b_evs b)); assumption.
  Qed.

  (* ---- every batching of the same history converges to the same state.
     An atomic change = one event and the world after it; a batching groups consecutive changes; the
     merged batch carries all their events, is forced if any was, and reports a waypoint if any did. *)
  Record change := { c_ev : event; c_forced : bool; c_wp : bool; c_world : world }.

  Fixpoint valid_changes (p : proxy) (W0 : world) (cs : list change) : Prop :=
    match cs with
    | [] => True
    | c :: cs => explains [c_ev c] W0 (c_world c) /\ wp_reported p (c_wp c) W0 (c_world c) /\
                 valid_changes p (c_world c) cs
    end.

  Definition last_world (W0 : world) (cs : list change) : world := fold_left (fun _ c => c_world c) cs W0.

  Definition batch_of (W0 : world) (g : list change) : batch :=
    {| b_evs := map c_ev g; b_forced := existsb c_forced g; b_wp := existsb c_wp g; b_world := last_world W0 g |}.

  Fixpoint batches_of (W0 : world) (gs : list (list change)) : list batch :=
    match gs with
    | [] => []
    | g :: gs => batch_of W0 g :: batches_of (last_world W0 g) gs
    end.

  Lemma last_world_app W0 a b : last_world W0 (a ++ b) = last_world (last_world W0 a) b.
  Proof. unfold last_world. apply fold_left_app. Qed.

  Lemma valid_changes_app p W0 a b :
    valid_changes p W0 (a ++ b) <-> valid_changes p W0 a /\ valid_changes p (last_world W0 a) b.
  Proof.
    revert W0. induction a as [|c a IH]; intros W0; cbn [app valid_changes].
    - unfold last_world; cbn. tauto.
    - rewrite IH. unfold last_world at 2. cbn [fold_left]. fold (last_world (c_world c) a). tauto.
  Qed.

  (* attachment over a composed step is reported if it is reported over each atomic step: this is the
     form of H_wp for merged requests (WaypointsUpdated sets are unioned by PushRequest.Merge) *)
  Hypothesis attached_compose : forall p W0 W1 W2 c,
    attached p W0 W2 c = true -> attached p W0 W1 c = true \/ attached p W1 W2 c = true.
  Hypothesis attached_refl : forall p W c, attached p W W c = false.

  Lemma group_explained p : forall g W0,
    valid_changes p W0 g ->
    explains (map c_ev g) W0 (last_world W0 g) /\ wp_reported p (existsb c_wp g) W0 (last_world W0 g).
  Proof.
    induction g as [|c g IH]; intros W0 Hv.
    - unfold last_world; cbn. split; [apply explains_refl|]. intros k Hk. rewrite attached_refl in Hk. discriminate Hk.
    - destruct Hv as [Hex [Hwp Hv]]. destruct (IH _ Hv) as [IH1 IH2].
      unfold last_world. cbn [fold_left map existsb]. fold (last_world (c_world c) g). split.
      + change (c_ev c :: map c_ev g) with (([c_ev c] ++ map c_ev g)%list). eapply explains_app; eassumption.
      + intros k Hk. destruct (attached_compose _ _ (c_world c) _ _ Hk) as [H|H].
        * rewrite (Hwp k H). reflexivity.
        * rewrite (IH2 k H). apply Bool.orb_true_r.
  Qed.

  Lemma batches_valid p : forall gs W0,
    valid_changes p W0 (List.concat gs) -> valid_batches p W0 (batches_of W0 gs).
  Proof.
    induction gs as [|g gs IH]; intros W0 Hv; cbn [List.concat batches_of valid_batches]; [exact I|].
    cbn [List.concat] in Hv. apply valid_changes_app in Hv. destruct Hv as [Hg Hrest].
    destruct (group_explained p g W0 Hg) as [H1 H2].
    cbn [batch_of b_evs b_wp b_world]. repeat split; [exact H1 | exact H2 | apply IH; exact Hrest].
  Qed.

  Lemma final_world_batches : forall gs W0, final_world W0 (batches_of W0 gs) = last_world W0 (List.concat gs).
  Proof.
    induction gs as [|g gs IH]; intros W0; cbn [batches_of List.concat]; [reflexivity|].
    unfold final_world. cbn [fold_left b_world batch_of]. fold (final_world (last_world W0 g) (batches_of (last_world W0 g) gs)).
    rewrite IH, last_world_app. reflexivity.
  Qed.

  Theorem convergence_any_batching p gs W0 cl :
    (forall x, cl x = G x p W0) -> valid_changes p W0 (List.concat gs) ->
    forall x, fold_left (server_step p) (batches_of W0 gs) cl x = G x p (last_world W0 (List.concat gs)).
  Proof.
    intros Hcl Hv x. rewrite <- final_world_batches. apply convergence; [exact Hcl | apply batches_valid; exact Hv].
  Qed.
End Generators.
