(* C01 — specification side: what each generator is DECLARED to read (written from the generators,
   independently of the skip tables), change events with their trigger reason, and the merge of a
   debounced batch of events into one request. *)
From V Require Export C01.Model.

(* A ServiceEntry-kind key sent with reason HeadlessEndpointUpdate is only a marker: "the endpoints of
   this headless service changed" (endpointslice.go), not a change of the service definition. *)
Inductive ekind := Real (k : kind) | HeadlessMarker.

Inductive reason := RHeadless | RServiceUpdate | ROther.

Record event := { ev_keys : list key; ev_reason : reason }.

Definition ekind_of (ev : event) (c : key) : ekind :=
  match ev_reason ev with
  | RHeadless => if kind_eqb (kk c) K_ServiceEntry then HeadlessMarker else Real (kk c)
  | _ => Real (kk c)
  end.

(* Kinds each generator reads, per node type. *)
Definition dep_real (e : env) (x : xds) (t : node_type) (k : kind) : bool :=
  match t with
  | NT_Ztunnel => false          (* these generators do not serve ztunnel *)
  | _ =>
    match x with
    | CDS => kmem k [K_ServiceEntry; K_DestinationRule; K_VirtualService; K_Sidecar; K_EnvoyFilter;
                     K_PeerAuthentication; K_MeshConfig]
             || (nt_eqb t NT_Router &&
                 (kind_eqb k K_Gateway ||
                  (fl e F_features_JwksFetchMode_ne_jwt_Istiod && kind_eqb k K_RequestAuthentication)))
    | EDS => kmem k [K_ServiceEntry; K_Endpoints; K_DestinationRule; K_PeerAuthentication; K_MeshConfig]
    | LDS => kmem k [K_ServiceEntry; K_VirtualService; K_DestinationRule; K_Sidecar; K_EnvoyFilter;
                     K_AuthorizationPolicy; K_RequestAuthentication; K_PeerAuthentication; K_Telemetry;
                     K_WasmPlugin; K_TrafficExtension; K_MeshConfig]
             || (nt_eqb t NT_Router && kind_eqb k K_Gateway)
    | RDS => kmem k [K_ServiceEntry; K_VirtualService; K_DestinationRule; K_Sidecar; K_EnvoyFilter; K_MeshConfig]
             || (kind_eqb k K_Gateway)   (* refined per proxy in dep_key: router / east-west only *)
    | NDS => kmem k [K_ServiceEntry; K_DNSName; K_Sidecar]
    end
  end.

(* Refinement per key and proxy. [attached] = the changed Address object is (or was) attached to this waypoint. *)
Definition dep_key (e : env) (x : xds) (p : proxy) (attached : bool) (ek : ekind) (c : key) : bool :=
  match ek with
  | HeadlessMarker =>
      match ptype p, x with
      | NT_Ztunnel, _ => false
      | _, CDS => false                       (* cluster definitions do not embed headless endpoints *)
      | _, RDS => false                       (* cluster names in routes are static strings *)
      | NT_Router, LDS => false               (* routers build no per-instance listeners *)
      | _, _ => true
      end
  | Real k =>
      if kind_eqb k K_Address then
        match ptype p, x with
        | NT_Waypoint, (CDS | EDS | LDS | RDS) =>
            is_ew p || negb (fl e F_features_ScopedAddressPushes) || attached
        | _, _ => false
        end
      else if kind_eqb k K_PeerAuthentication && match x with LDS => true | _ => false end then
        dep_real e x (ptype p) k && (N.eqb (kns c) (cfg_ns p) || N.eqb (kns c) (root_ns e))
      else if kind_eqb k K_Gateway && match x with RDS => true | _ => false end then
        match ptype p with NT_Ztunnel => false | _ => nt_eqb (ptype p) NT_Router || is_ew p end
      else dep_real e x (ptype p) k
  end.

(* ---- merging a batch (PushRequest.Merge / CopyMerge as far as the decisions read it) *)
Definition add_key (c : key) (ks : list key) : list key :=
  if existsb (key_eqb c) ks then ks else ks ++ [c].
Definition union_keys (a b : list key) : list key := fold_left (fun acc c => add_key c acc) b a.

Definition merge_events (is_forced wp : bool) (evs : list event) : req :=
  {| forced := is_forced;
     keys := fold_left (fun acc ev => union_keys acc (ev_keys ev)) evs [];
     r_headless := existsb (fun ev => match ev_reason ev with RHeadless => true | _ => false end) evs;
     r_service_update := existsb (fun ev => match ev_reason ev with RServiceUpdate => true | _ => false end) evs;
     r_other := existsb (fun ev => match ev_reason ev with ROther => true | _ => false end) evs;
     wp_match := wp |}.

(* the skip tables as one function, for the regenerated obligation *)
Definition skip_table (e : env) (x : xds) (t : node_type) : list kind :=
  match x with
  | CDS => filter (fun k => negb (nt_eqb t NT_Router && kmem k (pushCdsGatewayConfig (fl e)))) (skippedCdsConfigs (fl e))
  | EDS => skippedEdsConfigs (fl e)
  | LDS => skippedLdsConfigs (fl e) t
  | RDS => skippedRdsConfigs (fl e)
  | NDS => skippedNdsConfigs (fl e)
  end.

(* every observed skip decision must be justified by the declared dependencies *)
Definition skip_justified (e : env) (x : xds) (p : proxy) (attached : bool) (evs : list event) : bool :=
  forallb (fun ev => forallb (fun c => negb (dep_key e x p attached (ekind_of ev c) c)) (ev_keys ev)) evs.

Definition mk_env (scoped jwks : bool) (root : N) : env :=
  {| fl := fun f => match f with
                    | F_features_ScopedAddressPushes => scoped
                    | F_features_JwksFetchMode_ne_jwt_Istiod => jwks
                    end;
     root_ns := root |}.
