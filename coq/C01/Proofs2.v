From V Require Import C01.Model C01.Spec C01.Proofs.
From Coq Require Import Lia.

(* ------------------------------------------------------------------ the loops of lds/rdsNeedsPush *)
Definition is_se (c : key) := kind_eqb (kk c) K_ServiceEntry.

Definition lds_trigger (e : env) (p : proxy) (c : key) : bool :=
  negb (kmem (kk c) (skippedLdsConfigs (fl e) (ptype p))) &&
  negb (kind_eqb (kk c) K_PeerAuthentication && negb (N.eqb (kns c) (cfg_ns p)) && negb (N.eqb (kns c) (root_ns e))).

Definition rds_trigger (e : env) (p : proxy) (c : key) : bool :=
  negb (kmem (kk c) (skippedRdsConfigs (fl e))) &&
  (negb (kind_eqb (kk c) K_Gateway) || nt_eqb (ptype p) NT_Router || is_ew p).

Lemma lds_step_spec e r p ho saw c :
  lds_step e r p (ho, saw) c =
  if ho && is_se c then ((ho, true), None)
  else if lds_trigger e p c then ((false, saw), Some true) else ((false, saw), None).
Proof.
  unfold lds_step, lds_trigger, is_se. destruct (ho && kind_eqb (kk c) K_ServiceEntry); [reflexivity|].
  destruct (kmem (kk c) (skippedLdsConfigs (fl e) (ptype p))); cbn [negb andb]; [reflexivity|].
  destruct (kind_eqb (kk c) K_PeerAuthentication && negb (N.eqb (kns c) (cfg_ns p)) && negb (N.eqb (kns c) (root_ns e))); reflexivity.
Qed.

Lemma rds_step_spec e r p ho saw c :
  rds_step e r p (ho, saw) c =
  if ho && is_se c then ((ho, true), None)
  else if rds_trigger e p c then ((false, saw), Some true) else ((false, saw), None).
Proof.
  unfold rds_step, rds_trigger, is_se. destruct (ho && kind_eqb (kk c) K_ServiceEntry); [reflexivity|].
  destruct (kmem (kk c) (skippedRdsConfigs (fl e))); cbn [negb andb]; [reflexivity|].
  destruct (kind_eqb (kk c) K_Gateway); cbn [negb orb]; [|reflexivity].
  destruct (nt_eqb (ptype p) NT_Router || is_ew p); reflexivity.
Qed.

(* generic loop lemma: a loop whose step has the above shape and that ends without an early return *)
Section Loop.
  Variable step : bool * bool -> key -> (bool * bool) * option bool.
  Variable trigger : key -> bool.
  Hypothesis step_spec : forall ho saw c,
    step (ho, saw) c = if ho && is_se c then ((ho, true), None)
                       else if trigger c then ((false, saw), Some true) else ((false, saw), None).

  Lemma loop_none ks : forall ho saw ho' saw',
    run_loop step (ho, saw) ks = ((ho', saw'), None) ->
    (ho' = true /\ ho = true /\ forallb is_se ks = true) \/
    (ho' = false /\ (saw' = false -> saw = false /\ forallb (fun c => negb (trigger c)) ks = true)).
  Proof.
    induction ks as [|c ks IH]; intros ho saw ho' saw' H; cbn [run_loop] in H.
    - inversion H; subst. destruct ho'; [left; auto | right; auto].
    - rewrite step_spec in H. destruct (ho && is_se c) eqn:E.
      + apply andb_prop in E. destruct E as [-> Ec].
        apply IH in H. destruct H as [[H1 [_ H3]]|[H1 H2]].
        * left. cbn [forallb]. rewrite Ec, H3. auto.
        * right. split; [exact H1|]. intros Hs. destruct (H2 Hs) as [X _]. discriminate X.
      + destruct (trigger c) eqn:T; [discriminate H|].
        apply IH in H. destruct H as [[_ [X _]]|[H1 H2]]; [discriminate X|].
        right. split; [exact H1|]. intros Hs. destruct (H2 Hs) as [Hsaw Hall].
        split; [exact Hsaw|]. cbn [forallb]. rewrite T, Hall. reflexivity.
  Qed.

  Lemma loop_some_true ks : forall (st st' : bool * bool) b, run_loop step st ks = (st', Some b) -> b = true.
  Proof.
    induction ks as [|c ks IH]; intros st st' b H; destruct st as [ho saw]; cbn [run_loop] in H; [discriminate H|].
    rewrite step_spec in H. destruct (ho && is_se c).
    - eapply IH; exact H.
    - destruct (trigger c); [inversion H; reflexivity | eapply IH; exact H].
  Qed.
End Loop.

(* a loop result "false" means: either headless-only with only ServiceEntry keys, or no key triggers *)
Lemma loop_false (step : bool * bool -> key -> (bool * bool) * option bool) (trigger : key -> bool) (ho0 : bool) (ks : list key) :
  (forall ho saw c, step (ho, saw) c = if ho && is_se c then ((ho, true), None)
                    else if trigger c then ((false, saw), Some true) else ((false, saw), None)) ->
  match run_loop step (ho0, false) ks with
  | (_, Some b) => b
  | ((ho, saw), None) => saw && negb ho
  end = false ->
  (ho0 = true /\ forallb is_se ks = true) \/ forallb (fun c => negb (trigger c)) ks = true.
Proof.
  intros Hs H. destruct (run_loop step (ho0, false) ks) as [[ho saw] [b|]] eqn:E.
  - apply (loop_some_true step trigger Hs) in E. congruence.
  - apply (loop_none step trigger Hs) in E. destruct E as [[_ [H1 H2]]|[H1 H2]]; [left; auto|].
    right. subst ho. cbn in H. rewrite Bool.andb_true_r in H. destruct (H2 H) as [_ X]. exact X.
Qed.

(* ------------------------------------------------------------------ skip decisions are justified *)
Section Justified.
  Variables (sc jw : bool) (root : N).
  Let e := mk_env sc jw root.
  Variables (f wp : bool) (evs : list event) (p : proxy).
  Let r := merge_events f wp evs.

  Lemma not_ztunnel_not_forced x :
    needs_push x e r p = false -> ptype p <> NT_Ztunnel -> xds_needs_push r p = None.
  Proof.
    intros H Hz. unfold xds_needs_push.
    destruct (nt_eqb (ptype p) NT_Ztunnel) eqn:Ez.
    { destruct (ptype p); try discriminate Ez. congruence. }
    destruct (forced r) eqn:Ef; [|reflexivity].
    exfalso. destruct x; cbn in H; unfold cds_needs_push, eds_needs_push, lds_needs_push, rds_needs_push, nds_needs_push,
      xds_needs_push in H; rewrite Ez, Ef in H; cbn in H; discriminate H.
  Qed.

  Lemma ztunnel_dep_false x att ek c : ptype p = NT_Ztunnel -> dep_key e x p att ek c = false.
  Proof.
    intros Hz. unfold dep_key. rewrite Hz. destruct ek as [k|]; [|destruct x; reflexivity].
    destruct (kind_eqb k K_Address); [destruct x; reflexivity|].
    destruct (kind_eqb k K_PeerAuthentication && match x with LDS => true | _ => false end); [reflexivity|].
    destruct (kind_eqb k K_Gateway && match x with RDS => true | _ => false end); [reflexivity|].
    reflexivity.
  Qed.

  (* waypoint gate off + an Address key present => that waypoint is not concerned *)
  Lemma gate_off_address c :
    waypoint_gate e r p = false -> In c (keys r) -> kk c = K_Address -> ptype p = NT_Waypoint ->
    (is_ew p || negb (fl e F_features_ScopedAddressPushes) || wp) = false.
  Proof.
    unfold waypoint_gate, waypoint_needs_push. intros H Hin Hk Ht. rewrite Ht in H. cbn [nt_eqb andb] in H.
    assert (has_kind K_Address (keys r) = true) as Hh.
    { unfold has_kind. apply existsb_exists. exists c. split; [exact Hin|]. rewrite Hk. apply kind_eqb_refl. }
    rewrite Hh in H. cbn [negb] in H.
    destruct (is_ew p); [discriminate H|]. destruct (fl e F_features_ScopedAddressPushes); cbn [negb] in *; [|discriminate H].
    unfold r, merge_events in H. cbn [wp_match] in H. rewrite H. reflexivity.
  Qed.

  (* the core case analysis: a key of a real kind that is in the skip table of x (and, for the
     refined kinds, satisfies the refinement's negation) is not a dependency *)
  Lemma real_skipped_dep_false x c :
    ptype p <> NT_Ztunnel ->
    (x <> NDS -> waypoint_gate e r p = false) -> In c (keys r) ->
    (In (kk c) (skip_table e x (ptype p)) \/
     (x = LDS /\ kk c = K_PeerAuthentication /\ N.eqb (kns c) (cfg_ns p) = false /\ N.eqb (kns c) (root_ns e) = false) \/
     (x = RDS /\ kk c = K_Gateway /\ nt_eqb (ptype p) NT_Router = false /\ is_ew p = false)) ->
    dep_key e x p wp (Real (kk c)) c = false.
  Proof.
    intros Hz Hg Hin Hcase. unfold dep_key.
    destruct (kind_eqb (kk c) K_Address) eqn:Ea.
    { apply kind_eqb_eq in Ea.
      destruct (ptype p) eqn:Et; try (destruct x; reflexivity).
      destruct x; try reflexivity;
        apply (gate_off_address c (Hg ltac:(discriminate)) Hin Ea Et). }
    destruct Hcase as [Hs|[[-> [Hk [H1 H2]]]|[-> [Hk [H1 H2]]]]].
    - pose proof (tables_skip_sound sc jw root x (ptype p) (kk c) Hs) as Hd. fold e in Hd.
      destruct (kind_eqb (kk c) K_PeerAuthentication && match x with LDS => true | _ => false end).
      { rewrite Hd. reflexivity. }
      destruct (kind_eqb (kk c) K_Gateway && match x with RDS => true | _ => false end) eqn:Eg; [|exact Hd].
      (* Gateway in the RDS skip table: impossible, dep_real RDS _ Gateway = true for non-ztunnel *)
      apply andb_prop in Eg. destruct Eg as [Eg Ex]. apply kind_eqb_eq in Eg. destruct x; try discriminate Ex.
      rewrite Eg in Hd. destruct (ptype p); try (vm_compute in Hd; discriminate Hd). congruence.
    - rewrite Hk. cbn [kind_eqb]. replace (kind_eqb K_PeerAuthentication K_PeerAuthentication) with true by reflexivity.
      cbn [andb]. rewrite H1, H2. cbn. apply Bool.andb_false_r.
    - rewrite Hk. replace (kind_eqb K_Gateway K_PeerAuthentication) with false by reflexivity.
      replace (kind_eqb K_Gateway K_Gateway) with true by reflexivity. cbn [andb].
      rewrite H1, H2. destruct (ptype p); reflexivity.
  Qed.
End Justified.
