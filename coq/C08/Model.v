(* C08 — generated Envoy RBAC decides every request as AuthorizationPolicy semantics say.

   Three parts, definitions only:
   1. SOURCE: AuthorizationPolicy syntax (the istio.security.v1beta1 proto restricted to the
      modelled grammar) and its semantics  [decision : list policy -> request -> bool].
   2. TARGET: the Envoy RBAC proto AST (Permission / Principal / StringMatcher / HeaderMatcher /
      CidrRange / regex shapes) with the reference evaluator [eval_filters].
   3. COMPILER: a branch-for-branch model of
        pilot/pkg/model/authorization.go        updateAuthorizationPoliciesResult  -> [split_actions]
        pilot/pkg/security/authz/builder        New / build[T] / Builder.build     -> [compile_filters], [build_action]
        pilot/pkg/security/authz/model/model.go New / Generate / rule.permission / rule.principal /
                                                checkError                         -> [new_model], [generate] ...
        pilot/pkg/security/authz/model/generator.go  *Generator                    -> [gen_perm], [gen_prin]
        pilot/pkg/security/authz/matcher        StringMatcherWithPrefix, HeaderMatcher, HostMatcher,
                                                PathMatcher                        -> [string_matcher_with_prefix] ...
        pilot/pkg/security/trustdomain/bundle.go ReplaceTrustDomainAliases          -> [replace_td_aliases]
   Strings are Coq [string]s holding the same bytes the Go code sees. *)
From Coq Require Import List NArith Bool String Ascii.
Import ListNotations.
Local Open Scope string_scope.
Local Open Scope list_scope.
Local Open Scope N_scope.

(* ------------------------------------------------------------------ string helpers (Go package strings) *)

Definition is_nil {A} (l : list A) : bool := match l with [] => true | _ => false end.

(* strings.HasPrefix *)
Definition has_prefix (p s : string) : bool := String.prefix p s.

(* strings.HasSuffix *)
Fixpoint has_suffix (p s : string) : bool :=
  String.eqb p s || match s with EmptyString => false | String _ s' => has_suffix p s' end.

Fixpoint drop (n : nat) (s : string) : string :=
  match n, s with
  | O, _ => s
  | S n', String _ s' => drop n' s'
  | S _, EmptyString => EmptyString
  end.

(* strings.TrimPrefix *)
Definition trim_prefix (p s : string) : string :=
  if has_prefix p s then drop (String.length p) s else s.

(* all but the last byte *)
Fixpoint drop_last (s : string) : string :=
  match s with
  | EmptyString => EmptyString
  | String a EmptyString => EmptyString
  | String a s' => String a (drop_last s')
  end.

Fixpoint last_is (c : ascii) (s : string) : bool :=
  match s with
  | EmptyString => false
  | String a EmptyString => Ascii.eqb a c
  | String _ s' => last_is c s'
  end.

Definition star : ascii := "*"%char.
Definition slash : ascii := "/"%char.

(* strings.TrimSuffix(s, "*") *)
Definition trim_star_suffix (s : string) : string := if last_is star s then drop_last s else s.
Definition first_is (c : ascii) (s : string) : bool :=
  match s with String a _ => Ascii.eqb a c | EmptyString => false end.

(* strings.Split(s, string(c)) — always at least one element *)
Fixpoint split_on (c : ascii) (s : string) : list string :=
  match s with
  | EmptyString => [EmptyString]
  | String a s' =>
      let r := split_on c s' in
      if Ascii.eqb a c then EmptyString :: r
      else match r with
           | [] => [String a EmptyString]
           | h :: t => String a h :: t
           end
  end.

Fixpoint contains_char (c : ascii) (s : string) : bool :=
  match s with EmptyString => false | String a s' => Ascii.eqb a c || contains_char c s' end.

Fixpoint join (sep : string) (l : list string) : string :=
  match l with
  | [] => EmptyString
  | [x] => x
  | x :: l' => (x ++ sep ++ join sep l')%string
  end.

(* ASCII lower-casing (Envoy ignore_case compares lower-cased strings) *)
Definition lower_ascii (a : ascii) : ascii :=
  let n := N_of_ascii a in
  if (65 <=? n) && (n <=? 90) then ascii_of_N (n + 32) else a.
Fixpoint lower (s : string) : string :=
  match s with EmptyString => EmptyString | String a s' => String (lower_ascii a) (lower s') end.

Definition digit_of (a : ascii) : option N :=
  let n := N_of_ascii a in if (48 <=? n) && (n <=? 57) then Some (n - 48) else None.

(* strconv.ParseUint(s, 10, _) without the overflow bound: digits only, non-empty *)
Fixpoint parse_digits (acc : N) (s : string) : option N :=
  match s with
  | EmptyString => Some acc
  | String a s' => match digit_of a with
                   | Some d => parse_digits (acc * 10 + d) s'
                   | None => None
                   end
  end.
Definition parse_uint (s : string) : option N :=
  match s with EmptyString => None | _ => parse_digits 0 s end.

(* model/util.go convertToPort: ParseUint(v,10,32) and p <= 65535 (an overflow of 32 bits is
   an error as well, so "parses and <= 65535" is the whole condition) *)
Definition convert_to_port (v : string) : option N :=
  match parse_uint v with
  | Some p => if p <=? 65535 then Some p else None
  | None => None
  end.

(* ------------------------------------------------------------------ IPv4 CIDR (netip.ParsePrefix / ParseAddr, IPv4 only) *)

Record cidr := { c_addr : N; c_len : N }.

(* one dotted-decimal field: 1..3 digits, no leading zero unless "0", <= 255 *)
Definition parse_octet (s : string) : option N :=
  if (3 <? N.of_nat (String.length s)) then None
  else if first_is "0"%char s && negb (String.eqb s "0") then None
  else match parse_uint s with
       | Some n => if n <=? 255 then Some n else None
       | None => None
       end.

Definition parse_ipv4 (s : string) : option N :=
  match split_on "."%char s with
  | [a; b; c; d] =>
      match parse_octet a, parse_octet b, parse_octet c, parse_octet d with
      | Some a, Some b, Some c, Some d => Some (((a * 256 + b) * 256 + c) * 256 + d)
      | _, _, _, _ => None
      end
  | _ => None
  end.

(* prefix length: digits, no leading zero unless "0", <= 32 *)
Definition parse_bits (s : string) : option N :=
  if (2 <? N.of_nat (String.length s)) then None
  else if first_is "0"%char s && negb (String.eqb s "0") then None
  else match parse_uint s with
       | Some n => if n <=? 32 then Some n else None
       | None => None
       end.

(* networking/util AddrStrToCidrRange: "a.b.c.d/len" or a bare address (= /32); the address is
   NOT masked (netip.ParsePrefix keeps the host bits; Envoy masks when matching) *)
Definition addr_str_to_cidr (s : string) : option cidr :=
  if contains_char slash s then
    match split_on slash s with
    | [a; b] => match parse_ipv4 a, parse_bits b with
                | Some ip, Some len => Some {| c_addr := ip; c_len := len |}
                | _, _ => None
                end
    | _ => None
    end
  else match parse_ipv4 s with
       | Some ip => Some {| c_addr := ip; c_len := 32 |}
       | None => None
       end.

(* Envoy CidrRange::isInRange for IPv4 *)
Definition in_cidr (c : cidr) (ip : N) : bool :=
  N.eqb (N.shiftr ip (32 - c_len c)) (N.shiftr (c_addr c) (32 - c_len c)).

(* ------------------------------------------------------------------ TARGET: regex shapes *)

(* Regexes in the shapes the generators emit.  [RLit] holds the UNESCAPED literal (the harness
   parser undoes regexp.QuoteMeta; an unescaped metacharacter is parsed as the operator it is). *)
Inductive re :=
| RFail | REps | RLit (s : string) | RAny | RNotSlash
| RSeq (a b : re) | RAlt (a b : re) | RStar (a : re) | RPlus (a : re) | ROpt (a : re).

Fixpoint nullable (r : re) : bool :=
  match r with
  | RFail => false | REps => true
  | RLit s => match s with EmptyString => true | _ => false end
  | RAny => false | RNotSlash => false
  | RSeq a b => nullable a && nullable b
  | RAlt a b => nullable a || nullable b
  | RStar _ => true | RPlus a => nullable a | ROpt _ => true
  end.

(* Brzozowski derivative *)
Fixpoint deriv (c : ascii) (r : re) : re :=
  match r with
  | RFail => RFail | REps => RFail
  | RLit s => match s with
              | EmptyString => RFail
              | String a s' => if Ascii.eqb a c then RLit s' else RFail
              end
  | RAny => REps
  | RNotSlash => if Ascii.eqb c slash then RFail else REps
  | RSeq a b => if nullable a then RAlt (RSeq (deriv c a) b) (deriv c b) else RSeq (deriv c a) b
  | RAlt a b => RAlt (deriv c a) (deriv c b)
  | RStar a => RSeq (deriv c a) (RStar a)
  | RPlus a => RSeq (deriv c a) (RStar a)
  | ROpt a => deriv c a
  end.

(* full match, as Envoy's safe_regex (RE2 FullMatch) *)
Fixpoint re_match (r : re) (s : string) : bool :=
  match s with
  | EmptyString => nullable r
  | String c s' => re_match (deriv c r) s'
  end.

(* canonical form for comparing two regex trees: sequences flattened and right-nested, adjacent
   literals merged, empty literals dropped *)
Fixpoint mkseq (l : list re) : re :=
  match l with [] => REps | [x] => x | x :: l' => RSeq x (mkseq l') end.
Fixpoint merge_lits (l : list re) : list re :=
  match l with
  | [] => []
  | RLit a :: rest => match merge_lits rest with
                      | RLit b :: rest' => RLit (a ++ b)%string :: rest'
                      | m => RLit a :: m
                      end
  | x :: rest => x :: merge_lits rest
  end.
Fixpoint flat (r : re) : list re :=
  match r with
  | REps => []
  | RLit s => match s with EmptyString => [] | _ => [RLit s] end
  | RSeq a b => flat a ++ flat b
  | RAlt a b => [RAlt (mkseq (merge_lits (flat a))) (mkseq (merge_lits (flat b)))]
  | RStar a => [RStar (mkseq (merge_lits (flat a)))]
  | RPlus a => [RPlus (mkseq (merge_lits (flat a)))]
  | ROpt a => [ROpt (mkseq (merge_lits (flat a)))]
  | x => [x]
  end.
Definition canon (r : re) : re := mkseq (merge_lits (flat r)).

Fixpoint re_eqb (a b : re) : bool :=
  match a, b with
  | RFail, RFail | REps, REps | RAny, RAny | RNotSlash, RNotSlash => true
  | RLit x, RLit y => String.eqb x y
  | RSeq a1 a2, RSeq b1 b2 | RAlt a1 a2, RAlt b1 b2 => re_eqb a1 b1 && re_eqb a2 b2
  | RStar x, RStar y | RPlus x, RPlus y | ROpt x, ROpt y => re_eqb x y
  | _, _ => false
  end.

(* envoy.extensions.path.match.uri_template: "*" = one non-empty path segment, "**" = any
   (possibly empty) rest incl. "/", anything else literal (the pchar restriction is not modelled) *)
Fixpoint template_re (t : string) : re :=
  match t with
  | String "*" (String "*" rest) => RSeq (RStar RAny) (template_re rest)
  | String "*" rest => RSeq (RPlus RNotSlash) (template_re rest)
  | String a rest => RSeq (RLit (String a EmptyString)) (template_re rest)
  | EmptyString => REps
  end.

(* ------------------------------------------------------------------ TARGET: matchers and RBAC AST *)

(* envoy.type.matcher.v3.StringMatcher *)
Inductive smatch :=
| SExact (s : string) (ignore_case : bool)
| SPrefix (s : string) (ignore_case : bool)
| SSuffix (s : string) (ignore_case : bool)
| SRegex (r : re).

Definition eval_smatch (m : smatch) (x : string) : bool :=
  match m with
  | SExact s ic => if ic then String.eqb (lower s) (lower x) else String.eqb s x
  | SPrefix s ic => if ic then has_prefix (lower s) (lower x) else has_prefix s x
  | SSuffix s ic => if ic then has_suffix (lower s) (lower x) else has_suffix s x
  | SRegex r => re_match r x
  end.

(* envoy.config.route.v3.HeaderMatcher (present_match / string_match; no invert) *)
Inductive hmatch := HPresent | HString (m : smatch).

(* envoy.type.matcher.v3.ValueMatcher over JWT payload metadata *)
Inductive vmatch := VString (m : smatch) | VOr (l : list vmatch) | VList (one_of : vmatch).

Inductive perm :=
| PAny | PAnd (l : list perm) | POr (l : list perm) | PNot (p : perm)
| PHeader (name : string) (m : hmatch)
| PUrlPath (m : smatch)
| PDestPort (p : N)
| PDestIP (c : cidr)
| PSNI (m : smatch)
| PMetadata (filter : string) (path : list string) (v : vmatch)
| PUriTemplate (t : string).

Inductive prin :=
| IAny | IAnd (l : list prin) | IOr (l : list prin) | INot (p : prin)
| IAuthenticated (m : smatch)
| IFilterState (key : string) (m : smatch)
| IDirectRemoteIP (c : cidr)
| IRemoteIP (c : cidr)
| IHeader (name : string) (m : hmatch)
| IMetadata (filter : string) (path : list string) (v : vmatch).

(* envoy.config.rbac.v3.Policy *)
Record rpolicy := { rp_permissions : list perm; rp_principals : list prin }.

Inductive raction := RAllow | RDeny | RLog.

(* envoy.config.rbac.v3.RBAC; the policies map is rendered as a list keyed by
   (policy id, rule index) parsed from the generated name ns[..]-policy[..]-rule[i] *)
Record rbac := { rb_action : raction; rb_policies : list ((N * N) * rpolicy) }.

(* one envoy.filters.{http,network}.rbac filter *)
Record rfilter := { f_rules : option rbac; f_shadow : option rbac }.

(* ------------------------------------------------------------------ requests *)

(* JWT payload as Envoy's jwt_authn filter stores it in dynamic metadata
   (envoy.filters.http.jwt_authn / payload): nested structs, strings and lists of strings *)
Inductive jval := JStr (s : string) | JList (l : list string) | JObj (fields : list (string * jval)).

Record request := {
  r_peer : option string;       (* mTLS peer identity without the scheme: "td/ns/n/sa/s"; None = plaintext *)
  r_src_ip : N;                 (* direct remote address *)
  r_remote_ip : N;              (* remote address after XFF / proxy protocol *)
  r_dst_ip : N;
  r_dst_port : N;
  r_sni : string;               (* requested server name, "" when none *)
  r_headers : list (string * string); (* lower-case names, incl. ":authority" and ":method"; [] on a raw TCP connection *)
  r_path : option string;       (* None on a raw TCP connection *)
  r_jwt : option (list (string * jval))  (* verified JWT payload, None when no token *)
}.

Fixpoint assoc (k : string) (l : list (string * string)) : option string :=
  match l with
  | [] => None
  | (k', v) :: l' => if String.eqb k k' then Some v else assoc k l'
  end.

Definition header (name : string) (r : request) : option string := assoc (lower name) (r_headers r).

Definition spiffe_prefix : string := "spiffe://".

(* the URI SAN Envoy's Authenticated principal / istio's io.istio.peer_principal filter state hold *)
Definition peer_san (r : request) : option string :=
  match r_peer r with Some p => Some (spiffe_prefix ++ p)%string | None => None end.

(* ------------------------------------------------------------------ TARGET: evaluator (reference semantics of the RBAC proto) *)

Definition eval_hmatch (m : hmatch) (v : option string) : bool :=
  match v with
  | None => false
  | Some x => match m with HPresent => true | HString sm => eval_smatch sm x end
  end.

Fixpoint jfield (k : string) (l : list (string * jval)) : option jval :=
  match l with
  | [] => None
  | (k', v) :: l' => if String.eqb k k' then Some v else jfield k l'
  end.

Fixpoint jpath (path : list string) (v : jval) : option jval :=
  match path with
  | [] => Some v
  | k :: path' => match v with
                  | JObj fs => match jfield k fs with Some v' => jpath path' v' | None => None end
                  | _ => None
                  end
  end.

Fixpoint eval_vmatch (m : vmatch) (v : jval) : bool :=
  match m with
  | VString sm => match v with JStr s => eval_smatch sm s | _ => false end
  | VOr l => existsb (fun m' => eval_vmatch m' v) l
  | VList one => match v with
                 | JList xs => existsb (fun x => eval_vmatch one (JStr x)) xs
                 | _ => false
                 end
  end.

Definition jwt_filter : string := "envoy.filters.http.jwt_authn".
Definition jwt_payload : string := "payload".

(* dynamic metadata: only the jwt_authn filter's "payload" key is modelled *)
Definition eval_metadata (filter : string) (path : list string) (v : vmatch) (r : request) : bool :=
  if String.eqb filter jwt_filter then
    match path, r_jwt r with
    | k :: path', Some payload =>
        if String.eqb k jwt_payload then
          match jpath path' (JObj payload) with Some x => eval_vmatch v x | None => false end
        else false
    | _, _ => false
    end
  else false.

Fixpoint eval_perm (p : perm) (r : request) : bool :=
  match p with
  | PAny => true
  | PAnd l => forallb (fun q => eval_perm q r) l
  | POr l => existsb (fun q => eval_perm q r) l
  | PNot q => negb (eval_perm q r)
  | PHeader n m => eval_hmatch m (header n r)
  | PUrlPath m => match r_path r with Some x => eval_smatch m x | None => false end
  | PDestPort p => N.eqb p (r_dst_port r)
  | PDestIP c => in_cidr c (r_dst_ip r)
  | PSNI m => eval_smatch m (r_sni r)
  | PMetadata f path v => eval_metadata f path v r
  | PUriTemplate t => match r_path r with Some x => re_match (template_re t) x | None => false end
  end.

Definition peer_principal_key : string := "io.istio.peer_principal".

Fixpoint eval_prin (p : prin) (r : request) : bool :=
  match p with
  | IAny => true
  | IAnd l => forallb (fun q => eval_prin q r) l
  | IOr l => existsb (fun q => eval_prin q r) l
  | INot q => negb (eval_prin q r)
  | IAuthenticated m => match peer_san r with Some x => eval_smatch m x | None => false end
  | IFilterState k m =>
      if String.eqb k peer_principal_key
      then match peer_san r with Some x => eval_smatch m x | None => false end
      else false
  | IDirectRemoteIP c => in_cidr c (r_src_ip r)
  | IRemoteIP c => in_cidr c (r_remote_ip r)
  | IHeader n m => eval_hmatch m (header n r)
  | IMetadata f path v => eval_metadata f path v r
  end.

Definition eval_rpolicy (p : rpolicy) (r : request) : bool :=
  existsb (fun q => eval_perm q r) (rp_permissions p) &&
  existsb (fun q => eval_prin q r) (rp_principals p).

Definition rbac_matched (b : rbac) (r : request) : bool :=
  existsb (fun np => eval_rpolicy (snd np) r) (rb_policies b).

(* true = the request passes this filter *)
Definition eval_rbac (b : rbac) (r : request) : bool :=
  match rb_action b with
  | RAllow => rbac_matched b r
  | RDeny => negb (rbac_matched b r)
  | RLog => true
  end.

Definition eval_filter (f : rfilter) (r : request) : bool :=
  match f_rules f with None => true | Some b => eval_rbac b r end.

(* the filters run in order, the first one that rejects ends the request *)
Definition eval_filters (fs : list rfilter) (r : request) : bool :=
  forallb (fun f => eval_filter f r) fs.

(* ------------------------------------------------------------------ SOURCE: AuthorizationPolicy syntax *)

Record source := {
  s_principals : list string; s_not_principals : list string;
  s_request_principals : list string; s_not_request_principals : list string;
  s_namespaces : list string; s_not_namespaces : list string;
  s_ip_blocks : list string; s_not_ip_blocks : list string;
  s_remote_ip_blocks : list string; s_not_remote_ip_blocks : list string;
  s_service_accounts : list string; s_not_service_accounts : list string
}.

Record operation := {
  o_hosts : list string; o_not_hosts : list string;
  o_ports : list string; o_not_ports : list string;
  o_methods : list string; o_not_methods : list string;
  o_paths : list string; o_not_paths : list string
}.

Record condition := { w_key : string; w_values : list string; w_not_values : list string }.

Record rule := { from : list source; to : list operation; when : list condition }.

Inductive action := ALLOW | DENY | AUDIT.

Record policy := {
  p_id : N;             (* the policy is named "p<id>" (unique) *)
  p_ns : string;        (* metadata.namespace: default namespace of serviceAccounts values *)
  p_action : action;
  p_dry_run : bool;     (* istio.io/dry-run: "true" *)
  p_rules : list rule
}.

(* ------------------------------------------------------------------ attribute kinds
   One constructor per generator struct of generator.go; a [cond] is the Go struct
   model.rule {key, values, notValues, g / extended}. *)

Inductive kind :=
| KDestIP | KDestPort | KConnSNI                       (* permission side, from `when` *)
| KHost | KPath | KMethod                              (* permission side, from `to` *)
| KSrcIP | KRemoteIP | KSrcNamespace | KSrcPrincipal   (* principal side *)
| KSrcSvcAccount (default_ns : string)                 (* srcServiceAccountGenerator{policyName}: carries the policy namespace *)
| KReqHeader                                           (* principal side, HTTP only *)
| KReqPrincipal | KReqAudiences | KReqPresenter | KReqClaim.   (* principal side, HTTP only, "extended" *)

Record cond := { ck : kind; ckey : string; cvals : list string; cnots : list string }.

Definition is_extended (k : kind) : bool :=
  match k with KReqPrincipal | KReqAudiences | KReqPresenter | KReqClaim => true | _ => false end.

Definition http_only (k : kind) : bool :=
  match k with
  | KHost | KPath | KMethod | KReqHeader | KReqPrincipal | KReqAudiences | KReqPresenter | KReqClaim => true
  | _ => false
  end.

(* attribute names (model.go constants) *)
Definition attr_request_header := "request.headers".
Definition attr_src_ip := "source.ip".
Definition attr_remote_ip := "remote.ip".
Definition attr_src_namespace := "source.namespace".
Definition attr_src_principal := "source.principal".
Definition attr_src_service_account := "source.serviceAccount".
Definition attr_request_principal := "request.auth.principal".
Definition attr_request_audiences := "request.auth.audiences".
Definition attr_request_presenter := "request.auth.presenter".
Definition attr_request_claims := "request.auth.claims".
Definition attr_dest_ip := "destination.ip".
Definition attr_dest_port := "destination.port".
Definition attr_conn_sni := "connection.sni".
Definition method_header := ":method".
Definition path_matcher := "path-matcher".
Definition host_header := ":authority".

(* model/util.go extractNameInBrackets *)
Definition extract_name_in_brackets (s : string) : option string :=
  if has_prefix "[" s && has_suffix "]" s
  then Some (trim_prefix "[" (if last_is "]"%char s then drop_last s else s))
  else None.

(* model/util.go extractNameInNestedBrackets: "[a][b]" -> [a; b]; anything that is not a
   sequence of bracket groups falls back to extractNameInBrackets of the whole string *)
Fixpoint take_until_close (s : string) : option (string * string) :=
  match s with
  | EmptyString => None
  | String a s' =>
      if Ascii.eqb a "["%char then None
      else if Ascii.eqb a "]"%char then Some (EmptyString, s')
      else match take_until_close s' with
           | Some (x, rest) => Some (String a x, rest)
           | None => None
           end
  end.
Fixpoint nested_groups (fuel : nat) (s : string) : option (list string) :=
  match s with
  | EmptyString => Some []
  | String a s' =>
      match fuel with
      | O => None
      | S fuel' =>
          if Ascii.eqb a "["%char then
            match take_until_close s' with
            | Some (x, rest) => match nested_groups fuel' rest with
                                | Some l => Some (x :: l)
                                | None => None
                                end
            | None => None
            end
          else None
      end
  end.
Definition extract_name_in_nested_brackets (s : string) : option (list string) :=
  match nested_groups (String.length s) s with
  | Some l => Some l
  | None => match extract_name_in_brackets s with Some x => Some [x] | None => None end
  end.

(* ------------------------------------------------------------------ SOURCE semantics *)

(* the documented value forms: "*" presence, "*x" suffix, "x*" prefix, otherwise exact *)
Inductive vform := FPresence | FSuffix (x : string) | FPrefix (x : string) | FExact (x : string).

Definition classify (v : string) : vform :=
  if String.eqb v "*" then FPresence
  else match v with
       | String a rest =>
           if Ascii.eqb a star then FSuffix rest
           else if last_is star v then FPrefix (drop_last v) else FExact v
       | EmptyString => FExact v
       end.

(* value against a present string attribute; [ic] = case-insensitive (hosts) *)
Definition form_matches (ic : bool) (v x : string) : bool :=
  let n := fun s => if ic then lower s else s in
  match classify v with
  | FPresence => true
  | FSuffix s => has_suffix (n s) (n x)
  | FPrefix s => has_prefix (n s) (n x)
  | FExact s => String.eqb (n s) (n x)
  end.

(* ... where "*" additionally requires a non-empty attribute (paths, SNI) *)
Definition form_matches_nonempty (v x : string) : bool :=
  match classify v with
  | FPresence => negb (String.eqb x EmptyString)
  | _ => form_matches false v x
  end.

Definition opt_matches (f : string -> bool) (o : option string) : bool :=
  match o with Some x => f x | None => false end.

(* SPIFFE identity "td/ns/<ns>/sa/<sa>" -> (td, ns, sa) *)
Definition parse_peer (p : string) : option (string * string * string) :=
  match split_on slash p with
  | [td; n; ns; s; sa] => if String.eqb n "ns" && String.eqb s "sa" then Some (td, ns, sa) else None
  | _ => None
  end.

Definition peer_namespace (r : request) : option string :=
  match r_peer r with
  | Some p => match parse_peer p with Some (_, ns, _) => Some ns | None => None end
  | None => None
  end.

(* request.auth.principal = iss "/" sub of the verified token *)
Definition jwt_str (k : string) (r : request) : option string :=
  match r_jwt r with
  | Some payload => match jfield k payload with Some (JStr s) => Some s | _ => None end
  | None => None
  end.

(* a claim addressed by a path of names; string claims and list-of-string claims *)
Definition jwt_claim_values (path : list string) (r : request) : list string :=
  match r_jwt r with
  | Some payload => match jpath path (JObj payload) with
                    | Some (JStr s) => [s]
                    | Some (JList l) => l
                    | _ => []
                    end
  | None => []
  end.

(* requestPrincipals value against (iss, sub): the value is "<iss>/<sub>" split at the LAST "/";
   "*" = any token; "*x" suffix and "x*" prefix of the joined principal, restricted to the forms
   in which the wildcard stays inside one component *)
Fixpoint last_slash_split (s : string) : option (string * string) :=
  match s with
  | EmptyString => None
  | String a s' =>
      match last_slash_split s' with
      | Some (x, y) => Some (String a x, y)
      | None => if Ascii.eqb a slash then Some (EmptyString, s') else None
      end
  end.

Definition nonempty (s : string) : bool := negb (String.eqb s EmptyString).

Definition request_principal_matches (v iss sub : string) : bool :=
  match last_slash_split v with
  | Some (vi, vs) =>
      match classify v with
      | FPresence => nonempty iss && nonempty sub
      | FSuffix _ => (if String.eqb vi "*" then nonempty iss else has_suffix (trim_prefix "*" vi) iss) && String.eqb vs sub
      | FPrefix _ => String.eqb vi iss && (if String.eqb vs "*" then nonempty sub else has_prefix (trim_star_suffix vs) sub)
      | FExact _ => String.eqb vi iss && String.eqb vs sub
      end
  | None =>
      match classify v with
      | FPresence => nonempty iss && nonempty sub
      | FSuffix x => nonempty iss && has_suffix x sub
      | FPrefix x => has_prefix x iss && nonempty sub
      | FExact x => String.eqb x iss && String.eqb EmptyString sub
      end
  end.

(* strings.Cut(s, "/") *)
Fixpoint cut_slash (s : string) : option (string * string) :=
  match s with
  | EmptyString => None
  | String a s' =>
      if Ascii.eqb a slash then Some (EmptyString, s')
      else match cut_slash s' with Some (x, y) => Some (String a x, y) | None => None end
  end.

(* serviceAccounts value "<ns>/<sa>" or "<sa>" (namespace of the policy) against the peer identity *)
Definition service_account_matches (default_ns v peer : string) : bool :=
  let '(vns, vsa) := match cut_slash v with Some (a, b) => (a, b) | None => (default_ns, v) end in
  match parse_peer peer with
  | Some (_, ns, sa) => String.eqb vns ns && String.eqb vsa sa
  | None => false
  end.

(* path templates: "{*}" = exactly one non-empty path segment, "{**}" = any non-empty sequence of
   segments (the rest of the path when it is the last element), other segments literal *)
Fixpoint contains_sub (sub s : string) : bool :=
  has_prefix sub s || match s with EmptyString => false | String _ s' => contains_sub sub s' end.
Definition contains_path_template (v : string) : bool := contains_sub "{*}" v || contains_sub "{**}" v.

Fixpoint tails_match (f : list string -> bool) (ps : list string) : bool :=
  match ps with
  | [] => false
  | _ :: ps' => f ps' || tails_match f ps'
  end.
Fixpoint segs_match (ts ps : list string) : bool :=
  match ts with
  | [] => is_nil ps
  | t :: ts' =>
      if String.eqb t "{**}" then tails_match (segs_match ts') ps
      else match ps with
           | [] => false
           | p :: ps' => (if String.eqb t "{*}" then nonempty p else String.eqb t p) && segs_match ts' ps'
           end
  end.
Definition template_matches (v path : string) : bool := segs_match (split_on slash v) (split_on slash path).

(* does ONE value of attribute kind [k] (with key [key]) match the request *)
Definition value_sem (k : kind) (key : string) (v : string) (r : request) : bool :=
  match k with
  | KDestIP => match addr_str_to_cidr v with Some c => in_cidr c (r_dst_ip r) | None => false end
  | KDestPort => match convert_to_port v with Some p => N.eqb p (r_dst_port r) | None => false end
  | KConnSNI => form_matches_nonempty v (r_sni r)
  | KHost => opt_matches (form_matches true v) (header host_header r)
  | KPath => opt_matches (if contains_path_template v then template_matches v else form_matches_nonempty v) (r_path r)
  | KMethod => opt_matches (form_matches false v) (header method_header r)
  | KSrcIP => match addr_str_to_cidr v with Some c => in_cidr c (r_src_ip r) | None => false end
  | KRemoteIP => match addr_str_to_cidr v with Some c => in_cidr c (r_remote_ip r) | None => false end
  | KSrcNamespace => opt_matches (form_matches false v) (peer_namespace r)
  | KSrcPrincipal => opt_matches (form_matches false v) (r_peer r)
  | KSrcSvcAccount d => opt_matches (service_account_matches d v) (r_peer r)
  | KReqHeader =>
      match extract_name_in_brackets (trim_prefix attr_request_header key) with
      | Some h => opt_matches (form_matches false v) (header h r)
      | None => false
      end
  | KReqPrincipal =>
      match jwt_str "iss" r, jwt_str "sub" r with
      | Some iss, Some sub => request_principal_matches v iss sub
      | _, _ => false
      end
  | KReqAudiences => existsb (form_matches_nonempty v) (jwt_claim_values ["aud"] r)
  | KReqPresenter => existsb (form_matches_nonempty v) (jwt_claim_values ["azp"] r)
  | KReqClaim =>
      match extract_name_in_nested_brackets (trim_prefix attr_request_claims key) with
      | Some path => existsb (form_matches_nonempty v) (jwt_claim_values path r)
      | None => false
      end
  end.

(* values: OR (empty = no constraint); notValues: none may match *)
Definition cond_sem (c : cond) (r : request) : bool :=
  (is_nil (cvals c) || existsb (fun v => value_sem (ck c) (ckey c) v r) (cvals c)) &&
  negb (existsb (fun v => value_sem (ck c) (ckey c) v r) (cnots c)).

Definition mk (k : kind) (key : string) (vs ns : list string) : cond :=
  {| ck := k; ckey := key; cvals := vs; cnots := ns |}.

(* the fields of a Source / Operation as generic conditions (order irrelevant for semantics) *)
Definition source_conds (pns : string) (s : source) : list cond :=
  [ mk KSrcPrincipal attr_src_principal (s_principals s) (s_not_principals s);
    mk KReqPrincipal attr_request_principal (s_request_principals s) (s_not_request_principals s);
    mk (KSrcSvcAccount pns) attr_src_service_account (s_service_accounts s) (s_not_service_accounts s);
    mk KSrcNamespace attr_src_namespace (s_namespaces s) (s_not_namespaces s);
    mk KRemoteIP attr_remote_ip (s_remote_ip_blocks s) (s_not_remote_ip_blocks s);
    mk KSrcIP attr_src_ip (s_ip_blocks s) (s_not_ip_blocks s) ].

Definition operation_conds (o : operation) : list cond :=
  [ mk KHost host_header (o_hosts o) (o_not_hosts o);
    mk KMethod method_header (o_methods o) (o_not_methods o);
    mk KPath path_matcher (o_paths o) (o_not_paths o);
    mk KDestPort attr_dest_port (o_ports o) (o_not_ports o) ].

(* which attribute a `when` key names, and whether it constrains the operation (true) or the
   source (false); None = unknown attribute (rejected by validation) *)
Definition when_kind (pns : string) (key : string) : option (bool * kind) :=
  if String.eqb key attr_dest_ip then Some (true, KDestIP)
  else if String.eqb key attr_dest_port then Some (true, KDestPort)
  else if String.eqb key attr_conn_sni then Some (true, KConnSNI)
  else if String.eqb key attr_src_ip then Some (false, KSrcIP)
  else if String.eqb key attr_remote_ip then Some (false, KRemoteIP)
  else if String.eqb key attr_src_namespace then Some (false, KSrcNamespace)
  else if String.eqb key attr_src_service_account then Some (false, KSrcSvcAccount pns)
  else if String.eqb key attr_src_principal then Some (false, KSrcPrincipal)
  else if String.eqb key attr_request_principal then Some (false, KReqPrincipal)
  else if String.eqb key attr_request_audiences then Some (false, KReqAudiences)
  else if String.eqb key attr_request_presenter then Some (false, KReqPresenter)
  else if has_prefix attr_request_header key then Some (false, KReqHeader)
  else if has_prefix attr_request_claims key then Some (false, KReqClaim)
  else None.

Definition when_cond (pns : string) (w : condition) : option cond :=
  match when_kind pns (w_key w) with
  | Some (_, k) => Some (mk k (w_key w) (w_values w) (w_not_values w))
  | None => None
  end.

Definition when_sem (pns : string) (w : condition) (r : request) : bool :=
  match when_cond pns w with Some c => cond_sem c r | None => false end.

Definition source_matches (pns : string) (s : source) (r : request) : bool :=
  forallb (fun c => cond_sem c r) (source_conds pns s).
Definition operation_matches (o : operation) (r : request) : bool :=
  forallb (fun c => cond_sem c r) (operation_conds o).

(* a rule matches iff (no from or some source matches) and (no to or some operation matches)
   and every when-condition matches *)
Definition rule_matches (pns : string) (ru : rule) (r : request) : bool :=
  (is_nil (from ru) || existsb (fun s => source_matches pns s r) (from ru)) &&
  (is_nil (to ru) || existsb (fun o => operation_matches o r) (to ru)) &&
  forallb (fun w => when_sem pns w r) (when ru).

(* a policy matches iff one of its rules does (no rules = matches nothing) *)
Definition policy_matches (p : policy) (r : request) : bool :=
  existsb (fun ru => rule_matches (p_ns p) ru r) (p_rules p).

Definition is_action (a : action) (p : policy) : bool :=
  match a, p_action p with ALLOW, ALLOW | DENY, DENY | AUDIT, AUDIT => true | _, _ => false end.

Definition enforced (a : action) (ps : list policy) : list policy :=
  filter (fun p => is_action a p && negb (p_dry_run p)) ps.

(* THE decision: true = admitted.  Any matching DENY policy rejects; otherwise admitted iff
   there is no ALLOW policy or some ALLOW policy matches.  AUDIT and dry-run policies decide nothing. *)
Definition decision (ps : list policy) (r : request) : bool :=
  negb (existsb (fun p => policy_matches p r) (enforced DENY ps)) &&
  (is_nil (enforced ALLOW ps) || existsb (fun p => policy_matches p r) (enforced ALLOW ps)).

(* ------------------------------------------------------------------ what is expressible on a filter chain
   [expressible tcp k key v]: the generator of [k] yields a matcher for value [v]
   (HTTP-only attributes are inexpressible on a TCP chain; ports / CIDRs / bracket keys must parse). *)

Definition expressible (tcp : bool) (k : kind) (key : string) (v : string) : bool :=
  match k with
  | KDestIP | KSrcIP | KRemoteIP => match addr_str_to_cidr v with Some _ => true | None => false end
  | KDestPort => match convert_to_port v with Some _ => true | None => false end
  | KConnSNI | KSrcNamespace | KSrcPrincipal | KSrcSvcAccount _ => true
  | KHost | KPath | KMethod | KReqPrincipal | KReqAudiences | KReqPresenter => negb tcp
  | KReqHeader =>
      negb tcp && match extract_name_in_brackets (trim_prefix attr_request_header key) with Some _ => true | None => false end
  | KReqClaim =>
      negb tcp && match extract_name_in_nested_brackets (trim_prefix attr_request_claims key) with Some _ => true | None => false end
  end.

(* "extended" attributes are translated as one matcher for the whole value list: the list is
   expressible or not as a whole (the error does not depend on the value) *)
Definition cond_expressible (tcp : bool) (c : cond) : bool :=
  forallb (expressible tcp (ck c) (ckey c)) (cvals c) && forallb (expressible tcp (ck c) (ckey c)) (cnots c).

(* DENY/AUDIT view of a condition: inexpressible values are dropped (a condition whose values
   all vanish no longer constrains) *)
Definition cond_view (tcp : bool) (c : cond) : cond :=
  {| ck := ck c; ckey := ckey c;
     cvals := filter (expressible tcp (ck c) (ckey c)) (cvals c);
     cnots := filter (expressible tcp (ck c) (ckey c)) (cnots c) |}.

(* The policy "as expressible on the chain", as a predicate on requests:
   - a rule with an unknown `when` attribute is not translated at all;
   - ALLOW: a rule containing any inexpressible value matches nothing;
   - DENY / AUDIT: inexpressible values are dropped and the rule is enforced on what remains. *)
Definition rule_conds_ok (tcp : bool) (pns : string) (ru : rule) : bool :=
  forallb (fun s => forallb (cond_expressible tcp) (source_conds pns s)) (from ru) &&
  forallb (fun o => forallb (cond_expressible tcp) (operation_conds o)) (to ru) &&
  forallb (fun w => match when_cond pns w with Some c => cond_expressible tcp c | None => false end) (when ru).

Definition when_known (pns : string) (ru : rule) : bool :=
  forallb (fun w => match when_kind pns (w_key w) with Some _ => true | None => false end) (when ru).

Definition rule_view_matches (tcp : bool) (allow : bool) (pns : string) (ru : rule) (r : request) : bool :=
  if negb (when_known pns ru) then false
  else if allow then rule_conds_ok tcp pns ru && rule_matches pns ru r
  else
    (is_nil (from ru) || existsb (fun s => forallb (fun c => cond_sem (cond_view tcp c) r) (source_conds pns s)) (from ru)) &&
    (is_nil (to ru) || existsb (fun o => forallb (fun c => cond_sem (cond_view tcp c) r) (operation_conds o)) (to ru)) &&
    forallb (fun w => match when_cond pns w with Some c => cond_sem (cond_view tcp c) r | None => false end) (when ru).

Definition policy_view_matches (tcp : bool) (p : policy) (r : request) : bool :=
  existsb (fun ru => rule_view_matches tcp (is_action ALLOW p) (p_ns p) ru r) (p_rules p).

Definition decision_view (tcp : bool) (ps : list policy) (r : request) : bool :=
  negb (existsb (fun p => policy_view_matches tcp p r) (enforced DENY ps)) &&
  (is_nil (enforced ALLOW ps) || existsb (fun p => policy_view_matches tcp p r) (enforced ALLOW ps)).

(* ------------------------------------------------------------------ COMPILER: matcher package *)

Definition re_any_plus : re := RPlus RAny.     (* ".+" *)
Definition re_any_star : re := RStar RAny.     (* ".*" *)

(* matcher.StringMatcherWithPrefix(v, prefix) *)
Definition string_matcher_with_prefix (v prefix : string) : smatch :=
  if String.eqb v "*" then SRegex re_any_plus
  else if has_prefix "*" v then
    if String.eqb prefix EmptyString then SSuffix (trim_prefix "*" v) false
    else SRegex (RSeq (RLit prefix) (RSeq re_any_star (RLit (trim_prefix "*" v))))
  else if has_suffix "*" v then SPrefix (prefix ++ trim_star_suffix v)%string false
  else SExact (prefix ++ v)%string false.

(* matcher.StringMatcher(v) *)
Definition string_matcher (v : string) : smatch := string_matcher_with_prefix v EmptyString.

(* matcher.HeaderMatcher(k, v) / matcher.HostMatcher(k, v) (ignore_case = true) *)
Definition header_matcher_ic (ic : bool) (v : string) : hmatch :=
  if String.eqb v "*" then HPresent
  else if has_prefix "*" v then HString (SSuffix (drop 1 v) ic)
  else if has_suffix "*" v then HString (SPrefix (drop_last v) ic)
  else HString (SExact v ic).
Definition header_matcher := header_matcher_ic false.
Definition host_matcher := header_matcher_ic true.

(* matcher/template.go sanitizePathTemplate: "{*}" -> "*", "{**}" -> "**" *)
Fixpoint sanitize_path_template (s : string) : string :=
  match s with
  | String "{" (String "*" (String "}" rest)) => String "*" (sanitize_path_template rest)
  | String "{" (String "*" (String "*" (String "}" rest))) => String "*" (String "*" (sanitize_path_template rest))
  | String a rest => String a (sanitize_path_template rest)
  | EmptyString => EmptyString
  end.

(* matcher.StringOrMatcher(values) (OrMatcher collapses a singleton) *)
Definition string_or_matcher (vs : list string) : vmatch :=
  match vs with
  | [v] => VString (string_matcher v)
  | _ => VOr (map (fun v => VString (string_matcher v)) vs)
  end.

(* model/util.go MetadataListValueMatcherForJWTClaims (useExtendedJwt = true):
   value is OR[ list{one_of: m}, m ] at path payload/claims... *)
Definition jwt_claims_matcher (claims : list string) (m : vmatch) : string * list string * vmatch :=
  (jwt_filter, jwt_payload :: claims, VOr [VList m; m]).

(* ------------------------------------------------------------------ COMPILER: generators (generator.go) *)

Inductive res (A : Type) := Ok (a : A) | Err.
Arguments Ok {A} a.
Arguments Err {A}.

(* generator.permission(key, value, forTCP) *)
Definition gen_perm (k : kind) (key v : string) (tcp : bool) : res perm :=
  match k with
  | KDestIP => match addr_str_to_cidr v with Some c => Ok (PDestIP c) | None => Err end
  | KDestPort => match convert_to_port v with Some p => Ok (PDestPort p) | None => Err end
  | KConnSNI => Ok (PSNI (string_matcher v))
  | KHost => if tcp then Err else Ok (PHeader host_header (host_matcher v))
  | KPath =>
      if tcp then Err
      else if contains_path_template v then Ok (PUriTemplate (sanitize_path_template v))
      else Ok (PUrlPath (string_matcher v))
  | KMethod => if tcp then Err else Ok (PHeader method_header (header_matcher v))
  | _ => Err  (* "unimplemented" *)
  end.

(* principalAuthenticated(m, useAuthenticated) *)
Definition principal_authenticated (m : smatch) (use_authenticated : bool) : prin :=
  if use_authenticated then IAuthenticated m else IFilterState peer_principal_key m.

Fixpoint intersperse (sep : re) (l : list re) : list re :=
  match l with [] => [] | [x] => [x] | x :: l' => x :: sep :: intersperse sep l' end.

(* srcNamespaceGenerator: ".*/ns/" + join(QuoteMeta(parts of value split at "*"), ".*") + "/.*" *)
Definition namespace_regex (v : string) : re :=
  mkseq ([re_any_star; RLit "/ns/"] ++ intersperse re_any_star (map RLit (split_on star v)) ++ [RLit "/"; re_any_star]).

(* serviceAccountRegex(defaultNamespace, value):
   spiffe://.+/ns/<ns>/(.+/|)sa/<sa>(/.+)? with ns, sa = strings.Cut(value, "/") *)
Definition service_account_regex (default_ns v : string) : re :=
  let '(ns, sa) := match cut_slash v with Some (a, b) => (a, b) | None => (default_ns, v) end in
  mkseq [RLit "spiffe://"; re_any_plus; RLit "/ns/"; RLit ns; RLit "/";
         RAlt (RSeq re_any_plus (RLit "/")) REps; RLit "sa/"; RLit sa; ROpt (RSeq (RLit "/") re_any_plus)].

(* generator.principal(key, value, forTCP, useAuthenticated) *)
Definition gen_prin (k : kind) (key v : string) (tcp use_auth : bool) : res prin :=
  match k with
  | KSrcIP => match addr_str_to_cidr v with Some c => Ok (IDirectRemoteIP c) | None => Err end
  | KRemoteIP => match addr_str_to_cidr v with Some c => Ok (IRemoteIP c) | None => Err end
  | KSrcNamespace => Ok (principal_authenticated (SRegex (namespace_regex v)) use_auth)
  | KSrcPrincipal => Ok (principal_authenticated (string_matcher_with_prefix v spiffe_prefix) use_auth)
  | KSrcSvcAccount d => Ok (principal_authenticated (SRegex (service_account_regex d v)) use_auth)
  | KReqHeader =>
      if tcp then Err
      else match extract_name_in_brackets (trim_prefix attr_request_header key) with
           | Some h => Ok (IHeader h (header_matcher v))
           | None => Err
           end
  | _ => Err
  end.

Definition jwt_string_claim (claim : string) (m : smatch) : prin :=
  IMetadata jwt_filter [jwt_payload; claim] (VString m).

(* requestPrincipalGenerator.extendedPrincipal: one (iss AND sub) pair per value *)
Definition request_principal_one (v : string) : prin :=
  let '(found, iss, sub) :=
    match last_slash_split v with Some (i, s) => (true, i, s) | None => (false, v, EmptyString) end in
  let '(mi, ms) :=
    if String.eqb v "*" then (SRegex re_any_plus, SRegex re_any_plus)
    else if has_prefix "*" v then
      if found then
        ((if String.eqb iss "*" then SRegex re_any_plus else SSuffix (trim_prefix "*" iss) false), SExact sub false)
      else (SRegex re_any_plus, SSuffix (trim_prefix "*" v) false)
    else if has_suffix "*" v then
      if found then
        (SExact iss false, (if String.eqb sub "*" then SRegex re_any_plus else SPrefix (trim_star_suffix sub) false))
      else (SPrefix (trim_star_suffix v) false, SRegex re_any_plus)
    else (SExact iss false, SExact sub false) in
  IAnd [jwt_string_claim "iss" mi; jwt_string_claim "sub" ms].

(* extendedGenerator.extendedPrincipal(key, values, forTCP); Ok None = (nil, nil) *)
Definition gen_prin_ext (k : kind) (key : string) (vs : list string) (tcp : bool) : res (option prin) :=
  if tcp then Err
  else match k with
       | KReqPrincipal =>
           match map request_principal_one vs with
           | [] => Ok None
           | [p] => Ok (Some p)
           | l => Ok (Some (IOr l))
           end
       | KReqAudiences =>
           let '(f, path, m) := jwt_claims_matcher ["aud"] (string_or_matcher vs) in Ok (Some (IMetadata f path m))
       | KReqPresenter =>
           let '(f, path, m) := jwt_claims_matcher ["azp"] (string_or_matcher vs) in Ok (Some (IMetadata f path m))
       | KReqClaim =>
           match extract_name_in_nested_brackets (trim_prefix attr_request_claims key) with
           | Some claims =>
               let '(f, path, m) := jwt_claims_matcher claims (string_or_matcher vs) in Ok (Some (IMetadata f path m))
           | None => Err
           end
       | _ => Err
       end.

(* ------------------------------------------------------------------ COMPILER: model.go *)

(* the value loops of rule.permission / rule.principal with checkError: under ALLOW the first
   error aborts; under DENY/AUDIT the failing value is skipped *)
Fixpoint or_list {A} (gen : string -> res A) (allow : bool) (vs : list string) : res (list A) :=
  match vs with
  | [] => Ok []
  | v :: vs' =>
      match gen v with
      | Err => if allow then Err else or_list gen allow vs'
      | Ok p => match or_list gen allow vs' with
                | Err => Err
                | Ok l => Ok (p :: l)
                end
      end
  end.

(* rule.permission(forTCP, action) — no permission-side extended generator is modelled *)
Definition rule_permission (allow tcp : bool) (c : cond) : res (list perm) :=
  match or_list (fun v => gen_perm (ck c) (ckey c) v tcp) allow (cvals c) with
  | Err => Err
  | Ok vs =>
      match or_list (fun v => gen_perm (ck c) (ckey c) v tcp) allow (cnots c) with
      | Err => Err
      | Ok ns =>
          Ok ((if is_nil vs then [] else [POr vs]) ++ (if is_nil ns then [] else [PNot (POr ns)]))
      end
  end.

(* one half of the extended branch of rule.principal *)
Definition ext_half (allow tcp : bool) (c : cond) (vs : list string) (neg : bool) : res (list prin) :=
  if is_nil vs then Ok []
  else match gen_prin_ext (ck c) (ckey c) vs tcp with
       | Err => if allow then Err else Ok []
       | Ok None => Ok []
       | Ok (Some p) => Ok [if neg then INot p else p]
       end.

(* rule.principal(forTCP, useAuthenticated, action) *)
Definition rule_principal (allow tcp use_auth : bool) (c : cond) : res (list prin) :=
  if is_extended (ck c) then
    match ext_half allow tcp c (cvals c) false with
    | Err => Err
    | Ok a => match ext_half allow tcp c (cnots c) true with
              | Err => Err
              | Ok b => Ok (a ++ b)
              end
    end
  else
    match or_list (fun v => gen_prin (ck c) (ckey c) v tcp use_auth) allow (cvals c) with
    | Err => Err
    | Ok vs =>
        match or_list (fun v => gen_prin (ck c) (ckey c) v tcp use_auth) allow (cnots c) with
        | Err => Err
        | Ok ns =>
            Ok ((if is_nil vs then [] else [IOr vs]) ++ (if is_nil ns then [] else [INot (IOr ns)]))
        end
    end.

Fixpoint concat_res {A B} (f : A -> res (list B)) (l : list A) : res (list B) :=
  match l with
  | [] => Ok []
  | x :: l' => match f x with
               | Err => Err
               | Ok a => match concat_res f l' with Err => Err | Ok b => Ok (a ++ b) end
               end
  end.

(* generatePermission / generatePrincipal *)
Definition generate_permission (allow tcp : bool) (rl : list cond) : res perm :=
  match concat_res (rule_permission allow tcp) rl with
  | Err => Err
  | Ok and => Ok (PAnd (if is_nil and then [PAny] else and))
  end.
Definition generate_principal (allow tcp use_auth : bool) (rl : list cond) : res prin :=
  match concat_res (rule_principal allow tcp use_auth) rl with
  | Err => Err
  | Ok and => Ok (IAnd (if is_nil and then [IAny] else and))
  end.

Fixpoint map_res {A B} (f : A -> res B) (l : list A) : res (list B) :=
  match l with
  | [] => Ok []
  | x :: l' => match f x with
               | Err => Err
               | Ok a => match map_res f l' with Err => Err | Ok b => Ok (a :: b) end
               end
  end.

(* Model {permissions, principals} *)
(* [m_base_len]: how many trailing rules of every principal ruleList are the SHARED *rule
   pointers of basePrincipal (ruleList.copy copies pointers, not rules) *)
Record amodel := { m_permissions : list (list cond); m_principals : list (list cond); m_base_len : nat }.

(* ruleList.appendLast / insertFront (and the Extended variants: same list effect) *)
Definition append_last (l : list cond) (k : kind) (key : string) (vs ns : list string) : list cond :=
  if is_nil vs && is_nil ns then l else l ++ [mk k key vs ns].
Definition insert_front (l : list cond) (k : kind) (key : string) (vs ns : list string) : list cond :=
  if is_nil vs && is_nil ns then l else mk k key vs ns :: l.

(* the `when` loop of model.New *)
Fixpoint new_when (pns : string) (ws : list condition) (bperm bprin : list cond) : option (list cond * list cond) :=
  match ws with
  | [] => Some (bperm, bprin)
  | w :: ws' =>
      match when_kind pns (w_key w) with
      | None => None    (* "unknown attribute" *)
      | Some (true, k) => new_when pns ws' (append_last bperm k (w_key w) (w_values w) (w_not_values w)) bprin
      | Some (false, k) => new_when pns ws' bperm (append_last bprin k (w_key w) (w_values w) (w_not_values w))
      end
  end.

Definition merge_source (pns : string) (base : list cond) (s : source) : list cond :=
  let m := insert_front base KSrcIP attr_src_ip (s_ip_blocks s) (s_not_ip_blocks s) in
  let m := insert_front m KRemoteIP attr_remote_ip (s_remote_ip_blocks s) (s_not_remote_ip_blocks s) in
  let m := insert_front m KSrcNamespace attr_src_namespace (s_namespaces s) (s_not_namespaces s) in
  let m := insert_front m (KSrcSvcAccount pns) attr_src_service_account (s_service_accounts s) (s_not_service_accounts s) in
  let m := insert_front m KReqPrincipal attr_request_principal (s_request_principals s) (s_not_request_principals s) in
  insert_front m KSrcPrincipal attr_src_principal (s_principals s) (s_not_principals s).

Definition merge_operation (base : list cond) (o : operation) : list cond :=
  let m := insert_front base KDestPort attr_dest_port (o_ports o) (o_not_ports o) in
  let m := insert_front m KPath path_matcher (o_paths o) (o_not_paths o) in
  let m := insert_front m KMethod method_header (o_methods o) (o_not_methods o) in
  insert_front m KHost host_header (o_hosts o) (o_not_hosts o).

(* model.New(policyName, rule) *)
Definition new_model (pns : string) (ru : rule) : option amodel :=
  match new_when pns (when ru) [] [] with
  | None => None
  | Some (bperm, bprin) =>
      Some {| m_principals := if is_nil (from ru) then [bprin] else map (merge_source pns bprin) (from ru);
              m_permissions := if is_nil (to ru) then [bperm] else map (merge_operation bperm) (to ru);
              m_base_len := List.length bprin |}
  end.

(* ------------------------------------------------------------------ COMPILER: trust-domain aliases (bundle.go) *)

Definition cluster_local : string := "cluster.local".

(* trustdomain/util.go *)
Definition td_prefix_match (a pattern : string) : bool :=
  last_is star pattern && has_prefix (drop_last pattern) a.
Definition td_suffix_match (a pattern : string) : bool :=
  first_is star pattern && has_suffix (drop 1 pattern) a.
Definition td_string_match (a : string) (l : list string) : bool :=
  existsb (fun s => String.eqb a s || String.eqb s "*" || td_prefix_match a s || td_prefix_match s a
                    || td_suffix_match a s || td_suffix_match s a) l.

Definition str_in (x : string) (l : list string) : bool := existsb (String.eqb x) l.

(* Bundle.replaceTrustDomains *)
Fixpoint replace_trust_domains (tds : list string) (principal td_from : string) (parts_tail : list string)
         (acc : list string) : list string :=
  match tds with
  | [] => acc
  | td :: tds' =>
      let np := if td_suffix_match td td_from then principal else join "/" (td :: parts_tail) in
      replace_trust_domains tds' principal td_from parts_tail (if str_in np acc then acc else acc ++ [np])
  end.

(* Bundle.ReplaceTrustDomainAliases *)
Definition replace_one (tds : list string) (principal : string) : list string :=
  match split_on slash principal with
  | [td; a; b; c; d] =>
      if String.eqb td "*" then [principal]     (* trust domain not enforced *)
      else if td_string_match td tds || String.eqb td cluster_local
           then replace_trust_domains tds principal td [a; b; c; d] []
           else [principal]
  | _ => [principal]
  end.
Definition replace_td_aliases (tds : list string) (principals : list string) : list string :=
  flat_map (replace_one tds) principals.

(* Model.MigrateTrustDomain: only source.principal rules are rewritten (source.trustDomain is
   outside the modelled grammar) *)
Definition migrate_cond (tds : list string) (c : cond) : cond :=
  match ck c with
  | KSrcPrincipal =>
      {| ck := ck c; ckey := ckey c;
         cvals := if is_nil (cvals c) then cvals c else replace_td_aliases tds (cvals c);
         cnots := if is_nil (cnots c) then cnots c else replace_td_aliases tds (cnots c) |}
  | _ => c
  end.

(* ------------------------------------------------------------------ COMPILER: Generate + builder *)

(* Model.Generate(forTCP, useAuthenticated, action) *)
Definition generate (allow tcp use_auth : bool) (m : amodel) : res rpolicy :=
  match map_res (generate_permission allow tcp) (m_permissions m) with
  | Err => Err
  | Ok perms =>
      if is_nil perms then Err
      else match map_res (generate_principal allow tcp use_auth) (m_principals m) with
           | Err => Err
           | Ok prins => if is_nil prins then Err else Ok {| rp_permissions := perms; rp_principals := prins |}
           end
  end.

Definition rbac_policy_match_never : rpolicy :=
  {| rp_permissions := [PNot PAny]; rp_principals := [INot IAny] |}.

Record options := { tcp : bool; use_filter_state : bool; trust_domains : list string }.

(* MigrateTrustDomain walks every principal ruleList and rewrites r.values in place: a rule
   owned by one `from` entry is rewritten once, a shared basePrincipal rule (a `when`
   source.principal condition) once per ruleList that contains it *)
Fixpoint iter_n {A} (n : nat) (f : A -> A) (x : A) : A :=
  match n with O => x | S n' => iter_n n' f (f x) end.
Definition migrate_model (tds : list string) (m : amodel) : amodel :=
  let n := List.length (m_principals m) in
  {| m_permissions := m_permissions m;
     m_principals :=
       map (fun rl => let own := (List.length rl - m_base_len m)%nat in
                      map (migrate_cond tds) (firstn own rl) ++
                      iter_n n (map (migrate_cond tds)) (skipn own rl)) (m_principals m);
     m_base_len := m_base_len m |}.

(* the per-rule body of Builder.build: New, MigrateTrustDomain, Generate; None = rule skipped *)
Definition compile_rule (o : options) (allow : bool) (pns : string) (ru : rule) : option rpolicy :=
  match new_model pns ru with
  | None => None
  | Some m =>
      match generate allow (tcp o) (negb (use_filter_state o)) (migrate_model (trust_domains o) m) with
      | Err => None
      | Ok p => Some p
      end
  end.

Fixpoint compile_rules (o : options) (allow : bool) (pid : N) (pns : string) (i : N) (rs : list rule) : list ((N * N) * rpolicy) :=
  match rs with
  | [] => []
  | ru :: rs' =>
      match compile_rule o allow pns ru with
      | Some p => ((pid, i), p) :: compile_rules o allow pid pns (i + 1) rs'
      | None => compile_rules o allow pid pns (i + 1) rs'
      end
  end.

(* the policies one AuthorizationPolicy contributes *)
Definition compile_policy (o : options) (allow : bool) (p : policy) : list ((N * N) * rpolicy) :=
  if is_nil (p_rules p) then [((p_id p, 0), rbac_policy_match_never)]
  else compile_rules o allow (p_id p) (p_ns p) 0 (p_rules p).

Definition to_raction (a : action) : raction := match a with ALLOW => RAllow | DENY => RDeny | AUDIT => RLog end.

(* Builder.build(policies, action, forTCP) + buildHTTP/buildTCP: one filter per non-empty action;
   dry-run policies go to shadow_rules; rules / shadow_rules are nil when no policy of that sort *)
Definition build_action (o : options) (a : action) (ps : list policy) : list rfilter :=
  let mine := filter (is_action a) ps in
  if is_nil mine then []
  else
    let allow := match a with ALLOW => true | _ => false end in
    let enf := filter (fun p => negb (p_dry_run p)) mine in
    let dry := filter (fun p => p_dry_run p) mine in
    let mkb := fun l => if is_nil l then None
                        else Some {| rb_action := to_raction a; rb_policies := flat_map (compile_policy o allow) l |} in
    [{| f_rules := mkb enf; f_shadow := mkb dry |}].

(* builder.New + build[T]: AUDIT, DENY, ALLOW in this order *)
Definition compile_filters (o : options) (ps : list policy) : list rfilter :=
  build_action o AUDIT ps ++ build_action o DENY ps ++ build_action o ALLOW ps.

(* ------------------------------------------------------------------ SOURCE: trust-domain aliases
   "Any service with the identity td1/ns/foo/sa/x, td2/ns/foo/sa/x ... is treated the same":
   a policy is read with every source.principal value replaced by its alias expansion. *)
Definition alias_list (tds : list string) (l : list string) : list string :=
  if is_nil l then l else replace_td_aliases tds l.

Definition alias_source (tds : list string) (s : source) : source :=
  {| s_principals := alias_list tds (s_principals s); s_not_principals := alias_list tds (s_not_principals s);
     s_request_principals := s_request_principals s; s_not_request_principals := s_not_request_principals s;
     s_namespaces := s_namespaces s; s_not_namespaces := s_not_namespaces s;
     s_ip_blocks := s_ip_blocks s; s_not_ip_blocks := s_not_ip_blocks s;
     s_remote_ip_blocks := s_remote_ip_blocks s; s_not_remote_ip_blocks := s_not_remote_ip_blocks s;
     s_service_accounts := s_service_accounts s; s_not_service_accounts := s_not_service_accounts s |}.

Definition alias_condition (tds : list string) (w : condition) : condition :=
  if String.eqb (w_key w) attr_src_principal
  then {| w_key := w_key w; w_values := alias_list tds (w_values w); w_not_values := alias_list tds (w_not_values w) |}
  else w.

Definition alias_rule (tds : list string) (ru : rule) : rule :=
  {| from := map (alias_source tds) (from ru); to := to ru; when := map (alias_condition tds) (when ru) |}.

Definition alias_policy (tds : list string) (p : policy) : policy :=
  {| p_id := p_id p; p_ns := p_ns p; p_action := p_action p; p_dry_run := p_dry_run p; p_rules := map (alias_rule tds) (p_rules p) |}.

Definition alias_policies (tds : list string) (ps : list policy) : list policy := map (alias_policy tds) ps.
