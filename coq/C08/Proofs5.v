(* C08 proofs, part 5: single-value matchers ("leaves") proved outright, and the headline
   theorem restated with the correspondingly weaker premise. *)
From Coq Require Import List NArith Bool String Ascii Lia.
From V Require Import C08.Model C08.Proofs C08.Proofs2 C08.Proofs3.
Import ListNotations.
Local Open Scope string_scope.

(* ------------------------------------------------------------------ Go string helpers vs the spec's classification *)

Lemma prefix_empty s : String.prefix "" s = true.
Proof. destruct s; reflexivity. Qed.

Lemma has_prefix_star v : has_prefix "*" v = first_is star v.
Proof.
  destruct v as [|a r]; [reflexivity|]. unfold has_prefix, first_is.
  change (String.prefix "*" (String a r)) with (if ascii_dec "*"%char a then String.prefix "" r else false).
  destruct (ascii_dec "*"%char a) as [<-|N]; [now rewrite prefix_empty|].
  symmetry. apply Ascii.eqb_neq. unfold star. congruence.
Qed.

Lemma has_suffix_star v : has_suffix "*" v = last_is star v.
Proof.
  induction v as [|a r IH]; [reflexivity|].
  cbn [has_suffix last_is]. rewrite IH. destruct r as [|b r'].
  - cbn [String.eqb last_is]. rewrite (Ascii.eqb_sym "*"%char a). unfold star. destruct (Ascii.eqb a "*"); reflexivity.
  - cbn [String.eqb]. destruct (Ascii.eqb "*" a); reflexivity.
Qed.

(* ------------------------------------------------------------------ HeaderMatcher / HostMatcher *)

Lemma header_matcher_sem ic v x : eval_hmatch (header_matcher_ic ic v) (Some x) = form_matches ic v x.
Proof.
  unfold header_matcher_ic, form_matches, classify.
  destruct (String.eqb v "*") eqn:E; [reflexivity|].
  rewrite has_prefix_star, has_suffix_star. destruct v as [|a r]; [cbn; destruct ic; reflexivity|].
  cbn [first_is]. destruct (Ascii.eqb a star) eqn:Ea.
  - cbn. destruct ic; reflexivity.
  - destruct (last_is star (String a r)); cbn; destruct ic; reflexivity.
Qed.

Lemma header_matcher_opt ic v o : eval_hmatch (header_matcher_ic ic v) o = opt_matches (form_matches ic v) o.
Proof. destruct o; [apply header_matcher_sem|reflexivity]. Qed.

(* ------------------------------------------------------------------ regex facts *)

Lemma re_match_fail s : re_match RFail s = false.
Proof. induction s; cbn; auto. Qed.

Lemma re_match_alt a b s : re_match (RAlt a b) s = re_match a s || re_match b s.
Proof. revert a b. induction s; intros; cbn; auto. Qed.

Lemma re_match_seq_fail b s : re_match (RSeq RFail b) s = false.
Proof. induction s; cbn; auto. Qed.

Lemma eps_star_any s : re_match (RSeq REps (RStar RAny)) s = true.
Proof.
  induction s as [|c s IH]; [reflexivity|]. cbn. rewrite re_match_alt, IH. apply orb_true_r.
Qed.

Lemma any_plus s : re_match re_any_plus s = nonempty s.
Proof. destruct s as [|c s]; [reflexivity|]. cbn. apply eps_star_any. Qed.

(* ------------------------------------------------------------------ StringMatcher (paths, SNI) *)

Lemma string_matcher_sem v x : eval_smatch (string_matcher v) x = form_matches_nonempty v x.
Proof.
  unfold string_matcher, string_matcher_with_prefix, form_matches_nonempty, form_matches, classify.
  destruct (String.eqb v "*") eqn:E; [cbn; apply any_plus|].
  rewrite has_prefix_star, has_suffix_star. destruct v as [|a r]; [reflexivity|].
  cbn [first_is]. destruct (Ascii.eqb a star) eqn:Ea.
  - apply Ascii.eqb_eq in Ea. subst a. cbn. unfold trim_prefix. rewrite has_prefix_star. cbn. reflexivity.
  - unfold trim_star_suffix. destruct (last_is star (String a r)); cbn; reflexivity.
Qed.

(* ------------------------------------------------------------------ the weaker premise *)

(* what is still assumed of single-value matchers: uri_template paths, the three regex-shaped
   identity matchers, and the JWT ("extended") matchers *)
Record leaves_rest (tcp use_auth : bool) (r : request) : Prop := {
  rest_template : forall key v p, contains_path_template v = true ->
      gen_perm KPath key v tcp = Ok p -> eval_perm p r = value_sem KPath key v r;
  rest_identity : forall k key v p,
      (k = KSrcNamespace \/ k = KSrcPrincipal \/ exists d, k = KSrcSvcAccount d) ->
      gen_prin k key v tcp use_auth = Ok p -> eval_prin p r = value_sem k key v r;
  rest_ext : forall k key vs p, gen_prin_ext k key vs tcp = Ok (Some p) ->
      eval_prin p r = existsb (fun v => value_sem k key v r) vs
}.

Lemma leaves_rest_ok tcp ua r : leaves_rest tcp ua r -> leaves_ok tcp ua r.
Proof.
  intros [HT HI HE]. constructor; [| |exact HE].
  - intros k key v p. destruct k; try (cbn; discriminate).
    + apply (proj1 (leaf_ports_ips KDestIP key v tcp ua r I)).
    + apply (proj1 (leaf_ports_ips KDestPort key v tcp ua r I)).
    + cbn. intros H; inversion H; subst. cbn. apply string_matcher_sem.
    + cbn. destruct tcp; [discriminate|]. intros H; inversion H; subst. cbn.
      apply (header_matcher_opt true).
    + destruct (contains_path_template v) eqn:T; [now apply HT|].
      cbn. rewrite T. destruct tcp; [discriminate|]. intros H; inversion H; subst. cbn.
      destruct (r_path r); [apply string_matcher_sem|reflexivity].
    + cbn. destruct tcp; [discriminate|]. intros H; inversion H; subst. cbn.
      apply (header_matcher_opt false).
  - intros k key v p. destruct k; try (cbn; discriminate).
    + apply (proj2 (leaf_ports_ips KSrcIP key v tcp ua r I)).
    + apply (proj2 (leaf_ports_ips KRemoteIP key v tcp ua r I)).
    + apply HI. now left.
    + apply HI. right. now left.
    + apply HI. right. right. now exists default_ns.
    + cbn. destruct tcp; [discriminate|].
      destruct (extract_name_in_brackets _); [|discriminate].
      intros H; inversion H; subst. cbn. apply (header_matcher_opt false).
Qed.

Theorem compile_preserves_decision_rest o ps r :
  leaves_rest (tcp o) (negb (use_filter_state o)) r ->
  alias_free_policies (trust_domains o) ps ->
  eval_filters (compile_filters o ps) r = decision_view (tcp o) ps r.
Proof. intros L. apply compile_preserves_decision. now apply leaves_rest_ok. Qed.
